package zone

import (
	"fmt"
	"go/constant"
	"go/token"
	"go/types"
	"strings"

	"golang.org/x/tools/go/ssa"
)

// Program holds facts shared by all function analyses.
type Program struct {
	Prog       *ssa.Program
	GlobalLens map[*ssa.Global]int64 // length of package-level byte/string values with a constant initialiser and no other store
	summaries  map[*ssa.Function]*Summary
	busy       map[*ssa.Function]bool
	// InModule tells whether a function belongs to the module under analysis (summaries are
	// only computed for those).
	InModule func(*ssa.Function) bool
	Axioms   []string
}

// Summary of a callee's results.
type Summary struct {
	LenLB []int64 // lower bound of len(result i) on every return (0 when unknown / not a sequence)
}

func NewProgram(prog *ssa.Program, fns []*ssa.Function, inModule func(*ssa.Function) bool) *Program {
	p := &Program{Prog: prog, GlobalLens: map[*ssa.Global]int64{}, summaries: map[*ssa.Function]*Summary{}, busy: map[*ssa.Function]bool{}, InModule: inModule}
	stores := map[*ssa.Global]int{}
	cand := map[*ssa.Global]int64{}
	for _, fn := range fns {
		for _, b := range fn.Blocks {
			for _, ins := range b.Instrs {
				switch x := ins.(type) {
				case *ssa.Store:
					if g, ok := x.Addr.(*ssa.Global); ok {
						stores[g]++
						if fn.Name() == "init" {
							if cv, ok := x.Val.(*ssa.Convert); ok {
								if c, ok := cv.X.(*ssa.Const); ok && c.Value != nil && c.Value.Kind() == constant.String {
									cand[g] = int64(len(constant.StringVal(c.Value)))
								}
							}
							if c, ok := x.Val.(*ssa.Const); ok && c.Value != nil && c.Value.Kind() == constant.String {
								cand[g] = int64(len(constant.StringVal(c.Value)))
							}
						}
					}
				}
				// address of the global escaping (passed, stored) makes it mutable
				for _, op := range ins.Operands(nil) {
					if g, ok := (*op).(*ssa.Global); ok {
						switch y := ins.(type) {
						case *ssa.UnOp:
							_ = y // load
						case *ssa.Store:
							if y.Addr != g {
								stores[g] += 2
							}
						default:
							stores[g] += 2
						}
					}
				}
			}
		}
	}
	for g, n := range cand {
		if stores[g] == 1 {
			p.GlobalLens[g] = n
		}
	}
	p.Axioms = []string{
		"bytes/strings.IndexByte, Index, LastIndex, LastIndexByte, IndexAny: result ∈ [-1, len(s)-1]; for Index/LastIndex with separator p: result ≥ 0 ⇒ result + len(p) ≤ len(s)",
		"bytes/strings.HasPrefix(s, p) ⇒ len(s) ≥ len(p); HasSuffix likewise",
		"bytes/strings.Split result has at least one element",
		"network.Reader.Peek(n): err == nil ⇒ len(result) == n; len(result) ≤ n always",
		"bytesconv.ParseUint / ParseUintBuf: err == nil ⇒ value ≥ 0",
		"len(x), cap(x) ≥ 0; len of a string/[]byte conversion equals the operand's length; copy(dst, src) ≤ len(dst), len(src)",
		"a call modifies struct fields only of objects reachable from its pointer-typed arguments (no hidden aliases between distinct parameters)",
	}
	return p
}

type term struct {
	v  int
	c  int64
	ok bool
}

var zero = term{0, 0, true}

// Oblig is one obligation met during the final pass.
type Oblig struct {
	Fn        *ssa.Function
	Instr     ssa.Instruction
	Kind      string // index | slice-low | slice-high | custom
	Desc      string
	Proven    bool
	Unreached bool
	// when the unproven requirement is `NeedLen <= len(parameter NeedParam)`
	NeedParam int
	NeedLen   int64
	Operand   string
}

type Options struct {
	Entry  func(a *Analyzer, d *DBM)
	Custom func(a *Analyzer, d *DBM, ins ssa.Instruction)
	// ParamLenLB: assumed lower bounds of len(param i) at entry (checked at call sites by the caller)
	ParamLenLB map[int]int64
	Index      bool // generate index/slice obligations
	// AtCall is invoked in the final pass for every static call to a module function.
	AtCall func(a *Analyzer, d *DBM, call *ssa.Call)
}

type Analyzer struct {
	P      *Program
	Fn     *ssa.Function
	Opt    Options
	vars   map[string]int
	names  []string
	vtype  map[int]types.Type
	in     map[*ssa.BasicBlock]*DBM
	visits map[*ssa.BasicBlock]int
	Obligs []*Oblig
	Steps  int
	// AtCall is invoked in the final pass for every static call to a module function.
	AtCall      func(a *Analyzer, d *DBM, call *ssa.Call)
	refineDepth int
}

// stableCells maps a local spilled to memory (because a closure/defer captures it) that is
// written exactly once, with a parameter, to that parameter: loads of the cell denote the
// parameter. Set per analysis (the analyser is single-threaded).
var stableCells map[*ssa.Alloc]ssa.Value

func computeStableCells(fn *ssa.Function) map[*ssa.Alloc]ssa.Value {
	out := map[*ssa.Alloc]ssa.Value{}
	bad := map[*ssa.Alloc]bool{}
	for _, b := range fn.Blocks {
		for _, ins := range b.Instrs {
			if st, ok := ins.(*ssa.Store); ok {
				if al, ok := st.Addr.(*ssa.Alloc); ok {
					if _, isParam := st.Val.(*ssa.Parameter); isParam && out[al] == nil {
						out[al] = st.Val
					} else {
						bad[al] = true
					}
				}
			}
		}
	}
	for _, an := range fn.AnonFuncs {
		writes := map[*ssa.FreeVar]bool{}
		var scan func(f *ssa.Function)
		scan = func(f *ssa.Function) {
			for _, b := range f.Blocks {
				for _, ins := range b.Instrs {
					if st, ok := ins.(*ssa.Store); ok {
						if fv, ok := st.Addr.(*ssa.FreeVar); ok {
							writes[fv] = true
						}
					}
					// a nested closure re-capturing the variable: be conservative
					if mc, ok := ins.(*ssa.MakeClosure); ok {
						for _, bv := range mc.Bindings {
							if fv, ok := bv.(*ssa.FreeVar); ok {
								writes[fv] = true
							}
						}
					}
				}
			}
		}
		scan(an)
		for _, b := range fn.Blocks {
			for _, ins := range b.Instrs {
				if mc, ok := ins.(*ssa.MakeClosure); ok && mc.Fn == ssa.Value(an) {
					for i, bv := range mc.Bindings {
						if al, ok := bv.(*ssa.Alloc); ok && i < len(an.FreeVars) && writes[an.FreeVars[i]] {
							bad[al] = true
						}
					}
				}
			}
		}
	}
	for al := range bad {
		delete(out, al)
	}
	return out
}

func vkey(v ssa.Value) string {
	switch x := v.(type) {
	case *ssa.UnOp:
		if x.Op == token.MUL {
			if al, ok := x.X.(*ssa.Alloc); ok {
				if p, ok := stableCells[al]; ok {
					return vkey(p)
				}
			}
			switch x.X.(type) {
			case *ssa.FieldAddr, *ssa.Global:
				return "*" + vkey(x.X)
			case *ssa.Alloc:
				return "*cell:" + vkey(x.X)
			case *ssa.FreeVar:
				return "*cell:" + vkey(x.X)
			}
		}
	case *ssa.FieldAddr:
		return fmt.Sprintf("%s.f%d", vkey(x.X), x.Field)
	case *ssa.Field:
		return fmt.Sprintf("%s.F%d", vkey(x.X), x.Field)
	case *ssa.Global:
		return "G:" + x.String()
	}
	return fmt.Sprintf("%s@%p", v.Name(), v)
}

func isInt(t types.Type) bool {
	b, ok := t.Underlying().(*types.Basic)
	return ok && b.Info()&types.IsInteger != 0
}

func isSeq(t types.Type) bool {
	switch u := t.Underlying().(type) {
	case *types.Slice:
		return true
	case *types.Basic:
		return u.Info()&types.IsString != 0
	}
	return false
}

func (a *Analyzer) varOf(key string) int {
	if id, ok := a.vars[key]; ok {
		return id
	}
	id := len(a.names)
	a.vars[key] = id
	a.names = append(a.names, key)
	return id
}

func (a *Analyzer) IntTerm(v ssa.Value) term {
	if c, ok := v.(*ssa.Const); ok {
		if c.Value != nil && c.Value.Kind() == constant.Int {
			if n, ok := constant.Int64Val(c.Value); ok {
				return term{0, n, true}
			}
		}
		return term{}
	}
	if !isInt(v.Type()) {
		return term{}
	}
	id := a.varOf("v:" + vkey(v))
	a.vtype[id] = v.Type()
	return term{id, 0, true}
}

func (a *Analyzer) LenTerm(v ssa.Value) term {
	if c, ok := v.(*ssa.Const); ok {
		if c.Value != nil && c.Value.Kind() == constant.String {
			return term{0, int64(len(constant.StringVal(c.Value))), true}
		}
		if c.Value == nil {
			return term{0, 0, true}
		}
		return term{}
	}
	if u, ok := v.(*ssa.UnOp); ok && u.Op == token.MUL {
		if g, ok := u.X.(*ssa.Global); ok {
			if n, ok := a.P.GlobalLens[g]; ok {
				return term{0, n, true}
			}
		}
	}
	if cv, ok := v.(*ssa.Convert); ok {
		if isSeq(cv.X.Type()) && isSeq(cv.Type()) {
			// string(bytes) / []byte(string) keep the length; string(rune) etc. are not sequences
			if _, isStrFromInt := cv.X.Type().Underlying().(*types.Basic); !isStrFromInt || cv.X.Type().Underlying().(*types.Basic).Info()&types.IsString != 0 {
				return a.LenTerm(cv.X)
			}
		}
	}
	if ct, ok := v.(*ssa.ChangeType); ok && isSeq(ct.X.Type()) {
		return a.LenTerm(ct.X)
	}
	if !isSeq(v.Type()) {
		return term{}
	}
	id := a.varOf("L:" + vkey(v))
	a.vtype[id] = v.Type()
	return term{id, 0, true}
}

// tle adds x - y <= c on terms.
func tle(d *DBM, x, y term, c int64) {
	if !x.ok || !y.ok {
		return
	}
	if c >= INF {
		return
	}
	d.le(x.v, y.v, c-x.c+y.c)
}
func teq(d *DBM, x, y term) { tle(d, x, y, 0); tle(d, y, x, 0) }

// Tub returns the upper bound of x - y.
func Tub(d *DBM, x, y term) int64 {
	if !x.ok || !y.ok {
		return INF
	}
	b := d.get(x.v, y.v)
	if x.v == y.v {
		b = 0
	}
	if b >= INF {
		return INF
	}
	return b + x.c - y.c
}

func ConstTerm(c int64) term { return term{0, c, true} }

// exactConst: the term has one possible value in d.
func exactConst(d *DBM, t term) (int64, bool) {
	if !t.ok || d == nil {
		return 0, false
	}
	if t.v == 0 {
		return t.c, true
	}
	ub, lb := Tub(d, t, zero), Tub(d, zero, t)
	if ub < INF && lb < INF && ub == -lb {
		return ub, true
	}
	return 0, false
}

// Analyze runs the analysis of one function.
func (p *Program) Analyze(fn *ssa.Function, opt Options) *Analyzer {
	a := &Analyzer{P: p, Fn: fn, Opt: opt, AtCall: opt.AtCall}
	a.run()
	return a
}

func (a *Analyzer) run() {
	fn := a.Fn
	saved := stableCells
	stableCells = computeStableCells(fn)
	defer func() { stableCells = saved }()
	a.vars = map[string]int{"Z": 0}
	a.names = []string{"Z"}
	a.vtype = map[int]types.Type{}
	for _, p := range fn.Params {
		a.IntTerm(p)
		a.LenTerm(p)
	}
	for _, fv := range fn.FreeVars {
		a.IntTerm(fv)
		a.LenTerm(fv)
	}
	for _, b := range fn.Blocks {
		for _, ins := range b.Instrs {
			if v, ok := ins.(ssa.Value); ok {
				a.IntTerm(v)
				a.LenTerm(v)
			}
			for _, op := range ins.Operands(nil) {
				if *op != nil {
					a.IntTerm(*op)
					a.LenTerm(*op)
				}
			}
		}
	}
	maxPhi := 0
	for _, b := range fn.Blocks {
		k := 0
		for _, ins := range b.Instrs {
			if _, ok := ins.(*ssa.Phi); ok {
				k++
			}
		}
		if k > maxPhi {
			maxPhi = k
		}
	}
	tempBase := len(a.names)
	for i := 0; i < 2*maxPhi+2; i++ {
		a.varOf(fmt.Sprintf("tmp%d", i))
	}
	n := len(a.names)
	init := newDBM(n)
	for k, id := range a.vars {
		if strings.HasPrefix(k, "L:") {
			init.le(0, id, 0)
		}
	}
	for i, lb := range a.Opt.ParamLenLB {
		if i < len(fn.Params) {
			tle(init, ConstTerm(lb), a.LenTerm(fn.Params[i]), 0)
		}
	}
	if a.Opt.Entry != nil {
		a.Opt.Entry(a, init)
	}
	if len(fn.Blocks) == 0 {
		return
	}
	a.in = map[*ssa.BasicBlock]*DBM{fn.Blocks[0]: init}
	a.visits = map[*ssa.BasicBlock]int{}
	work := []*ssa.BasicBlock{fn.Blocks[0]}
	inWork := map[*ssa.BasicBlock]bool{fn.Blocks[0]: true}
	for len(work) > 0 && a.Steps < 20000 {
		a.Steps++
		b := work[0]
		work = work[1:]
		inWork[b] = false
		st := a.in[b].clone()
		a.transferBlock(b, st, false)
		if st.bottom() {
			continue
		}
		for si, s := range b.Succs {
			es := st.clone()
			a.refineEdge(b, si, es)
			if es.bottom() {
				continue
			}
			a.applyPhis(b, s, es, tempBase)
			old, ok := a.in[s]
			if !ok {
				a.in[s] = es
			} else {
				nw := old.clone()
				if a.visits[s] > 3 {
					nw.widen(es)
				} else {
					nw.join(es)
				}
				if nw.equal(old) {
					continue
				}
				a.in[s] = nw
			}
			a.visits[s]++
			if !inWork[s] {
				work = append(work, s)
				inWork[s] = true
			}
		}
	}
	nonConverged := len(work) > 0
	for _, b := range fn.Blocks {
		if st, ok := a.in[b]; ok && !nonConverged {
			a.transferBlock(b, st.clone(), true)
		} else {
			// obligations in blocks the analysis did not reach (or when it did not converge) are
			// reported as undecided, never dropped
			for _, ins := range b.Instrs {
				if a.Opt.Index {
					switch ins.(type) {
					case *ssa.IndexAddr, *ssa.Index:
						if a.isConstOffset(ins) {
							a.Obligs = append(a.Obligs, &Oblig{Fn: fn, Instr: ins, Kind: "index", Desc: "constant-offset access in a block the analysis considers unreachable / not converged", Unreached: true, NeedParam: -1})
						}
					}
				}
				if a.Opt.Custom != nil {
					a.Opt.Custom(a, nil, ins)
				}
			}
		}
	}
}

func (a *Analyzer) isConstOffset(ins ssa.Instruction) bool {
	switch x := ins.(type) {
	case *ssa.IndexAddr:
		_, ok := x.Index.(*ssa.Const)
		return ok
	case *ssa.Index:
		_, ok := x.Index.(*ssa.Const)
		return ok
	case *ssa.Slice:
		if c, ok := x.Low.(*ssa.Const); ok && c.Value != nil && c.Int64() > 0 {
			return true
		}
		if c, ok := x.High.(*ssa.Const); ok && c.Value != nil && c.Int64() > 0 {
			return true
		}
	}
	return false
}

func (a *Analyzer) applyPhis(from, to *ssa.BasicBlock, d *DBM, tempBase int) {
	idx := -1
	for i, p := range to.Preds {
		if p == from {
			idx = i
		}
	}
	if idx < 0 {
		return
	}
	type asg struct{ dst, tmp int }
	var asgs []asg
	k := 0
	for _, ins := range to.Instrs {
		phi, ok := ins.(*ssa.Phi)
		if !ok {
			break
		}
		e := phi.Edges[idx]
		for _, mk := range []func(ssa.Value) term{a.IntTerm, a.LenTerm} {
			dt := mk(phi)
			if !dt.ok || dt.v == 0 {
				continue
			}
			st := mk(e)
			tmp := tempBase + k
			k++
			d.forget(tmp)
			if st.ok {
				teq(d, term{tmp, 0, true}, st)
			}
			if strings.HasPrefix(a.names[dt.v], "L:") {
				d.le(0, tmp, 0)
			}
			asgs = append(asgs, asg{dt.v, tmp})
		}
	}
	for _, x := range asgs {
		d.forget(x.dst)
	}
	for _, x := range asgs {
		d.le(x.dst, x.tmp, 0)
		d.le(x.tmp, x.dst, 0)
	}
	for _, x := range asgs {
		d.forget(x.tmp)
	}
}

func CalleeName(c *ssa.CallCommon) string {
	if f := c.StaticCallee(); f != nil {
		return f.String()
	}
	if c.IsInvoke() {
		return "invoke:" + c.Method.Name()
	}
	return ""
}

func (a *Analyzer) def(d *DBM, v ssa.Value) {
	if t := a.IntTerm(v); t.ok && t.v != 0 {
		d.forget(t.v)
	}
	if t := a.LenTerm(v); t.ok && t.v != 0 {
		d.forget(t.v)
		d.le(0, t.v, 0)
	}
}

// Need records the obligation x - y <= c.
func (a *Analyzer) Need(d *DBM, ins ssa.Instruction, kind, what string, x, y term, c int64, operand ssa.Value, needLen int64) {
	o := &Oblig{Fn: a.Fn, Instr: ins, Kind: kind, Desc: what, NeedParam: -1}
	if d == nil {
		o.Unreached = true
	} else {
		o.Proven = Tub(d, x, y) <= c
	}
	if operand != nil {
		o.Operand = operand.Name()
		for i, p := range a.Fn.Params {
			if p == operand {
				o.NeedParam, o.NeedLen = i, needLen
			}
		}
	}
	a.Obligs = append(a.Obligs, o)
}

func (a *Analyzer) transferBlock(b *ssa.BasicBlock, d *DBM, check bool) {
	for _, ins := range b.Instrs {
		if check && a.Opt.Custom != nil {
			a.Opt.Custom(a, d, ins)
		}
		switch x := ins.(type) {
		case *ssa.Phi:
		case *ssa.BinOp:
			if !isInt(x.Type()) {
				continue
			}
			a.def(d, x)
			t := a.IntTerm(x)
			l, r := a.IntTerm(x.X), a.IntTerm(x.Y)
			if !l.ok || !r.ok {
				continue
			}
			switch x.Op {
			case token.ADD:
				tle(d, t, l, Tub(d, r, zero))
				tle(d, l, t, Tub(d, zero, r))
				tle(d, t, r, Tub(d, l, zero))
				tle(d, r, t, Tub(d, zero, l))
			case token.SUB:
				tle(d, t, l, Tub(d, zero, r))
				tle(d, l, t, Tub(d, r, zero))
				tle(d, t, zero, Tub(d, l, r))
				tle(d, zero, t, Tub(d, r, l))
			}
		case *ssa.Call:
			a.def(d, x)
			if rf := x.Referrers(); rf != nil {
				for _, u := range *rf {
					if ex, ok := u.(*ssa.Extract); ok {
						a.def(d, ex)
					}
				}
			}
			if bi, ok := x.Call.Value.(*ssa.Builtin); ok {
				switch bi.Name() {
				case "len":
					teq(d, a.IntTerm(x), a.LenTerm(x.Call.Args[0]))
				case "cap":
					tle(d, a.LenTerm(x.Call.Args[0]), a.IntTerm(x), 0)
				case "copy":
					tle(d, a.IntTerm(x), a.LenTerm(x.Call.Args[0]), 0)
					tle(d, a.IntTerm(x), a.LenTerm(x.Call.Args[1]), 0)
					tle(d, zero, a.IntTerm(x), 0)
				case "append":
					// len(result) >= len(first)
					tle(d, a.LenTerm(x.Call.Args[0]), a.LenTerm(x), 0)
				case "min":
					for _, arg := range x.Call.Args {
						tle(d, a.IntTerm(x), a.IntTerm(arg), 0)
					}
				}
				continue
			}
			name := CalleeName(&x.Call)
			switch name {
			case "bytes.IndexByte", "strings.IndexByte", "bytes.LastIndexByte", "strings.LastIndexByte", "bytes.IndexAny", "strings.IndexAny", "bytes.IndexRune", "strings.IndexRune":
				t := a.IntTerm(x)
				tle(d, zero, t, 1)
				tle(d, t, a.LenTerm(x.Call.Args[0]), -1)
			case "bytes.Index", "strings.Index", "bytes.LastIndex", "strings.LastIndex":
				t := a.IntTerm(x)
				tle(d, zero, t, 1)
				tle(d, t, a.LenTerm(x.Call.Args[0]), -1)
			case "strings.Split", "bytes.Split", "strings.SplitN", "bytes.SplitN":
				if name == "strings.Split" || name == "bytes.Split" {
					tle(d, zero, a.LenTerm(x), -1)
				}
			}
			if name == "invoke:Peek" && len(x.Call.Args) == 1 {
				for _, rf := range *x.Referrers() {
					if e0, ok := rf.(*ssa.Extract); ok && e0.Index == 0 {
						d.forget(a.LenTerm(e0).v)
						d.le(0, a.LenTerm(e0).v, 0)
						tle(d, a.LenTerm(e0), a.IntTerm(x.Call.Args[0]), 0)
					}
				}
			}
			if callee := x.Call.StaticCallee(); callee != nil && a.P.InModule != nil && a.P.InModule(callee) {
				if s := a.P.summary(callee); s != nil && len(s.LenLB) == 1 && s.LenLB[0] > 0 {
					tle(d, ConstTerm(s.LenLB[0]), a.LenTerm(x), 0)
				}
				if check && a.AtCall != nil {
					a.AtCall(a, d, x)
				}
			}
			a.killForCall(d, &x.Call)
		case *ssa.MakeSlice:
			a.def(d, x)
			teq(d, a.LenTerm(x), a.IntTerm(x.Len))
		case *ssa.Slice:
			a.def(d, x)
			lt := a.LenTerm(x)
			var base term
			isArr := false
			if p, ok := x.X.Type().Underlying().(*types.Pointer); ok {
				if arr, ok := p.Elem().Underlying().(*types.Array); ok {
					base = term{0, arr.Len(), true}
					isArr = true
				}
			} else {
				base = a.LenTerm(x.X)
			}
			lo, hi := zero, base
			if x.Low != nil {
				lo = a.IntTerm(x.Low)
			}
			if x.High != nil {
				hi = a.IntTerm(x.High)
			}
			_, isStr := x.X.Type().Underlying().(*types.Basic)
			if check && a.Opt.Index && !isArr {
				if c, ok := exactConst(d, lo); x.Low != nil && ok && c > 0 {
					// low bound must not exceed the high bound / the length
					bound := base
					if x.High != nil {
						bound = hi
					}
					a.Need(d, x, "slice-low", fmt.Sprintf("%s[%d:…]: %d <= len", x.X.Name(), c, c), lo, bound, 0, x.X, c)
				}
				if c, ok := exactConst(d, hi); x.High != nil && ok && c > 0 && x.Max == nil {
					_ = isStr
					// for byte slices the limit is cap ≥ len; len ≥ c is the sufficient condition checked
					a.Need(d, x, "slice-high", fmt.Sprintf("%s[…:%d]: %d <= len", x.X.Name(), c, c), hi, base, 0, x.X, c)
				}
				// slices of byte slices may legally extend to cap; only strings are checked for the
				// constant high bound. A slice high bound given as len(const) is handled below.
			}
			if lo.ok && hi.ok {
				if bo, ok := x.High.(*ssa.BinOp); ok && x.Low != nil && bo.Op == token.ADD {
					if bo.X == x.Low {
						teq(d, lt, a.IntTerm(bo.Y))
					} else if bo.Y == x.Low {
						teq(d, lt, a.IntTerm(bo.X))
					}
				}
				tle(d, lt, zero, Tub(d, hi, lo))
				tle(d, zero, lt, Tub(d, lo, hi))
				tle(d, lt, hi, Tub(d, zero, lo))
				tle(d, hi, lt, Tub(d, lo, zero))
			}
		case *ssa.IndexAddr:
			if check && a.Opt.Index {
				if c := a.IntTerm(x.Index); c.ok && c.v == 0 {
					if _, isSlice := x.X.Type().Underlying().(*types.Slice); isSlice {
						a.Need(d, x, "index", fmt.Sprintf("%s[%d]: %d < len", x.X.Name(), c.c, c.c), term{0, c.c + 1, true}, a.LenTerm(x.X), 0, x.X, c.c+1)
					}
				}
			}
		case *ssa.Index:
			if check && a.Opt.Index {
				if c := a.IntTerm(x.Index); c.ok && c.v == 0 && isSeq(x.X.Type()) {
					a.Need(d, x, "index", fmt.Sprintf("%s[%d]: %d < len", x.X.Name(), c.c, c.c), term{0, c.c + 1, true}, a.LenTerm(x.X), 0, x.X, c.c+1)
				}
			}
		case *ssa.Store:
			a.store(d, x)
		case *ssa.Defer, *ssa.Go:
			// a deferred call runs at RunDefers; a goroutine runs concurrently (races are out of scope)
		case *ssa.RunDefers:
			for k, id := range a.vars {
				if strings.Contains(k, "*") {
					d.forget(id)
					if strings.HasPrefix(k, "L:") {
						d.le(0, id, 0)
					}
				}
			}
		case *ssa.MapUpdate, *ssa.Send:
		default:
			v, ok := ins.(ssa.Value)
			if !ok {
				continue
			}
			switch y := ins.(type) {
			case *ssa.UnOp:
				if y.Op == token.MUL {
					switch y.X.(type) {
					case *ssa.FieldAddr, *ssa.Global, *ssa.Alloc, *ssa.FreeVar:
						// load through an access path: all loads with the same key share one
						// variable whose facts live until a store or call kills them
						continue
					}
				}
				a.def(d, v)
			case *ssa.Convert:
				if isInt(v.Type()) {
					a.def(d, v)
					if isInt(y.X.Type()) && convKeeps(y.X.Type(), y.Type()) {
						teq(d, a.IntTerm(v), a.IntTerm(y.X))
					}
					if isUnsigned(y.Type()) {
						tle(d, zero, a.IntTerm(v), 0)
					}
				}
				// sequence conversions share the operand's length variable (see LenTerm)
			case *ssa.ChangeType:
				// shares the operand's variables
			case *ssa.Extract:
				// facts about tuple components are attached (and stale ones dropped) at the call
			default:
				a.def(d, v)
			}
		}
	}
}

// convKeeps: converting src to dst preserves the numeric value on every supported platform
// (int and uint are 32 or 64 bits wide).
func convKeeps(src, dst types.Type) bool {
	sb, ok1 := src.Underlying().(*types.Basic)
	db, ok2 := dst.Underlying().(*types.Basic)
	if !ok1 || !ok2 {
		return false
	}
	if sb.Kind() == db.Kind() {
		return true
	}
	minBits := func(k types.BasicKind) int {
		switch k {
		case types.Int8, types.Uint8:
			return 8
		case types.Int16, types.Uint16:
			return 16
		case types.Int32, types.Uint32, types.Int, types.Uint, types.Uintptr:
			return 32
		case types.Int64, types.Uint64:
			return 64
		}
		return 0
	}
	maxBits := func(k types.BasicKind) int {
		switch k {
		case types.Int, types.Uint, types.Uintptr:
			return 64
		}
		return minBits(k)
	}
	su, du := sb.Info()&types.IsUnsigned != 0, db.Info()&types.IsUnsigned != 0
	switch {
	case !su && !du: // signed → signed: destination at least as wide as the widest source
		return minBits(db.Kind()) >= maxBits(sb.Kind())
	case su && !du: // unsigned → signed: strictly wider
		return minBits(db.Kind()) > maxBits(sb.Kind())
	case su && du:
		return minBits(db.Kind()) >= maxBits(sb.Kind())
	}
	return false // signed → unsigned may wrap
}

func sizeOf(t types.Type) int {
	b, ok := t.Underlying().(*types.Basic)
	if !ok {
		return 0
	}
	switch b.Kind() {
	case types.Int8, types.Uint8:
		return 1
	case types.Int16, types.Uint16:
		return 2
	case types.Int32, types.Uint32:
		return 4
	case types.Int64, types.Uint64, types.Int, types.Uint, types.Uintptr:
		return 8
	}
	return 0
}

func isUnsigned(t types.Type) bool {
	b, ok := t.Underlying().(*types.Basic)
	return ok && b.Info()&types.IsUnsigned != 0
}

func (a *Analyzer) store(d *DBM, x *ssa.Store) {
	switch ad := x.Addr.(type) {
	case *ssa.Alloc, *ssa.FreeVar:
		key := "*cell:" + vkey(ad.(ssa.Value))
		for _, pre := range []string{"v:", "L:"} {
			if id, ok := a.vars[pre+key]; ok {
				d.forget(id)
				if pre == "L:" {
					d.le(0, id, 0)
					if t := a.LenTerm(x.Val); t.ok {
						teq(d, term{id, 0, true}, t)
					}
				} else if t := a.IntTerm(x.Val); t.ok {
					teq(d, term{id, 0, true}, t)
				}
			}
		}
	case *ssa.FieldAddr:
		suffix := fmt.Sprintf(".f%d", ad.Field)
		for k, id := range a.vars {
			if strings.Contains(k, suffix) && fieldKeyMatches(k, suffix) {
				d.forget(id)
				if strings.HasPrefix(k, "L:") {
					d.le(0, id, 0)
				}
			}
		}
		key := "*" + vkey(ad)
		if t := a.IntTerm(x.Val); t.ok {
			if id, ok := a.vars["v:"+key]; ok {
				teq(d, term{id, 0, true}, t)
			}
		}
		if t := a.LenTerm(x.Val); t.ok {
			if id, ok := a.vars["L:"+key]; ok {
				teq(d, term{id, 0, true}, t)
			}
		}
	case *ssa.Global:
		key := "*" + vkey(ad)
		for _, pre := range []string{"v:", "L:"} {
			if id, ok := a.vars[pre+key]; ok {
				d.forget(id)
				if pre == "L:" {
					d.le(0, id, 0)
				}
			}
		}
	default:
		// store through an arbitrary pointer (*p = v, a[i] = v): may alias any access path that
		// holds a value of the identical type
		et := x.Val.Type()
		if !isInt(et) && !isSeq(et) {
			return
		}
		for k, id := range a.vars {
			if !strings.Contains(k, "*") {
				continue
			}
			if vt := a.vtype[id]; vt != nil && types.Identical(vt, et) {
				d.forget(id)
				if strings.HasPrefix(k, "L:") {
					d.le(0, id, 0)
				}
			}
		}
	}
}

// fieldKeyMatches: the suffix ".fN" must end a path component (".f1" must not match ".f12").
func fieldKeyMatches(k, suffix string) bool {
	i := 0
	for {
		j := strings.Index(k[i:], suffix)
		if j < 0 {
			return false
		}
		j += i
		end := j + len(suffix)
		if end >= len(k) || k[end] < '0' || k[end] > '9' {
			return true
		}
		i = j + 1
	}
}

func (a *Analyzer) killCells(d *DBM, c *ssa.CallCommon) {
	// a call may run closures that write captured locals; calls to top-level functions that
	// receive no closure cannot
	if f := c.StaticCallee(); f != nil && f.Parent() == nil {
		hasClosure := false
		for _, arg := range c.Args {
			if _, ok := arg.Type().Underlying().(*types.Signature); ok {
				hasClosure = true
			}
		}
		if _, ok := c.Value.(*ssa.MakeClosure); !ok && !hasClosure {
			return
		}
	}
	for k, id := range a.vars {
		if strings.Contains(k, "*cell:") {
			d.forget(id)
			if strings.HasPrefix(k, "L:") {
				d.le(0, id, 0)
			}
		}
	}
}

func (a *Analyzer) killForCall(d *DBM, c *ssa.CallCommon) {
	a.killCells(d, c)
	roots := map[string]bool{}
	args := c.Args
	if c.IsInvoke() {
		args = append([]ssa.Value{c.Value}, args...)
	}
	for _, arg := range args {
		switch arg.Type().Underlying().(type) {
		case *types.Pointer:
			roots[vkey(arg)] = true
		}
	}
	// globals may be written by any callee in the module
	killGlobals := true
	if f := c.StaticCallee(); f != nil && a.P.InModule != nil && !a.P.InModule(f) {
		killGlobals = false
	}
	for k, id := range a.vars {
		kill := false
		for r := range roots {
			if strings.Contains(k, r+".f") {
				kill = true
			}
		}
		if killGlobals && strings.Contains(k, "*G:") {
			kill = true
		}
		if kill {
			d.forget(id)
			if strings.HasPrefix(k, "L:") {
				d.le(0, id, 0)
			}
		}
	}
}

var nonNegOnNilErr = map[string]bool{
	"github.com/cloudwego/hertz/internal/bytesconv.ParseUint":    true,
	"github.com/cloudwego/hertz/internal/bytesconv.ParseUintBuf": true,
}

func (a *Analyzer) refineEdge(b *ssa.BasicBlock, si int, d *DBM) {
	if len(b.Instrs) == 0 {
		return
	}
	iff, ok := b.Instrs[len(b.Instrs)-1].(*ssa.If)
	if !ok {
		return
	}
	a.refine(d, iff.Cond, si == 0)
}

func (a *Analyzer) refine(d *DBM, cond ssa.Value, val bool) {
	switch x := cond.(type) {
	case *ssa.Phi:
		// the value of `p || q` / `p && q` built by go/ssa as a phi: constant edges come from
		// the blocks that short-circuited, the last edge carries the last operand. `||` false
		// means every operand was false, `&&` true means every operand was true; the operands
		// are comparisons of SSA values, so the facts hold wherever the phi has that value.
		if a.refineDepth > 3 {
			return
		}
		blk := x.Block()
		shortVal, ok := true, true
		nConst, last := 0, -1
		for i, ed := range x.Edges {
			if c, isC := ed.(*ssa.Const); isC && c.Value != nil && (c.Value.String() == "true" || c.Value.String() == "false") {
				v := c.Value.String() == "true"
				if nConst > 0 && v != shortVal {
					ok = false
				}
				shortVal = v
				nConst++
			} else {
				if last >= 0 {
					ok = false
				}
				last = i
			}
		}
		if !ok || nConst == 0 || last < 0 || val == shortVal {
			return // not a short-circuit phi, or the outcome does not pin the operands
		}
		a.refineDepth++
		defer func() { a.refineDepth-- }()
		for i, ed := range x.Edges {
			if i == last {
				a.refine(d, ed, val)
				continue
			}
			pred := blk.Preds[i]
			if len(pred.Instrs) == 0 {
				return
			}
			if ifi, isIf := pred.Instrs[len(pred.Instrs)-1].(*ssa.If); isIf && len(pred.Succs) == 2 {
				// the short-circuit edge is the one on which the operand had the constant's value
				if (shortVal && pred.Succs[0] == blk) || (!shortVal && pred.Succs[1] == blk) {
					a.refine(d, ifi.Cond, !shortVal)
				}
			}
		}
	case *ssa.UnOp:
		if x.Op == token.NOT {
			a.refine(d, x.X, !val)
		}
	case *ssa.Call:
		name := CalleeName(&x.Call)
		switch name {
		case "bytes.HasPrefix", "strings.HasPrefix", "bytes.HasSuffix", "strings.HasSuffix":
			if val {
				tle(d, a.LenTerm(x.Call.Args[1]), a.LenTerm(x.Call.Args[0]), 0)
			}
		case "bytes.Equal":
			if val {
				teq(d, a.LenTerm(x.Call.Args[0]), a.LenTerm(x.Call.Args[1]))
			}
		}
	case *ssa.BinOp:
		op := x.Op
		if !val {
			switch op {
			case token.LSS:
				op = token.GEQ
			case token.GEQ:
				op = token.LSS
			case token.GTR:
				op = token.LEQ
			case token.LEQ:
				op = token.GTR
			case token.EQL:
				op = token.NEQ
			case token.NEQ:
				op = token.EQL
			default:
				return
			}
		}
		// error nil-ness axioms
		if ex, ok := x.X.(*ssa.Extract); ok {
			if c, ok := x.Y.(*ssa.Const); ok && c.IsNil() {
				if call, ok := ex.Tuple.(*ssa.Call); ok && op == token.EQL {
					name := CalleeName(&call.Call)
					if nonNegOnNilErr[name] {
						for _, r := range *call.Referrers() {
							if e0, ok := r.(*ssa.Extract); ok && e0.Index == 0 {
								tle(d, zero, a.IntTerm(e0), 0)
							}
						}
					}
					if name == "invoke:Peek" && len(call.Call.Args) == 1 {
						for _, r := range *call.Referrers() {
							if e0, ok := r.(*ssa.Extract); ok && e0.Index == 0 {
								teq(d, a.LenTerm(e0), a.IntTerm(call.Call.Args[0]))
							}
						}
					}
				}
			}
		}
		if bt, ok := x.X.Type().Underlying().(*types.Basic); ok && bt.Info()&types.IsString != 0 {
			lx, ly := a.LenTerm(x.X), a.LenTerm(x.Y)
			if ly.ok && ly.v == 0 && ly.c == 0 {
				if op == token.EQL {
					teq(d, lx, zero)
				} else if op == token.NEQ {
					tle(d, zero, lx, -1)
				}
			}
			if lx.ok && lx.v == 0 && lx.c == 0 {
				if op == token.EQL {
					teq(d, ly, zero)
				} else if op == token.NEQ {
					tle(d, zero, ly, -1)
				}
			}
			if op == token.EQL {
				teq(d, lx, ly)
			}
			return
		}
		if _, ok := x.X.Type().Underlying().(*types.Slice); ok {
			if c, ok := x.Y.(*ssa.Const); ok && c.IsNil() && op == token.EQL {
				teq(d, a.LenTerm(x.X), zero)
			}
			return
		}
		l, r := a.IntTerm(x.X), a.IntTerm(x.Y)
		if !l.ok || !r.ok {
			return
		}
		switch op {
		case token.LSS:
			tle(d, l, r, -1)
		case token.LEQ:
			tle(d, l, r, 0)
		case token.GTR:
			tle(d, r, l, -1)
		case token.GEQ:
			tle(d, r, l, 0)
		case token.EQL:
			teq(d, l, r)
		case token.NEQ:
			if Tub(d, r, l) <= 0 {
				tle(d, r, l, -1)
			} else if Tub(d, l, r) <= 0 {
				tle(d, l, r, -1)
			}
		}
	}
}

// summary computes (on demand, memoised, recursion-safe) the lower bound of len(result) of a
// module function with a single sequence result.
func (p *Program) summary(fn *ssa.Function) *Summary {
	if s, ok := p.summaries[fn]; ok {
		return s
	}
	if p.busy[fn] || fn.Blocks == nil {
		return nil
	}
	res := fn.Signature.Results()
	if res.Len() != 1 || !isSeq(res.At(0).Type()) {
		p.summaries[fn] = nil
		return nil
	}
	p.busy[fn] = true
	defer delete(p.busy, fn)
	lb := INF
	any := false
	an := p.Analyze(fn, Options{Custom: nil})
	// second look: evaluate at returns
	for _, b := range fn.Blocks {
		st, ok := an.in[b]
		if !ok {
			continue
		}
		d := st.clone()
		an.Opt.Custom = nil
		an.transferBlock(b, d, false)
		if d.bottom() {
			continue
		}
		if ret, ok := b.Instrs[len(b.Instrs)-1].(*ssa.Return); ok {
			any = true
			l := -Tub(d, zero, an.LenTerm(ret.Results[0])) // lower bound of len
			if Tub(d, zero, an.LenTerm(ret.Results[0])) >= INF {
				l = 0
			}
			if l < lb {
				lb = l
			}
		}
	}
	s := &Summary{LenLB: []int64{0}}
	if any && lb < INF && lb > 0 {
		s.LenLB[0] = lb
	}
	p.summaries[fn] = s
	return s
}

// In returns the entry state of a block (nil if unreached).
func (a *Analyzer) In(b *ssa.BasicBlock) *DBM { return a.in[b] }

// StateBefore replays block b up to (not including) instruction target.
func (a *Analyzer) StateBefore(target ssa.Instruction) *DBM {
	b := target.Block()
	st, ok := a.in[b]
	if !ok {
		return nil
	}
	d := st.clone()
	saveC, saveI := a.Opt.Custom, a.Opt.Index
	a.Opt.Custom, a.Opt.Index = nil, false
	defer func() { a.Opt.Custom, a.Opt.Index = saveC, saveI }()
	// replay instruction by instruction
	for _, ins := range b.Instrs {
		if ins == target {
			return d
		}
		a.transferOne(ins, d)
	}
	return d
}

func (a *Analyzer) transferOne(ins ssa.Instruction, d *DBM) {
	// reuse transferBlock on a single-instruction pseudo block
	fake := &ssa.BasicBlock{Instrs: []ssa.Instruction{ins}}
	a.transferBlock(fake, d, false)
}

// AssumeGE constrains t >= c in d (entry assumptions of rule-specific runs).
func AssumeGE(d *DBM, t term, c int64) { tle(d, ConstTerm(c), t, 0) }
