// Package zone is a difference-bound (zone) abstract interpreter over go/ssa integers and
// len(v) terms, with access-path memory for struct-field / global / closure-cell loads.
// It is used to discharge "constant index within bounds" obligations, the ParseByteRange
// postcondition and the bounded-read obligation of the body stream.
package zone

const INF = int64(1) << 50

// DBM is a difference-bound matrix: m[i][j] bounds x_i - x_j from above. Variable 0 is the
// constant zero.
type DBM struct {
	n int
	m []int64
}

func newDBM(n int) *DBM {
	d := &DBM{n: n, m: make([]int64, n*n)}
	for i := range d.m {
		d.m[i] = INF
	}
	for i := 0; i < n; i++ {
		d.m[i*n+i] = 0
	}
	return d
}

func (d *DBM) clone() *DBM        { return &DBM{n: d.n, m: append([]int64(nil), d.m...)} }
func (d *DBM) get(i, j int) int64 { return d.m[i*d.n+j] }

// le adds the constraint x_i - x_j <= c and restores closure incrementally.
func (d *DBM) le(i, j int, c int64) {
	if i == j || c >= d.get(i, j) {
		return
	}
	n := d.n
	for a := 0; a < n; a++ {
		ai := d.m[a*n+i]
		if ai >= INF {
			continue
		}
		for b := 0; b < n; b++ {
			jb := d.m[j*n+b]
			if jb >= INF {
				continue
			}
			v := ai + c + jb
			if v < d.m[a*n+b] {
				d.m[a*n+b] = v
			}
		}
	}
}

func (d *DBM) forget(i int) {
	n := d.n
	for a := 0; a < n; a++ {
		if a != i {
			d.m[a*n+i] = INF
			d.m[i*n+a] = INF
		}
	}
}

func (d *DBM) join(o *DBM) {
	for k := range d.m {
		if o.m[k] > d.m[k] {
			d.m[k] = o.m[k]
		}
	}
}

func (d *DBM) widen(o *DBM) {
	for k := range d.m {
		if o.m[k] > d.m[k] {
			d.m[k] = INF
		}
	}
}

func (d *DBM) equal(o *DBM) bool {
	for k := range d.m {
		if d.m[k] != o.m[k] {
			return false
		}
	}
	return true
}

func (d *DBM) bottom() bool {
	for i := 0; i < d.n; i++ {
		if d.m[i*d.n+i] < 0 {
			return true
		}
	}
	return false
}
