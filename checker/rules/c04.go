package rules

import (
	"fmt"
	"go/ast"
	"go/token"
	"go/types"
	"strings"

	"hzcheck/core"
	"hzcheck/esp"
)

func init() {
	register("C04", c04NoBody, func(e *Env) { streamFraming(e, "C04.framing", "pkg/protocol/http1/resp") }, c04Writer, c04Excl, func(e *Env) { serveLoop(e, "C04") }, c04Fresh, c13Alias, c13WriterReset, c13CopyNode, c04Slots, c17Fill, c05Retain, c09Pools, c04OwnedLen, c04ReadCommit, c04ReadFromEOF, c04EmptyChunk)
}

const pkgResp = Mod + "/pkg/protocol/http1/resp"

// sendBodyVar finds, in fi, the bool variable that holds `!resp.MustSkipBody()`: a local
// assigned from that expression, or the parameter that receives it from a caller.
func sendBodyVars(w *core.World) map[*types.Func]*types.Var {
	out := map[*types.Func]*types.Var{}
	isSkip := func(f *types.Func) bool { return esp.Is(f, pkgProto, "Response", "MustSkipBody") }
	for _, fi := range declaredNonTest(w) {
		if fi.Pkg.PkgPath != pkgResp {
			continue
		}
		info := fi.Pkg.TypesInfo
		ast.Inspect(fi.Decl.Body, func(n ast.Node) bool {
			as, ok := n.(*ast.AssignStmt)
			if !ok || len(as.Lhs) != 1 || len(as.Rhs) != 1 {
				return true
			}
			if found, t, _ := condCalls(info, as.Rhs[0], isSkip); found && t < 0 {
				// `x := !resp.MustSkipBody()`: x true ⇒ MustSkipBody false
				if v := usedVar(info, as.Lhs[0]); v != nil {
					out[fi.Obj] = v
				}
			}
			return true
		})
	}
	// propagate to callees receiving the variable
	for i := 0; i < 2; i++ {
		for _, fi := range declaredNonTest(w) {
			v := out[fi.Obj]
			if v == nil {
				continue
			}
			info := fi.Pkg.TypesInfo
			ast.Inspect(fi.Decl.Body, func(n ast.Node) bool {
				call, ok := n.(*ast.CallExpr)
				if !ok {
					return true
				}
				f := calleeOf(info, call)
				if f == nil || w.DeclOf(f) == nil {
					return true
				}
				for ai, a := range call.Args {
					if usedVar(info, a) == v {
						sig := f.Type().(*types.Signature)
						if ai < sig.Params().Len() {
							out[f.Origin()] = sig.Params().At(ai)
						}
					}
				}
				return true
			})
		}
	}
	return out
}

// C04.nobody — body bytes are only emitted when the response may carry a body.
func c04NoBody(e *Env) {
	const rule = "C04.nobody"
	w, r := e.W, e.R
	r.Explainf("C04.nobody: ESP typestate over resp.Write and the stream writer it delegates to: every body-emitting call (WriteBinary of the value obtained from BodyBytes(), ext.WriteBodyFixedSize, ext.WriteBodyChunked, ext.WriteTrailer) is reached only with the bool that holds `!resp.MustSkipBody()` known true on that path; MustSkipBody is SkipBody || Header.MustSkipContentLength(), and MustSkipContentLength tests the constants 304, 204 and `< 200` (1xx). Serve sets SkipBody for HEAD (C04.head).")
	sb := sendBodyVars(w)
	if len(sb) == 0 {
		r.Anchor(rule, "a bool assigned from !resp.MustSkipBody() in package http1/resp")
		return
	}
	n := 0
	for f, v := range sb {
		fi := w.DeclOf(f)
		if fi == nil {
			continue
		}
		info := fi.Pkg.TypesInfo
		fname := w.FuncName(f)
		bodyVars := map[*types.Var]bool{}
		ast.Inspect(fi.Decl.Body, func(nd ast.Node) bool {
			if as, ok := nd.(*ast.AssignStmt); ok && len(as.Rhs) == 1 && len(as.Lhs) == 1 {
				if call, ok := unparen(as.Rhs[0]).(*ast.CallExpr); ok && esp.Is(calleeOf(info, call), pkgProto, "Response", "BodyBytes") {
					if bv := usedVar(info, as.Lhs[0]); bv != nil {
						bodyVars[bv] = true
					}
				}
			}
			return true
		})
		emits := 0
		rl := &esp.Rule{Name: rule, Init: "x",
			Call: func(c *esp.Ctx, call *ast.CallExpr, g *types.Func) {
				emit := ""
				switch {
				case g != nil && g.Name() == "WriteBinary" && g.Pkg() != nil && g.Pkg().Path() == pkgNetwork && len(call.Args) == 1 && bodyVars[usedVar(info, call.Args[0])]:
					emit = "WriteBinary(body)"
				case esp.Is(g, pkgExt, "", "WriteBodyFixedSize"), esp.Is(g, pkgExt, "", "WriteBodyChunked"), esp.Is(g, pkgExt, "", "WriteTrailer"), esp.Is(g, pkgExt, "", "WriteChunk"):
					emit = g.Name()
				}
				if emit == "" {
					return
				}
				if c.Fact(v.Name()) != esp.T {
					c.Violate(call.Pos(), fname+":"+c.SiteKey(call)+":body-without-sendBody", emit+" is reachable without `"+v.Name()+"` (= !MustSkipBody) being true: a HEAD/1xx/204/304 response would carry body bytes and desynchronise the connection")
				}
			},
		}
		ast.Inspect(fi.Decl.Body, func(nd ast.Node) bool {
			if call, ok := nd.(*ast.CallExpr); ok {
				g := calleeOf(info, call)
				if esp.Is(g, pkgExt, "", "WriteBodyFixedSize") || esp.Is(g, pkgExt, "", "WriteBodyChunked") || esp.Is(g, pkgExt, "", "WriteTrailer") ||
					(g != nil && g.Name() == "WriteBinary" && len(call.Args) == 1 && bodyVars[usedVar(info, call.Args[0])]) {
					emits++
				}
			}
			return true
		})
		ex := esp.New(w, fi, rl)
		vs := ex.Run(fi)
		n += emits
		r.Unit("%s: %s — sendBody variable %s, %d body-emitting sites, %d states", rule, fname, v.Name(), emits, ex.Steps)
		if len(vs) == 0 {
			r.OK(rule, fname+":paths", w.Pos(fi.Decl.Pos()), "every body emission is guarded by "+v.Name())
		}
		for _, vi := range vs {
			r.Fail(rule, vi.Key, w.Pos(vi.Pos), "body bytes are emitted only when the response may carry a body", vi.Msg, vi.Path...)
		}
	}
	r.Floor(rule, n, 4, "body-emitting call sites under a sendBody variable")
	// MustSkipBody and MustSkipContentLength
	msb := w.Func("pkg/protocol", "Response", "MustSkipBody")
	skipField := w.Field("pkg/protocol", "Response", "SkipBody")
	mscl := w.Func("pkg/protocol", "ResponseHeader", "MustSkipContentLength")
	if msb == nil || mscl == nil || skipField == nil {
		r.Anchor(rule, "Response.MustSkipBody / ResponseHeader.MustSkipContentLength / Response.SkipBody")
		return
	}
	{
		info := msb.Pkg.TypesInfo
		okField, okCall := false, false
		ast.Inspect(msb.Decl.Body, func(nd ast.Node) bool {
			switch x := nd.(type) {
			case *ast.SelectorExpr:
				if usedVar(info, x) == skipField {
					okField = true
				}
			case *ast.CallExpr:
				if calleeOf(info, x) == mscl.Obj {
					okCall = true
				}
			}
			return true
		})
		r.Check(okField && okCall, rule, w.FuncName(msb.Obj)+":definition", w.Pos(msb.Decl.Pos()), "MustSkipBody consults SkipBody and MustSkipContentLength", "MustSkipBody no longer mentions both SkipBody and Header.MustSkipContentLength()")
	}
	{
		info := mscl.Pkg.TypesInfo
		consts := map[int]bool{}
		lt200 := false
		ast.Inspect(mscl.Decl.Body, func(nd ast.Node) bool {
			if be, ok := nd.(*ast.BinaryExpr); ok {
				if v, ok := constInt(info, be.Y); ok {
					if be.Op == token.EQL {
						consts[v] = true
					}
					if be.Op == token.LSS && v == 200 {
						lt200 = true
					}
				}
			}
			return true
		})
		r.Check(consts[304] && consts[204] && lt200, rule, w.FuncName(mscl.Obj)+":status-set", w.Pos(mscl.Decl.Pos()), "bodiless statuses 1xx, 204, 304 are recognised", fmt.Sprintf("comparison constants found: ==%v, <200:%v", keysInt(consts), lt200))
	}
}

func keysInt(m map[int]bool) []int {
	var out []int
	for k := range m {
		out = append(out, k)
	}
	return out
}

// streamFraming — the stream writers announce the framing they then use.
func streamFraming(e *Env, rule, rel string) {
	w, r := e.W, e.R
	r.Explainf("%s: ESP typestate over the body-stream writer of package %s: the header is written exactly once; a fixed-size body is written with the same variable that was read from Header.ContentLength() or handed to SetContentLength since its last assignment; a chunked body is written only after SetContentLength(-1) preceded the header, and on its success path the trailer follows before the function returns.", rule, rel)
	fi := w.Func(rel, "", "writeBodyStream")
	if fi == nil {
		r.Anchor(rule, rel+".writeBodyStream")
		return
	}
	info := fi.Pkg.TypesInfo
	fname := w.FuncName(fi.Obj)
	type st struct {
		agree, chunkAnn bool
		hdr, body       string
	}
	parse := func(s string) st {
		p := strings.Split(s, ",")
		return st{p[0] == "1", p[1] == "1", p[2], p[3]}
	}
	str := func(s st) string {
		b := func(x bool) string {
			if x {
				return "1"
			}
			return "0"
		}
		return b(s.agree) + "," + b(s.chunkAnn) + "," + s.hdr + "," + s.body
	}
	var lenVar *types.Var
	isHdrLen := func(e ast.Expr) bool {
		call, ok := unparen(e).(*ast.CallExpr)
		if !ok {
			return false
		}
		f := calleeOf(info, call)
		return esp.Is(f, pkgProto, "RequestHeader", "ContentLength") || esp.Is(f, pkgProto, "ResponseHeader", "ContentLength")
	}
	// lenOf: the local of a function that is assigned from Header.ContentLength()
	lenOf := func(body *ast.BlockStmt) *types.Var {
		var v *types.Var
		ast.Inspect(body, func(n ast.Node) bool {
			if as, ok := n.(*ast.AssignStmt); ok && len(as.Lhs) == 1 && len(as.Rhs) == 1 && isHdrLen(as.Rhs[0]) && v == nil {
				v = usedVar(info, as.Lhs[0])
			}
			return true
		})
		return v
	}
	lenVar = lenOf(fi.Decl.Body)
	// the length may be computed by a helper of the package that returns its own such local
	// (`contentLength := bodyStreamContentLength(resp)`): both locals then denote the framing
	// length, and the helper is explored inline
	lenVars := map[*types.Var]bool{}
	lenHelpers := map[*types.Func]bool{}
	if lenVar == nil {
		ast.Inspect(fi.Decl.Body, func(n ast.Node) bool {
			as, ok := n.(*ast.AssignStmt)
			if !ok || len(as.Lhs) != 1 || len(as.Rhs) != 1 || lenVar != nil {
				return true
			}
			c, ok := unparen(as.Rhs[0]).(*ast.CallExpr)
			if !ok {
				return true
			}
			d := w.DeclOf(calleeOf(info, c))
			if d == nil || d.Pkg != fi.Pkg || d.Decl.Body == nil {
				return true
			}
			hv := lenOf(d.Decl.Body)
			if hv == nil {
				return true
			}
			returnsIt := false
			ast.Inspect(d.Decl.Body, func(m ast.Node) bool {
				if rs, ok := m.(*ast.ReturnStmt); ok && len(rs.Results) == 1 && usedVar(info, rs.Results[0]) == hv {
					returnsIt = true
				}
				return true
			})
			if returnsIt {
				lenVar = usedVar(info, as.Lhs[0])
				lenVars[hv] = true
				lenHelpers[d.Obj] = true
			}
			return true
		})
	}
	if lenVar == nil {
		r.Anchor(rule, "a variable assigned from Header.ContentLength() (directly or by a helper that returns it) in "+fname)
		return
	}
	lenVars[lenVar] = true
	isLenVar := func(e ast.Expr) bool { v := usedVar(info, e); return v != nil && lenVars[v] }
	counts := map[string]int{}
	// a branch of the writer moved into a same-package helper is explored inline
	isFramingEvent := func(f *types.Func) bool {
		return f != nil && ((f.Name() == "WriteHeader" && f.Pkg() != nil && strings.HasPrefix(f.Pkg().Path(), pkgHTTP1)) ||
			esp.Is(f, pkgExt, "", "WriteBodyFixedSize") || esp.Is(f, pkgExt, "", "WriteBodyChunked") || esp.Is(f, pkgExt, "", "WriteTrailer"))
	}
	framingInline := inlineWhen(info, isFramingEvent, nil)
	rl := &esp.Rule{Name: rule, Init: str(st{hdr: "none", body: "none"}),
		Track: func(k string) bool {
			if k == "err == nil" {
				return true
			}
			for v := range lenVars {
				if k == v.Name()+" >= 0" {
					return true
				}
			}
			return false
		},
		Inline: func(f *types.Func, d *ast.FuncDecl) bool {
			return lenHelpers[f] || (!isFramingEvent(f) && framingInline(f, d))
		},
		Node: func(c *esp.Ctx, n ast.Node) {
			as, ok := n.(*ast.AssignStmt)
			if !ok {
				return
			}
			for i, l := range as.Lhs {
				if isLenVar(l) {
					if len(as.Rhs) == len(as.Lhs) {
						if call, ok := unparen(as.Rhs[i]).(*ast.CallExpr); ok && lenHelpers[calleeOf(info, call)] {
							continue // the helper's own local carried the state; it was explored inline
						}
					}
					s := parse(c.S.TS)
					s.agree = len(as.Rhs) == len(as.Lhs) && isHdrLen(as.Rhs[i])
					c.S.TS = str(s)
				}
			}
		},
		Call: func(c *esp.Ctx, call *ast.CallExpr, f *types.Func) {
			s := parse(c.S.TS)
			site := fname + ":" + c.SiteKey(call)
			switch {
			case f != nil && f.Name() == "SetContentLength" && (esp.Is(f, pkgProto, "RequestHeader", "SetContentLength") || esp.Is(f, pkgProto, "ResponseHeader", "SetContentLength")) && len(call.Args) == 1:
				if isLenVar(call.Args[0]) {
					s.agree = true
				} else if v, ok := constInt(info, call.Args[0]); ok && v == -1 {
					s.chunkAnn = true
				} else {
					s.agree, s.chunkAnn = false, false
				}
				if s.hdr != "none" {
					c.Violate(call.Pos(), site+":length-after-header", "the framing is changed after the header was already written")
				}
			case f != nil && f.Name() == "WriteHeader" && f.Pkg() != nil && strings.HasPrefix(f.Pkg().Path(), pkgHTTP1):
				counts["WriteHeader"]++
				if s.hdr != "none" {
					c.Violate(call.Pos(), site+":header-twice", "the header is written twice on one path")
				}
				switch {
				case s.chunkAnn:
					s.hdr = "chunked"
				case s.agree:
					s.hdr = "fixed"
				default:
					s.hdr = "stale"
				}
			case esp.Is(f, pkgExt, "", "WriteBodyFixedSize"):
				counts["WriteBodyFixedSize"]++
				ok := false
				if len(call.Args) == 3 {
					for v := range lenVars {
						if refersTo(info, call.Args[2], v) {
							ok = true
						}
					}
				}
				if s.hdr != "fixed" || !ok {
					c.Violate(call.Pos(), site+":fixed-mismatch", "a fixed-size body is written but the header on this path does not announce that same length (header state "+s.hdr+"): Content-Length and the bytes sent disagree")
				}
				s.body = "fixed"
			case esp.Is(f, pkgExt, "", "WriteBodyChunked"):
				counts["WriteBodyChunked"]++
				if s.hdr != "chunked" {
					c.Violate(call.Pos(), site+":chunked-unannounced", "a chunked body is written but SetContentLength(-1) did not precede the header on this path (header state "+s.hdr+")")
				}
				s.body = "chunk"
			case esp.Is(f, pkgExt, "", "WriteTrailer"):
				counts["WriteTrailer"]++
				if s.body != "chunkok" {
					c.Violate(call.Pos(), site+":trailer-state", "trailer written in body state "+s.body)
				}
				s.body = "trailer"
			}
			if c.S.TS != "" {
				c.S.TS = str(s)
			}
		},
		Branch: func(c *esp.Ctx, cond ast.Expr, val bool) {
			s := parse(c.S.TS)
			if s.body != "chunk" {
				return
			}
			if ok, isNil := errNilCond(info, cond, val); ok {
				if isNil {
					s.body = "chunkok"
				} else {
					s.body = "failed"
				}
				c.S.TS = str(s)
			}
		},
		Exit: func(c *esp.Ctx) {
			if c.S.Panic {
				return
			}
			s := parse(c.S.TS)
			if s.body == "chunk" || s.body == "chunkok" {
				c.Violate(c.S.Ret, fname+":chunked-no-trailer", "a chunked body was written successfully but the function returns without the terminating trailer (state "+s.body+"): the message never ends for the peer")
			}
			if s.hdr == "none" {
				c.Violate(c.S.Ret, fname+":no-header", "function returns without writing the header")
			}
		},
	}
	ex := esp.New(w, fi, rl)
	vs := ex.Run(fi)
	r.Unit("%s: %s — length variable %s, %d states, %d exits, sites %v", rule, fname, lenVar.Name(), ex.Steps, ex.Exits, counts)
	for _, ev := range []string{"WriteHeader", "WriteBodyFixedSize", "WriteBodyChunked", "WriteTrailer"} {
		r.Check(counts[ev] >= 1, rule, fname+":has-"+ev, w.Pos(fi.Decl.Pos()), "stream writer contains "+ev, "no call to "+ev)
	}
	if len(vs) == 0 {
		r.OK(rule, fname+":paths", w.Pos(fi.Decl.Pos()), "announced framing matches the body written on all paths")
	}
	for _, v := range vs {
		r.Fail(rule, v.Key, w.Pos(v.Pos), "the framing announced in the header is the framing of the body that follows", v.Msg, v.Path...)
	}
}

// C04.writer — the chunked body writer announces chunked framing once and finalises with the
// last chunk followed by the trailer.
func c04Writer(e *Env) {
	const rule = "C04.writer"
	w, r := e.W, e.R
	r.Explainf("C04.writer: in resp.chunkedBodyWriter every site that writes the response header (in Write, Finalize or a helper method of the type) runs only while a bool field of the writer is false — `if !c.G { … }` around it or `if c.G { return … }` before it — announces chunked framing first (SetContentLength(-1) earlier in the same function) and sets that field to true afterwards; Write and Finalize each reach such a site (directly or through a helper method) ; Finalize writes the terminating chunk (WriteChunk with a nil payload) and then the trailer.")
	typ := w.Named("pkg/protocol/http1/resp", "chunkedBodyWriter")
	if typ == nil {
		r.Anchor(rule, "resp.chunkedBodyWriter")
		return
	}
	// methods of the type
	var methods []*core.FuncInfo
	for _, fi := range w.AllDecls() {
		if rn := recvNamed(fi.Obj); rn != nil && rn.Obj() == typ.Obj() && fi.Decl.Body != nil && !w.IsTestFile(fi.Decl.Pos()) {
			methods = append(methods, fi)
		}
	}
	isBoolFieldOfT := func(info *types.Info, x ast.Expr) *types.Var {
		v := usedVar(info, x)
		if v == nil || !v.IsField() {
			return nil
		}
		if b, ok := v.Type().Underlying().(*types.Basic); !ok || b.Kind() != types.Bool {
			return nil
		}
		st, _ := typ.Underlying().(*types.Struct)
		for i := 0; st != nil && i < st.NumFields(); i++ {
			if st.Field(i) == v {
				return v
			}
		}
		return nil
	}
	hasSite := map[*types.Func]bool{}
	nSites := 0
	for _, fi := range methods {
		info := fi.Pkg.TypesInfo
		fname := w.FuncName(fi.Obj)
		par := parents(fi.Decl)
		ord := 0
		ast.Inspect(fi.Decl.Body, func(n ast.Node) bool {
			call, ok := n.(*ast.CallExpr)
			if !ok || !esp.Is(calleeOf(info, call), pkgResp, "", "WriteHeader") {
				return true
			}
			ord++
			nSites++
			hasSite[fi.Obj] = true
			key := fmt.Sprintf("%s:WriteHeader#%d", fname, ord)
			var guard *types.Var
			for _, cond := range enclosingThenConds(par, call) {
				if u, ok := unparen(cond).(*ast.UnaryExpr); ok && u.Op == token.NOT {
					if g := isBoolFieldOfT(info, u.X); g != nil {
						guard = g
					}
				}
			}
			if guard == nil {
				// `if c.G { return … }` as an earlier statement of the function body
				for _, s := range fi.Decl.Body.List {
					if s.Pos() >= call.Pos() {
						break
					}
					if is, ok := s.(*ast.IfStmt); ok && is.Init == nil && is.Else == nil && len(is.Body.List) > 0 {
						if _, isRet := is.Body.List[len(is.Body.List)-1].(*ast.ReturnStmt); isRet {
							if g := isBoolFieldOfT(info, is.Cond); g != nil {
								guard = g
							}
						}
					}
				}
			}
			announced, setAfter := false, false
			ast.Inspect(fi.Decl.Body, func(m ast.Node) bool {
				switch x := m.(type) {
				case *ast.CallExpr:
					if x.Pos() < call.Pos() && esp.Is(calleeOf(info, x), pkgProto, "ResponseHeader", "SetContentLength") && len(x.Args) == 1 {
						if v, ok := constInt(info, x.Args[0]); ok && v == -1 {
							announced = true
						}
					}
				case *ast.AssignStmt:
					if x.Pos() > call.End() && len(x.Lhs) == 1 && len(x.Rhs) == 1 && guard != nil && usedVar(info, x.Lhs[0]) == guard {
						if id, ok := unparen(x.Rhs[0]).(*ast.Ident); ok && id.Name == "true" {
							setAfter = true
						}
					}
				}
				return true
			})
			r.Check(guard != nil, rule, key+":header-once", w.Pos(call.Pos()), "header is written only while the writer's header-written flag is false", "WriteHeader is neither nested in `if !c.<flag>` nor preceded by `if c.<flag> { return }` for a bool field of the writer: a second Write emits a second header")
			r.Check(setAfter, rule, key+":flag-set", w.Pos(call.Pos()), "the header-written flag is set after the header", "the guarding flag is not set to true after WriteHeader")
			r.Check(announced, rule, key+":chunked-announced", w.Pos(call.Pos()), "SetContentLength(-1) precedes the header", "no SetContentLength(-1) before WriteHeader")
			return true
		})
	}
	r.Floor(rule, nSites, 1, "header-writing sites in chunkedBodyWriter methods")
	for _, m := range []string{"Write", "Finalize"} {
		fi := w.Func("pkg/protocol/http1/resp", "chunkedBodyWriter", m)
		if fi == nil {
			r.Anchor(rule, "resp.chunkedBodyWriter."+m)
			continue
		}
		info := fi.Pkg.TypesInfo
		fname := w.FuncName(fi.Obj)
		reaches := hasSite[fi.Obj]
		for _, c := range funcsCallingIn(fi, func(f *types.Func) bool { return hasSite[f] }) {
			_ = c
			reaches = true
		}
		r.Check(reaches, rule, fname+":reaches-header-site", w.Pos(fi.Decl.Pos()), m+" writes the header (once) before any chunk", m+" neither writes the header nor calls a method of the writer that does")
		if m == "Finalize" {
			// order: WriteChunk(nil) then WriteTrailer
			var posChunk, posTrailer token.Pos
			ast.Inspect(fi.Decl.Body, func(n ast.Node) bool {
				if call, ok := n.(*ast.CallExpr); ok {
					f := calleeOf(info, call)
					if esp.Is(f, pkgExt, "", "WriteChunk") && len(call.Args) >= 2 {
						if id, ok := unparen(call.Args[1]).(*ast.Ident); ok && id.Name == "nil" {
							posChunk = call.Pos()
						}
					}
					if esp.Is(f, pkgExt, "", "WriteTrailer") {
						posTrailer = call.Pos()
					}
				}
				return true
			})
			r.Check(posChunk.IsValid() && posTrailer.IsValid() && posChunk < posTrailer, rule, fname+":last-chunk-then-trailer", w.Pos(fi.Decl.Pos()), "Finalize writes the terminating chunk and then the trailer", "terminating chunk (WriteChunk(w, nil, …)) or trailer missing / out of order")
		}
	}
}

// C04.excl — Content-Length and Transfer-Encoding are never both set by SetContentLength.
func c04Excl(e *Env) {
	const rule = "C04.excl"
	w, r := e.W, e.R
	r.Explainf("C04.excl: in both SetContentLength implementations the `contentLength >= 0` branch removes Transfer-Encoding from the header list and the other branch empties contentLengthBytes (so the serialiser, which emits Content-Length only when contentLengthBytes is non-empty, never emits both).")
	te := bytestrVar(w, "StrTransferEncoding")
	for _, typ := range []string{"RequestHeader", "ResponseHeader"} {
		fi := w.Func("pkg/protocol", typ, "SetContentLength")
		clb := w.Field("pkg/protocol", typ, "contentLengthBytes")
		if fi == nil || clb == nil || te == nil {
			r.Anchor(rule, "protocol."+typ+".SetContentLength / contentLengthBytes / bytestr.StrTransferEncoding")
			continue
		}
		info := fi.Pkg.TypesInfo
		fname := w.FuncName(fi.Obj)
		param := fi.Obj.Type().(*types.Signature).Params().At(0)
		found := false
		ast.Inspect(fi.Decl.Body, func(n ast.Node) bool {
			is, ok := n.(*ast.IfStmt)
			if !ok || is.Else == nil || found {
				return true
			}
			be, ok := unparen(is.Cond).(*ast.BinaryExpr)
			if !ok || be.Op != token.GEQ || usedVar(info, be.X) != param {
				return true
			}
			if z, ok := constInt(info, be.Y); !ok || z != 0 {
				return true
			}
			found = true
			delTE, emptyCL := false, false
			ast.Inspect(is.Body, func(m ast.Node) bool {
				if call, ok := m.(*ast.CallExpr); ok {
					if f := calleeOf(info, call); f != nil && strings.HasPrefix(f.Name(), "del") && refersTo(info, call, te) {
						delTE = true
					}
				}
				return true
			})
			ast.Inspect(is.Else, func(m ast.Node) bool {
				if as, ok := m.(*ast.AssignStmt); ok && len(as.Lhs) == 1 && usedVar(info, as.Lhs[0]) == clb {
					if se, ok := unparen(as.Rhs[0]).(*ast.SliceExpr); ok && se.Low == nil {
						if z, ok := constInt(info, se.High); ok && z == 0 {
							emptyCL = true
						}
					}
				}
				return true
			})
			r.Check(delTE, rule, fname+":fixed-drops-te", w.Pos(is.Pos()), "a fixed length removes Transfer-Encoding", "the contentLength >= 0 branch does not delete the Transfer-Encoding header: both framings would be emitted")
			r.Check(emptyCL, rule, fname+":chunked-drops-cl", w.Pos(is.Pos()), "a negative length empties contentLengthBytes", "the negative branch does not reset contentLengthBytes: Content-Length would be emitted next to Transfer-Encoding")
			return false
		})
		r.Check(found, rule, fname+":has-branch", w.Pos(fi.Decl.Pos()), "SetContentLength branches on contentLength >= 0", "no `if contentLength >= 0 {…} else {…}` found")
	}
}

// C04.fresh — the response header a request starts with carries no framing left over from
// the previous response on the connection (body-less responses never rewrite it).
func c04Fresh(e *Env) {
	resetObligations(e, "C04.fresh", func(tg resetTarget, field string) bool {
		return (tg.Typ == "ResponseHeader" || tg.Typ == "Response") && tg.Meth == "Reset"
	})
}
