package rules

import (
	"fmt"
	"go/ast"
	"go/types"
	"hzcheck/core"
	"sort"
	"strings"

	"golang.org/x/tools/go/ssa"
)

func init() {
	register("C13", c13Stable, c13Append, c13Accumulate, c13Release, c13Len, c13Remainder, c13Window, c13Alias, c13TailPtr, c13WriterReset, c13CopyNode, c13ReadLen, c13AbortFirst, c13Cursors, c04ReadCommit)
}

const pkgStd = Mod + "/pkg/network/standard"

// C13.stable — nothing that merely looks at the input buffer may recycle its memory.
func c13Stable(e *Env) {
	const rule = "C13.stable"
	w, r := e.W, e.R
	r.Explainf("C13.stable: who-may-call over the static call graph (go/ssa) of package network/standard: the functions that give buffer memory back (free, mcache.Free, linkBufferNode.Release, linkBufferNode.Reset, Conn.releaseCaches) are not reachable from the observing reader operations Peek, peekBuffer, fill, Skip, ReadByte, ReadBinary and Len — only Release (and the copying Read/next path, Close) may reach them; and the memory a cross-node Peek hands out from the pooled allocator is recorded in Conn.caches in the same function, so it lives until the next Release. This is the structural half of `a peeked slice stays unchanged until the next release`.")
	w.BuildSSA()
	recycle := map[*ssa.Function]string{}
	look := func(recv, name string) *ssa.Function {
		fi := w.Func("pkg/network/standard", recv, name)
		if fi == nil {
			r.Anchor(rule, "standard."+recv+"."+name)
			return nil
		}
		return w.SSAFunc(fi)
	}
	for _, x := range [][2]string{{"", "free"}, {"linkBufferNode", "Release"}, {"linkBufferNode", "Reset"}, {"Conn", "releaseCaches"}, {"linkBuffer", "release"}} {
		if f := look(x[0], x[1]); f != nil {
			recycle[f] = x[0] + "." + x[1]
		}
	}
	isRecycleCall := func(c *ssa.CallCommon) (string, bool) {
		callee := c.StaticCallee()
		if callee == nil {
			return "", false
		}
		if n, ok := recycle[callee]; ok {
			return n, true
		}
		if callee.Pkg != nil && strings.HasSuffix(callee.Pkg.Pkg.Path(), "lang/mcache") && callee.Name() == "Free" {
			return "mcache.Free", true
		}
		return "", false
	}
	var reach func(f *ssa.Function, seen map[*ssa.Function]bool, path []string) []string
	reach = func(f *ssa.Function, seen map[*ssa.Function]bool, path []string) []string {
		if f == nil || seen[f] || f.Blocks == nil {
			return nil
		}
		seen[f] = true
		for _, b := range f.Blocks {
			for _, ins := range b.Instrs {
				ci, ok := ins.(ssa.CallInstruction)
				if !ok {
					continue
				}
				if n, ok := isRecycleCall(ci.Common()); ok {
					return append(path, f.Name()+" → "+n+" @"+w.Pos(ins.Pos()))
				}
				if callee := ci.Common().StaticCallee(); callee != nil && callee.Pkg != nil && callee.Pkg.Pkg.Path() == pkgStd {
					if p := reach(callee, seen, append(path, f.Name())); p != nil {
						return p
					}
				}
			}
		}
		return nil
	}
	observers := []string{"Peek", "peekBuffer", "fill", "Skip", "ReadByte", "ReadBinary", "Len"}
	n := 0
	for _, name := range observers {
		f := look("Conn", name)
		if f == nil {
			continue
		}
		n++
		p := reach(f, map[*ssa.Function]bool{}, nil)
		r.Check(p == nil, rule, "Conn."+name+":no-recycle", w.Pos(f.Pos()), "Conn."+name+" cannot reach a function that recycles input-buffer memory", "call path "+strings.Join(p, " ; ")+": memory a caller may still hold from an earlier Peek is given back to the allocator and can be overwritten")
	}
	r.Floor(rule, n, 7, "observing reader operations checked")
	// positive control: Release must reach a recycler (the rule is not vacuous)
	if f := look("Conn", "Release"); f != nil {
		p := reach(f, map[*ssa.Function]bool{}, nil)
		r.Check(p != nil, rule, "Conn.Release:reaches-recycle", w.Pos(f.Pos()), "control: Conn.Release does reach the recycling functions", "Release no longer recycles anything: the who-may-call table is stale")
	}
	var rn []string
	for _, v := range recycle {
		rn = append(rn, v)
	}
	sort.Strings(rn)
	r.Unit("%s: recycling functions %v + mcache.Free; observers %v", rule, rn, observers)
	// pooled memory handed out by Peek is recorded in caches
	pk := w.Func("pkg/network/standard", "Conn", "Peek")
	caches := w.Field("pkg/network/standard", "Conn", "caches")
	if pk == nil || caches == nil {
		r.Anchor(rule, "Conn.Peek / Conn.caches")
		return
	}
	info := pk.Pkg.TypesInfo
	par := parents(pk.Decl)
	k := 0
	ast.Inspect(pk.Decl.Body, func(nd ast.Node) bool {
		as, ok := nd.(*ast.AssignStmt)
		if !ok || len(as.Rhs) != 1 || len(as.Lhs) != 1 {
			return true
		}
		c, ok := unparen(as.Rhs[0]).(*ast.CallExpr)
		if !ok {
			return true
		}
		f := calleeOf(info, c)
		if f == nil || f.Name() != "malloc" || f.Pkg() == nil || f.Pkg().Path() != pkgStd {
			return true
		}
		k++
		v := usedVar(info, as.Lhs[0])
		recorded := false
		if blk, ok := par[as].(*ast.BlockStmt); ok {
			for i, s := range blk.List {
				if s == ast.Stmt(as) && i+1 < len(blk.List) {
					if a2, ok := blk.List[i+1].(*ast.AssignStmt); ok && len(a2.Lhs) == 1 && usedVar(info, a2.Lhs[0]) == caches {
						if ap, ok := unparen(a2.Rhs[0]).(*ast.CallExpr); ok && isBuiltin(info, ap, "append") && len(ap.Args) == 2 && usedVar(info, ap.Args[0]) == caches && usedVar(info, ap.Args[1]) == v {
							recorded = true
						}
					}
				}
			}
		}
		r.Check(recorded, rule, fmt.Sprintf("Conn.Peek:malloc#%d:recorded", k), w.Pos(as.Pos()), "pooled memory handed out by Peek is appended to Conn.caches right away", "the malloc result is not recorded in c.caches: it is either leaked or freed elsewhere while the caller still reads it")
		return true
	})
	r.Floor(rule, k, 1, "pooled allocations in Conn.Peek")
	_ = types.Typ
}

// C13.append — filling the input buffer only appends behind the bytes already received.
func c13Append(e *Env) {
	const rule = "C13.append"
	w, r := e.W, e.R
	r.Explainf("C13.append: in Conn.fill every read from the underlying connection writes into `node.buf[node.malloc:]` of the write node (slice low bound = that node's write offset), and the only change to a node's read/write offsets in the observing operations is `malloc += n` in fill and `off += n` in Skip — received-but-unread bytes [off, malloc) are never overwritten or moved by a fill.")
	fill := w.Func("pkg/network/standard", "Conn", "fill")
	malloc := w.Field("pkg/network/standard", "linkBufferNode", "malloc")
	off := w.Field("pkg/network/standard", "linkBufferNode", "off")
	if fill == nil || malloc == nil || off == nil {
		r.Anchor(rule, "Conn.fill / linkBufferNode.malloc / off")
		return
	}
	info := fill.Pkg.TypesInfo
	n := 0
	// fill and the private helpers only it calls (a read loop moved out of fill)
	family := []*core.FuncInfo{fill}
	for _, c := range funcsCallingIn(fill, func(f *types.Func) bool {
		rn := recvNamed(f)
		return rn != nil && rn.Obj().Name() == "Conn" && !f.Exported()
	}) {
		if d := w.DeclOf(calleeOf(info, c)); d != nil && d != fill && d.Decl.Body != nil {
			onlyFill := true
			for _, o := range declaredNonTest(w) {
				if o != fill && o.Pkg == fill.Pkg && len(funcsCallingIn(o, func(f *types.Func) bool { return f == d.Obj })) > 0 {
					onlyFill = false
				}
			}
			if onlyFill {
				family = append(family, d)
			}
		}
	}
	inFamily := map[string]bool{}
	for _, d := range family {
		inFamily[d.Obj.Name()] = true
	}
	for _, member := range family {
		ast.Inspect(member.Decl.Body, func(nd ast.Node) bool {
			c, ok := nd.(*ast.CallExpr)
			if !ok {
				return true
			}
			f := calleeOf(info, c)
			if f == nil || f.Name() != "Read" || len(c.Args) != 1 {
				return true
			}
			n++
			okSlice := false
			if se, ok := unparen(c.Args[0]).(*ast.SliceExpr); ok && se.Low != nil && usedVar(info, se.Low) == malloc && se.High == nil {
				okSlice = true
			}
			r.Check(okSlice, rule, fmt.Sprintf("Conn.fill:read#%d", n), w.Pos(c.Pos()), "the connection is read into buf[malloc:] only", "fill reads into `"+types.ExprString(c.Args[0])+"`: bytes that were received (and possibly peeked) but not consumed can be overwritten")
			return true
		})
	}
	r.Floor(rule, n, 1, "underlying reads in Conn.fill")
	// offset writers in the observing operations
	names := []string{"Peek", "peekBuffer", "fill", "Skip", "ReadByte", "ReadBinary", "Len"}
	for _, d := range family[1:] {
		names = append(names, d.Obj.Name())
	}
	for _, name := range names {
		fi := w.Func("pkg/network/standard", "Conn", name)
		if fi == nil {
			continue
		}
		finfo := fi.Pkg.TypesInfo
		k := 0
		ast.Inspect(fi.Decl.Body, func(nd ast.Node) bool {
			as, ok := nd.(*ast.AssignStmt)
			if !ok {
				return true
			}
			for _, l := range as.Lhs {
				v := usedVar(finfo, l)
				if v != malloc && v != off {
					continue
				}
				k++
				key := fmt.Sprintf("Conn.%s:%s-write#%d", name, v.Name(), k)
				ok := as.Tok.String() == "+=" && ((v == malloc && (inFamily[name] || inFamily[fi.Obj.Name()])) || (v == off && name == "Skip"))
				r.Check(ok, rule, key, w.Pos(as.Pos()), "offsets only advance: malloc += n in fill, off += n in Skip", "`"+types.ExprString(l)+" "+as.Tok.String()+" …` in "+name+" moves a buffer offset in a way that can expose stale or drop unread bytes")
			}
			return true
		})
	}
}
