package rules

import (
	"fmt"
	"go/ast"
	"go/token"
	"go/types"
	"strings"

	"hzcheck/core"
	"hzcheck/esp"
)

func init() {
	register("C18", c18Atomic, func(e *Env) { serveLoop(e, "C18") }, c18Active, c18Bounded, c18Lock, c18WaitGroup, c18Drain, c18HooksFirst, c18Closes)
}

func isAtomicFn(f *types.Func) bool {
	return f != nil && f.Pkg() != nil && f.Pkg().Path() == "sync/atomic"
}

// C18.atomic — status/active are only touched atomically; the status moves forward only.
func c18Atomic(e *Env) {
	const rule = "C18.atomic"
	w, r := e.W, e.R
	r.Explainf("C18.atomic: every use of Engine.status and of the standard transport's active counter is the operand `&x.f` of a sync/atomic function; CompareAndSwap pairs on status are exactly (0→initialized), (initialized→running), (running→shutdown) and the only Store is closed (constants read from their declarations); Engine.Shutdown's first statement returns the not-running error when status != running and its second is the running→shutdown CAS, before any other effect.")
	status := w.Field("pkg/route", "Engine", "status")
	active := w.Field("pkg/network/standard", "transport", "active")
	if status == nil || active == nil {
		r.Anchor(rule, "route.Engine.status / standard.transport.active")
		return
	}
	cval := func(name string) (int, bool) {
		c, ok := w.Object("pkg/route", name).(*types.Const)
		if !ok {
			return 0, false
		}
		var n int
		fmt.Sscan(c.Val().String(), &n)
		return n, true
	}
	ini, ok1 := cval("statusInitialized")
	run, ok2 := cval("statusRunning")
	shut, ok3 := cval("statusShutdown")
	closed, ok4 := cval("statusClosed")
	if !(ok1 && ok2 && ok3 && ok4) {
		r.Anchor(rule, "route.status* constants")
		return
	}
	r.Check(0 < ini && ini < run && run < shut && shut < closed, rule, "status-order", "-", "0 < initialized < running < shutdown < closed", "status constants are not strictly increasing")
	allowedCAS := map[[2]int]bool{{0, ini}: true, {ini, run}: true, {run, shut}: true}
	nAcc := 0
	for _, fi := range declaredNonTest(w) {
		info := fi.Pkg.TypesInfo
		fname := w.FuncName(fi.Obj)
		par := parents(fi.Decl)
		k := 0
		ast.Inspect(fi.Decl.Body, func(n ast.Node) bool {
			se, ok := n.(*ast.SelectorExpr)
			if !ok {
				return true
			}
			v := usedVar(info, se)
			if v != status && v != active {
				return true
			}
			nAcc++
			k++
			key := fmt.Sprintf("%s:%s#%d", fname, v.Name(), k)
			pos := w.Pos(se.Pos())
			u, isAddr := par[se].(*ast.UnaryExpr)
			var call *ast.CallExpr
			if isAddr && u.Op == token.AND {
				call, _ = par[u].(*ast.CallExpr)
			}
			f := (*types.Func)(nil)
			if call != nil {
				f = calleeOf(info, call)
			}
			if !isAtomicFn(f) {
				r.Fail(rule, key, pos, v.Name()+" is only accessed through sync/atomic", "plain (non-atomic) access `"+types.ExprString(se)+"`: a concurrent Shutdown/Serve races on it")
				return true
			}
			if v != status {
				r.OK(rule, key, pos, v.Name()+" is only accessed through sync/atomic")
				return true
			}
			switch {
			case strings.HasPrefix(f.Name(), "CompareAndSwap") && len(call.Args) == 3:
				o, okO := constInt(info, call.Args[1])
				nw, okN := constInt(info, call.Args[2])
				r.Check(okO && okN && allowedCAS[[2]int{o, nw}], rule, key, pos, "status transition is one of init→running→shutdown", fmt.Sprintf("CAS(%s → %s) is not an allowed transition", types.ExprString(call.Args[1]), types.ExprString(call.Args[2])))
			case strings.HasPrefix(f.Name(), "Store") && len(call.Args) == 2:
				nv, okN := constInt(info, call.Args[1])
				r.Check(okN && nv == closed, rule, key, pos, "the only unconditional status store is `closed`", "Store of "+types.ExprString(call.Args[1])+" (only the final closed state may be stored unconditionally)")
			case strings.HasPrefix(f.Name(), "Load"):
				r.OK(rule, key, pos, "atomic load of status")
			default:
				r.Fail(rule, key, pos, "status is changed by CAS/Store only", "atomic."+f.Name()+" on status")
			}
			return true
		})
	}
	r.Floor(rule, nAcc, 6, "accesses to Engine.status / transport.active")
	// Shutdown prologue
	sd := w.Func("pkg/route", "Engine", "Shutdown")
	notRunning, _ := w.Object("pkg/route", "errStatusNotRunning").(*types.Var)
	if sd == nil || notRunning == nil {
		r.Anchor(rule, "Engine.Shutdown / errStatusNotRunning")
		return
	}
	info := sd.Pkg.TypesInfo
	list := sd.Decl.Body.List
	okFirst, okSecond := false, false
	if len(list) >= 2 {
		if is, ok := list[0].(*ast.IfStmt); ok && terminates(is.Body) {
			if be, ok := unparen(is.Cond).(*ast.BinaryExpr); ok && be.Op == token.NEQ {
				if c, ok := unparen(be.X).(*ast.CallExpr); ok && isAtomicFn(calleeOf(info, c)) && refersTo2(info, c, status) {
					if v, ok := constInt(info, be.Y); ok && v == run {
						if rs, ok := is.Body.List[len(is.Body.List)-1].(*ast.ReturnStmt); ok && len(rs.Results) == 1 && usedVar(info, rs.Results[0]) == notRunning {
							okFirst = true
						}
					}
				}
			}
		}
		if is, ok := list[1].(*ast.IfStmt); ok && terminates(is.Body) {
			if u, ok := unparen(is.Cond).(*ast.UnaryExpr); ok && u.Op == token.NOT {
				if c, ok := unparen(u.X).(*ast.CallExpr); ok && isAtomicFn(calleeOf(info, c)) && strings.HasPrefix(calleeOf(info, c).Name(), "CompareAndSwap") && refersTo2(info, c, status) {
					okSecond = true
				}
			}
		}
	}
	r.Check(okFirst, rule, w.FuncName(sd.Obj)+":not-running-first", w.Pos(sd.Decl.Pos()), "Shutdown of a server that is not running returns the not-running error before any effect", "first statement is not `if atomic.Load(&status) != statusRunning { return errStatusNotRunning }`")
	r.Check(okSecond, rule, w.FuncName(sd.Obj)+":single-winner", w.Pos(sd.Decl.Pos()), "concurrent Shutdown calls: exactly one wins the running→shutdown CAS, the others return", "second statement is not `if !atomic.CompareAndSwap(&status, running, shutdown) { return }`")
}

// refersTo2: e mentions the struct field v through a selector.
func refersTo2(info *types.Info, e ast.Node, v *types.Var) bool {
	found := false
	ast.Inspect(e, func(n ast.Node) bool {
		if se, ok := n.(*ast.SelectorExpr); ok && usedVar(info, se) == v {
			found = true
		}
		return !found
	})
	return found
}

// C18.active — every accepted connection is counted in and counted out.
func c18Active(e *Env) {
	const rule = "C18.active"
	w, r := e.W, e.R
	r.Explainf("C18.active: ESP typestate on the accept loop of the standard transport: after updateActive(+1) no path returns or re-enters the loop before the connection goroutine is started, and the goroutine's function literal calls updateActive(-1) on every one of its exits (so Shutdown's wait for active == 0 terminates and does not terminate early).")
	upd := w.Func("pkg/network/standard", "transport", "updateActive")
	serve := w.Func("pkg/network/standard", "transport", "serve")
	if upd == nil || serve == nil {
		r.Anchor(rule, "standard.transport.updateActive / serve")
		return
	}
	info := serve.Pkg.TypesInfo
	fname := w.FuncName(serve.Obj)
	delta := func(call *ast.CallExpr) (int, bool) {
		if calleeOf(info, call) != upd.Obj || len(call.Args) != 1 {
			return 0, false
		}
		return constInt(info, call.Args[0])
	}
	var goLit *ast.FuncLit
	var goDecl *core.FuncInfo // when the goroutine runs a declared function instead of a literal
	nGo := 0
	// an accepted connection is counted before anything else runs for it: between a successful
	// Accept and updateActive(+1) there is no call into user callbacks or other module code
	// (Shutdown polls the counter; an uncounted connection whose OnAccept/OnConnect hook is
	// still running is invisible to it)
	isAccept := func(f *types.Func) bool {
		return f != nil && f.Name() == "Accept" && f.Pkg() != nil && f.Pkg().Path() == "net"
	}
	nAccept := 0
	rl := &esp.Rule{Name: rule, Init: "idle",
		Track: func(k string) bool { return k == "err == nil" },
		Call: func(c *esp.Ctx, call *ast.CallExpr, f *types.Func) {
			if isAccept(f) {
				nAccept++
				if c.S.TS == "idle" {
					c.S.TS = "accepted?"
				}
				return
			}
			if d, ok := delta(call); ok && d == 1 {
				if c.S.TS != "idle" && c.S.TS != "accepted" && c.S.TS != "accepted?" {
					c.Violate(call.Pos(), fname+":double-count", "connection counted twice")
				}
				c.S.TS = "counted"
				return
			}
			if c.S.TS == "accepted" {
				// dynamic calls (callback fields) and calls into the module before the count
				if f == nil || (f.Pkg() != nil && strings.HasPrefix(f.Pkg().Path(), Mod)) {
					c.Violate(call.Pos(), fname+":"+c.SiteKey(call)+":before-count", "`"+types.ExprString(call.Fun)+"(…)` runs for an accepted connection before updateActive(+1): a shutdown that starts meanwhile sees active == 0 and returns while the connection's request is still unanswered")
				}
			}
		},
		Branch: func(c *esp.Ctx, cond ast.Expr, val bool) {
			if c.S.TS != "accepted?" {
				return
			}
			if ok, isNil := errNilCond(info, cond, val); ok {
				if isNil {
					c.S.TS = "accepted"
				} else {
					c.S.TS = "idle"
				}
			}
		},
		Node: func(c *esp.Ctx, n ast.Node) {
			if g, ok := n.(*ast.GoStmt); ok {
				// the goroutine body: a function literal, or a declared function/method of the module
				fl, isLit := g.Call.Fun.(*ast.FuncLit)
				var gd *core.FuncInfo
				if !isLit {
					if d := w.DeclOf(calleeOf(info, g.Call)); d != nil && d.Decl.Body != nil && d.Pkg == serve.Pkg {
						gd = d
					}
				}
				if !isLit && gd == nil {
					return
				}
				if c.S.TS == "accepted" || c.S.TS == "accepted?" {
					c.Violate(g.Pos(), fname+":goroutine-uncounted", "the connection goroutine is started for a connection that was never counted active")
				}
				if c.S.TS == "counted" {
					goLit, goDecl = fl, gd
					nGo++
					c.S.TS = "idle"
				}
			}
		},
		Exit: func(c *esp.Ctx) {
			if c.S.TS == "counted" && !c.S.Panic {
				c.Violate(c.S.Ret, fname+":counted-exit", "accept loop returns after counting a connection in without starting its goroutine (active never drops back)")
			}
		},
	}
	ex := esp.New(w, serve, rl)
	vs := ex.Run(serve)
	r.Unit("%s: %s — %d states", rule, fname, ex.Steps)
	for _, v := range vs {
		r.Fail(rule, v.Key, w.Pos(v.Pos), "an accepted connection is handed to its goroutine once counted", v.Msg, v.Path...)
	}
	if len(vs) == 0 {
		r.OK(rule, fname+":accept-loop", w.Pos(serve.Decl.Pos()), "counted connections always reach their goroutine")
	}
	if goLit == nil && goDecl == nil {
		r.Fail(rule, fname+":goroutine", w.Pos(serve.Decl.Pos()), "the connection goroutine is started after updateActive(+1)", "no `go func(…){…}` / `go method(…)` following updateActive(1) found")
		return
	}
	// the goroutine body: every exit passes updateActive(-1) exactly once
	var lit *core.FuncInfo
	goPos := serve.Decl.Pos()
	if goLit != nil {
		lit = &core.FuncInfo{Obj: serve.Obj, Pkg: serve.Pkg, Decl: &ast.FuncDecl{Name: ast.NewIdent("conn-goroutine"), Type: goLit.Type, Body: goLit.Body}}
		goPos = goLit.Pos()
	} else {
		lit = goDecl
		goPos = goDecl.Decl.Pos()
	}
	rl2 := &esp.Rule{Name: rule, Init: "in",
		Call: func(c *esp.Ctx, call *ast.CallExpr, f *types.Func) {
			if d, ok := delta(call); ok && d == -1 {
				if c.S.TS != "in" {
					c.Violate(call.Pos(), fname+"$go:double-out", "connection counted out twice")
				}
				c.S.TS = "out"
			}
		},
		Exit: func(c *esp.Ctx) {
			if c.S.TS != "out" && !c.S.Panic {
				c.Violate(c.S.Ret, fname+"$go:exit-without-out", "the connection goroutine can end without updateActive(-1): Shutdown then waits for the full timeout")
			}
		},
	}
	ex2 := esp.New(w, lit, rl2)
	vs2 := ex2.Run(lit)
	for _, v := range vs2 {
		r.Fail(rule, v.Key, w.Pos(v.Pos), "the connection goroutine counts itself out on every exit", v.Msg, v.Path...)
	}
	if len(vs2) == 0 {
		r.OK(rule, fname+"$go:paths", w.Pos(goPos), fmt.Sprintf("updateActive(-1) on all %d exits of the connection goroutine", ex2.Exits))
	}
}

// C18.bounded — nothing in the shutdown path blocks without a deadline.
func c18Bounded(e *Env) {
	const rule = "C18.bounded"
	w, r := e.W, e.R
	r.Explainf("C18.bounded: in Engine.Shutdown, standard.transport.Shutdown and netpoll.transporter.Shutdown: every receive outside a select is from a time.Ticker/Timer channel; every select without default has a case receiving from ctx.Done(); the context handed to the transport and to the hooks is the one derived with context.WithTimeout(ctx, ExitWaitTimeout); in the standard transport the listener is closed before the first wait; the netpoll transport hands its ctx unchanged to the event loop's Shutdown.")
	type target struct{ rel, recv, name string }
	for _, t := range []target{{"pkg/route", "Engine", "Shutdown"}, {"pkg/network/standard", "transport", "Shutdown"}, {"pkg/network/netpoll", "transporter", "Shutdown"}} {
		fi := w.Func(t.rel, t.recv, t.name)
		if fi == nil {
			if t.rel == "pkg/network/netpoll" && strings.Contains(e.Config, "windows") {
				continue
			}
			r.Anchor(rule, t.rel+"."+t.recv+"."+t.name)
			continue
		}
		info := fi.Pkg.TypesInfo
		fname := w.FuncName(fi.Obj)
		par := parents(fi.Decl)
		isDone := func(e ast.Expr) bool {
			c, ok := unparen(e).(*ast.CallExpr)
			if !ok {
				return false
			}
			f := calleeOf(info, c)
			return f != nil && f.Name() == "Done" && f.Pkg() != nil && f.Pkg().Path() == "context"
		}
		isTick := func(e ast.Expr) bool {
			se, ok := unparen(e).(*ast.SelectorExpr)
			if !ok || se.Sel.Name != "C" {
				return false
			}
			t := info.TypeOf(se.X)
			return t != nil && (strings.HasSuffix(t.String(), "time.Ticker") || strings.HasSuffix(t.String(), "time.Timer"))
		}
		nRecv, nSel := 0, 0
		ast.Inspect(fi.Decl.Body, func(n ast.Node) bool {
			switch x := n.(type) {
			case *ast.UnaryExpr:
				if x.Op != token.ARROW {
					return true
				}
				// inside a select comm clause?
				if cc := enclosing(par, x, func(n ast.Node) bool { _, ok := n.(*ast.CommClause); return ok }); cc != nil && within(x, cc.(*ast.CommClause).Comm) {
					return true
				}
				nRecv++
				r.Check(isTick(x.X), rule, fmt.Sprintf("%s:recv#%d", fname, nRecv), w.Pos(x.Pos()), "a bare receive waits on a ticker/timer only", "blocking receive from `"+types.ExprString(x.X)+"` has no deadline")
			case *ast.SelectStmt:
				nSel++
				hasDefault, hasDone := false, false
				for _, c := range x.Body.List {
					cc := c.(*ast.CommClause)
					if cc.Comm == nil {
						hasDefault = true
						continue
					}
					ast.Inspect(cc.Comm, func(m ast.Node) bool {
						if u, ok := m.(*ast.UnaryExpr); ok && u.Op == token.ARROW && isDone(u.X) {
							hasDone = true
						}
						return true
					})
				}
				r.Check(hasDefault || hasDone, rule, fmt.Sprintf("%s:select#%d", fname, nSel), w.Pos(x.Pos()), "a blocking select can always leave through ctx.Done()", "select without default and without a `<-ctx.Done()` case: it can block past the exit wait time")
			case *ast.CallExpr:
				if f := calleeOf(info, x); f != nil && f.Name() == "Wait" && f.Pkg() != nil && f.Pkg().Path() == "sync" {
					r.Fail(rule, fname+":waitgroup", w.Pos(x.Pos()), "no unbounded WaitGroup wait in the shutdown path", "sync.WaitGroup.Wait() blocks without a deadline")
				}
			}
			return true
		})
		r.Unit("%s: %s — %d bare receives, %d selects", rule, fname, nRecv, nSel)
		switch t.recv {
		case "Engine":
			// ctx derivation and hand-over
			exitWait := w.Field("pkg/common/config", "Options", "ExitWaitTimeout")
			var derived *types.Var
			ast.Inspect(fi.Decl.Body, func(n ast.Node) bool {
				if as, ok := n.(*ast.AssignStmt); ok && len(as.Rhs) == 1 && len(as.Lhs) == 2 {
					if c, ok := unparen(as.Rhs[0]).(*ast.CallExpr); ok {
						if f := calleeOf(info, c); f != nil && f.Name() == "WithTimeout" && f.Pkg().Path() == "context" && len(c.Args) == 2 && exitWait != nil && usedVar(info, c.Args[1]) == exitWait {
							derived = usedVar(info, as.Lhs[0])
						}
					}
				}
				return true
			})
			r.Check(derived != nil, rule, fname+":deadline-context", w.Pos(fi.Decl.Pos()), "Shutdown derives its context with WithTimeout(ctx, ExitWaitTimeout)", "no `ctx, cancel := context.WithTimeout(ctx, opt.ExitWaitTimeout)` found")
			// the Done() a blocking select waits on is the deadline context's, not the caller's
			if derived != nil {
				k := 0
				ast.Inspect(fi.Decl.Body, func(n ast.Node) bool {
					sel, ok := n.(*ast.SelectStmt)
					if !ok {
						return true
					}
					k++
					good := false
					for _, c := range sel.Body.List {
						cc := c.(*ast.CommClause)
						if cc.Comm == nil {
							good = true // has default: does not block
							continue
						}
						ast.Inspect(cc.Comm, func(m ast.Node) bool {
							if u, ok := m.(*ast.UnaryExpr); ok && u.Op == token.ARROW {
								if c2, ok := unparen(u.X).(*ast.CallExpr); ok && isDone(c2) {
									if se, ok := c2.Fun.(*ast.SelectorExpr); ok && usedVar(info, se.X) == derived {
										good = true
									}
								}
							}
							return true
						})
					}
					r.Check(good, rule, fmt.Sprintf("%s:select#%d:deadline-ctx", fname, k), w.Pos(sel.Pos()), "the blocking select waits on the Done() of the ExitWaitTimeout context", "the select's Done() case belongs to another context (the caller's): with context.Background() the wait for the hooks is unbounded")
					return true
				})
			}
			if derived != nil {
				okT, okH := false, false
				ast.Inspect(fi.Decl.Body, func(n ast.Node) bool {
					if c, ok := n.(*ast.CallExpr); ok {
						f := calleeOf(info, c)
						if f != nil && f.Name() == "Shutdown" && len(c.Args) == 1 && usedVar(info, c.Args[0]) == derived {
							okT = true
						}
						if f != nil && f.Name() == "executeOnShutdownHooks" && len(c.Args) == 1 && usedVar(info, c.Args[0]) == derived {
							okH = true
						}
					}
					return true
				})
				r.Check(okT, rule, fname+":transport-gets-deadline", w.Pos(fi.Decl.Pos()), "the transport's Shutdown receives the deadline context", "transport.Shutdown is not called with the WithTimeout context")
				r.Check(okH, rule, fname+":hooks-get-deadline", w.Pos(fi.Decl.Pos()), "shutdown hooks receive the deadline context", "executeOnShutdownHooks is not called with the WithTimeout context")
				// the derivation must precede the first wait / transport call and the hook goroutine must not be awaited directly
			}
		case "transport":
			// listener closed before the first receive/select
			var closePos, firstWait token.Pos
			ast.Inspect(fi.Decl.Body, func(n ast.Node) bool {
				switch x := n.(type) {
				case *ast.CallExpr:
					if f := calleeOf(info, x); f != nil && f.Name() == "Close" && f.Pkg() != nil && f.Pkg().Path() == "net" && !closePos.IsValid() {
						closePos = x.Pos()
					}
				case *ast.UnaryExpr:
					if x.Op == token.ARROW && !firstWait.IsValid() {
						firstWait = x.Pos()
					}
				case *ast.SelectStmt:
					if !firstWait.IsValid() {
						firstWait = x.Pos()
					}
				}
				return true
			})
			r.Check(closePos.IsValid() && (!firstWait.IsValid() || closePos < firstWait), rule, fname+":listener-closed-first", w.Pos(fi.Decl.Pos()), "the listener is closed before Shutdown starts waiting (no new connection is accepted afterwards)", "no net.Listener.Close() before the first wait")
		case "transporter":
			ok := false
			ctxParam := fi.Obj.Type().(*types.Signature).Params().At(0)
			ast.Inspect(fi.Decl.Body, func(n ast.Node) bool {
				if c, isC := n.(*ast.CallExpr); isC {
					if f := calleeOf(info, c); f != nil && f.Name() == "Shutdown" && len(c.Args) == 1 && usedVar(info, c.Args[0]) == ctxParam {
						ok = true
					}
				}
				return true
			})
			r.Check(ok, rule, fname+":ctx-forwarded", w.Pos(fi.Decl.Pos()), "the event loop's Shutdown receives the caller's context", "ctx is not forwarded unchanged to EventLoop.Shutdown")
		}
	}
}

func c18Lock(e *Env) {
	tbl := []guard{{Rel: "pkg/network/standard", Typ: "transport", Field: "ln", Lock: "mu"}}
	if !strings.Contains(e.Config, "windows") { // transport.go is //go:build !windows
		tbl = append(tbl, guard{Rel: "pkg/network/netpoll", Typ: "transporter", Field: "ln", Lock: "mu"}, guard{Rel: "pkg/network/netpoll", Typ: "transporter", Field: "el", Lock: "mu"})
	}
	guardedBy(e, "C18.lock", tbl, nil)
}
