package rules

import (
	"fmt"
	"go/token"
	"go/types"
	"sort"
	"strings"

	"golang.org/x/tools/go/ssa"

	"hzcheck/core"
)

func init() {
	// the buffered connection is what re-delivers the same bytes after a short read: its
	// accounting rules are necessary conditions of segmentation independence too
	register("C02", c02Retry, c13Release, c13Len, c13Remainder, c13Accumulate, c13Window, c14SkipBound, c13ReadLen, c13AbortFirst, c03EOFConv, c13Cursors, c02Rearm, c14SkipWait)
}

func isByteSliceT(t types.Type) bool { return isByteSlice(t) }

// sliceRoot follows Slice / Phi / Convert back to the value a byte slice derives from.
func sliceRoots(v ssa.Value, seen map[ssa.Value]bool, out map[ssa.Value]bool) {
	if seen[v] {
		return
	}
	seen[v] = true
	switch x := v.(type) {
	case *ssa.Slice:
		sliceRoots(x.X, seen, out)
	case *ssa.Phi:
		for _, e := range x.Edges {
			sliceRoots(e, seen, out)
		}
	case *ssa.ChangeType:
		sliceRoots(x.X, seen, out)
	case *ssa.UnOp:
		if x.Op == token.MUL {
			// load: identify by the address expression (field of the same object)
			if fa, ok := x.X.(*ssa.FieldAddr); ok {
				out[fieldKey{fa.X, fa.Field}] = true
				return
			}
		}
		out[v] = true
	default:
		out[v] = true
	}
}

type fieldKey struct {
	base  ssa.Value
	field int
}

func (fieldKey) Name() string                         { return "field" }
func (fieldKey) String() string                       { return "field" }
func (fieldKey) Type() types.Type                     { return nil }
func (fieldKey) Parent() *ssa.Function                { return nil }
func (fieldKey) Referrers() *[]ssa.Instruction        { return nil }
func (fieldKey) Operands(r []*ssa.Value) []*ssa.Value { return r }
func (fieldKey) Pos() token.Pos                       { return token.NoPos }

func rootsOf(v ssa.Value) map[ssa.Value]bool {
	o := map[ssa.Value]bool{}
	sliceRoots(v, map[ssa.Value]bool{}, o)
	return o
}

func overlapRoots(a, b map[ssa.Value]bool) bool {
	for k := range a {
		if b[k] {
			return true
		}
	}
	return false
}

// feedingLoads collects the element loads b[j] that a stored value depends on.
func feedingLoads(v ssa.Value, seen map[ssa.Value]bool, out *[]*ssa.IndexAddr) {
	if seen[v] {
		return
	}
	seen[v] = true
	switch x := v.(type) {
	case *ssa.UnOp:
		if x.Op == token.MUL {
			if ia, ok := x.X.(*ssa.IndexAddr); ok {
				*out = append(*out, ia)
			}
			return
		}
		feedingLoads(x.X, seen, out)
	case *ssa.BinOp:
		feedingLoads(x.X, seen, out)
		feedingLoads(x.Y, seen, out)
	case *ssa.Phi:
		for _, e := range x.Edges {
			feedingLoads(e, seen, out)
		}
	case *ssa.Convert:
		feedingLoads(x.X, seen, out)
	case *ssa.Index:
		feedingLoads(x.Index, seen, out)
	case *ssa.Lookup:
		feedingLoads(x.Index, seen, out)
	}
}

func sameIndex(a, b ssa.Value) bool {
	if a == b {
		return true
	}
	ca, ok1 := a.(*ssa.Const)
	cb, ok2 := b.(*ssa.Const)
	return ok1 && ok2 && ca.Value != nil && cb.Value != nil && ca.Value.String() == cb.Value.String()
}

// shiftingSites returns the positions in fn where bytes are moved inside one byte buffer:
// b[i] = f(b[j]) with i, j different values, or copy(b[x:], b[y:]).
func shiftingSites(fn *ssa.Function) []token.Pos {
	var out []token.Pos
	for _, b := range fn.Blocks {
		for _, ins := range b.Instrs {
			switch x := ins.(type) {
			case *ssa.Store:
				ia, ok := x.Addr.(*ssa.IndexAddr)
				if !ok || !isByteSliceT(ia.X.Type()) {
					continue
				}
				var loads []*ssa.IndexAddr
				feedingLoads(x.Val, map[ssa.Value]bool{}, &loads)
				for _, l := range loads {
					if isByteSliceT(l.X.Type()) && overlapRoots(rootsOf(ia.X), rootsOf(l.X)) && !sameIndex(l.Index, ia.Index) {
						out = append(out, x.Pos())
					}
				}
			case *ssa.Call:
				if bi, ok := x.Call.Value.(*ssa.Builtin); ok && bi.Name() == "copy" && isByteSliceT(x.Call.Args[0].Type()) {
					if overlapRoots(rootsOf(x.Call.Args[0]), rootsOf(x.Call.Args[1])) {
						out = append(out, x.Pos())
					}
				}
			}
		}
	}
	return out
}

// C02.retry — a parse attempt that may be retried on the same peeked bytes must not move
// bytes inside that buffer before the header block is known to be complete.
func c02Retry(e *Env) {
	const rule = "C02.retry"
	w, r := e.W, e.R
	r.Explainf("C02.retry: (1) effect summary over go/ssa: a function shifts bytes in a buffer when it stores to b[i] a value fed by b[j] with j ≠ i, or copies within one buffer (pointwise table maps b[i]=T[b[i]] are position-stable and allowed); closed over static callees. (2) every function that obtains the buffered bytes with ext.MustPeekBuffered and hands them to a parser is a retry entry (its caller loops on ErrNeedMore and re-parses the same bytes). (3) on every call path from that parser to a shifting function, some call on the path is dominated by a checked completeness guard — a function on the same buffer that can return the need-more error, never shifts and never stores into the buffer, with the err == nil edge of its test dominating the call, applied to the same buffer value (same slice bounds) that is then parsed. Sibling cross-check: all retry entries must satisfy the same rule.")
	z := getZone(w)
	_ = z
	fns := allSSAFuncs(w)
	name := map[*ssa.Function]string{}
	for _, f := range fns {
		name[f] = ssaFuncName(w, f)
	}
	// direct shifters (only functions taking or holding byte buffers in packages of the protocol stack)
	direct := map[*ssa.Function][]token.Pos{}
	for _, f := range fns {
		if s := shiftingSites(f); len(s) > 0 {
			direct[f] = s
		}
	}
	// static call graph restricted to module functions
	callees := map[*ssa.Function][]*ssa.Call{}
	for _, f := range fns {
		for _, b := range f.Blocks {
			for _, ins := range b.Instrs {
				if c, ok := ins.(*ssa.Call); ok {
					if g := c.Call.StaticCallee(); g != nil && g.Blocks != nil {
						callees[f] = append(callees[f], c)
					}
				}
			}
		}
	}
	// a callee "shifts its argument" when it receives a byte buffer (or an object holding one)
	// and reaches a direct shifter
	memo := map[*ssa.Function]int{} // 0 unknown, 1 reaches, 2 not, 3 busy
	var reaches func(f *ssa.Function) bool
	reaches = func(f *ssa.Function) bool {
		switch memo[f] {
		case 1:
			return true
		case 2, 3:
			return false
		}
		memo[f] = 3
		res := len(direct[f]) > 0
		if !res {
			for _, c := range callees[f] {
				if reaches(c.Call.StaticCallee()) {
					res = true
					break
				}
			}
		}
		if res {
			memo[f] = 1
		} else {
			memo[f] = 2
		}
		return res
	}
	// need-more error variables
	needMore := map[*ssa.Global]bool{}
	sentinel, _ := w.Object("pkg/common/errors", "ErrNeedMore").(*types.Var)
	if sentinel == nil {
		r.Anchor(rule, "errors.ErrNeedMore")
		return
	}
	pf := pkgVars(w)
	for v, init := range pf.init {
		if refersTo(pf.initInfo[v], init, sentinel) {
			if sp := w.SSAPkgs[v.Pkg()]; sp != nil {
				if g, ok := sp.Members[v.Name()].(*ssa.Global); ok {
					needMore[g] = true
				}
			}
		}
	}
	isGuard := func(f *ssa.Function) bool {
		if f.Blocks == nil || reaches(f) {
			return false
		}
		hasBuf := false
		for _, p := range f.Params {
			if isByteSliceT(p.Type()) {
				hasBuf = true
			}
		}
		if !hasBuf {
			return false
		}
		ret := false
		// a whole-block check scans line after line: it must contain a loop
		hasLoop := false
		for _, b := range f.Blocks {
			for _, s := range b.Succs {
				if s.Index <= b.Index && s.Dominates(b) {
					hasLoop = true
				}
			}
		}
		if !hasLoop {
			return false
		}
		for _, b := range f.Blocks {
			for _, ins := range b.Instrs {
				switch x := ins.(type) {
				case *ssa.Return:
					for _, rv := range x.Results {
						if mi, ok := rv.(*ssa.MakeInterface); ok {
							rv = mi.X
						}
						if u, ok := rv.(*ssa.UnOp); ok && u.Op == token.MUL {
							if g, ok := u.X.(*ssa.Global); ok && needMore[g] {
								ret = true
							}
						}
					}
				case *ssa.Store:
					if ia, ok := x.Addr.(*ssa.IndexAddr); ok && isByteSliceT(ia.X.Type()) {
						for _, p := range f.Params {
							if rootsOf(ia.X)[p] {
								return false // writes into its input
							}
						}
					}
				}
			}
		}
		return ret
	}
	// the byte buffers a call works on: its []byte arguments, or — for a method on a local
	// struct (the scanner) — the []byte values stored into that struct's fields
	buffersOf := func(fn *ssa.Function, c *ssa.Call) []ssa.Value {
		var out []ssa.Value
		for _, a := range c.Call.Args {
			if isByteSliceT(a.Type()) {
				out = append(out, a)
			}
		}
		if len(out) == 0 && len(c.Call.Args) > 0 {
			if al, ok := c.Call.Args[0].(*ssa.Alloc); ok {
				for _, b := range fn.Blocks {
					for _, ins := range b.Instrs {
						if st, ok := ins.(*ssa.Store); ok && isByteSliceT(st.Val.Type()) {
							if fa, ok := st.Addr.(*ssa.FieldAddr); ok && fa.X == ssa.Value(al) {
								out = append(out, st.Val)
							}
						}
					}
				}
			}
		}
		return out
	}
	sameBuf := func(a, b ssa.Value) bool {
		if a == b {
			return true
		}
		sa, ok1 := a.(*ssa.Slice)
		sb, ok2 := b.(*ssa.Slice)
		return ok1 && ok2 && sa.X == sb.X && sa.Low == sb.Low && sa.High == sb.High && sa.Max == sb.Max
	}
	// guardedAt: call c in fn is dominated by the err == nil edge of a checked guard call on the
	// same buffer value
	guardedAt := func(fn *ssa.Function, c *ssa.Call) (bool, string) {
		targets := buffersOf(fn, c)
		for _, gc := range callees[fn] {
			g := gc.Call.StaticCallee()
			if gc == c || !isGuard(g) {
				continue
			}
			if len(targets) > 0 {
				match := false
				for _, ga := range gc.Call.Args {
					for _, t := range targets {
						if isByteSliceT(ga.Type()) && sameBuf(ga, t) {
							match = true
						}
					}
				}
				if !match {
					continue // the guard looked at a different slice than the one that is parsed
				}
			}
			// error value of the guard call
			var errVals []ssa.Value
			if g.Signature.Results().Len() == 1 {
				errVals = append(errVals, gc)
			} else if refs := gc.Referrers(); refs != nil {
				for _, rf := range *refs {
					if ex, ok := rf.(*ssa.Extract); ok && ex.Type().String() == "error" {
						errVals = append(errVals, ex)
					}
				}
			}
			for _, ev := range errVals {
				refs := ev.Referrers()
				if refs == nil {
					continue
				}
				for _, rf := range *refs {
					cmp, ok := rf.(*ssa.BinOp)
					if !ok || (cmp.Op != token.NEQ && cmp.Op != token.EQL) {
						continue
					}
					crefs := cmp.Referrers()
					if crefs == nil {
						continue
					}
					for _, cr := range *crefs {
						iff, ok := cr.(*ssa.If)
						if !ok {
							continue
						}
						okSucc := iff.Block().Succs[1] // err != nil false ⇒ err == nil
						if cmp.Op == token.EQL {
							okSucc = iff.Block().Succs[0]
						}
						if okSucc.Dominates(c.Block()) && len(okSucc.Preds) == 1 {
							return true, name[g]
						}
					}
				}
			}
		}
		return false, ""
	}
	var unguarded func(fn *ssa.Function, depth int, seen map[*ssa.Function]bool) []string
	unguarded = func(fn *ssa.Function, depth int, seen map[*ssa.Function]bool) []string {
		if seen[fn] || depth > 8 {
			return nil
		}
		seen[fn] = true
		if len(direct[fn]) > 0 {
			return []string{name[fn] + " (shifts bytes at " + w.Pos(direct[fn][0]) + ")"}
		}
		for _, c := range callees[fn] {
			g := c.Call.StaticCallee()
			if !reaches(g) {
				continue
			}
			if ok, _ := guardedAt(fn, c); ok {
				continue
			}
			if p := unguarded(g, depth+1, seen); p != nil {
				return append([]string{name[fn] + " @" + w.Pos(c.Pos())}, p...)
			}
		}
		return nil
	}
	// retry entries
	mpb := w.Func("pkg/protocol/http1/ext", "", "MustPeekBuffered")
	if mpb == nil {
		r.Anchor(rule, "ext.MustPeekBuffered")
		return
	}
	mpbFn := w.SSAFunc(mpb)
	nEntries := 0
	var shiftNames []string
	for f := range direct {
		if reachesFromProtocol(name[f]) {
			shiftNames = append(shiftNames, name[f])
		}
	}
	sort.Strings(shiftNames)
	r.Unit("%s: byte-shifting functions in the protocol stack: %v", rule, shiftNames)
	var guards []string
	for _, f := range fns {
		if isGuard(f) {
			guards = append(guards, name[f])
		}
	}
	sort.Strings(guards)
	r.Unit("%s: completeness guards (loop over the buffer, can return need-more, never shift, never write their input): %v; need-more error variables: %d", rule, guards, len(needMore))
	for _, f := range fns {
		for _, c := range callees[f] {
			if c.Call.StaticCallee() != mpbFn {
				continue
			}
			// parsers receiving the peeked buffer
			for _, pc := range callees[f] {
				uses := false
				for _, a := range pc.Call.Args {
					if rootsOf(a)[c] {
						uses = true
					}
				}
				p := pc.Call.StaticCallee()
				if !uses || p == mpbFn || !reaches(p) {
					continue
				}
				nEntries++
				key := name[f] + "→" + name[p]
				path := unguarded(p, 0, map[*ssa.Function]bool{})
				r.Unit("%s: retry entry %s parses the peeked buffer with %s", rule, name[f], name[p])
				desc := "no byte of the peeked buffer is moved before the header block is known to be complete"
				if path == nil {
					r.OK(rule, key, w.Pos(pc.Pos()), desc)
				} else {
					r.Fail(rule, key, w.Pos(pc.Pos()), desc, "a parse attempt that can end in ErrNeedMore reaches a function that shifts bytes inside the peeked buffer without a dominating completeness check: when the block arrives in two reads, the first attempt rewrites a folded header value in place and the retry parses the rewritten bytes (different result than for the unsplit stream)", path...)
				}
			}
		}
	}
	r.Floor(rule, nEntries, 3, "retry entries (request header, response header, trailer)")
	// C02.confine: shifting inside the peeked connection buffer must stay inside the bytes being
	// normalised. A copy within the buffer whose source runs to the end of the buffer moves
	// everything that is already buffered behind it (body, pipelined messages) and leaves stale
	// duplicate bytes at the end of the buffered data.
	const rule2 = "C02.confine"
	r.Explainf("C02.confine: every byte-shifting function reachable from a retry-entry parser may only move bytes inside the value it normalises: a `copy(b[x:], b[y:])` within one buffer whose source slice has no upper bound shifts the whole tail of the peeked connection buffer — the body and any pipelined message already buffered — and leaves as many stale duplicate bytes at the end of the buffered data as were squeezed out, which are later parsed as the start of the next message.")
	confined := map[*ssa.Function]bool{}
	var collect func(f *ssa.Function, seen map[*ssa.Function]bool)
	collect = func(f *ssa.Function, seen map[*ssa.Function]bool) {
		if seen[f] {
			return
		}
		seen[f] = true
		if len(direct[f]) > 0 {
			confined[f] = true
		}
		for _, c := range callees[f] {
			if g := c.Call.StaticCallee(); reaches(g) {
				collect(g, seen)
			}
		}
	}
	for _, f := range fns {
		for _, c := range callees[f] {
			if c.Call.StaticCallee() == mpbFn {
				for _, pc := range callees[f] {
					if p := pc.Call.StaticCallee(); p != mpbFn && reaches(p) {
						collect(p, map[*ssa.Function]bool{})
					}
				}
			}
		}
	}
	nSh := 0
	for f := range confined {
		nSh++
		k := 0
		bad := false
		for _, b := range f.Blocks {
			for _, ins := range b.Instrs {
				call, ok := ins.(*ssa.Call)
				if !ok {
					continue
				}
				bi, ok := call.Call.Value.(*ssa.Builtin)
				if !ok || bi.Name() != "copy" || !isByteSliceT(call.Call.Args[0].Type()) || !overlapRoots(rootsOf(call.Call.Args[0]), rootsOf(call.Call.Args[1])) {
					continue
				}
				k++
				src, isSlice := call.Call.Args[1].(*ssa.Slice)
				if isSlice && src.High == nil {
					bad = true
					r.Fail(rule2, fmt.Sprintf("%s:copy#%d:tail-shift", name[f], k), w.Pos(call.Pos()), "in-place normalisation moves only the bytes of the value being normalised", "the copy's source slice has no upper bound: everything buffered after the folded value (remaining headers, body, pipelined requests) is moved and stale duplicate bytes remain at the end of the buffered data — e.g. a request with an obs-folded header and body \"hello\" makes the next request on the connection start with \"lo\"")
				}
			}
		}
		if !bad {
			r.OK(rule2, name[f]+":confined", w.Pos(f.Pos()), "byte shifting in "+name[f]+" has no open-ended tail copy")
		}
	}
	r.Floor(rule2, nSh, 1, "byte-shifting functions reachable from the retry parsers")
	r.Floor(rule, len(shiftNames), 1, "byte-shifting functions reachable in the protocol stack")
	_ = core.Mod
	_ = fmt.Sprint
}

func reachesFromProtocol(n string) bool {
	return strings.HasPrefix(n, "pkg/protocol") || strings.HasPrefix(n, "pkg/common/utils") || strings.HasPrefix(n, "internal/bytesconv")
}
