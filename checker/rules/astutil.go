package rules

import (
	"go/ast"
	"go/constant"
	"go/token"
	"go/types"
	"strings"
	"sync"

	"hzcheck/core"
)

// parents builds a child → parent map for the subtree rooted at root.
func parents(root ast.Node) map[ast.Node]ast.Node {
	m := map[ast.Node]ast.Node{}
	var stack []ast.Node
	ast.Inspect(root, func(n ast.Node) bool {
		if n == nil {
			stack = stack[:len(stack)-1]
			return true
		}
		if len(stack) > 0 {
			m[n] = stack[len(stack)-1]
		}
		stack = append(stack, n)
		return true
	})
	return m
}

// within reports whether node n lies inside the subtree of anc (by position).
func within(n, anc ast.Node) bool {
	return anc != nil && n.Pos() >= anc.Pos() && n.End() <= anc.End()
}

func unparen(e ast.Expr) ast.Expr {
	for {
		p, ok := e.(*ast.ParenExpr)
		if !ok {
			return e
		}
		e = p.X
	}
}

// usedVar returns the package-level or local variable an identifier/selector expression
// refers to (nil otherwise).
func usedVar(info *types.Info, e ast.Expr) *types.Var {
	switch x := unparen(e).(type) {
	case *ast.Ident:
		v, _ := info.ObjectOf(x).(*types.Var)
		return v
	case *ast.SelectorExpr:
		if sel := info.Selections[x]; sel != nil {
			v, _ := sel.Obj().(*types.Var)
			return v
		}
		v, _ := info.Uses[x.Sel].(*types.Var)
		return v
	}
	return nil
}

func isPkgLevel(v *types.Var) bool {
	return v != nil && v.Pkg() != nil && v.Parent() == v.Pkg().Scope()
}

// ---- constant initialisers of package-level variables ----

type pkgVarFacts struct {
	init     map[*types.Var]ast.Expr
	initInfo map[*types.Var]*types.Info
	mutated  map[*types.Var]string // var → position of a write other than the declaration
}

var (
	pvOnce  sync.Map // *core.World → *pkgVarFacts
	pvMutex sync.Mutex
)

func pkgVars(w *core.World) *pkgVarFacts {
	pvMutex.Lock()
	defer pvMutex.Unlock()
	if f, ok := pvOnce.Load(w); ok {
		return f.(*pkgVarFacts)
	}
	f := &pkgVarFacts{init: map[*types.Var]ast.Expr{}, initInfo: map[*types.Var]*types.Info{}, mutated: map[*types.Var]string{}}
	for _, p := range w.All {
		if !strings.HasPrefix(p.PkgPath, w.ModPfx) {
			continue
		}
		info := p.TypesInfo
		for _, file := range p.Syntax {
			for _, d := range file.Decls {
				gd, ok := d.(*ast.GenDecl)
				if !ok || gd.Tok != token.VAR {
					continue
				}
				for _, sp := range gd.Specs {
					vs := sp.(*ast.ValueSpec)
					if len(vs.Values) != len(vs.Names) {
						continue
					}
					for i, nm := range vs.Names {
						if v, ok := info.Defs[nm].(*types.Var); ok {
							f.init[v] = vs.Values[i]
							f.initInfo[v] = info
						}
					}
				}
			}
			mark := func(e ast.Expr, pos token.Pos) {
				for {
					switch x := unparen(e).(type) {
					case *ast.IndexExpr:
						e = x.X
						continue
					case *ast.SliceExpr:
						e = x.X
						continue
					case *ast.StarExpr:
						e = x.X
						continue
					}
					break
				}
				if v := usedVar(info, e); isPkgLevel(v) {
					if _, ok := f.mutated[v]; !ok {
						f.mutated[v] = w.Pos(pos)
					}
				}
			}
			ast.Inspect(file, func(n ast.Node) bool {
				switch x := n.(type) {
				case *ast.AssignStmt:
					if x.Tok != token.DEFINE {
						for _, l := range x.Lhs {
							mark(l, x.Pos())
						}
					}
				case *ast.IncDecStmt:
					mark(x.X, x.Pos())
				case *ast.UnaryExpr:
					if x.Op == token.AND {
						mark(x.X, x.Pos())
					}
				case *ast.CallExpr:
					// copy(pkgvar, …) / append(pkgvar[:0], …) write through the slice
					if id, ok := x.Fun.(*ast.Ident); ok && (id.Name == "copy") && len(x.Args) > 0 {
						if _, isB := info.Uses[id].(*types.Builtin); isB {
							mark(x.Args[0], x.Pos())
						}
					}
				}
				return true
			})
		}
	}
	pvOnce.Store(w, f)
	return f
}

// constBytes returns the constant string a package-level variable is initialised with
// (`[]byte("…")`, `"…"`, or a string constant), provided nothing in the module writes the
// variable or its elements afterwards.
func constBytes(w *core.World, v *types.Var) (string, bool) {
	if !isPkgLevel(v) {
		return "", false
	}
	f := pkgVars(w)
	if _, mut := f.mutated[v]; mut {
		return "", false
	}
	init, ok := f.init[v]
	if !ok {
		return "", false
	}
	info := f.initInfo[v]
	e := unparen(init)
	if call, ok := e.(*ast.CallExpr); ok && len(call.Args) == 1 {
		if tv, ok := info.Types[call.Fun]; ok && tv.IsType() {
			e = unparen(call.Args[0])
		}
	}
	if tv, ok := info.Types[e]; ok && tv.Value != nil && tv.Value.Kind() == constant.String {
		return constant.StringVal(tv.Value), true
	}
	return "", false
}

// constBytesExpr resolves an expression that denotes a constant byte string: a string
// constant, or a reference to a package variable with a constant initialiser, optionally
// sliced with constant bounds.
func constBytesExpr(w *core.World, info *types.Info, e ast.Expr) (string, bool) {
	e = unparen(e)
	if tv, ok := info.Types[e]; ok && tv.Value != nil && tv.Value.Kind() == constant.String {
		return constant.StringVal(tv.Value), true
	}
	if se, ok := e.(*ast.SliceExpr); ok {
		s, ok := constBytesExpr(w, info, se.X)
		if !ok {
			return "", false
		}
		lo, hi := 0, len(s)
		if se.Low != nil {
			n, ok := constInt(info, se.Low)
			if !ok {
				return "", false
			}
			lo = n
		}
		if se.High != nil {
			n, ok := constInt(info, se.High)
			if !ok {
				return "", false
			}
			hi = n
		}
		if lo < 0 || hi > len(s) || lo > hi {
			return "", false
		}
		return s[lo:hi], true
	}
	if v := usedVar(info, e); v != nil {
		return constBytes(w, v)
	}
	return "", false
}

func constInt(info *types.Info, e ast.Expr) (int, bool) {
	if tv, ok := info.Types[e]; ok && tv.Value != nil {
		if n, ok := constant.Int64Val(constant.ToInt(tv.Value)); ok {
			return int(n), true
		}
	}
	return 0, false
}

// byteTable resolves an expression used as a 256-entry byte table: a string constant of
// length 256 or a package variable initialised with an array/slice composite literal of
// constants or such a string constant.
func byteTable(w *core.World, info *types.Info, e ast.Expr) ([]int, string, bool) {
	e = unparen(e)
	name := types.ExprString(e)
	if tv, ok := info.Types[e]; ok && tv.Value != nil && tv.Value.Kind() == constant.String {
		s := constant.StringVal(tv.Value)
		out := make([]int, len(s))
		for i := 0; i < len(s); i++ {
			out[i] = int(s[i])
		}
		return out, name, true
	}
	v := usedVar(info, e)
	if !isPkgLevel(v) {
		return nil, name, false
	}
	f := pkgVars(w)
	if _, mut := f.mutated[v]; mut {
		return nil, name, false
	}
	init, ok := f.init[v]
	if !ok {
		return nil, name, false
	}
	vinfo := f.initInfo[v]
	if s, ok := constBytes(w, v); ok {
		out := make([]int, len(s))
		for i := 0; i < len(s); i++ {
			out[i] = int(s[i])
		}
		return out, name, true
	}
	cl, ok := unparen(init).(*ast.CompositeLit)
	if !ok {
		return nil, name, false
	}
	n := -1
	switch t := vinfo.TypeOf(cl).Underlying().(type) {
	case *types.Array:
		n = int(t.Len())
	case *types.Slice:
		n = 0
	default:
		return nil, name, false
	}
	vals := map[int]int{}
	idx := 0
	max := 0
	for _, el := range cl.Elts {
		ve := el
		if kv, ok := el.(*ast.KeyValueExpr); ok {
			k, ok := constInt(vinfo, kv.Key)
			if !ok {
				return nil, name, false
			}
			idx = k
			ve = kv.Value
		}
		tv, ok := vinfo.Types[ve]
		if !ok || tv.Value == nil {
			return nil, name, false
		}
		var x int
		switch tv.Value.Kind() {
		case constant.Bool:
			if constant.BoolVal(tv.Value) {
				x = 1
			}
		default:
			i64, ok := constant.Int64Val(constant.ToInt(tv.Value))
			if !ok {
				return nil, name, false
			}
			x = int(i64)
		}
		vals[idx] = x
		idx++
		if idx > max {
			max = idx
		}
	}
	if n <= 0 {
		n = max
	}
	out := make([]int, n)
	for k, x := range vals {
		if k < n {
			out[k] = x
		}
	}
	return out, name, true
}

func asciiLower(c int) int {
	if c >= 'A' && c <= 'Z' {
		return c + 32
	}
	return c
}

// enclosingFuncBody returns the innermost function body (decl or literal) containing n.
func enclosing(par map[ast.Node]ast.Node, n ast.Node, pred func(ast.Node) bool) ast.Node {
	for p := par[n]; p != nil; p = par[p] {
		if pred(p) {
			return p
		}
	}
	return nil
}

// refersTo reports whether expression e mentions variable v anywhere.
func refersTo(info *types.Info, e ast.Node, v *types.Var) bool {
	found := false
	ast.Inspect(e, func(n ast.Node) bool {
		switch x := n.(type) {
		case *ast.Ident:
			if info.Uses[x] == v {
				found = true
			}
		}
		return !found
	})
	return found
}

// declaredNonTest lists declared functions with bodies outside _test.go files.
func declaredNonTest(w *core.World) []*core.FuncInfo {
	var out []*core.FuncInfo
	for _, fi := range w.AllDecls() {
		if fi.Decl.Body != nil && !w.IsTestFile(fi.Decl.Pos()) {
			out = append(out, fi)
		}
	}
	return out
}
