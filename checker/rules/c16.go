package rules

import (
	"fmt"
	"go/ast"
	"go/constant"
	"go/types"
	"sort"
	"strings"
	"text/template/parse"

	"hzcheck/core"
)

func init() {
	p := register("C16", c16Tpl, c16Unique, c16UniqueOrder, c16Probe, c16Cache, c16Collect, c16Err, c16Descend, c16FirstOcc)
	p.SkipRoot = true
}

const hzMod = Mod + "/cmd/hz"

type tplDef struct {
	name        string // file name constant (router.go, middleware.go, …)
	path        string
	body        string
	left, right string
	pos         ast.Node
	owner       string // package-level variable whose initialiser holds the literal
}

// hzTemplates reads the default template table: composite literals with Path / Body / Delims
// fields whose values are constants.
func hzTemplates(w *core.World, p *types.Package, info *types.Info, files []*ast.File) []tplDef {
	var out []tplDef
	for _, f := range files {
		owner := func(n ast.Node) string {
			for _, d := range f.Decls {
				if gd, ok := d.(*ast.GenDecl); ok {
					for _, sp := range gd.Specs {
						if vs, ok := sp.(*ast.ValueSpec); ok && within(n, vs) && len(vs.Names) > 0 {
							return vs.Names[0].Name
						}
					}
				}
			}
			return ""
		}
		ast.Inspect(f, func(n ast.Node) bool {
			cl, ok := n.(*ast.CompositeLit)
			if !ok {
				return true
			}
			var d tplDef
			d.owner = owner(cl)
			d.left, d.right = "{{", "}}"
			hasBody := false
			for _, el := range cl.Elts {
				kv, ok := el.(*ast.KeyValueExpr)
				if !ok {
					continue
				}
				k, _ := kv.Key.(*ast.Ident)
				if k == nil {
					continue
				}
				switch k.Name {
				case "Path":
					if v, ok := strEval(w, info, kv.Value, 0); ok {
						d.path = v
					}
				case "Body":
					if v, ok := strEval(w, info, kv.Value, 0); ok {
						d.body = v
						hasBody = true
					}
				case "Delims":
					if dl, ok := kv.Value.(*ast.CompositeLit); ok && len(dl.Elts) == 2 {
						if a, ok := constString(info, dl.Elts[0]); ok {
							d.left = a
						}
						if b, ok := constString(info, dl.Elts[1]); ok {
							d.right = b
						}
					}
				}
			}
			if hasBody && d.path != "" {
				i := strings.LastIndexAny(d.path, "/\\")
				d.name = d.path[i+1:]
				d.pos = cl
				out = append(out, d)
			}
			return true
		})
	}
	return out
}

// strEval evaluates a string expression built from literals, constants, package variables
// with such initialisers (never written elsewhere in the module) and `+`; the path separator
// is taken as "/".
func strEval(w *core.World, info *types.Info, e ast.Expr, depth int) (string, bool) {
	if depth > 6 {
		return "", false
	}
	e = unparen(e)
	if tv, ok := info.Types[e]; ok && tv.Value != nil && tv.Value.Kind() == constant.String {
		return constant.StringVal(tv.Value), true
	}
	switch x := e.(type) {
	case *ast.BinaryExpr:
		a, ok1 := strEval(w, info, x.X, depth+1)
		b, ok2 := strEval(w, info, x.Y, depth+1)
		return a + b, ok1 && ok2
	case *ast.CallExpr:
		if tv, ok := info.Types[x.Fun]; ok && tv.IsType() && len(x.Args) == 1 {
			if se, ok := unparen(x.Args[0]).(*ast.SelectorExpr); ok && se.Sel.Name == "Separator" {
				return "/", true
			}
		}
	case *ast.Ident, *ast.SelectorExpr:
		v := usedVar(info, x)
		if !isPkgLevel(v) {
			return "", false
		}
		pf := pkgVars(w)
		if _, mut := pf.mutated[v]; mut {
			return "", false
		}
		if init, ok := pf.init[v]; ok {
			return strEval(w, pf.initInfo[v], init, depth+1)
		}
	}
	return "", false
}

// tplChecker type-checks field chains of a parsed template against Go types.
type tplChecker struct {
	pkg    *types.Package
	trees  map[string]*parse.Tree
	errs   []string
	chains int
	seen   map[string]bool
	tpl    string
}

func deref(t types.Type) types.Type {
	for {
		p, ok := t.(*types.Pointer)
		if !ok {
			return t
		}
		t = p.Elem()
	}
}

func (c *tplChecker) field(t types.Type, name string, where parse.Node) types.Type {
	if t == nil {
		return nil
	}
	c.chains++
	base := deref(t)
	switch u := base.Underlying().(type) {
	case *types.Interface:
		if u.NumMethods() == 0 {
			return nil // open data
		}
	case *types.Map:
		// map[string]X: .key is an index
		if b, ok := u.Key().Underlying().(*types.Basic); ok && b.Info()&types.IsString != 0 {
			return u.Elem()
		}
	}
	obj, _, _ := types.LookupFieldOrMethod(t, true, c.pkg, name)
	if obj == nil {
		// pointer receiver methods on addressable values
		obj, _, _ = types.LookupFieldOrMethod(types.NewPointer(base), true, c.pkg, name)
	}
	switch o := obj.(type) {
	case *types.Var:
		if !o.Exported() {
			c.errs = append(c.errs, fmt.Sprintf("template %q: field .%s of %s is not exported (text/template cannot read it)", c.tpl, name, base))
			return nil
		}
		return o.Type()
	case *types.Func:
		sig := o.Type().(*types.Signature)
		if sig.Results().Len() == 0 || sig.Results().Len() > 2 {
			c.errs = append(c.errs, fmt.Sprintf("template %q: method .%s of %s has %d results", c.tpl, name, base, sig.Results().Len()))
			return nil
		}
		return sig.Results().At(0).Type()
	}
	c.errs = append(c.errs, fmt.Sprintf("template %q (%s): `.%s` does not exist on %s — the generated file would fail to render (or silently print <no value>)", c.tpl, where.String(), name, base))
	return nil
}

type tplScope struct {
	dot  types.Type
	vars map[string]types.Type
}

func (s tplScope) with(dot types.Type) tplScope {
	n := tplScope{dot: dot, vars: map[string]types.Type{}}
	for k, v := range s.vars {
		n.vars[k] = v
	}
	return n
}

func (c *tplChecker) arg(n parse.Node, s tplScope) types.Type {
	switch x := n.(type) {
	case *parse.DotNode:
		return s.dot
	case *parse.FieldNode:
		t := s.dot
		for _, id := range x.Ident {
			t = c.field(t, id, x)
			if t == nil {
				return nil
			}
		}
		return t
	case *parse.VariableNode:
		t, ok := s.vars[x.Ident[0]]
		if !ok {
			return nil
		}
		for _, id := range x.Ident[1:] {
			t = c.field(t, id, x)
			if t == nil {
				return nil
			}
		}
		return t
	case *parse.ChainNode:
		t := c.arg(x.Node, s)
		for _, id := range x.Field {
			t = c.field(t, id, x)
			if t == nil {
				return nil
			}
		}
		return t
	case *parse.PipeNode:
		return c.pipe(x, s)
	case *parse.StringNode:
		return types.Typ[types.String]
	case *parse.NumberNode:
		return types.Typ[types.Int]
	case *parse.BoolNode:
		return types.Typ[types.Bool]
	}
	return nil
}

func (c *tplChecker) pipe(p *parse.PipeNode, s tplScope) types.Type {
	if p == nil {
		return nil
	}
	var t types.Type
	for i, cmd := range p.Cmds {
		if len(cmd.Args) == 0 {
			continue
		}
		if id, ok := cmd.Args[0].(*parse.IdentifierNode); ok {
			// function call: check the arguments, result type unknown (except a few builtins)
			for _, a := range cmd.Args[1:] {
				c.arg(a, s)
			}
			switch id.Ident {
			case "len":
				t = types.Typ[types.Int]
			case "eq", "ne", "lt", "le", "gt", "ge", "and", "or", "not":
				t = types.Typ[types.Bool]
			default:
				t = nil
			}
			continue
		}
		if i == 0 {
			t = c.arg(cmd.Args[0], s)
			for _, a := range cmd.Args[1:] {
				c.arg(a, s)
			}
		}
	}
	return t
}

func elemTypes(t types.Type) (key, elem types.Type) {
	if t == nil {
		return nil, nil
	}
	switch u := deref(t).Underlying().(type) {
	case *types.Slice:
		return types.Typ[types.Int], u.Elem()
	case *types.Array:
		return types.Typ[types.Int], u.Elem()
	case *types.Map:
		return u.Key(), u.Elem()
	}
	return nil, nil
}

func (c *tplChecker) list(l *parse.ListNode, s tplScope) {
	if l == nil {
		return
	}
	for _, n := range l.Nodes {
		switch x := n.(type) {
		case *parse.ActionNode:
			t := c.pipe(x.Pipe, s)
			for _, v := range x.Pipe.Decl {
				s.vars[v.Ident[0]] = t
			}
		case *parse.IfNode:
			c.pipe(x.Pipe, s)
			c.list(x.List, s.with(s.dot))
			c.list(x.ElseList, s.with(s.dot))
		case *parse.WithNode:
			t := c.pipe(x.Pipe, s)
			c.list(x.List, s.with(t))
			c.list(x.ElseList, s.with(s.dot))
		case *parse.RangeNode:
			t := c.pipe(x.Pipe, s)
			k, el := elemTypes(t)
			if t != nil && el == nil {
				c.errs = append(c.errs, fmt.Sprintf("template %q: range over %s, which is not a slice, array or map", c.tpl, t))
			}
			inner := s.with(el)
			switch len(x.Pipe.Decl) {
			case 1:
				inner.vars[x.Pipe.Decl[0].Ident[0]] = el
			case 2:
				inner.vars[x.Pipe.Decl[0].Ident[0]] = k
				inner.vars[x.Pipe.Decl[1].Ident[0]] = el
			}
			c.list(x.List, inner)
			c.list(x.ElseList, s.with(s.dot))
		case *parse.TemplateNode:
			var t types.Type
			if x.Pipe != nil {
				t = c.pipe(x.Pipe, s)
			}
			tree := c.trees[x.Name]
			if tree == nil {
				c.errs = append(c.errs, fmt.Sprintf("template %q invokes undefined template %q", c.tpl, x.Name))
				continue
			}
			key := x.Name + "|" + fmt.Sprint(t)
			if c.seen[key] {
				continue
			}
			c.seen[key] = true
			c.list(tree.Root, tplScope{dot: t, vars: map[string]types.Type{"$": t}})
		}
	}
}

// C16.tpl — the default templates agree with the data types they are rendered with.
func c16Tpl(e *Env) {
	const rule = "C16.tpl"
	r := e.R
	r.Explainf("C16.tpl: the default template bodies are read as constants from cmd/hz/generator (an analysis of the embedded source with text/template/parse, no execution); every one parses with its delimiters; for each template whose data type is known from a Generate(data, <constant template name>, …) call site (directly or through a forwarding wrapper) every field chain, range variable and `template` invocation is type-checked against that Go type (exported fields, zero-argument methods, map keys; interface{} data is open). A renamed or removed field of Router/RouterNode/RegisterInfo compiles but makes the generated router invalid or empty.")
	w, err := e.HZ()
	if err != nil {
		r.Fail(rule, "engine:load-cmd-hz", "-", "cmd/hz module loads and type-checks", err.Error())
		return
	}
	r.Unit("config %s: cmd/hz module: %d packages", e.Config, len(w.Pkgs))
	gen := w.Pkg("generator")
	if gen == nil {
		r.Anchor(rule, "cmd/hz/generator")
		return
	}
	tpls := hzTemplates(w, gen.Types, gen.TypesInfo, gen.Syntax)
	r.Floor(rule, len(tpls), 8, "default template bodies")
	// data types by template name
	genFn := w.Func("generator", "TemplateGenerator", "Generate")
	if genFn == nil {
		r.Anchor(rule, "generator.TemplateGenerator.Generate")
		return
	}
	type sink struct {
		f          *types.Func
		data, name int
	}
	sinks := []sink{{genFn.Obj, 0, 1}}
	// forwarding wrappers
	for round := 0; round < 2; round++ {
		for _, fi := range declaredNonTest(w) {
			if fi.Pkg != gen {
				continue
			}
			sig := fi.Obj.Type().(*types.Signature)
			info := gen.TypesInfo
			ast.Inspect(fi.Decl.Body, func(n ast.Node) bool {
				call, ok := n.(*ast.CallExpr)
				if !ok {
					return true
				}
				f := calleeOf(info, call)
				for _, s := range sinks {
					if f != s.f || len(call.Args) <= s.name {
						continue
					}
					dv, nv := usedVar(info, call.Args[s.data]), usedVar(info, call.Args[s.name])
					di, ni := -1, -1
					for i := 0; i < sig.Params().Len(); i++ {
						if sig.Params().At(i) == dv {
							di = i
						}
						if sig.Params().At(i) == nv {
							ni = i
						}
					}
					if di >= 0 && ni >= 0 {
						dup := false
						for _, s2 := range sinks {
							if s2.f == fi.Obj {
								dup = true
							}
						}
						if !dup {
							sinks = append(sinks, sink{fi.Obj, di, ni})
						}
					}
				}
				return true
			})
		}
	}
	dataTypes := map[string][]types.Type{}
	for _, fi := range declaredNonTest(w) {
		if fi.Pkg != gen {
			continue
		}
		info := gen.TypesInfo
		ast.Inspect(fi.Decl.Body, func(n ast.Node) bool {
			call, ok := n.(*ast.CallExpr)
			if !ok {
				return true
			}
			f := calleeOf(info, call)
			for _, s := range sinks {
				if f != s.f || len(call.Args) <= s.name {
					continue
				}
				name, ok := strEval(w, info, call.Args[s.name], 0)
				t := info.TypeOf(call.Args[s.data])

				if !ok || t == nil {
					continue
				}
				if it, isI := t.Underlying().(*types.Interface); isI && it.NumMethods() == 0 {
					continue
				}
				dataTypes[name] = append(dataTypes[name], t)
			}
			return true
		})
	}
	var known []string
	for k, ts := range dataTypes {
		known = append(known, fmt.Sprintf("%s←%s", k, ts[0]))
	}
	sort.Strings(known)
	r.Unit("%s: template data types from Generate call sites: %v", rule, known)
	nTyped, nChains := 0, 0
	// the package generator loads its templates from the variable its Init reads
	pkgOwner := ""
	if ini := w.Func("generator", "HttpPackageGenerator", "Init"); ini != nil {
		ast.Inspect(ini.Decl.Body, func(n ast.Node) bool {
			if id, ok := n.(*ast.Ident); ok {
				if v, ok := gen.TypesInfo.Uses[id].(*types.Var); ok && isPkgLevel(v) && strings.HasSuffix(v.Type().String(), "TemplateConfig") {
					pkgOwner = v.Name()
					// follow `var packageConfig = defaultPkgConfig`
					if init, ok := pkgVars(w).init[v]; ok {
						if v2 := usedVar(pkgVars(w).initInfo[v], init); isPkgLevel(v2) {
							pkgOwner = v2.Name()
						}
					}
				}
			}
			return true
		})
	}
	r.Check(pkgOwner != "", rule, "package-template-table", "-", "the template table used by HttpPackageGenerator.Init is identified", "no package-level TemplateConfig variable referenced in HttpPackageGenerator.Init")
	for _, d := range tpls {
		key := "tpl:" + d.owner + ":" + d.name
		pos := w.Pos(d.pos.Pos())
		trees := map[string]*parse.Tree{}
		t := parse.New(d.name)
		t.Mode = parse.SkipFuncCheck
		if _, err := t.Parse(d.body, d.left, d.right, trees); err != nil {
			r.Fail(rule, key+":parses", pos, "default template parses", "template "+d.name+" does not parse: "+err.Error())
			continue
		}
		r.OK(rule, key+":parses", pos, "default template "+d.name+" parses")
		for _, dt := range dataTypes[d.name] {
			if d.owner != pkgOwner {
				continue // layout templates are rendered with open map data
			}
			nTyped++
			c := &tplChecker{pkg: gen.Types, trees: trees, seen: map[string]bool{}, tpl: d.name}
			c.list(trees[d.name].Root, tplScope{dot: dt, vars: map[string]types.Type{"$": dt}})
			nChains += c.chains
			r.Unit("%s: template %s against %s — %d field/method lookups, %d defined sub-templates", rule, d.name, dt, c.chains, len(trees)-1)
			if len(c.errs) == 0 {
				r.OK(rule, key+":types:"+dt.String(), pos, fmt.Sprintf("every field chain of %s resolves on %s", d.name, dt))
			}
			sort.Strings(c.errs)
			for i, e2 := range c.errs {
				r.Fail(rule, fmt.Sprintf("%s:types:%s#%d", key, dt, i+1), pos, fmt.Sprintf("every field chain of %s resolves on %s", d.name, dt), e2)
			}
		}
	}
	r.Floor(rule, nTyped, 4, "templates checked against a known data type")
	r.Floor(rule, nChains, 20, "field/method lookups type-checked")
	for _, must := range []string{"router.go", "middleware.go", "register.go"} {
		r.Check(len(dataTypes[must]) > 0, rule, "typed:"+must, "-", "the "+must+" template's data type is known from its Generate call site", "no Generate(data, "+must+", …) call with a concrete data type found")
	}
}

// C16.unique — generated identifiers come from the uniquifying helpers.
func c16Unique(e *Env) {
	const rule = "C16.unique"
	r := e.R
	r.Explainf("C16.unique: in the router generator every value stored into RouterNode.MiddleWare / GroupMiddleware / HandlerMiddleware after naming is derived from util.GetMiddlewareUniqueName (handler package aliases from util.GetHandlerPackageUniqueName), and the helper behind them records the name it returns in its seen-set on every successful path, so no two groups/handlers get the same Go identifier.")
	w, err := e.HZ()
	if err != nil {
		r.Fail(rule, "engine:load-cmd-hz", "-", "cmd/hz module loads and type-checks", err.Error())
		return
	}
	util := w.Pkg("util")
	gen := w.Pkg("generator")
	if util == nil || gen == nil {
		r.Anchor(rule, "cmd/hz/util / generator")
		return
	}
	// the uniquifier records what it returns
	un := w.Func("util", "", "getUniqueName")
	if un == nil {
		r.Anchor(rule, "util.getUniqueName")
	} else {
		info := util.TypesInfo
		records := 0
		rets := 0
		ast.Inspect(un.Decl.Body, func(n ast.Node) bool {
			switch x := n.(type) {
			case *ast.AssignStmt:
				if len(x.Lhs) == 1 {
					if ie, ok := unparen(x.Lhs[0]).(*ast.IndexExpr); ok {
						if _, isMap := info.TypeOf(ie.X).Underlying().(*types.Map); isMap {
							records++
						}
					}
				}
			case *ast.ReturnStmt:
				if len(x.Results) == 2 {
					if id, ok := unparen(x.Results[1]).(*ast.Ident); ok && id.Name == "nil" {
						rets++
					}
				}
			}
			return true
		})
		r.Check(records >= 1 && rets >= 1, rule, "getUniqueName:records", w.Pos(un.Decl.Pos()), "the uniquifier stores the chosen name in its seen-map", fmt.Sprintf("%d map stores for %d successful returns", records, rets))
	}
	// who writes the middleware name fields
	isUniq := func(f *types.Func) bool {
		if f == nil {
			return false
		}
		if f.Pkg() == util.Types && (f.Name() == "GetMiddlewareUniqueName" || f.Name() == "GetHandlerPackageUniqueName") {
			return true
		}
		return f.Pkg() == gen.Types && f.Name() == "appendMw" // snake-style uniquifier (suffixes duplicates)
	}
	n := 0
	fields := map[string]*types.Var{}
	for _, fn := range []string{"MiddleWare", "GroupMiddleware", "HandlerMiddleware"} {
		fields[fn] = w.Field("generator", "RouterNode", fn)
		if fields[fn] == nil {
			r.Anchor(rule, "generator.RouterNode."+fn)
		}
	}
	for _, fi := range declaredNonTest(w) {
		if fi.Pkg != gen {
			continue
		}
		info := gen.TypesInfo
		fname := w.FuncName(fi.Obj)
		// variables that hold a uniquified name (assigned from the helper, possibly via another var)
		uniq := map[*types.Var]bool{}
		for round := 0; round < 3; round++ {
			ast.Inspect(fi.Decl.Body, func(nd ast.Node) bool {
				as, ok := nd.(*ast.AssignStmt)
				if !ok || len(as.Rhs) != 1 {
					return true
				}
				derived := false
				ast.Inspect(as.Rhs[0], func(m ast.Node) bool {
					if c, ok := m.(*ast.CallExpr); ok && isUniq(calleeOf(info, c)) {
						derived = true
					}
					if id, ok := m.(*ast.Ident); ok {
						if v, ok := info.Uses[id].(*types.Var); ok && uniq[v] {
							derived = true
						}
					}
					return true
				})
				if derived {
					for _, l := range as.Lhs {
						if v := usedVar(info, l); v != nil && !v.IsField() {
							uniq[v] = true
						}
					}
				}
				return true
			})
		}
		k := 0
		ast.Inspect(fi.Decl.Body, func(nd ast.Node) bool {
			as, ok := nd.(*ast.AssignStmt)
			if !ok {
				return true
			}
			for i, l := range as.Lhs {
				v := usedVar(info, l)
				isF := false
				for _, f := range fields {
					if v != nil && v == f {
						isF = true
					}
				}
				if !isF || len(as.Rhs) != len(as.Lhs) {
					continue
				}
				n++
				k++
				ok := false
				ast.Inspect(as.Rhs[i], func(m ast.Node) bool {
					if c, isC := m.(*ast.CallExpr); isC && isUniq(calleeOf(info, c)) {
						ok = true
					}
					if id, isI := m.(*ast.Ident); isI {
						if rv, isV := info.Uses[id].(*types.Var); isV {
							isNameField := false
							for _, f := range fields {
								if rv == f {
									isNameField = true
								}
							}
							if uniq[rv] || isNameField {
								ok = true // a uniquified local, or copied from an already-named field
							}
						}
					}
					return true
				})
				if s, isS := constString(info, as.Rhs[i]); isS && (s == "" || s == "root") {
					ok = true
				}
				if !ok {
					// the opt-in snake-style naming is outside the decided scope
					par := parents(fi.Decl)
					for _, cond := range enclosingThenConds(par, as) {
						if id := identOf(cond); id != nil && strings.Contains(strings.ToLower(id.Name), "snakestyle") {
							r.Except(rule, fmt.Sprintf("%s:%s#%d", fname, v.Name(), k), w.Pos(as.Pos()), "stored middleware identifier is derived from the uniquifying helper", "assignment under the opt-in snake-style naming option: names are derived from raw handler names and only partly uniquified (appendMw for nodes with children); not decided by this rule")
							return true
						}
					}
				}
				r.Check(ok, rule, fmt.Sprintf("%s:%s#%d", fname, v.Name(), k), w.Pos(as.Pos()), "stored middleware identifier is derived from the uniquifying helper", "RouterNode."+v.Name()+" is assigned `"+types.ExprString(as.Rhs[i])+"`, which does not derive from util.GetMiddlewareUniqueName: two groups can receive the same Go identifier (duplicate declaration in the generated file)")
			}
			return true
		})
	}
	r.Floor(rule, n, 3, "stores to RouterNode middleware-name fields")
}
