package rules

import (
	"fmt"
	"go/ast"
	"go/token"
	"go/types"
	"sort"
	"strings"

	"golang.org/x/tools/go/ssa"

	"hzcheck/core"
	"hzcheck/esp"
	"hzcheck/zone"
)

func init() {
	register("C08", c08Range, c08Len, c08Refs, c08Reuse, c08Lock, c08Head, c08Precond, c08Stale, c08Thread, c08OpenErr)
}

// C08.range — postcondition of ParseByteRange under contentLength ≥ 0.
func c08Range(e *Env) {
	const rule = "C08.range"
	w, r := e.W, e.R
	r.Explainf("C08.range: zone abstract interpretation of app.ParseByteRange under the entry assumption contentLength ≥ 0: at every return whose error result is the constant nil, 0 ≤ startPos ≤ endPos ≤ contentLength−1 must be proven (ParseUint: err == nil ⇒ value ≥ 0). A satisfiable answer outside that box makes the handler build a negative Content-Length / Content-Range or slice the file out of range.")
	fi := w.Func("pkg/app", "", "ParseByteRange")
	if fi == nil {
		r.Anchor(rule, "app.ParseByteRange")
		return
	}
	fn := w.SSAFunc(fi)
	sig := fi.Obj.Type().(*types.Signature)
	if sig.Results().Len() != 3 || sig.Params().Len() != 2 {
		r.Anchor(rule, "app.ParseByteRange(byteRange, contentLength) (startPos, endPos, err)")
		return
	}
	fname := w.FuncName(fi.Obj)
	z := getZone(w)
	n := 0
	// analyse examines the successful returns of f, whose parameter clIdx is the content length;
	// `return helper(…, contentLength)` is followed into helper (same result shape) so that a
	// branch moved into its own function is still decided
	var analyse func(f *ssa.Function, clIdx, depth int)
	analyse = func(f *ssa.Function, clIdx, depth int) {
		cl := f.Params[clIdx]
		name := ssaFuncName(w, f)
		k := 0
		opts := zone.Options{
			Entry: func(a *zone.Analyzer, d *zone.DBM) { zone.AssumeGE(d, a.IntTerm(cl), 0) },
			Custom: func(a *zone.Analyzer, d *zone.DBM, ins ssa.Instruction) {
				ret, ok := ins.(*ssa.Return)
				if !ok || len(ret.Results) != 3 {
					return
				}
				// tail call: all three results are the components of one call
				if ex0, ok := ret.Results[0].(*ssa.Extract); ok {
					if call, ok := ex0.Tuple.(*ssa.Call); ok {
						same := true
						for i, rv := range ret.Results {
							ex, ok := rv.(*ssa.Extract)
							if !ok || ex.Tuple != ex0.Tuple || ex.Index != i {
								same = false
							}
						}
						callee := call.Call.StaticCallee()
						if same && callee != nil && callee.Blocks != nil && callee.Pkg == f.Pkg && depth < 2 {
							for ai, arg := range call.Call.Args {
								if arg == ssa.Value(cl) && callee.Signature.Results().Len() == 3 {
									analyse(callee, ai, depth+1)
									return
								}
							}
						}
					}
				}
				c, isConst := ret.Results[2].(*ssa.Const)
				if !isConst || !c.IsNil() {
					return
				}
				n++
				k++
				base := fmt.Sprintf("%s:return-ok#%d", name, k)
				pos := w.Pos(ret.Pos())
				if d == nil {
					r.Fail(rule, base, pos, "successful return satisfies 0 ≤ startPos ≤ endPos < contentLength", "return lies in a block the analysis did not reach; undecided")
					return
				}
				s, en, clt := a.IntTerm(ret.Results[0]), a.IntTerm(ret.Results[1]), a.IntTerm(cl)
				type ob struct {
					k, d string
					ub   int64
					lim  int64
				}
				for _, o := range []ob{
					{"start>=0", "0 ≤ startPos", zone.Tub(d, zone.ConstTerm(0), s), 0},
					{"start<=end", "startPos ≤ endPos", zone.Tub(d, s, en), 0},
					{"end<len", "endPos ≤ contentLength − 1", zone.Tub(d, en, clt), -1},
				} {
					r.Check(o.ub <= o.lim, rule, base+":"+o.k, pos, "successful return satisfies "+o.d,
						fmt.Sprintf("not established on this return (upper bound of the violated difference: %s): e.g. a suffix range `bytes=-N` on an empty file or `bytes=-0` yields startPos > endPos / endPos = −1, which becomes a negative length and panics when formatted", boundStr(o.ub)))
				}
			},
		}
		z.prog.Analyze(f, opts)
	}
	analyse(fn, 1, 0)
	r.Unit("%s: %s — %d successful returns examined", rule, fname, n)
	r.Floor(rule, n, 3, "returns with a nil error in "+fname)
	r.Assume("C08.range assumes contentLength ≥ 0 at entry of ParseByteRange (file sizes)")
}

// ---- linear forms ----

type linForm struct {
	coef map[types.Object]int
	k    int
}

func (l linForm) String() string {
	var parts []string
	for o, c := range l.coef {
		if c != 0 {
			parts = append(parts, fmt.Sprintf("%+d·%s", c, o.Name()))
		}
	}
	sort.Strings(parts)
	return strings.Join(parts, " ") + fmt.Sprintf(" %+d", l.k)
}

func linEval(info *types.Info, e ast.Expr, env map[types.Object]linForm) (linForm, bool) {
	e = unparen(e)
	if v, ok := constInt(info, e); ok {
		return linForm{map[types.Object]int{}, v}, true
	}
	switch x := e.(type) {
	case *ast.Ident, *ast.SelectorExpr:
		var o types.Object = usedVar(info, x)
		if o == nil || o == (*types.Var)(nil) {
			return linForm{}, false
		}
		if f, ok := env[o]; ok {
			return f, true
		}
		return linForm{map[types.Object]int{o: 1}, 0}, true
	case *ast.CallExpr: // conversion int64(x)
		if tv, ok := info.Types[x.Fun]; ok && tv.IsType() && len(x.Args) == 1 {
			return linEval(info, x.Args[0], env)
		}
	case *ast.BinaryExpr:
		a, ok1 := linEval(info, x.X, env)
		b, ok2 := linEval(info, x.Y, env)
		if !ok1 || !ok2 {
			return linForm{}, false
		}
		sign := 1
		switch x.Op {
		case token.ADD:
		case token.SUB:
			sign = -1
		default:
			return linForm{}, false
		}
		out := linForm{map[types.Object]int{}, a.k + sign*b.k}
		for o, c := range a.coef {
			out.coef[o] += c
		}
		for o, c := range b.coef {
			out.coef[o] += sign * c
		}
		return out, true
	}
	return linForm{}, false
}

func linIs(l linForm, want map[types.Object]int, k int) bool {
	if l.k != k {
		return false
	}
	for o, c := range l.coef {
		if c != want[o] {
			return false
		}
	}
	for o, c := range want {
		if l.coef[o] != c {
			return false
		}
	}
	return true
}

// C08.len — every place that turns a byte range into a length computes end − start + 1.
func c08Len(e *Env) {
	const rule = "C08.len"
	w, r := e.W, e.R
	r.Explainf("C08.len: linear normal forms over (startPos, endPos): in the file handler the pair returned by ParseByteRange is the pair handed to UpdateByteRange and to SetContentRange (value identity, third argument the full length), and the Content-Length it then uses is endPos−startPos+1; each UpdateByteRange implementation makes its reader yield exactly endPos−startPos+1 bytes from startPos (small files: fields startPos := startPos, endPos := endPos+1 with Read taking endPos−startPos; big files: Seek(startPos) and LimitedReader.N := endPos−startPos+1).")
	hr := w.Func("pkg/app", "fsHandler", "handleRequest")
	if hr == nil {
		r.Anchor(rule, "app.fsHandler.handleRequest")
		return
	}
	info := hr.Pkg.TypesInfo
	hname := w.FuncName(hr.Obj)
	var sVar, eVar, clVar *types.Var
	var lenAssign *ast.AssignStmt
	ast.Inspect(hr.Decl.Body, func(n ast.Node) bool {
		as, ok := n.(*ast.AssignStmt)
		if !ok || len(as.Rhs) != 1 {
			return true
		}
		if call, ok := unparen(as.Rhs[0]).(*ast.CallExpr); ok && len(as.Lhs) == 3 {
			if f := calleeOf(info, call); esp.Is(f, pkgApp, "", "ParseByteRange") && len(call.Args) == 2 {
				sVar, eVar = usedVar(info, as.Lhs[0]), usedVar(info, as.Lhs[1])
				clVar = usedVar(info, call.Args[1])
			}
		}
		return true
	})
	if sVar == nil || eVar == nil || clVar == nil {
		r.Anchor(rule, "startPos, endPos, err := ParseByteRange(byteRange, contentLength) in handleRequest")
		return
	}
	want := map[types.Object]int{eVar: 1, sVar: -1}
	okUpd, okCR := false, false
	ast.Inspect(hr.Decl.Body, func(n ast.Node) bool {
		switch x := n.(type) {
		case *ast.CallExpr:
			f := calleeOf(info, x)
			if f != nil && f.Name() == "UpdateByteRange" && len(x.Args) == 2 {
				okUpd = usedVar(info, x.Args[0]) == sVar && usedVar(info, x.Args[1]) == eVar
			}
			if esp.Is(f, pkgProto, "ResponseHeader", "SetContentRange") && len(x.Args) == 3 {
				okCR = usedVar(info, x.Args[0]) == sVar && usedVar(info, x.Args[1]) == eVar && usedVar(info, x.Args[2]) == clVar
			}
		case *ast.AssignStmt:
			if len(x.Lhs) == 1 && len(x.Rhs) == 1 && x.Tok == token.ASSIGN && usedVar(info, x.Lhs[0]) == clVar {
				if refersTo(info, x.Rhs[0], sVar) || refersTo(info, x.Rhs[0], eVar) {
					lenAssign = x
				} else if tv := usedVar(info, x.Rhs[0]); tv != nil && !tv.IsField() {
					// through a temporary defined once from the parsed pair (`n := endPos - startPos + 1`)
					var defs []*ast.AssignStmt
					ast.Inspect(hr.Decl.Body, func(m ast.Node) bool {
						if d, ok := m.(*ast.AssignStmt); ok && len(d.Lhs) == 1 && len(d.Rhs) == 1 && usedVar(info, d.Lhs[0]) == tv {
							defs = append(defs, d)
						} else if ok {
							if id, isID := d.Lhs[0].(*ast.Ident); isID && len(d.Lhs) == 1 && len(d.Rhs) == 1 && info.Defs[id] == types.Object(tv) {
								defs = append(defs, d)
							}
						}
						return true
					})
					if len(defs) == 1 && (refersTo(info, defs[0].Rhs[0], sVar) || refersTo(info, defs[0].Rhs[0], eVar)) {
						lenAssign = defs[0]
					}
				}
			}
		}
		return true
	})
	r.Check(okUpd, rule, hname+":update-args", w.Pos(hr.Decl.Pos()), "UpdateByteRange receives the parsed (startPos, endPos)", "UpdateByteRange is not called with the two values returned by ParseByteRange")
	r.Check(okCR, rule, hname+":content-range-args", w.Pos(hr.Decl.Pos()), "SetContentRange receives the parsed pair and the full length", "SetContentRange is not called with (startPos, endPos, full contentLength)")
	if lenAssign == nil {
		r.Fail(rule, hname+":partial-length", w.Pos(hr.Decl.Pos()), "partial Content-Length is endPos−startPos+1", "no assignment of the partial length from the parsed pair found")
	} else {
		lf, ok := linEval(info, lenAssign.Rhs[0], nil)
		r.Check(ok && linIs(lf, want, 1), rule, hname+":partial-length", w.Pos(lenAssign.Pos()), "partial Content-Length is endPos−startPos+1", "the length is computed as `"+types.ExprString(lenAssign.Rhs[0])+"` = "+lf.String()+", not endPos−startPos+1: Content-Length disagrees with the bytes the reader yields")
		// order: SetContentRange must see the full length, i.e. come before this assignment
	}
	// implementations of UpdateByteRange
	iface, _ := w.Object("pkg/app", "byteRangeUpdater").(*types.TypeName)
	if iface == nil {
		r.Anchor(rule, "app.byteRangeUpdater")
		return
	}
	it, _ := iface.Type().Underlying().(*types.Interface)
	nImpl := 0
	pkg := w.Pkg("pkg/app")
	for _, name := range pkg.Types.Scope().Names() {
		tn, ok := pkg.Types.Scope().Lookup(name).(*types.TypeName)
		if !ok || tn == iface {
			continue
		}
		pt := types.NewPointer(tn.Type())
		if _, isIface := tn.Type().Underlying().(*types.Interface); isIface || it == nil || !types.Implements(pt, it) {
			continue
		}
		fi := w.Func("pkg/app", tn.Name(), "UpdateByteRange")
		if fi == nil {
			continue
		}
		nImpl++
		uinfo := fi.Pkg.TypesInfo
		uname := w.FuncName(fi.Obj)
		sig := fi.Obj.Type().(*types.Signature)
		ps, pe := sig.Params().At(0), sig.Params().At(1)
		pwant := map[types.Object]int{pe: 1, ps: -1}
		// field assignments
		fields := map[string]linForm{}
		seekOK := false
		ast.Inspect(fi.Decl.Body, func(n ast.Node) bool {
			switch x := n.(type) {
			case *ast.AssignStmt:
				if len(x.Lhs) == 1 && len(x.Rhs) == 1 {
					if lf, ok := linEval(uinfo, x.Rhs[0], nil); ok {
						fields[types.ExprString(x.Lhs[0])] = lf
					}
				}
			case *ast.CallExpr:
				if f := calleeOf(uinfo, x); f != nil && f.Name() == "Seek" && len(x.Args) == 2 {
					if lf, ok := linEval(uinfo, x.Args[0], nil); ok && linIs(lf, map[types.Object]int{ps: 1}, 0) {
						if z, ok := constInt(uinfo, x.Args[1]); ok && z == 0 {
							seekOK = true
						}
					}
				}
			}
			return true
		})
		recvName := ""
		if fi.Decl.Recv != nil && len(fi.Decl.Recv.List) > 0 && len(fi.Decl.Recv.List[0].Names) > 0 {
			recvName = fi.Decl.Recv.List[0].Names[0].Name
		}
		var length linForm
		haveLen := false
		how := ""
		if n, ok := fields[recvName+".lr.N"]; ok { // io.LimitedReader
			length, haveLen, how = n, true, "LimitedReader.N"
			r.Check(seekOK, rule, uname+":seek-start", w.Pos(fi.Decl.Pos()), "the file is positioned at startPos", "no Seek(startPos, 0) found")
		} else if s, ok := fields[recvName+".startPos"]; ok {
			if en, ok2 := fields[recvName+".endPos"]; ok2 {
				// the reader yields endPos−startPos bytes from startPos: check Read's tail computation
				rd := w.Func("pkg/app", tn.Name(), "Read")
				tailOK := false
				if rd != nil {
					ast.Inspect(rd.Decl.Body, func(n ast.Node) bool {
						if as, ok := n.(*ast.AssignStmt); ok && len(as.Rhs) == 1 && !tailOK {
							if be, ok := unparen(as.Rhs[0]).(*ast.BinaryExpr); ok && be.Op == token.SUB {
								if strings.HasSuffix(types.ExprString(be.X), ".endPos") && strings.HasSuffix(types.ExprString(be.Y), ".startPos") {
									tailOK = true
								}
							}
						}
						return true
					})
				}
				r.Check(tailOK, rule, uname+":read-tail", w.Pos(fi.Decl.Pos()), "the reader yields endPos−startPos bytes of its fields", "Read does not compute its remaining length as endPos − startPos")
				r.Check(linIs(s, map[types.Object]int{ps: 1}, 0), rule, uname+":start-field", w.Pos(fi.Decl.Pos()), "reader starts at startPos", "field startPos is set to "+s.String())
				length = linForm{map[types.Object]int{}, en.k - s.k}
				for o, c := range en.coef {
					length.coef[o] += c
				}
				for o, c := range s.coef {
					length.coef[o] -= c
				}
				haveLen, how = true, "endPos − startPos fields"
			}
		}
		r.Unit("%s: %s — length via %s = %s", rule, uname, how, length.String())
		r.Check(haveLen && linIs(length, pwant, 1), rule, uname+":length", w.Pos(fi.Decl.Pos()), "reader yields exactly endPos−startPos+1 bytes", "the implementation makes the reader yield "+length.String()+" bytes (via "+how+") instead of endPos−startPos+1")
	}
	r.Floor(rule, nImpl, 2, "UpdateByteRange implementations")
}

// C08.refs — reader reference counting in the file handler.
func c08Refs(e *Env) {
	const rule = "C08.refs"
	w, r := e.W, e.R
	r.Explainf("C08.refs: ESP typestate none/counted/pending/reader/done over every path of fsHandler.handleRequest: after readersCount++ the count is given back exactly once — decReadersCount, a failing NewReader (which decrements itself: checked on NewReader), Close of the reader, or hand-over to the response with SetBodyStream; never twice (a second decrement reaches panic(\"BUG: negative fsFile.readersCount\")) and never zero times.")
	hr := w.Func("pkg/app", "fsHandler", "handleRequest")
	field := w.Field("pkg/app", "fsFile", "readersCount")
	nr := w.Func("pkg/app", "fsFile", "NewReader")
	if hr == nil || field == nil || nr == nil {
		r.Anchor(rule, "fsHandler.handleRequest / fsFile.readersCount / fsFile.NewReader")
		return
	}
	info := hr.Pkg.TypesInfo
	fname := w.FuncName(hr.Obj)
	// reader types implement io.Closer
	closerOK := true
	for _, tn := range []string{"fsSmallFileReader", "bigFileReader"} {
		if w.Func("pkg/app", tn, "Close") == nil {
			closerOK = false
		}
	}
	r.Check(closerOK, rule, "reader-types-are-closers", "-", "both reader types returned by NewReader have a Close method", "fsSmallFileReader or bigFileReader lacks Close: the comma-ok Closer assertion could fail and leak the count")
	var readerVar *types.Var
	okVars := map[string]bool{}
	// a block that takes or gives back the count may have been moved into a helper
	refInline := inlineWhen(info, func(f *types.Func) bool {
		return f == nr.Obj || esp.Is(f, pkgApp, "fsFile", "decReadersCount")
	}, func(n ast.Node) bool {
		inc, ok := n.(*ast.IncDecStmt)
		return ok && inc.Tok == token.INC && usedVar(info, inc.X) == field
	})
	rl := &esp.Rule{Name: rule, Init: "none",
		Track: func(k string) bool { return k == "err == nil" },
		Inline: func(f *types.Func, d *ast.FuncDecl) bool {
			return f != nr.Obj && !esp.Is(f, pkgApp, "fsFile", "decReadersCount") && refInline(f, d)
		},
		Node: func(c *esp.Ctx, n ast.Node) {
			switch x := n.(type) {
			case *ast.IncDecStmt:
				if usedVar(info, x.X) == field && x.Tok == token.INC {
					if c.S.TS != "none" {
						c.Violate(x.Pos(), fname+":double-inc", "readersCount incremented twice on one path")
					}
					c.S.TS = "counted"
				}
			case *ast.AssignStmt:
				if len(x.Rhs) == 1 {
					if call, ok := unparen(x.Rhs[0]).(*ast.CallExpr); ok && calleeOf(info, call) == nr.Obj && len(x.Lhs) == 2 {
						readerVar = usedVar(info, x.Lhs[0])
					}
					// rc, ok := r.(io.Closer)
					if ta, ok := unparen(x.Rhs[0]).(*ast.TypeAssertExpr); ok && len(x.Lhs) == 2 && readerVar != nil && usedVar(info, ta.X) == readerVar {
						if id, ok := x.Lhs[1].(*ast.Ident); ok {
							okVars[id.Name] = true
						}
					}
				}
			}
		},
		Call: func(c *esp.Ctx, call *ast.CallExpr, f *types.Func) {
			site := fname + ":" + c.SiteKey(call)
			give := func(what string) {
				switch c.S.TS {
				case "counted", "reader":
					c.S.TS = "done"
				case "done":
					c.Violate(call.Pos(), site+":double-release", what+" after the count was already given back: readersCount goes negative (panic)")
				default:
					c.Violate(call.Pos(), site+":release-uncounted", what+" without a preceding readersCount++ on this path")
				}
			}
			switch {
			case f == nr.Obj:
				if c.S.TS != "counted" {
					c.Violate(call.Pos(), site+":reader-uncounted", "NewReader without a counted reference")
				}
				c.S.TS = "pending"
			case esp.Is(f, pkgApp, "fsFile", "decReadersCount"):
				give("decReadersCount")
			case esp.Is(f, pkgApp, "RequestContext", "SetBodyStream"):
				if len(call.Args) >= 1 && readerVar != nil && usedVar(info, call.Args[0]) == readerVar {
					give("SetBodyStream")
				}
			case f != nil && f.Name() == "Close":
				// Close on the reader (directly or through a Closer assertion of it)
				if se, ok := call.Fun.(*ast.SelectorExpr); ok && readerVar != nil {
					x := unparen(se.X)
					if ta, ok := x.(*ast.TypeAssertExpr); ok {
						x = unparen(ta.X)
					}
					if usedVar(info, x) == readerVar {
						give("Close")
					} else if id, ok := x.(*ast.Ident); ok && c.S.TS == "reader" {
						// rc from `rc, ok := r.(io.Closer)`
						if v, ok := info.ObjectOf(id).(*types.Var); ok && types.Identical(v.Type().Underlying(), f.Type().(*types.Signature).Recv().Type().Underlying()) {
							give("Close")
						}
					}
				}
			}
		},
		Branch: func(c *esp.Ctx, cond ast.Expr, val bool) {
			if c.S.TS == "pending" {
				if ok, isNil := errNilCond(info, cond, val); ok {
					if isNil {
						c.S.TS = "reader"
					} else {
						c.S.TS = "done" // NewReader gave the count back itself
					}
				}
				return
			}
			if id, ok := unparen(cond).(*ast.Ident); ok && okVars[id.Name] && !val {
				c.Prune = true // both reader types are Closers
			}
		},
		Exit: func(c *esp.Ctx) {
			if c.S.Panic {
				return
			}
			if c.S.TS == "counted" || c.S.TS == "reader" || c.S.TS == "pending" {
				what := "function end"
				if rs := c.S.RetStmt; rs != nil {
					what = "return at " + w.Pos(rs.Pos())
				}
				c.Violate(c.S.Ret, fname+":leak:"+c.S.TS, "handler returns ("+what+") still holding a reader reference (state "+c.S.TS+"): the cached file can never be released")
			}
		},
	}
	ex := esp.New(w, hr, rl)
	vs := ex.Run(hr)
	r.Unit("%s: %s — %d states, %d exits", rule, fname, ex.Steps, ex.Exits)
	if len(vs) == 0 {
		r.OK(rule, fname+":paths", w.Pos(hr.Decl.Pos()), fmt.Sprintf("reader reference given back exactly once on all %d exit states", ex.Exits))
	}
	for _, v := range vs {
		r.Fail(rule, v.Key, w.Pos(v.Pos), "reader reference is given back exactly once", v.Msg, v.Path...)
	}
	// NewReader: error return ⇒ decremented
	{
		ninfo := nr.Pkg.TypesInfo
		nname := w.FuncName(nr.Obj)
		rl2 := &esp.Rule{Name: rule, Init: "held", Track: func(k string) bool { return k == "err == nil" },
			Call: func(c *esp.Ctx, call *ast.CallExpr, f *types.Func) {
				if esp.Is(f, pkgApp, "fsFile", "decReadersCount") {
					if c.S.TS != "held" {
						c.Violate(call.Pos(), nname+":double-dec", "NewReader decrements twice")
					}
					c.S.TS = "given"
				}
			},
			Exit: func(c *esp.Ctx) {
				if c.S.Panic {
					return
				}
				errNil := c.Fact("err == nil")
				if rs := c.S.RetStmt; rs != nil && len(rs.Results) == 2 {
					if id, ok := unparen(rs.Results[1]).(*ast.Ident); ok && id.Name == "nil" {
						errNil = esp.T
					}
				}
				_ = ninfo
				if errNil == esp.F && c.S.TS != "given" {
					c.Violate(c.S.Ret, nname+":error-keeps-count", "NewReader returns an error without giving the reference back (the handler relies on it)")
				}
				if errNil == esp.T && c.S.TS == "given" {
					c.Violate(c.S.Ret, nname+":success-drops-count", "NewReader succeeds but has already given the reference back")
				}
				if errNil == esp.Unk {
					c.Violate(c.S.Ret, nname+":undecided", "error outcome at this return is not determined by a test; undecided")
				}
			},
		}
		ex2 := esp.New(w, nr, rl2)
		vs2 := ex2.Run(nr)
		if len(vs2) == 0 {
			r.OK(rule, nname+":error-decrements", w.Pos(nr.Decl.Pos()), "NewReader gives the reference back exactly on its error returns")
		}
		for _, v := range vs2 {
			r.Fail(rule, v.Key, w.Pos(v.Pos), "NewReader gives the reference back exactly on its error returns", v.Msg, v.Path...)
		}
	}
	// the decrement function panics below zero (that is what makes a double release observable)
	_ = core.Mod
}

func c08Lock(e *Env) {
	guardedBy(e, "C08.lock", []guard{
		{Rel: "pkg/app", Typ: "fsFile", Field: "readersCount", LockTyp: "fsHandler", Lock: "cacheLock"},
		{Rel: "pkg/app", Typ: "fsHandler", Field: "cache", Lock: "cacheLock"},
		{Rel: "pkg/app", Typ: "fsHandler", Field: "compressedCache", Lock: "cacheLock"},
		{Rel: "pkg/app", Typ: "fsFile", Field: "bigFiles", Lock: "bigFilesLock"},
	}, []lockExc{
		{Func: "pkg/app.fsHandler.handleRequest", Field: "cache", Reason: "reads the map reference (assigned once in the constructor, never reassigned) into a local; every lookup/insert through that local happens between cacheLock.Lock/Unlock"},
		{Func: "pkg/app.fsHandler.handleRequest", Field: "compressedCache", Reason: "reads the map reference (assigned once in the constructor, never reassigned) into a local; every lookup/insert through that local happens between cacheLock.Lock/Unlock"},
	})
}

// C08.head — HEAD answers carry the same Content-Length and no body.
func c08Head(e *Env) {
	const rule = "C08.head"
	w, r := e.W, e.R
	r.Explainf("C08.head: in fsHandler.handleRequest the if/else on ctx.IsHead() hands the same length variable to SetBodyStream (non-HEAD) and to SetContentLength (HEAD), and the HEAD branch sets Response.SkipBody = true.")
	hr := w.Func("pkg/app", "fsHandler", "handleRequest")
	skip := w.Field("pkg/protocol", "Response", "SkipBody")
	if hr == nil || skip == nil {
		r.Anchor(rule, "fsHandler.handleRequest / Response.SkipBody")
		return
	}
	info := hr.Pkg.TypesInfo
	fname := w.FuncName(hr.Obj)
	found := false
	ast.Inspect(hr.Decl.Body, func(n ast.Node) bool {
		is, ok := n.(*ast.IfStmt)
		if !ok || is.Else == nil {
			return true
		}
		hit, t, _ := condCalls(info, is.Cond, func(f *types.Func) bool { return esp.Is(f, pkgApp, "RequestContext", "IsHead") })
		if !hit || t == 0 {
			return true
		}
		found = true
		headBlk, bodyBlk := ast.Node(is.Body), ast.Node(is.Else)
		if t < 0 { // `if !ctx.IsHead() { body } else { head }`
			headBlk, bodyBlk = is.Else, is.Body
		}
		var streamLen, headLen *types.Var
		skipSet := false
		ast.Inspect(bodyBlk, func(m ast.Node) bool {
			if c, ok := m.(*ast.CallExpr); ok && esp.Is(calleeOf(info, c), pkgApp, "RequestContext", "SetBodyStream") && len(c.Args) == 2 {
				streamLen = usedVar(info, c.Args[1])
			}
			return true
		})
		ast.Inspect(headBlk, func(m ast.Node) bool {
			switch x := m.(type) {
			case *ast.CallExpr:
				if esp.Is(calleeOf(info, x), pkgProto, "ResponseHeader", "SetContentLength") && len(x.Args) == 1 {
					headLen = usedVar(info, x.Args[0])
				}
			case *ast.AssignStmt:
				if len(x.Lhs) == 1 && usedVar(info, x.Lhs[0]) == skip {
					if id, ok := unparen(x.Rhs[0]).(*ast.Ident); ok && id.Name == "true" {
						skipSet = true
					}
				}
			}
			return true
		})
		r.Check(streamLen != nil && streamLen == headLen, rule, fname+":same-length", w.Pos(is.Pos()), "HEAD and GET answer with the same Content-Length value", "SetBodyStream and the HEAD branch's SetContentLength do not receive the same variable")
		r.Check(skipSet, rule, fname+":skip-body", w.Pos(is.Pos()), "HEAD branch sets SkipBody", "the HEAD branch does not set Response.SkipBody = true")
		return false
	})
	r.Check(found, rule, fname+":has-head-branch", w.Pos(hr.Decl.Pos()), "the handler branches on ctx.IsHead() with both arms", "no if/else on ctx.IsHead() found")
}

// C08.reuse — a reader returned to its free list / pool forgets the range of the last request.
func c08Reuse(e *Env) {
	const rule = "C08.reuse"
	w, r := e.W, e.R
	r.Explainf("C08.reuse: file readers are recycled (big-file readers on the file's own free list, small-file readers in a sync.Pool). For every type implementing byteRangeUpdater, each receiver field that UpdateByteRange stores to must be stored again on every non-panicking path of the type's Close (go/ssa must-write analysis) — otherwise a reader that last served a Range request serves the next full request through its exhausted limiter / stale offsets.")
	iface, _ := w.Object("pkg/app", "byteRangeUpdater").(*types.TypeName)
	if iface == nil {
		r.Anchor(rule, "app.byteRangeUpdater")
		return
	}
	it, _ := iface.Type().Underlying().(*types.Interface)
	pkg := w.Pkg("pkg/app")
	fc := newFieldCov(w)
	n := 0
	for _, name := range pkg.Types.Scope().Names() {
		tn, ok := pkg.Types.Scope().Lookup(name).(*types.TypeName)
		if !ok || tn == iface || it == nil {
			continue
		}
		if _, isI := tn.Type().Underlying().(*types.Interface); isI || !types.Implements(types.NewPointer(tn.Type()), it) {
			continue
		}
		upd, cl := w.Func("pkg/app", tn.Name(), "UpdateByteRange"), w.Func("pkg/app", tn.Name(), "Close")
		if upd == nil || cl == nil {
			r.Fail(rule, tn.Name()+":methods", "-", "range-capable reader has UpdateByteRange and Close", "type "+tn.Name()+" lacks UpdateByteRange or Close")
			continue
		}
		n++
		ufn, cfn := w.SSAFunc(upd), w.SSAFunc(cl)
		_, st := structOfPtr(ufn.Params[0].Type())
		if st == nil {
			continue
		}
		// fields stored by UpdateByteRange (directly, or a sub-field of a value field)
		al := aliasesOf(ufn, ufn.Params[0])
		set := map[int]bool{}
		for _, b := range ufn.Blocks {
			for _, ins := range b.Instrs {
				if sto, ok := ins.(*ssa.Store); ok {
					if i, ok := fieldAddrOf(sto.Addr, al); ok {
						set[i] = true
					}
				}
			}
		}
		must := fc.must(cfn, 0)
		var names []string
		for i := range set {
			names = append(names, st.Field(i).Name())
		}
		sort.Strings(names)
		r.Unit("%s: %s — UpdateByteRange stores %v; Close resets %d fields on every path", rule, tn.Name(), names, len(must))
		for i := range set {
			f := st.Field(i)
			r.Check(must[i], rule, tn.Name()+":"+f.Name(), w.Pos(cl.Decl.Pos()), "field "+tn.Name()+"."+f.Name()+" set by UpdateByteRange is reset by Close on every path", tn.Name()+".Close does not store "+f.Name()+" on every path although UpdateByteRange sets it: a recycled reader keeps the range state of the previous request (e.g. an exhausted LimitedReader → empty body with full Content-Length)")
		}
	}
	r.Floor(rule, n, 2, "range-capable reader types")
}
