package rules

import (
	"fmt"
	"go/ast"
	"go/token"
	"go/types"
	"sort"

	"golang.org/x/tools/go/cfg"

	"hzcheck/core"
)

// guard: field Typ.Field of package Rel is protected by mutex field Typ(or LockTyp).Lock.
type guard struct {
	Rel, Typ, Field string
	LockTyp, Lock   string
}

type lockExc struct {
	Func, Field, Reason string
	// AfterRecv (with Func == ""): the access `x.Field` is excused in any function when it sits
	// in the select case (or after the statement) that received from `x.<AfterRecv>` — the
	// channel is closed under the lock after the fields were written
	AfterRecv string
}

type lockset map[*types.Var]bool

func (s lockset) clone() lockset {
	n := lockset{}
	for k := range s {
		n[k] = true
	}
	return n
}
func lsInter(a, b lockset) lockset {
	n := lockset{}
	for k := range a {
		if b[k] {
			n[k] = true
		}
	}
	return n
}
func lsEq(a, b lockset) bool {
	if len(a) != len(b) {
		return false
	}
	for k := range a {
		if !b[k] {
			return false
		}
	}
	return true
}

// guardedBy implements the must-hold lock-set analysis (E8) for one table of guarded fields.
func guardedBy(e *Env, rule string, table []guard, excs []lockExc) {
	w, r := e.W, e.R
	r.Explainf("%s: must-hold lock-set dataflow over go/cfg for every function of the declaring packages (Lock/RLock add, Unlock/RUnlock remove, `defer Unlock` keeps the lock to the exit; the entry lock set of an unexported function is the intersection over its static call sites, ∅ for exported functions, goroutine entries, function values and literals); every read or write of a guarded field must happen with its mutex held, except for the named, reasoned exceptions.", rule)
	guardOf := map[*types.Var]*types.Var{}
	locks := map[*types.Var]bool{}
	pkgs := map[string]bool{}
	for _, g := range table {
		f := w.Field(g.Rel, g.Typ, g.Field)
		lt := g.LockTyp
		if lt == "" {
			lt = g.Typ
		}
		l := w.Field(g.Rel, lt, g.Lock)
		if f == nil || l == nil {
			r.Anchor(rule, fmt.Sprintf("%s.%s.%s guarded by %s.%s", g.Rel, g.Typ, g.Field, lt, g.Lock))
			continue
		}
		guardOf[f] = l
		locks[l] = true
		pkgs[g.Rel] = true
	}
	excOf := func(fn, field string) (string, bool) {
		for _, x := range excs {
			if x.Func == fn && (x.Field == field || x.Field == "*") {
				return x.Reason, true
			}
		}
		return "", false
	}
	usedExc := map[string]bool{}
	type unit struct {
		name string
		obj  *types.Func // nil for literals
		body *ast.BlockStmt
		info *types.Info
		pos  ast.Node
	}
	var units []*unit
	byObj := map[*types.Func]*unit{}
	for rel := range pkgs {
		p := w.Pkg(rel)
		if p == nil {
			continue
		}
		for _, fi := range declaredNonTest(w) {
			if fi.Pkg != p {
				continue
			}
			u := &unit{name: w.FuncName(fi.Obj), obj: fi.Obj, body: fi.Decl.Body, info: p.TypesInfo, pos: fi.Decl}
			units = append(units, u)
			byObj[fi.Obj] = u
			k := 0
			ast.Inspect(fi.Decl.Body, func(n ast.Node) bool {
				if fl, ok := n.(*ast.FuncLit); ok {
					k++
					units = append(units, &unit{name: fmt.Sprintf("%s$lit%d", u.name, k), body: fl.Body, info: p.TypesInfo, pos: fl})
				}
				return true
			})
		}
	}
	lockOp := func(info *types.Info, call *ast.CallExpr) (*types.Var, string) {
		sel, ok := call.Fun.(*ast.SelectorExpr)
		if !ok {
			return nil, ""
		}
		op := ""
		switch sel.Sel.Name {
		case "Lock", "RLock":
			op = "lock"
		case "Unlock", "RUnlock":
			op = "unlock"
		default:
			return nil, ""
		}
		if v := usedVar(info, sel.X); v != nil && locks[v] {
			return v, op
		}
		return nil, ""
	}
	// entry lock sets
	top := lockset{}
	for l := range locks {
		top[l] = true
	}
	entry := map[*unit]lockset{}
	hasCaller := map[*unit]bool{}
	// functions used as values or started as goroutines get ∅
	escaping := map[*types.Func]bool{}
	for _, u := range units {
		ast.Inspect(u.body, func(n ast.Node) bool {
			switch x := n.(type) {
			case *ast.FuncLit:
				return false
			case *ast.GoStmt:
				if f := calleeOf(u.info, x.Call); f != nil {
					escaping[f.Origin()] = true
				}
			case *ast.CallExpr:
				for _, a := range x.Args {
					ast.Inspect(a, func(m ast.Node) bool {
						if id, ok := m.(*ast.Ident); ok {
							if f, ok := u.info.Uses[id].(*types.Func); ok {
								escaping[f.Origin()] = true
							}
						}
						if se, ok := m.(*ast.SelectorExpr); ok {
							if _, isCallFun := m.(*ast.CallExpr); !isCallFun {
								if f, ok := u.info.Uses[se.Sel].(*types.Func); ok {
									// method value passed as argument
									_ = f
								}
							}
						}
						return true
					})
				}
			}
			return true
		})
	}
	for _, u := range units {
		if u.obj != nil && !u.obj.Exported() && !escaping[u.obj] {
			entry[u] = top.clone()
		} else {
			entry[u] = lockset{}
		}
	}
	type access struct {
		u     *unit
		sel   *ast.SelectorExpr
		field *types.Var
		held  bool
	}
	analyse := func(u *unit, check bool, calls func(callee *unit, held lockset), acc func(a access)) {
		g := cfg.New(u.body, func(*ast.CallExpr) bool { return true })
		in := map[*cfg.Block]lockset{g.Blocks[0]: entry[u].clone()}
		work := []*cfg.Block{g.Blocks[0]}
		transfer := func(b *cfg.Block, s lockset, final bool) lockset {
			s = s.clone()
			for _, nd := range b.Nodes {
				if _, ok := nd.(*ast.DeferStmt); ok {
					continue
				}
				ast.Inspect(nd, func(m ast.Node) bool {
					switch x := m.(type) {
					case *ast.FuncLit:
						return false
					case *ast.GoStmt:
						return false
					case *ast.CallExpr:
						if l, op := lockOp(u.info, x); op == "lock" {
							s[l] = true
						} else if op == "unlock" {
							delete(s, l)
						} else if final && calls != nil {
							if f := calleeOf(u.info, x); f != nil {
								if cu := byObj[f.Origin()]; cu != nil {
									calls(cu, s)
								}
							}
						}
					case *ast.SelectorExpr:
						if final && acc != nil {
							if v := usedVar(u.info, x); v != nil {
								if l, ok := guardOf[v]; ok {
									acc(access{u, x, v, s[l]})
								}
							}
						}
					}
					return true
				})
			}
			return s
		}
		for len(work) > 0 {
			b := work[0]
			work = work[1:]
			o := transfer(b, in[b], false)
			for _, su := range b.Succs {
				old, ok := in[su]
				var nw lockset
				if !ok {
					nw = o
				} else {
					nw = lsInter(old, o)
					if lsEq(nw, old) {
						continue
					}
				}
				in[su] = nw
				work = append(work, su)
			}
		}
		if check {
			for _, b := range g.Blocks {
				if s, ok := in[b]; ok {
					transfer(b, s, true)
				}
			}
		}
	}
	// fixpoint on entry sets (decreasing)
	for iter := 0; iter < 10; iter++ {
		next := map[*unit]lockset{}
		for _, u := range units {
			analyse(u, true, func(cu *unit, held lockset) {
				hasCaller[cu] = true
				if cur, ok := next[cu]; ok {
					next[cu] = lsInter(cur, held)
				} else {
					next[cu] = held.clone()
				}
			}, nil)
		}
		changed := false
		for _, u := range units {
			if u.obj == nil || u.obj.Exported() || escaping[u.obj] {
				continue
			}
			n, ok := next[u]
			if !ok {
				n = lockset{} // never called statically inside the package
			}
			n = lsInter(n, entry[u])
			if !lsEq(n, entry[u]) {
				entry[u] = n
				changed = true
			}
		}
		if !changed {
			break
		}
	}
	nAcc, perField := 0, map[*types.Var]int{}
	for _, u := range units {
		k := map[string]int{}
		analyse(u, true, nil, func(a access) {
			nAcc++
			perField[a.field]++
			k[a.field.Name()]++
			key := fmt.Sprintf("%s:%s#%d", u.name, a.field.Name(), k[a.field.Name()])
			desc := fmt.Sprintf("access to %s.%s holds %s", recvName(a.field, guardOf, table), a.field.Name(), guardOf[a.field].Name())
			if a.held {
				r.OK(rule, key, w.Pos(a.sel.Pos()), desc)
				return
			}
			if reason, ok := excOf(u.name, a.field.Name()); ok {
				usedExc[u.name+"|"+a.field.Name()] = true
				r.Except(rule, key, w.Pos(a.sel.Pos()), desc, reason)
				return
			}
			for _, x := range excs {
				if x.AfterRecv == "" || x.Field != a.field.Name() {
					continue
				}
				se := a.sel
				want := types.ExprString(se.X) + "." + x.AfterRecv
				par := parents(u.pos)
				found := false
				for cur := ast.Node(a.sel); cur != nil && !found; cur = par[cur] {
					if cc, ok := par[cur].(*ast.CommClause); ok && cc.Comm != nil {
						ast.Inspect(cc.Comm, func(m ast.Node) bool {
							if ue, ok := m.(*ast.UnaryExpr); ok && ue.Op == token.ARROW {
								if types.ExprString(ue.X) == want {
									found = true
								} else if rs, ok := unparen(ue.X).(*ast.SelectorExpr); ok && types.ExprString(rs.X) == types.ExprString(se.X) {
									// the signalling channel was renamed: any channel field of the same value
									if fv := usedVar(u.info, rs); fv != nil && fv.IsField() {
										if _, isChan := fv.Type().Underlying().(*types.Chan); isChan {
											found = true
										}
									}
								}
							}
							return true
						})
					}
				}
				if found {
					r.Except(rule, key, w.Pos(a.sel.Pos()), desc, x.Reason)
					return
				}
			}
			r.Fail(rule, key, w.Pos(a.sel.Pos()), desc, fmt.Sprintf("`%s` is accessed in %s without holding %s on some path (entry lock set %v): concurrent callers race on the pool bookkeeping", types.ExprString(a.sel), u.name, guardOf[a.field].Name(), lsNames(entry[u])))
		})
	}
	var fields []string
	for f, n := range perField {
		fields = append(fields, fmt.Sprintf("%s×%d", f.Name(), n))
	}
	sort.Strings(fields)
	r.Unit("%s: %d functions/literals in %d packages, %d guarded accesses: %v", rule, len(units), len(pkgs), nAcc, fields)
	for f := range guardOf {
		r.Check(perField[f] > 0, rule, "floor:field:"+f.Name(), "-", "guarded field "+f.Name()+" has at least one access", "no access found: the table entry is stale")
	}
	_ = core.Mod
}

func lsNames(s lockset) []string {
	var out []string
	for k := range s {
		out = append(out, k.Name())
	}
	sort.Strings(out)
	return out
}

func recvName(f *types.Var, guardOf map[*types.Var]*types.Var, table []guard) string {
	for _, g := range table {
		if g.Field == f.Name() {
			return g.Typ
		}
	}
	return "?"
}

func c10Lock(e *Env) {
	guardedBy(e, "C10.lock", []guard{
		{Rel: "pkg/protocol/http1", Typ: "HostClient", Field: "connsCount", Lock: "connsLock"},
		{Rel: "pkg/protocol/http1", Typ: "HostClient", Field: "conns", Lock: "connsLock"},
		{Rel: "pkg/protocol/http1", Typ: "HostClient", Field: "connsWait", Lock: "connsLock"},
		{Rel: "pkg/protocol/http1", Typ: "HostClient", Field: "connsCleanerRun", Lock: "connsLock"},
		{Rel: "pkg/protocol/http1", Typ: "HostClient", Field: "addrs", Lock: "addrsLock"},
		{Rel: "pkg/protocol/http1", Typ: "HostClient", Field: "addrIdx", Lock: "addrsLock"},
		{Rel: "pkg/protocol/http1", Typ: "HostClient", Field: "tlsConfigMap", Lock: "tlsConfigMapLock"},
		{Rel: "pkg/protocol/http1", Typ: "wantConn", Field: "conn", Lock: "mu"},
		{Rel: "pkg/protocol/http1", Typ: "wantConn", Field: "err", Lock: "mu"},
	}, []lockExc{
		{Field: "conn", AfterRecv: "ready", Reason: "read in the select case that received from w.ready: the channel is closed under mu after the fields were written (tryDeliver/cancel), which orders the read after the write"},
		{Field: "err", AfterRecv: "ready", Reason: "read after `<-w.ready` (see conn)"},
		{Func: "pkg/protocol/http1.HostClient.WantConnectionCount", Field: "connsWait", Reason: "observer-only racy read used for metrics; not part of the pool invariants the property states"},
	})
}
