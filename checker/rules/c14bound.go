package rules

import (
	"fmt"
	"go/token"
	"go/types"

	"golang.org/x/tools/go/ssa"

	"hzcheck/zone"
)

func fieldIndex(st *types.Struct, name string) int {
	for i := 0; i < st.NumFields(); i++ {
		if st.Field(i).Name() == name {
			return i
		}
	}
	return -1
}

// rootSet: the SSA values that denote parameter p: p itself and loads of a cell (a local
// spilled to memory because a closure or defer captures it) whose only store is p.
type rootSet map[ssa.Value]bool

func paramAliases(fn *ssa.Function, p *ssa.Parameter) rootSet {
	out := rootSet{p: true}
	cells := map[*ssa.Alloc]bool{}
	bad := map[*ssa.Alloc]bool{}
	var scan func(f *ssa.Function)
	scan = func(f *ssa.Function) {
		for _, b := range f.Blocks {
			for _, ins := range b.Instrs {
				if st, ok := ins.(*ssa.Store); ok {
					if al, ok := st.Addr.(*ssa.Alloc); ok {
						if st.Val == ssa.Value(p) {
							cells[al] = true
						} else {
							bad[al] = true
						}
					}
					// closures write captured cells through their free variables
					if fv, ok := st.Addr.(*ssa.FreeVar); ok {
						_ = fv
						for al := range cells {
							bad[al] = bad[al] || false
						}
					}
				}
			}
		}
	}
	scan(fn)
	// stores through free variables inside closures: find the binding
	for _, an := range fn.AnonFuncs {
		for _, b := range an.Blocks {
			for _, ins := range b.Instrs {
				if st, ok := ins.(*ssa.Store); ok {
					if fv, ok := st.Addr.(*ssa.FreeVar); ok {
						// locate the captured value in the MakeClosure bindings
						for _, pb := range fn.Blocks {
							for _, pi := range pb.Instrs {
								if mc, ok := pi.(*ssa.MakeClosure); ok && mc.Fn == ssa.Value(an) {
									for i, bv := range mc.Bindings {
										if i < len(an.FreeVars) && an.FreeVars[i] == fv {
											if al, ok := bv.(*ssa.Alloc); ok {
												bad[al] = true
											}
										}
									}
								}
							}
						}
					}
				}
			}
		}
	}
	for _, b := range fn.Blocks {
		for _, ins := range b.Instrs {
			if u, ok := ins.(*ssa.UnOp); ok && u.Op == token.MUL {
				if al, ok := u.X.(*ssa.Alloc); ok && cells[al] && !bad[al] {
					out[u] = true
				}
			}
		}
	}
	return out
}

// loadsField: v is a load of field idx of one of the root values.
func loadsField(v ssa.Value, roots rootSet, idx int) bool {
	u, ok := v.(*ssa.UnOp)
	if !ok || u.Op != token.MUL {
		return false
	}
	fa, ok := u.X.(*ssa.FieldAddr)
	return ok && roots[fa.X] && fa.Field == idx
}

func reaches(from, to *ssa.BasicBlock) bool {
	seen := map[*ssa.BasicBlock]bool{}
	work := []*ssa.BasicBlock{from}
	for len(work) > 0 {
		b := work[len(work)-1]
		work = work[:len(work)-1]
		if b == to {
			return true
		}
		if seen[b] {
			continue
		}
		seen[b] = true
		work = append(work, b.Succs...)
	}
	return false
}

// C14.bound — on the fixed-length partition every consumption from the underlying reader in
// the stream's Read takes at most contentLength − offset bytes.
func c14Bound(e *Env) {
	const rule = "C14.bound"
	w, r := e.W, e.R
	r.Explainf("C14.bound: zone abstract interpretation of bodyStream.Read under the entry assumption contentLength ≥ 0 (fixed-length partition; −1 is dispatched to the chunked branch first, −2 is read-until-close and unbounded by design): for every call on the stream's underlying reader — Read(buf), Peek(n), Skip(n) — the analysis must prove len(buf) resp. n ≤ remain, where remain is the SSA value `contentLength − offset` computed from the receiver's fields with no store to either field between its computation and the call. Reading more would take bytes of the next request off the connection.")
	fi := w.Func("pkg/protocol/http1/ext", "bodyStream", "Read")
	if fi == nil {
		r.Anchor(rule, "ext.bodyStream.Read")
		return
	}
	fn := w.SSAFunc(fi)
	_, st := structOfPtr(fn.Params[0].Type())
	if st == nil {
		r.Anchor(rule, "ext.bodyStream (struct)")
		return
	}
	iCL, iOff, iRd := fieldIndex(st, "contentLength"), fieldIndex(st, "offset"), fieldIndex(st, "reader")
	if iCL < 0 || iOff < 0 || iRd < 0 {
		r.Anchor(rule, "bodyStream.contentLength/offset/reader")
		return
	}
	recv := paramAliases(fn, fn.Params[0])
	fname := w.FuncName(fi.Obj)
	// remain values
	var remains []*ssa.BinOp
	var fieldStores []*ssa.Store
	for _, b := range fn.Blocks {
		for _, ins := range b.Instrs {
			if bo, ok := ins.(*ssa.BinOp); ok && bo.Op == token.SUB && loadsField(bo.X, recv, iCL) && loadsField(bo.Y, recv, iOff) {
				remains = append(remains, bo)
			}
			if s, ok := ins.(*ssa.Store); ok {
				if fa, ok := s.Addr.(*ssa.FieldAddr); ok && recv[fa.X] && (fa.Field == iCL || fa.Field == iOff) {
					fieldStores = append(fieldStores, s)
				}
			}
		}
	}
	fromReader := func(v ssa.Value) bool {
		for i := 0; i < 4; i++ {
			switch x := v.(type) {
			case *ssa.TypeAssert:
				v = x.X
				continue
			case *ssa.Extract:
				v = x.Tuple
				continue
			case *ssa.ChangeInterface:
				v = x.X
				continue
			case *ssa.MakeInterface:
				v = x.X
				continue
			}
			break
		}
		return loadsField(v, recv, iRd)
	}
	z := getZone(w)
	n, reached := 0, 0
	count := map[string]int{}
	opts := zone.Options{
		Entry: func(a *zone.Analyzer, d *zone.DBM) {
			// contentLength >= 0 at entry: constrain the access-path variable of the field load
			for _, b := range fn.Blocks {
				for _, ins := range b.Instrs {
					if u, ok := ins.(*ssa.UnOp); ok && loadsField(u, recv, iCL) {
						zone.AssumeGE(d, a.IntTerm(u), 0)
						return
					}
				}
			}
		},
		Custom: func(a *zone.Analyzer, d *zone.DBM, ins ssa.Instruction) {
			call, ok := ins.(*ssa.Call)
			if !ok || !call.Call.IsInvoke() || !fromReader(call.Call.Value) {
				return
			}
			m := call.Call.Method.Name()
			if m != "Read" && m != "Peek" && m != "Skip" {
				return
			}
			if d == nil {
				return // chunked partition: unreachable under the entry assumption
			}
			n++
			count[m]++
			key := fmt.Sprintf("%s:reader.%s#%d", fname, m, count[m])
			pos := w.Pos(call.Pos())
			desc := "consumption from the underlying reader is bounded by contentLength − offset"
			arg := call.Call.Args[0]
			proven := false
			why := "no value `contentLength − offset` is computed before this call"
			for _, rem := range remains {
				if !rem.Block().Dominates(call.Block()) {
					continue
				}
				stale := false
				for _, s := range fieldStores {
					if (rem.Block().Dominates(s.Block()) || rem.Block() == s.Block()) && reaches(s.Block(), call.Block()) && s.Block() != call.Block() {
						if s.Block() == rem.Block() && !after(s, rem) {
							continue
						}
						stale = true
					}
					if s.Block() == call.Block() && before(s, call) && (rem.Block() != call.Block() || after(s, rem)) {
						stale = true
					}
				}
				if stale {
					why = "offset/contentLength is stored between the computation of the remainder and the call"
					continue
				}
				reached++
				var ub int64
				if m == "Read" {
					ub = zone.Tub(d, a.LenTerm(arg), a.IntTerm(rem))
				} else {
					ub = zone.Tub(d, a.IntTerm(arg), a.IntTerm(rem))
				}
				if ub <= 0 {
					proven = true
				} else {
					why = fmt.Sprintf("the analysis cannot bound the %s argument by the remaining body length (upper bound of the difference: %s): with a read buffer larger than the remainder the call consumes bytes that belong to the next request on the connection", m, boundStr(ub))
				}
			}
			r.Check(proven, rule, key, pos, desc, why)
		},
	}
	z.prog.Analyze(fn, opts)
	r.Unit("%s: %s — %d `contentLength − offset` values, %d stores to those fields, %d reader consumptions on the fixed-length partition", rule, fname, len(remains), len(fieldStores), n)
	r.Floor(rule, n, 3, "reader consumptions (Read/Peek/Skip) on the fixed-length path of "+fname)
	r.Assume("C14.bound is decided for the fixed-length partition contentLength ≥ 0 only")
}

func boundStr(b int64) string {
	if b >= zone.INF {
		return "unbounded"
	}
	return fmt.Sprint(b)
}

func before(a, b ssa.Instruction) bool {
	for _, ins := range a.Block().Instrs {
		if ins == a {
			return true
		}
		if ins == b {
			return false
		}
	}
	return false
}
func after(a, b ssa.Instruction) bool { return a.Block() == b.Block() && before(b, a) && a != b }
