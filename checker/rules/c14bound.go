package rules

// placeholder until the zone engine lands
func c14Bound(e *Env) {}
