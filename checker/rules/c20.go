package rules

import (
	"fmt"
	"go/ast"
	"go/token"
	"go/types"
	"sort"

	"hzcheck/core"
)

func init() {
	register("C20", c20DivZero, c20InstanceMemo, c20Ops, c20NoPanic, c20Fixpoint, c20Sorted, c20Pure, c20CacheErr, c15CacheInfo)
}

const relTagexpr = "internal/tagexpr"

type opSpec struct {
	goOp  token.Token
	class int // 1 = binds tightest
}

var c20Table = map[string]opSpec{
	"*": {token.MUL, 1}, "/": {token.QUO, 1}, "%": {token.REM, 1},
	"+": {token.ADD, 2}, "-": {token.SUB, 2},
	"<": {token.LSS, 3}, "<=": {token.LEQ, 3}, ">": {token.GTR, 3}, ">=": {token.GEQ, 3},
	"==": {token.EQL, 4}, "!=": {token.NEQ, 4},
	"&&": {token.LAND, 5}, "||": {token.LOR, 6},
}

// nodeTypeOfCtor: the named struct type a `newXExprNode()` constructor returns (&T{}).
func nodeTypeOfCtor(w *core.World, f *types.Func) *types.Named {
	fi := w.DeclOf(f)
	if fi == nil {
		return nil
	}
	var out *types.Named
	ast.Inspect(fi.Decl.Body, func(n ast.Node) bool {
		if rs, ok := n.(*ast.ReturnStmt); ok && len(rs.Results) == 1 {
			e := unparen(rs.Results[0])
			if u, ok := e.(*ast.UnaryExpr); ok && u.Op == token.AND {
				if cl, ok := unparen(u.X).(*ast.CompositeLit); ok {
					if n, ok := fi.Pkg.TypesInfo.TypeOf(cl).(*types.Named); ok {
						out = n
					}
				}
			}
		}
		return true
	})
	return out
}

// C20.ops — token, String(), Go operator and priority class of every operator node agree.
func c20Ops(e *Env) {
	const rule = "C20.ops"
	w, r := e.W, e.R
	r.Explainf("C20.ops: four-way agreement per operator node type T: the token of the parseOperator case that constructs T, the literal T.String() returns, the Go operator T.Run applies to its float64 (int64 for %%) operands — != is the negation of the embedded ==, && / || loop over both operands with the right polarity — and T's class in getPriority; the classes are ordered * / %% > + - > < <= > >= > == != > && > || and operands rank above all operators.")
	po := w.Func(relTagexpr, "Expr", "parseOperator")
	gp := w.Func(relTagexpr, "", "getPriority")
	if po == nil || gp == nil {
		r.Anchor(rule, "tagexpr.Expr.parseOperator / getPriority")
		return
	}
	info := po.Pkg.TypesInfo
	// priority by type
	prio := map[*types.TypeName]int{}
	defPrio := -1
	ast.Inspect(gp.Decl.Body, func(n ast.Node) bool {
		cc, ok := n.(*ast.CaseClause)
		if !ok {
			return true
		}
		val := -1
		for _, s := range cc.Body {
			if rs, ok := s.(*ast.ReturnStmt); ok && len(rs.Results) == 1 {
				val, _ = constInt(info, rs.Results[0])
			}
		}
		if len(cc.List) == 0 {
			defPrio = val
		}
		for _, l := range cc.List {
			if t := info.TypeOf(l); t != nil {
				if p, ok := t.(*types.Pointer); ok {
					if nt, ok := p.Elem().(*types.Named); ok {
						prio[nt.Obj()] = val
					}
				}
			}
		}
		return true
	})
	// tokens
	type opInfo struct {
		tok string
		typ *types.Named
		pos token.Pos
	}
	var ops []opInfo
	ast.Inspect(po.Decl.Body, func(n ast.Node) bool {
		cc, ok := n.(*ast.CaseClause)
		if !ok || len(cc.List) != 1 {
			return true
		}
		tok := ""
		if s, ok := constString(info, cc.List[0]); ok {
			tok = s
		} else if c, ok := constInt(info, cc.List[0]); ok && c > 0 && c < 128 {
			tok = string(rune(c))
		}
		if tok == "" {
			return true
		}
		for _, s := range cc.Body {
			if rs, ok := s.(*ast.ReturnStmt); ok && len(rs.Results) == 1 {
				if call, ok := unparen(rs.Results[0]).(*ast.CallExpr); ok {
					if f := calleeOf(info, call); f != nil {
						if nt := nodeTypeOfCtor(w, f); nt != nil {
							ops = append(ops, opInfo{tok, nt, cc.Pos()})
						}
					}
				}
			}
		}
		return true
	})
	r.Floor(rule, len(ops), 13, "operator tokens in parseOperator")
	classPrio := map[int]map[int]bool{}
	seenTok := map[string]bool{}
	for _, op := range ops {
		seenTok[op.tok] = true
		spec, known := c20Table[op.tok]
		key := "op:" + op.tok
		pos := w.Pos(op.pos)
		if !known {
			r.Fail(rule, key+":known", pos, "operator token is in the documented operator set", "token "+op.tok+" is not in the precedence table")
			continue
		}
		tname := op.typ.Obj().Name()
		// String()
		strOK := false
		if sf := w.Func(relTagexpr, tname, "String"); sf != nil {
			ast.Inspect(sf.Decl.Body, func(n ast.Node) bool {
				if rs, ok := n.(*ast.ReturnStmt); ok && len(rs.Results) == 1 {
					if s, ok := constString(sf.Pkg.TypesInfo, rs.Results[0]); ok && s == op.tok {
						strOK = true
					}
				}
				return true
			})
		}
		r.Check(strOK, rule, key+":string", pos, fmt.Sprintf("%s.String() is %q", tname, op.tok), tname+".String() does not return the token it is parsed from")
		// Run
		rf := w.Func(relTagexpr, tname, "Run")
		runOK, why := false, "no Run method declared on "+tname
		if rf != nil {
			rinfo := rf.Pkg.TypesInfo
			switch spec.goOp {
			case token.NEQ:
				// !embeddedEqual.Run(...)
				ast.Inspect(rf.Decl.Body, func(n ast.Node) bool {
					if u, ok := n.(*ast.UnaryExpr); ok && u.Op == token.NOT {
						ast.Inspect(u.X, func(m ast.Node) bool {
							if c, ok := m.(*ast.CallExpr); ok {
								if f := calleeOf(rinfo, c); f != nil && f.Name() == "Run" {
									if rn := recvNamed(f); rn != nil {
										for _, o2 := range ops {
											if o2.tok == "==" && o2.typ.Obj() == rn.Obj() {
												runOK = true
											}
										}
									}
								}
							}
							return true
						})
					}
					return true
				})
				why = "!= is not computed as the negation of the == node's Run"
			case token.LAND, token.LOR:
				// the operands are tested left, then right: either one loop over
				// [2]ExprNode{left, right} with `if [!]FakeBool(e.Run(…)) { return X }`, or two such
				// ifs in sequence naming leftOperand and rightOperand; the function ends with `return !X`
				type test struct {
					operand string
					negated bool
					ret     string
				}
				var tests []test
				fakeBoolIf := func(is *ast.IfStmt) (arg ast.Expr, negated bool, ret string, ok bool) {
					cond := unparen(is.Cond)
					if u, isU := cond.(*ast.UnaryExpr); isU && u.Op == token.NOT {
						negated = true
						cond = unparen(u.X)
					}
					c, isC := cond.(*ast.CallExpr)
					if !isC || len(c.Args) != 1 || len(is.Body.List) == 0 {
						return
					}
					if f := calleeOf(rinfo, c); f == nil || f.Name() != "FakeBool" {
						return
					}
					rs, isR := is.Body.List[len(is.Body.List)-1].(*ast.ReturnStmt)
					if !isR || len(rs.Results) != 1 {
						return
					}
					return c.Args[0], negated, types.ExprString(rs.Results[0]), true
				}
				operandOf := func(x ast.Expr) string {
					name := ""
					ast.Inspect(x, func(n ast.Node) bool {
						if se, ok := n.(*ast.SelectorExpr); ok && (se.Sel.Name == "leftOperand" || se.Sel.Name == "rightOperand") && name == "" {
							name = se.Sel.Name
						}
						return true
					})
					return name
				}
				for _, st := range rf.Decl.Body.List {
					switch x := st.(type) {
					case *ast.RangeStmt:
						cl, isLit := unparen(x.X).(*ast.CompositeLit)
						if !isLit {
							continue
						}
						for _, bs := range x.Body.List {
							if is, ok := bs.(*ast.IfStmt); ok {
								if _, neg, ret, ok := fakeBoolIf(is); ok {
									for _, el := range cl.Elts {
										tests = append(tests, test{operandOf(el), neg, ret})
									}
								}
							}
						}
					case *ast.IfStmt:
						if arg, neg, ret, ok := fakeBoolIf(x); ok {
							tests = append(tests, test{operandOf(arg), neg, ret})
						}
					}
				}
				final := ""
				if rs, ok := rf.Decl.Body.List[len(rf.Decl.Body.List)-1].(*ast.ReturnStmt); ok && len(rs.Results) == 1 {
					final = types.ExprString(rs.Results[0])
				}
				found := len(tests) > 0
				bothOperands := len(tests) == 2 && tests[0].operand == "leftOperand" && tests[1].operand == "rightOperand"
				negated, inner := false, ""
				if found {
					negated, inner = tests[0].negated, tests[0].ret
					for _, t := range tests {
						if t.negated != negated || t.ret != inner {
							found = false
						}
					}
				}
				if spec.goOp == token.LAND {
					runOK = found && negated && inner == "false" && final == "true" && bothOperands
				} else {
					runOK = found && !negated && inner == "true" && final == "false" && bothOperands
				}
				why = fmt.Sprintf("short-circuit polarity: negated=%v inner return %s final return %s, both operands left→right: %v", negated, inner, final, bothOperands)
			default:
				opsSeen := map[token.Token]bool{}
				ast.Inspect(rf.Decl.Body, func(n ast.Node) bool {
					be, ok := n.(*ast.BinaryExpr)
					if !ok {
						return true
					}
					isNum := func(e ast.Expr) bool {
						if tv, ok := rinfo.Types[e]; ok && tv.Value != nil {
							return false // comparisons with constants (v1 == 0) are guards
						}
						t := rinfo.TypeOf(e)
						if t == nil {
							return false
						}
						b, ok := t.Underlying().(*types.Basic)
						return ok && (b.Kind() == types.Float64 || b.Kind() == types.Int64)
					}
					if isNum(be.X) && isNum(be.Y) {
						opsSeen[be.Op] = true
					}
					return true
				})
				var got []string
				for o := range opsSeen {
					got = append(got, o.String())
				}
				sort.Strings(got)
				runOK = len(opsSeen) == 1 && opsSeen[spec.goOp]
				why = fmt.Sprintf("Run applies %v to its numeric operands, expected only %s", got, spec.goOp)
			}
		}
		r.Check(runOK, rule, key+":run", pos, fmt.Sprintf("%s.Run computes `%s`", tname, op.tok), why)
		// priority
		p, has := prio[op.typ.Obj()]
		r.Check(has, rule, key+":has-priority", pos, tname+" has an explicit priority class", tname+" falls into getPriority's default (operand) class: it would bind tighter than every operator")
		if has {
			if classPrio[spec.class] == nil {
				classPrio[spec.class] = map[int]bool{}
			}
			classPrio[spec.class][p] = true
		}
	}
	for tok := range c20Table {
		r.Check(seenTok[tok], rule, "op:"+tok+":parsed", w.Pos(po.Decl.Pos()), "operator "+tok+" is recognised by parseOperator", "no case for "+tok)
	}
	// class ordering
	last := defPrio
	okOrder := defPrio > 0
	detail := fmt.Sprintf("default(operand)=%d", defPrio)
	for c := 1; c <= 6; c++ {
		ps := classPrio[c]
		if len(ps) != 1 {
			okOrder = false
			detail += fmt.Sprintf(" class%d=%v", c, ps)
			continue
		}
		for p := range ps {
			detail += fmt.Sprintf(" class%d=%d", c, p)
			if p >= last {
				okOrder = false
			}
			last = p
		}
	}
	r.Check(okOrder, rule, "priority-order", w.Pos(gp.Decl.Pos()), "operand > {* / %} > {+ -} > {< <= > >=} > {== !=} > && > ||", "priority classes are not strictly ordered as documented: "+detail)
}

// C20.nopanic — unchecked type assertions on the evaluation path cannot fail.
func c20NoPanic(e *Env) {
	const rule = "C20.nopanic"
	w, r := e.W, e.R
	r.Explainf("C20.nopanic: every single-result type assertion x.(T) in package tagexpr (non-test) either has an operand that is a call of a module function all of whose return statements yield values of static type T, or reads a context value whose every context.WithValue(…, sameKey, v) site in the module stores a v of static type T; anything else is undecided and reported. Zone analysis of constant indices in the package is part of the run.")
	p := w.Pkg(relTagexpr)
	if p == nil {
		r.Anchor(rule, "package internal/tagexpr")
		return
	}
	n := 0
	for _, fi := range declaredNonTest(w) {
		if fi.Pkg != p {
			continue
		}
		info := p.TypesInfo
		fname := w.FuncName(fi.Obj)
		par := parents(fi.Decl)
		k := 0
		ast.Inspect(fi.Decl.Body, func(nd ast.Node) bool {
			ta, ok := nd.(*ast.TypeAssertExpr)
			if !ok || ta.Type == nil {
				return true
			}
			// comma-ok forms are safe
			switch pp := par[ta].(type) {
			case *ast.AssignStmt:
				if len(pp.Lhs) == 2 && len(pp.Rhs) == 1 {
					return true
				}
			case *ast.ValueSpec:
				if len(pp.Names) == 2 {
					return true
				}
			}
			n++
			k++
			key := fmt.Sprintf("%s:assert#%d", fname, k)
			want := info.TypeOf(ta.Type)
			ok2, why := assertSafe(w, info, fi, ta, want)
			r.Check(ok2, rule, key, w.Pos(ta.Pos()), "unchecked assertion to "+want.String()+" cannot fail", why)
			return true
		})
	}
	r.Floor(rule, n, 2, "unchecked type assertions in tagexpr")
}

func assertSafe(w *core.World, info *types.Info, fi *core.FuncInfo, ta *ast.TypeAssertExpr, want types.Type) (bool, string) {
	x := unparen(ta.X)
	// call of a module function: all returns have the wanted static type
	if call, ok := x.(*ast.CallExpr); ok {
		f := calleeOf(info, call)
		d := w.DeclOf(f)
		if d == nil || d.Decl.Body == nil {
			return false, "operand is a call whose body is not available; undecided"
		}
		bad := ""
		ast.Inspect(d.Decl.Body, func(n ast.Node) bool {
			if _, isLit := n.(*ast.FuncLit); isLit {
				return false
			}
			if rs, ok := n.(*ast.ReturnStmt); ok && len(rs.Results) == 1 {
				t := d.Pkg.TypesInfo.TypeOf(rs.Results[0])
				if t == nil || !types.Identical(types.Default(t), want) {
					bad = fmt.Sprintf("%s returns `%s` of type %v at %s", f.Name(), types.ExprString(rs.Results[0]), t, w.Pos(rs.Pos()))
				}
			}
			return true
		})
		if bad != "" {
			return false, bad + ": the assertion panics for that result"
		}
		return true, ""
	}
	// variable assigned from ctx.Value(key)
	if v := usedVar(info, x); v != nil {
		var keyObj types.Object
		ast.Inspect(fi.Decl.Body, func(n ast.Node) bool {
			if as, ok := n.(*ast.AssignStmt); ok && len(as.Lhs) == 1 && len(as.Rhs) == 1 && usedVar(info, as.Lhs[0]) == v {
				if c, ok := unparen(as.Rhs[0]).(*ast.CallExpr); ok && len(c.Args) == 1 {
					if f := calleeOf(info, c); f != nil && f.Name() == "Value" {
						if id := identOf(c.Args[0]); id != nil {
							keyObj = info.Uses[id]
						}
					}
				}
			}
			return true
		})
		if keyObj == nil {
			return false, "operand is not produced by a call or by ctx.Value(key); undecided"
		}
		sites, bad := 0, ""
		for _, g := range declaredNonTest(w) {
			ginfo := g.Pkg.TypesInfo
			ast.Inspect(g.Decl.Body, func(n ast.Node) bool {
				if c, ok := n.(*ast.CallExpr); ok && len(c.Args) == 3 {
					if f := calleeOf(ginfo, c); f != nil && f.Name() == "WithValue" && f.Pkg() != nil && f.Pkg().Path() == "context" {
						if id := identOf(c.Args[1]); id != nil && ginfo.Uses[id] == keyObj {
							sites++
							if t := ginfo.TypeOf(c.Args[2]); t == nil || !types.Identical(t, want) {
								bad = fmt.Sprintf("context.WithValue at %s stores a %v under this key", w.Pos(c.Pos()), t)
							}
						}
					}
				}
				return true
			})
		}
		if bad != "" {
			return false, bad
		}
		if sites == 0 {
			return false, "no context.WithValue site for this key found; undecided"
		}
		return true, ""
	}
	return false, "unrecognised operand form; undecided"
}

// C20.fixpoint — the precedence rotation is iterated until no pass changes the tree, so a pass
// must report a change whenever it or any sub-pass rotated something.
func c20Fixpoint(e *Env) {
	const rule = "C20.fixpoint"
	w, r := e.W, e.R
	r.Explainf("C20.fixpoint: the priority sort is `for pass(root) {}` over a self-recursive pass that returns whether it changed the tree. For that loop to stop only at a fixpoint, every return of the pass must be `true` right after a rotation, or the `||` of the results of all its recursive calls (or `false` before any recursive call); combining sub-results with `&&`, or dropping one, stops the iteration with a half re-associated tree that evaluates with the wrong precedence.")
	p := w.Pkg(relTagexpr)
	if p == nil {
		r.Anchor(rule, "package internal/tagexpr")
		return
	}
	info := p.TypesInfo
	// passes: self-recursive bool functions used as a `for` condition somewhere in the package
	var passes []*core.FuncInfo
	for _, fi := range declaredNonTest(w) {
		if fi.Pkg != p {
			continue
		}
		ast.Inspect(fi.Decl.Body, func(n ast.Node) bool {
			fs, ok := n.(*ast.ForStmt)
			if !ok || fs.Cond == nil {
				return true
			}
			if c, ok := unparen(fs.Cond).(*ast.CallExpr); ok {
				if f := calleeOf(info, c); f != nil {
					if d := w.DeclOf(f); d != nil && d.Pkg == p {
						rec := len(funcsCallingIn(d, func(g *types.Func) bool { return g == f })) > 0
						sig := f.Type().(*types.Signature)
						if rec && sig.Results().Len() == 1 && types.Identical(sig.Results().At(0).Type(), types.Typ[types.Bool]) {
							passes = append(passes, d)
						}
					}
				}
			}
			return true
		})
	}
	r.Floor(rule, len(passes), 1, "self-recursive change-reporting passes driven by a for-loop")
	for _, d := range passes {
		fname := w.FuncName(d.Obj)
		// locals assigned from recursive calls
		rec := map[*types.Var]bool{}
		plain := map[*types.Var]int{} // assignments `v = pass(…)` / `v := pass(…)` that replace v's value
		var firstRec token.Pos
		ast.Inspect(d.Decl.Body, func(n ast.Node) bool {
			if as, ok := n.(*ast.AssignStmt); ok && len(as.Lhs) == 1 && len(as.Rhs) == 1 {
				if c, ok := unparen(as.Rhs[0]).(*ast.CallExpr); ok && calleeOf(info, c) == d.Obj {
					if v := usedVar(info, as.Lhs[0]); v != nil {
						rec[v] = true
						plain[v]++
						if !firstRec.IsValid() {
							firstRec = as.Pos()
						}
					}
				}
			}
			return true
		})
		// recursive calls whose result is dropped
		dropped := 0
		ast.Inspect(d.Decl.Body, func(n ast.Node) bool {
			if es, ok := n.(*ast.ExprStmt); ok {
				if c, ok := es.X.(*ast.CallExpr); ok && calleeOf(info, c) == d.Obj {
					dropped++
				}
			}
			return true
		})
		r.Check(dropped == 0, rule, fname+":no-dropped-subresult", w.Pos(d.Decl.Pos()), "no recursive call's change flag is discarded", fmt.Sprintf("%d recursive calls ignore their result", dropped))
		overwritten := ""
		for v, n := range plain {
			if n > 1 {
				overwritten = v.Name()
			}
		}
		r.Check(overwritten == "", rule, fname+":no-overwritten-subresult", w.Pos(d.Decl.Pos()), "no sub-pass result is overwritten by the next one", "variable "+overwritten+" is assigned the result of more than one sub-pass with plain `=`: the earlier result is lost (use `"+overwritten+" = "+overwritten+" || pass(…)`)")
		k := 0
		par := parents(d.Decl)
		ast.Inspect(d.Decl.Body, func(n ast.Node) bool {
			rs, ok := n.(*ast.ReturnStmt)
			if !ok || len(rs.Results) != 1 {
				return true
			}
			k++
			key := fmt.Sprintf("%s:return#%d", fname, k)
			ex := unparen(rs.Results[0])
			okRet, why := false, ""
			if id, isId := ex.(*ast.Ident); isId && id.Name == "true" {
				okRet = true
			} else if isId && id.Name == "false" {
				okRet = !firstRec.IsValid() || rs.Pos() < firstRec
				why = "returns false although sub-passes ran before"
			} else {
				// must be an ||-chain mentioning every recursive result
				seen := map[*types.Var]bool{}
				pure := true
				var walk func(e ast.Expr)
				walk = func(e ast.Expr) {
					switch x := unparen(e).(type) {
					case *ast.BinaryExpr:
						if x.Op != token.LOR {
							pure = false
							return
						}
						walk(x.X)
						walk(x.Y)
					default:
						if v := usedVar(info, x); v != nil && rec[v] {
							seen[v] = true
						}
					}
				}
				walk(ex)
				okRet = pure && len(seen) == len(rec)
				why = "`" + nodeString(rs) + "` is not the `||` of all " + fmt.Sprint(len(rec)) + " sub-pass results: a change made deeper in the tree can be reported as `no change` and the rotation stops before the tree is fully re-associated"
			}
			_ = par
			r.Check(okRet, rule, key, w.Pos(rs.Pos()), "the pass reports a change whenever it or any sub-pass changed the tree", why)
			return true
		})
	}
}
