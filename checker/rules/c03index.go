package rules

import (
	"fmt"
	"go/token"
	"go/types"
	"sort"
	"strings"
	"sync"

	"golang.org/x/tools/go/ssa"

	"hzcheck/core"
	"hzcheck/zone"
)

// peer-input surface: packages whose code touches bytes received from a peer or strings
// handed to the public parsers.
var surfacePkgs = []string{
	"pkg/protocol", "pkg/protocol/http1", "pkg/protocol/http1/req", "pkg/protocol/http1/resp", "pkg/protocol/http1/ext",
	"pkg/common/utils", "internal/bytesconv", "pkg/app", "pkg/route", "pkg/route/param",
}

// functions of the surface packages that never see peer input
var surfaceExcluded = map[string]string{
	"pkg/route.router.insert":                "registration-time code: its input is the application's route pattern, validated by checkPathValid and panicking by contract on a bad pattern; never reached with peer input",
	"pkg/route.router.addRoute":              "registration-time code (see router.insert)",
	"pkg/route.newNode":                      "registration-time code (see router.insert)",
	"pkg/route.checkPathValid":               "registration-time validation of the application's route pattern",
	"pkg/route.Engine.addRoute":              "registration-time code",
	"pkg/protocol/http1.HostClient.nextAddr": "client configuration: splits the application-provided Addr list, not peer input",
}

// reviewed exceptions for obligations the zone analysis cannot discharge
var indexExceptions = map[string]string{
	"pkg/protocol.Request.FormFile:index[0]#1":          "mime/multipart.Form.File only holds non-empty slices (ReadForm appends a header before storing the key), and the nil test above covers the missing key",
	"pkg/route.node.findCaseInsensitivePath:index[0]#2": "tree invariant label == prefix[0] (newNode): under `n.children[i].label == '/'` the disjunct `n.prefix == \"*\"` is false, so the short-circuit never evaluates children[0]",
}

// conditional exceptions: the obligation holds under a reviewed precondition on a parameter,
// and the analysis itself re-checks everything that depends on the function's own code: with
// len(param) ≥ n assumed at entry the obligation must be proven, and every recursive call must
// establish the same bound for its argument. Only the external callers are taken on review.
type condException struct {
	param  string // parameter name
	n      int64
	reason string
}

var indexCondExceptions = map[string]condException{
	"pkg/route.node.findCaseInsensitivePath:index[0]#3": {"path", 1, "the only external caller (Engine.ServeHTTP → redirectFixedPath) passes utils.CleanPath(…), which is never empty; checked by the analysis: with len(path) ≥ 1 at entry the access is in bounds on every path (the branch that shortens path leaves when the remainder is empty) and every recursive call passes a path of length ≥ 1"},
}

type zoneCtx struct {
	prog *zone.Program
	fns  []*ssa.Function
	an   map[*ssa.Function]*zone.Analyzer
	name map[*ssa.Function]string
	// static call sites and non-call uses of module functions
	calls   map[*ssa.Function][]*ssa.Call
	escapes map[*ssa.Function]bool
}

var (
	zoneMu    sync.Mutex
	zoneCache = map[*core.World]*zoneCtx{}
)

func allSSAFuncs(w *core.World) []*ssa.Function {
	var out []*ssa.Function
	var add func(f *ssa.Function)
	add = func(f *ssa.Function) {
		if f == nil || f.Blocks == nil {
			return
		}
		out = append(out, f)
		for _, an := range f.AnonFuncs {
			add(an)
		}
	}
	for _, fi := range w.AllDecls() {
		if fi.Decl.Body == nil || w.IsTestFile(fi.Decl.Pos()) {
			continue
		}
		add(w.SSAFunc(fi))
	}
	// package initialisers (constant-initialised globals)
	for _, p := range w.Pkgs {
		if sp := w.SSAPkgs[p.Types]; sp != nil {
			add(sp.Func("init"))
		}
	}
	return out
}

func ssaFuncName(w *core.World, fn *ssa.Function) string {
	if fn.Parent() != nil {
		idx := 0
		for i, a := range fn.Parent().AnonFuncs {
			if a == fn {
				idx = i + 1
			}
		}
		return fmt.Sprintf("%s$%d", ssaFuncName(w, fn.Parent()), idx)
	}
	if f, ok := fn.Object().(*types.Func); ok {
		return w.FuncName(f)
	}
	return fn.String()
}

func getZone(w *core.World) *zoneCtx {
	zoneMu.Lock()
	defer zoneMu.Unlock()
	if z, ok := zoneCache[w]; ok {
		return z
	}
	w.BuildSSA()
	fns := allSSAFuncs(w)
	inMod := func(f *ssa.Function) bool {
		p := f.Pkg
		if p == nil && f.Parent() != nil {
			p = f.Parent().Pkg
		}
		return p != nil && w.InModule(p.Pkg)
	}
	z := &zoneCtx{prog: zone.NewProgram(w.Prog, fns, inMod), fns: fns, an: map[*ssa.Function]*zone.Analyzer{}, name: map[*ssa.Function]string{}}
	z.calls, z.escapes = map[*ssa.Function][]*ssa.Call{}, map[*ssa.Function]bool{}
	for _, f := range fns {
		z.name[f] = ssaFuncName(w, f)
		for _, b := range f.Blocks {
			for _, ins := range b.Instrs {
				if c, ok := ins.(*ssa.Call); ok {
					if callee := c.Call.StaticCallee(); callee != nil {
						z.calls[callee] = append(z.calls[callee], c)
					}
				}
				for _, op := range ins.Operands(nil) {
					if fv, ok := (*op).(*ssa.Function); ok {
						if ci, isCall := ins.(ssa.CallInstruction); isCall && ci.Common().Value == fv {
							if _, plain := ins.(*ssa.Call); plain {
								continue
							}
						}
						z.escapes[fv] = true // go/defer/function value
					}
				}
			}
		}
	}
	zoneCache[w] = z
	return z
}

func (z *zoneCtx) analyze(fn *ssa.Function) *zone.Analyzer {
	if a, ok := z.an[fn]; ok {
		return a
	}
	a := z.prog.Analyze(fn, zone.Options{Index: true})
	z.an[fn] = a
	return a
}

func fnPkgRel(w *core.World, fn *ssa.Function) string {
	for f := fn; f != nil; f = f.Parent() {
		if f.Pkg != nil {
			return w.RelPkg(f.Pkg.Pkg)
		}
	}
	return ""
}

func isExportedAPI(fn *ssa.Function) bool {
	if fn.Parent() != nil {
		return false
	}
	f, ok := fn.Object().(*types.Func)
	if !ok || !f.Exported() {
		return false
	}
	if rn := recvNamed(f); rn != nil && !rn.Obj().Exported() {
		return false
	}
	return true
}

// C03.index — constant-offset index and slice expressions in the peer-input surface are
// within bounds on every path.
func c03Index(e *Env) {
	const rule = "C03.index"
	w, r := e.W, e.R
	r.Explainf("C03.index: zone (difference-bound) abstract interpretation over go/ssa of every non-test function of the peer-input surface packages: each index expression with a constant index and each slice expression with a positive constant low bound (and constant high bound on strings) must have the needed length established at that point (branch refinement, len/IndexByte/HasPrefix/Peek/ParseUint axioms, callee return summaries, access-path memory for struct fields). If the operand is a parameter, the requirement becomes a precondition checked at every static call site (depth ≤ 3); exported functions must not need one. Unreached/unconverged obligations count as undecided. Non-constant indices are not decided.")
	z := getZone(w)
	surf := map[string]bool{}
	for _, p := range surfacePkgs {
		surf[p] = true
		if w.Pkg(p) == nil {
			r.Anchor(rule, "surface package "+p)
		}
	}
	for _, ax := range z.prog.Axioms {
		r.Trust("zone axiom: " + ax)
	}
	nFn, nObl, nProven := 0, 0, 0
	type pre struct {
		fn  *ssa.Function
		par int
		n   int64
	}
	var checkPre func(p pre, depth int, chain string) (ok bool, why string)
	checkPre = func(p pre, depth int, chain string) (bool, string) {
		if isExportedAPI(p.fn) {
			return false, fmt.Sprintf("%s is exported and indexes its parameter %q without establishing len ≥ %d: any caller (including the wire-facing code that reaches it via %s) can make it panic", z.name[p.fn], p.fn.Params[p.par].Name(), p.n, chain)
		}
		if z.escapes[p.fn] {
			return false, z.name[p.fn] + " is also used as a function value / go / defer target; call sites undecided"
		}
		if len(z.calls[p.fn]) == 0 {
			return false, "no static call site found for " + z.name[p.fn] + "; undecided"
		}
		for _, call := range z.calls[p.fn] {
			caller := call.Parent()
			an := z.analyze(caller)
			d := an.StateBefore(call)
			if d == nil {
				continue // unreachable call site
			}
			arg := call.Call.Args[p.par]
			if zone.Tub(d, zone.ConstTerm(p.n), an.LenTerm(arg)) <= 0 {
				continue
			}
			// argument is the caller's own parameter: propagate
			propagated := false
			for i, cp := range caller.Params {
				if cp == arg && depth < 3 {
					ok, why := checkPre(pre{caller, i, p.n}, depth+1, z.name[caller]+" → "+chain)
					if !ok {
						return false, why
					}
					propagated = true
				}
			}
			if !propagated {
				return false, fmt.Sprintf("call site %s in %s passes an argument whose length ≥ %d is not established (chain %s)", w.Pos(call.Pos()), z.name[caller], p.n, chain)
			}
		}
		return true, ""
	}
	// registration-time code of the router, by role: reachable (static calls) from the exported
	// registration entry RouterGroup.Handle and not from the serving entries Engine.ServeHTTP /
	// Engine.Serve — its input is the application's route pattern, not peer input
	regOnly := map[*ssa.Function]bool{}
	{
		reach := func(roots ...*ssa.Function) map[*ssa.Function]bool {
			seen := map[*ssa.Function]bool{}
			var walk func(f *ssa.Function)
			walk = func(f *ssa.Function) {
				if f == nil || seen[f] || f.Blocks == nil {
					return
				}
				seen[f] = true
				for _, b := range f.Blocks {
					for _, ins := range b.Instrs {
						switch x := ins.(type) {
						case ssa.CallInstruction:
							walk(x.Common().StaticCallee())
						}
						if mc, ok := ins.(*ssa.MakeClosure); ok {
							if cf, ok := mc.Fn.(*ssa.Function); ok {
								walk(cf)
							}
						}
					}
				}
				for _, an := range f.AnonFuncs {
					walk(an)
				}
			}
			for _, r := range roots {
				walk(r)
			}
			return seen
		}
		ssaOf := func(rel, recv, name string) *ssa.Function {
			if fi := w.Func(rel, recv, name); fi != nil {
				return w.SSAFunc(fi)
			}
			return nil
		}
		reg := reach(ssaOf("pkg/route", "RouterGroup", "Handle"))
		srv := reach(ssaOf("pkg/route", "Engine", "ServeHTTP"), ssaOf("pkg/route", "Engine", "Serve"))
		for f := range reg {
			if !srv[f] && fnPkgRel(w, f) == "pkg/route" {
				regOnly[f] = true
			}
		}
	}
	for _, fn := range z.fns {
		rel := fnPkgRel(w, fn)
		if !surf[rel] || fn.Name() == "init" {
			continue
		}
		name := z.name[fn]
		root := fn
		for root.Parent() != nil {
			root = root.Parent()
		}
		if regOnly[root] {
			r.Except(rule, "pkg/route:registration-time:"+strings.TrimPrefix(name, "pkg/route."), w.Pos(fn.Pos()), "function is part of the peer-input surface", "registration-time code (reachable from RouterGroup.Handle, not from Engine.ServeHTTP/Serve): its input is the application's route pattern, validated and panicking by contract on a bad pattern; never reached with peer input")
			continue
		}
		if reason, ok := surfaceExcluded[strings.SplitN(name, "$", 2)[0]]; ok {
			r.Except(rule, name+":excluded", w.Pos(fn.Pos()), "function is part of the peer-input surface", reason)
			continue
		}
		nFn++
		an := z.analyze(fn)
		count := map[string]int{}
		for _, o := range an.Obligs {
			if o.Kind == "custom" {
				continue
			}
			nObl++
			tag := o.Kind
			if i := strings.Index(o.Desc, ":"); i > 0 {
				// constant part of the description ("[0]", "[2:…]") without SSA register names
				rest := o.Desc[strings.Index(o.Desc, "["):i]
				tag += rest
			}
			count[tag]++
			key := fmt.Sprintf("%s:%s#%d", name, tag, count[tag])
			pos := w.Pos(o.Instr.Pos())
			if o.Instr.Pos() == token.NoPos {
				pos = w.Pos(fn.Pos())
			}
			desc := "constant-offset access is within bounds: " + o.Desc
			switch {
			case o.Proven:
				nProven++
				r.OK(rule, key, pos, desc)
			case o.NeedParam >= 0 && !o.Unreached:
				if ok, why := checkPre(pre{fn, o.NeedParam, o.NeedLen}, 1, name); ok {
					nProven++
					r.OKd(rule, key, pos, desc, "precondition discharged at every call site")
				} else if reason, ok := indexExceptions[key]; ok {
					r.Except(rule, key, pos, desc, reason)
				} else {
					r.Fail(rule, key, pos, desc, why)
				}
			default:
				if ce, ok := indexCondExceptions[key]; ok {
					if why := checkCondException(z, fn, o, ce); why == "" {
						r.Except(rule, key, pos, desc, ce.reason)
					} else {
						r.Fail(rule, key, pos, desc, why)
					}
				} else if reason, ok := indexExceptions[key]; ok {
					r.Except(rule, key, pos, desc, reason)
				} else if o.Unreached {
					r.Fail(rule, key, pos, desc, "the obligation lies in a block the analysis did not reach or did not converge on; undecided")
				} else {
					r.Fail(rule, key, pos, desc, "the length needed here is not established on every path reaching this point: a short or empty peer-controlled value panics with index out of range")
				}
			}
		}
	}
	r.Unit("%s: %d functions of %d surface packages analysed, %d constant-offset obligations, %d proven", rule, nFn, len(surfacePkgs), nObl, nProven)
	r.Floor(rule, nObl, 60, "constant-offset index/slice obligations")
	var ks []string
	for k := range indexExceptions {
		ks = append(ks, k)
	}
	sort.Strings(ks)
}

// checkCondException re-analyses fn with len(param) ≥ n assumed at entry: the obligation at
// o.Instr must then be proven, and every static recursive call must pass an argument for that
// parameter whose length ≥ n is established. Returns "" when both hold.
func checkCondException(z *zoneCtx, fn *ssa.Function, o *zone.Oblig, ce condException) string {
	pi := -1
	for i, p := range fn.Params {
		if p.Name() == ce.param {
			pi = i
		}
	}
	if pi < 0 {
		return fmt.Sprintf("the reviewed precondition names parameter %q, which %s no longer has; undecided", ce.param, z.name[fn])
	}
	var bad []string
	an := z.prog.Analyze(fn, zone.Options{Index: true, ParamLenLB: map[int]int64{pi: ce.n},
		AtCall: func(a *zone.Analyzer, d *zone.DBM, call *ssa.Call) {
			if call.Call.StaticCallee() != fn || pi >= len(call.Call.Args) {
				return
			}
			if zone.Tub(d, zone.ConstTerm(ce.n), a.LenTerm(call.Call.Args[pi])) > 0 {
				bad = append(bad, fmt.Sprintf("the recursive call at line %d passes a %s whose length ≥ %d is not established", z.prog.Prog.Fset.Position(call.Pos()).Line, ce.param, ce.n))
			}
		}})
	for _, o2 := range an.Obligs {
		if o2.Instr == o.Instr && o2.Kind == o.Kind {
			if !o2.Proven {
				bad = append(bad, fmt.Sprintf("even with len(%s) ≥ %d at entry the access is not in bounds on every path: some path reaches it after %s was shortened to the empty string", ce.param, ce.n, ce.param))
			}
		}
	}
	return strings.Join(bad, "; ")
}
