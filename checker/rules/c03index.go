package rules

// placeholder until the zone engine lands
func c03Index(e *Env) {}
