package rules

import (
	"fmt"
	"go/ast"
	"go/token"
	"go/types"
	"sort"

	"hzcheck/esp"
)

func init() {
	register("C06", c06Reparent, c06Params, c06Payload, c06Restore, c06Atomic, c06Own,
		// the chain stored at a route is what dispatch runs: the chain builder rules of C12
		c12Const, c12Assembly, c12GroupFresh, c12RouteFresh)
}

// childFields returns the fields of the route-tree node that hold child nodes (type *node or
// a slice of *node), excluding the back pointer.
func childFields(node *types.Named, backPtr string) []*types.Var {
	st, _ := node.Underlying().(*types.Struct)
	var out []*types.Var
	isNodePtr := func(t types.Type) bool {
		p, ok := t.(*types.Pointer)
		if !ok {
			return false
		}
		n, ok := p.Elem().(*types.Named)
		return ok && n.Obj() == node.Obj()
	}
	for i := 0; st != nil && i < st.NumFields(); i++ {
		f := st.Field(i)
		if f.Name() == backPtr {
			continue
		}
		if isNodePtr(f.Type()) {
			out = append(out, f)
		} else if sl, ok := f.Type().Underlying().(*types.Slice); ok && isNodePtr(sl.Elem()) {
			out = append(out, f)
		}
	}
	return out
}

// C06.reparent — splitting an edge moves every child-bearing field to the new node, re-parents
// the moved children and clears the field on the old node.
func c06Reparent(e *Env) {
	const rule = "C06.reparent"
	w, r := e.W, e.R
	r.Explainf("C06.reparent: the child-bearing fields of the route-tree node are read from its struct type (every field of type *node or []*node except the back pointer `parent`). In router.insert, at each newNode call that receives such fields of the current node (an edge split), every child-bearing field F must be (a) handed to newNode, (b) re-parented — `child.parent = n` for each element of a slice field, `cur.F.parent = n` under a nil test for a pointer field — and (c) reset to nil on the old node. Backtracking in find walks `parent`; a missed re-parent after splitting an edge that already has param/catch-all children sends the search up the wrong branch. A new child-kind field without these three steps is reported.")
	node := w.Named("pkg/route", "node")
	ins := w.Func("pkg/route", "router", "insert")
	newNode := w.Func("pkg/route", "", "newNode")
	if node == nil || ins == nil || newNode == nil {
		r.Anchor(rule, "route.node / router.insert / newNode")
		return
	}
	parent := w.Field("pkg/route", "node", "parent")
	if parent == nil {
		r.Anchor(rule, "route.node.parent (back pointer)")
		return
	}
	cb := childFields(node, "parent")
	var names []string
	for _, f := range cb {
		names = append(names, f.Name())
	}
	sort.Strings(names)
	r.Unit("%s: child-bearing fields of route.node: %v", rule, names)
	r.Floor(rule, len(cb), 3, "child-bearing fields of the tree node")
	isCB := map[*types.Var]bool{}
	for _, f := range cb {
		isCB[f] = true
	}
	nSplit := 0
	// split sites are looked for in every function of the package: the split may live in a
	// helper of insert (cur.splitOffTail(n))
	for _, sf := range declaredNonTest(w) {
		if sf.Pkg != ins.Pkg || sf.Decl.Body == nil {
			continue
		}
		sf := sf
		info := sf.Pkg.TypesInfo
		fname := w.FuncName(sf.Obj)
		par := parents(sf.Decl)
		ast.Inspect(sf.Decl.Body, func(nd ast.Node) bool {
			as, ok := nd.(*ast.AssignStmt)
			if !ok || len(as.Rhs) != 1 || len(as.Lhs) != 1 {
				return true
			}
			call, ok := unparen(as.Rhs[0]).(*ast.CallExpr)
			if !ok || calleeOf(info, call) != newNode.Obj {
				return true
			}
			// arguments that are child-bearing fields of some base
			moved := map[*types.Var]bool{}
			var base *types.Var
			for _, a := range call.Args {
				if se, ok := unparen(a).(*ast.SelectorExpr); ok {
					if f := usedVar(info, se); f != nil && isCB[f] {
						moved[f] = true
						base = usedVar(info, se.X)
					}
				}
			}
			if len(moved) == 0 {
				return true // plain creation of a fresh child
			}
			nSplit++
			nVar := usedVar(info, as.Lhs[0])
			// the statement list the split sits in: a block or the body of a switch case
			var blk ast.Node
			var list []ast.Stmt
			switch x := par[as].(type) {
			case *ast.BlockStmt:
				blk, list = x, x.List
			case *ast.CaseClause:
				blk, list = x, x.Body
			}
			if blk == nil || nVar == nil || base == nil {
				r.Fail(rule, fmt.Sprintf("%s:split#%d", fname, nSplit), w.Pos(as.Pos()), "edge split is analysable", "split site has an unexpected shape; undecided")
				return true
			}
			var after []ast.Stmt
			for i, s := range list {
				if s == ast.Stmt(as) {
					after = list[i+1:]
				}
			}
			// when the old node is the receiver/parameter of a helper that returns the split-off
			// node, resetting the old node is the caller's part: the statements after each call
			type callerCtx struct {
				info  *types.Info
				stmts []ast.Stmt
				base  *types.Var
			}
			var callers []callerCtx
			if sig := sf.Obj.Type().(*types.Signature); sf.Obj != ins.Obj {
				pidx := -2
				if sig.Recv() != nil && sig.Recv() == base {
					pidx = -1
				}
				for i := 0; i < sig.Params().Len(); i++ {
					if sig.Params().At(i) == base {
						pidx = i
					}
				}
				if pidx > -2 {
					for _, cf := range declaredNonTest(w) {
						if cf.Pkg != ins.Pkg || cf.Decl.Body == nil {
							continue
						}
						cinfo := cf.Pkg.TypesInfo
						cpar := parents(cf.Decl)
						for _, c := range funcsCallingIn(cf, func(f *types.Func) bool { return f == sf.Obj }) {
							var argBase *types.Var
							if pidx == -1 {
								if se, ok := unparen(c.Fun).(*ast.SelectorExpr); ok {
									argBase = usedVar(cinfo, se.X)
								}
							} else if pidx < len(c.Args) {
								argBase = usedVar(cinfo, c.Args[pidx])
							}
							// enclosing statement and its list
							var st ast.Node = c
							for st != nil {
								if _, ok := st.(ast.Stmt); ok {
									break
								}
								st = cpar[st]
							}
							var clist []ast.Stmt
							switch x := cpar[st].(type) {
							case *ast.BlockStmt:
								clist = x.List
							case *ast.CaseClause:
								clist = x.Body
							}
							for i, s2 := range clist {
								if ast.Node(s2) == st && argBase != nil {
									callers = append(callers, callerCtx{cinfo, clist[i+1:], argBase})
								}
							}
						}
					}
				}
			}
			for _, f := range cb {
				key := fmt.Sprintf("%s:split#%d:%s", fname, nSplit, f.Name())
				pos := w.Pos(as.Pos())
				r.Check(moved[f], rule, key+":moved", pos, "field "+f.Name()+" of the split node is handed to the new node", "newNode does not receive "+base.Name()+"."+f.Name()+": that subtree is lost by the split")
				cleared := false
				_, isSlice := f.Type().Underlying().(*types.Slice)
				// only unconditional statements of the split block count, or statements guarded by
				// nothing but a nil test of the same field (`if cur.F != nil { cur.F.parent = n }`);
				// an else-branch or any other condition makes the step conditional on something else
				flatten := func(finfo *types.Info, stmts []ast.Stmt) []ast.Stmt {
					var flat []ast.Stmt
					for _, s := range stmts {
						switch x := s.(type) {
						case *ast.IfStmt:
							be, ok := unparen(x.Cond).(*ast.BinaryExpr)
							if !ok || be.Op != token.NEQ || x.Init != nil {
								continue
							}
							if id, ok := unparen(be.Y).(*ast.Ident); ok && id.Name == "nil" && usedVar(finfo, be.X) == f {
								flat = append(flat, x.Body.List...) // the else part (if any) is ignored
							}
						default:
							flat = append(flat, s)
						}
					}
					return flat
				}
				// reparents: one of the statements gives the nodes in field f the parent nv
				reparents := func(finfo *types.Info, s ast.Stmt, nv *types.Var) bool {
					switch x := s.(type) {
					case *ast.RangeStmt:
						if isSlice && usedVar(finfo, x.X) == f {
							if vid, ok := x.Value.(*ast.Ident); ok {
								ev := finfo.ObjectOf(vid)
								for _, bs := range x.Body.List {
									if a2, ok := bs.(*ast.AssignStmt); ok && len(a2.Lhs) == 1 && len(a2.Rhs) == 1 {
										if se, ok := unparen(a2.Lhs[0]).(*ast.SelectorExpr); ok && usedVar(finfo, se) == parent {
											if id, ok := unparen(se.X).(*ast.Ident); ok && finfo.ObjectOf(id) == ev && usedVar(finfo, a2.Rhs[0]) == nv {
												return true
											}
										}
									}
								}
							}
						}
					case *ast.AssignStmt:
						if len(x.Lhs) == 1 && len(x.Rhs) == 1 {
							if se, ok := unparen(x.Lhs[0]).(*ast.SelectorExpr); ok {
								// cur.F.parent = n
								if !isSlice && usedVar(finfo, se) == parent && usedVar(finfo, x.Rhs[0]) == nv {
									if inner, ok := unparen(se.X).(*ast.SelectorExpr); ok && usedVar(finfo, inner) == f {
										return true
									}
								}
							}
						}
					}
					return false
				}
				// the variable holding the split-off node must still hold it when it is used as the new
				// parent: no assignment to it (in any nested branch) between the split and that statement
				stillSplit := func(at token.Pos) bool {
					ok := true
					ast.Inspect(blk, func(n ast.Node) bool {
						if a, isA := n.(*ast.AssignStmt); isA && a.Pos() > as.End() && a.End() < at {
							for _, l := range a.Lhs {
								if id, isI := unparen(l).(*ast.Ident); isI && info.ObjectOf(id) == types.Object(nVar) {
									ok = false
								}
							}
						}
						return true
					})
					return ok
				}
				reparented := false
				for _, s := range flatten(info, after) {
					if x, ok := s.(*ast.AssignStmt); ok && len(x.Lhs) == 1 && len(x.Rhs) == 1 {
						// cur.F = nil
						if se, ok := unparen(x.Lhs[0]).(*ast.SelectorExpr); ok && usedVar(info, se) == f && usedVar(info, se.X) == base {
							if id, ok := unparen(x.Rhs[0]).(*ast.Ident); ok && id.Name == "nil" {
								cleared = true
							}
						}
					}
					if !stillSplit(s.Pos()) {
						continue
					}
					if reparents(info, s, nVar) {
						reparented = true
					}
					// a helper of the package that receives the old node and the split node and does the
					// re-parenting in its (unconditional) body: cur.reparentChildren(n)
					if es, ok := s.(*ast.ExprStmt); ok {
						if call, ok := es.X.(*ast.CallExpr); ok {
							if d := w.DeclOf(calleeOf(info, call)); d != nil && d.Pkg == ins.Pkg && d.Decl.Body != nil {
								sig := d.Obj.Type().(*types.Signature)
								var nv *types.Var
								oldBound := false
								if se, ok := unparen(call.Fun).(*ast.SelectorExpr); ok && sig.Recv() != nil {
									if usedVar(info, se.X) == nVar {
										nv = sig.Recv()
									}
									if usedVar(info, se.X) == base {
										oldBound = true
									}
								}
								for ai, a := range call.Args {
									if ai < sig.Params().Len() {
										if usedVar(info, a) == nVar {
											nv = sig.Params().At(ai)
										}
										if usedVar(info, a) == base {
											oldBound = true
										}
									}
								}
								if nv != nil && oldBound {
									for _, hs := range flatten(d.Pkg.TypesInfo, d.Decl.Body.List) {
										if reparents(d.Pkg.TypesInfo, hs, nv) {
											reparented = true
										}
									}
								}
							}
						}
					}
				}
				if !cleared && len(callers) > 0 {
					all := true
					for _, cc := range callers {
						found := false
						for _, s2 := range cc.stmts {
							if x, ok := s2.(*ast.AssignStmt); ok && len(x.Lhs) == 1 && len(x.Rhs) == 1 {
								if se, ok := unparen(x.Lhs[0]).(*ast.SelectorExpr); ok && usedVar(cc.info, se) == f && usedVar(cc.info, se.X) == cc.base {
									if id, ok := unparen(x.Rhs[0]).(*ast.Ident); ok && id.Name == "nil" {
										found = true
									}
								}
							}
						}
						all = all && found
					}
					cleared = all
				}
				r.Check(reparented, rule, key+":reparented", pos, "children in "+f.Name()+" get the new node as parent", "no `…parent = "+nVar.Name()+"` for the nodes moved through "+f.Name()+" on every path (unconditionally or under a nil test of that field only): backtracking from them climbs to the old node and takes the wrong branch")
				r.Check(cleared, rule, key+":cleared", pos, "field "+f.Name()+" is reset on the old node", base.Name()+"."+f.Name()+" is not set to nil after the split: the subtree hangs below both nodes")
			}
			return true
		})
	}
	r.Floor(rule, nSplit, 1, "edge-split sites in package route")
	// newNode stores every child-bearing argument and the parent
	{
		ninfo := newNode.Pkg.TypesInfo
		stored := map[*types.Var]bool{}
		ast.Inspect(newNode.Decl.Body, func(nd ast.Node) bool {
			if kv, ok := nd.(*ast.KeyValueExpr); ok {
				if id, ok := kv.Key.(*ast.Ident); ok {
					if f, ok := ninfo.Uses[id].(*types.Var); ok {
						if usedVar(ninfo, kv.Value) != nil {
							stored[f] = true
						}
					}
				}
			}
			return true
		})
		for _, f := range append(cb, parent) {
			r.Check(stored[f], rule, "newNode:stores:"+f.Name(), w.Pos(newNode.Decl.Pos()), "newNode initialises "+f.Name()+" from its argument", "newNode's literal does not set "+f.Name())
		}
	}
}

// C06.params — the parameter slice always has room for the deepest route.
func c06Params(e *Env) {
	const rule = "C06.params"
	w, r := e.W, e.R
	r.Explainf("C06.params: Engine.addRoute raises maxParams to countParams(path) as a top-level (unconditional) statement of every registration, and Engine.ServeHTTP re-allocates ctx.Params when its capacity is below maxParams before the tree lookup (find reslices Params up to the parameter count of the matched route).")
	ar := w.Func("pkg/route", "Engine", "addRoute")
	sh := w.Func("pkg/route", "Engine", "ServeHTTP")
	mp := w.Field("pkg/route", "Engine", "maxParams")
	if ar == nil || sh == nil || mp == nil {
		r.Anchor(rule, "Engine.addRoute / ServeHTTP / maxParams")
		return
	}
	info := ar.Pkg.TypesInfo
	ok := false
	// `n := countParams(path)` as a statement of its own, followed by the plain if
	var splitDef *ast.AssignStmt
	for _, st := range ar.Decl.Body.List {
		if d, isAs := st.(*ast.AssignStmt); isAs && len(d.Rhs) == 1 && len(d.Lhs) == 1 {
			if c, isC := unparen(d.Rhs[0]).(*ast.CallExpr); isC && esp.Is(calleeOf(info, c), pkgRoute, "", "countParams") {
				splitDef = d
			}
		}
		is, isIf := st.(*ast.IfStmt)
		if !isIf {
			continue
		}
		var as *ast.AssignStmt
		if is.Init != nil {
			as, _ = is.Init.(*ast.AssignStmt)
		} else {
			as = splitDef
		}
		if as == nil || len(as.Rhs) != 1 {
			continue
		}
		c, isC := unparen(as.Rhs[0]).(*ast.CallExpr)
		if !isC || !esp.Is(calleeOf(info, c), pkgRoute, "", "countParams") {
			continue
		}
		cnt := usedVar(info, as.Lhs[0])
		if id, isID := as.Lhs[0].(*ast.Ident); isID && cnt == nil {
			cnt, _ = info.Defs[id].(*types.Var)
		}
		lo, hi, isLess := normLess(is.Cond)
		if !isLess || usedVar(info, hi) != cnt || usedVar(info, lo) != mp {
			continue
		}
		for _, s := range is.Body.List {
			if a2, isA := s.(*ast.AssignStmt); isA && len(a2.Lhs) == 1 && usedVar(info, a2.Lhs[0]) == mp && usedVar(info, a2.Rhs[0]) == cnt {
				ok = true
			}
		}
	}
	r.Check(ok, rule, w.FuncName(ar.Obj)+":raises-maxParams", w.Pos(ar.Decl.Pos()), "every registration raises maxParams to the route's parameter count", "no top-level `if n := countParams(path); n > engine.maxParams { engine.maxParams = n }` in addRoute: a route with more parameters than any earlier one overflows ctx.Params (index out of range in find)")
	// ServeHTTP
	sinfo := sh.Pkg.TypesInfo
	params := w.Field("pkg/app", "RequestContext", "Params")
	var reallocPos, findPos token.Pos
	ast.Inspect(sh.Decl.Body, func(nd ast.Node) bool {
		switch x := nd.(type) {
		case *ast.IfStmt:
			if lo, hi, isLess := normLess(x.Cond); isLess {
				be := &ast.BinaryExpr{X: lo, Y: hi}
				if c, isC := unparen(be.X).(*ast.CallExpr); isC && isBuiltin(sinfo, c, "cap") && usedVar(sinfo, c.Args[0]) == params {
					for _, s := range x.Body.List {
						if a2, isA := s.(*ast.AssignStmt); isA && len(a2.Lhs) == 1 && usedVar(sinfo, a2.Lhs[0]) == params {
							if mk, isM := unparen(a2.Rhs[0]).(*ast.CallExpr); isM && isBuiltin(sinfo, mk, "make") && len(mk.Args) == 3 && types.ExprString(mk.Args[2]) == types.ExprString(be.Y) {
								reallocPos = x.Pos()
							}
						}
					}
				}
			}
		case *ast.CallExpr:
			if f := calleeOf(sinfo, x); f != nil && f.Name() == "find" && !findPos.IsValid() {
				findPos = x.Pos()
			}
		}
		return true
	})
	r.Check(reallocPos.IsValid() && findPos.IsValid() && reallocPos < findPos, rule, w.FuncName(sh.Obj)+":params-capacity", w.Pos(sh.Decl.Pos()), "ctx.Params is re-allocated to maxParams capacity before the lookup", "no `if cap(ctx.Params) < maxParams { ctx.Params = make(…, 0, maxParams) }` before the first find")
}

// normLess normalises a strict integer comparison: `lo < hi`, `hi > lo`, `!(lo >= hi)` and
// `!(hi <= lo)` all yield (lo, hi, true).
func normLess(cond ast.Expr) (lo, hi ast.Expr, ok bool) {
	neg := false
	x := unparen(cond)
	for {
		u, isU := x.(*ast.UnaryExpr)
		if !isU || u.Op != token.NOT {
			break
		}
		neg = !neg
		x = unparen(u.X)
	}
	be, isB := x.(*ast.BinaryExpr)
	if !isB {
		return nil, nil, false
	}
	op := be.Op
	if neg {
		switch op {
		case token.GEQ:
			op = token.LSS
		case token.LEQ:
			op = token.GTR
		default:
			return nil, nil, false
		}
	}
	switch op {
	case token.LSS:
		return be.X, be.Y, true
	case token.GTR:
		return be.Y, be.X, true
	}
	return nil, nil, false
}
