package rules

import (
	"fmt"
	"go/ast"
	"go/token"
	"go/types"
	"strings"

	"hzcheck/core"
	"hzcheck/esp"
)

func init() { register("C19", c19Pair, c19Stages, c19Fresh, c19Idle, c09Pools) }

// C19.fresh — the stage events a finish reports are this request's own: the per-request reset
// the serve loop calls between two requests of a connection clears the trace statistics.
func c19Fresh(e *Env) {
	resetObligations(e, "C19.fresh", func(tg resetTarget, field string) bool {
		switch {
		case tg.Typ == "RequestContext" && (tg.Meth == "ResetWithoutConn" || tg.Meth == "Reset"):
			// ResetWithoutConn runs between the requests of a connection, Reset when the
			// context goes back to the pool
			return field == "" || field == "traceInfo"
		case tg.Typ == "httpStats" && tg.Meth == "Reset":
			return true
		}
		return false
	})
}

const (
	pkgTracer = Mod + "/pkg/common/tracer"
	pkgIStats = Mod + "/internal/stats"
	pkgStats  = Mod + "/pkg/common/tracer/stats"
)

// selectorKeysOfField returns the expression keys (types.ExprString) of every selector in fn
// that selects the given struct field.
func selectorKeysOfField(fi *core.FuncInfo, field *types.Var) map[string]bool {
	out := map[string]bool{}
	ast.Inspect(fi.Decl, func(n ast.Node) bool {
		if se, ok := n.(*ast.SelectorExpr); ok {
			if sel := fi.Pkg.TypesInfo.Selections[se]; sel != nil && sel.Obj() == field {
				out[types.ExprString(se)] = true
			}
		}
		return true
	})
	return out
}

// funcsCalling returns the declared non-test functions of the module whose body (incl. nested
// literals) contains a call resolved to a function satisfying pred.
func funcsCalling(w *core.World, pred func(*types.Func) bool) []*core.FuncInfo {
	var out []*core.FuncInfo
	for _, fi := range w.AllDecls() {
		if fi.Decl.Body == nil || w.IsTestFile(fi.Decl.Pos()) {
			continue
		}
		found := false
		ast.Inspect(fi.Decl.Body, func(n ast.Node) bool {
			if c, ok := n.(*ast.CallExpr); ok && !found {
				if f := calleeOf(fi.Pkg.TypesInfo, c); f != nil && pred(f) {
					found = true
				}
			}
			return !found
		})
		if found {
			out = append(out, fi)
		}
	}
	return out
}

// C19.pair — over every path of each function that calls tracer.Controller.DoStart, including
// deferred epilogues, DoStart/DoFinish alternate beginning with a start and no finish happens
// while idle; every exit is idle. Decided under the assumption EnableTrace == true.
func c19Pair(e *Env) {
	const rule = "C19.pair"
	w, r := e.W, e.R
	r.Explainf("C19.pair: ESP typestate {idle,started} over all go/cfg paths (deferred closures inlined LIFO at every exit, bool locals tracked) of every function calling tracer.Controller.DoStart, assuming Option.EnableTrace is true: DoStart only when idle, DoFinish only when started, exits idle.")
	field := w.Field("pkg/protocol/http1", "Option", "EnableTrace")
	if field == nil {
		r.Anchor(rule, "http1.Option.EnableTrace")
		return
	}
	fns := funcsCalling(w, func(f *types.Func) bool { return esp.Is(f, pkgTracer, "Controller", "DoStart") })
	r.Floor(rule, len(fns), 1, "functions calling tracer.Controller.DoStart")
	for _, fi := range fns {
		fname := w.FuncName(fi.Obj)
		assume := map[string]bool{}
		for k := range selectorKeysOfField(fi, field) {
			assume[k] = true
		}
		starts, finishes := 0, 0
		seenSite := map[*ast.CallExpr]bool{}
		isTraceCall := func(f *types.Func) bool {
			return esp.Is(f, pkgTracer, "Controller", "DoStart") || esp.Is(f, pkgTracer, "Controller", "DoFinish")
		}
		rl := &esp.Rule{Name: rule, Init: "idle", Assume: assume,
			Inline: inlineWhen(fi.Pkg.TypesInfo, isTraceCall, nil),
			Call: func(c *esp.Ctx, call *ast.CallExpr, f *types.Func) {
				if isTraceCall(f) && !seenSite[call] {
					seenSite[call] = true
					if f.Name() == "DoStart" {
						starts++
					} else {
						finishes++
					}
				}
				switch {
				case esp.Is(f, pkgTracer, "Controller", "DoStart"):
					if c.S.TS != "idle" {
						c.Violate(call.Pos(), fname+":"+c.SiteKey(call)+":start-while-started", "tracer DoStart while a previous start is unmatched")
					}
					c.S.TS = "started"
				case esp.Is(f, pkgTracer, "Controller", "DoFinish"):
					if c.S.TS != "started" {
						c.Violate(call.Pos(), fname+":"+c.SiteKey(call)+":finish-while-idle", "tracer DoFinish without a preceding unmatched DoStart (extra finish)")
					}
					c.S.TS = "idle"
				}
			},
			Exit: func(c *esp.Ctx) {
				if c.S.TS != "idle" && !c.S.Panic {
					c.Violate(c.S.Ret, fname+":exit-started", "function exits with an unmatched tracer DoStart")
				}
			},
		}
		ex := esp.New(w, fi, rl)
		viol := ex.Run(fi)
		r.Unit("%s: %s — %d DoStart / %d DoFinish sites, %d states explored, %d exit states, assumed %v", rule, fname, starts, finishes, ex.Steps, ex.Exits, keys(assume))
		r.Check(finishes >= 1, rule, fname+":has-finish", w.Pos(fi.Decl.Pos()), "a function that starts a trace contains a DoFinish site", "no DoFinish call site")
		if len(viol) == 0 {
			r.OK(rule, fname+":paths", w.Pos(fi.Decl.Pos()), fmt.Sprintf("DoStart/DoFinish alternate on all %d exit states", ex.Exits))
		}
		for _, v := range viol {
			r.Fail(rule, v.Key, w.Pos(v.Pos), "tracer start/finish calls alternate, beginning with a start", v.Msg, v.Path...)
		}
	}
}

func keys(m map[string]bool) []string {
	var out []string
	for k := range m {
		out = append(out, k)
	}
	sortStrings(out)
	return out
}

// ---- C19.stages ----

type stageState struct {
	pair   string   // idle | started
	stack  []string // stages whose finish closure is on the event stack
	popped string   // "", "nil" or stage whose closure was popped and not yet invoked
	pend   string   // stage whose finish closure literal was just built (argument of push)
	need   string   // stage whose start was recorded and whose push is still owed
	last   int      // highest stage index started in this pair
}

func (s stageState) String() string {
	return fmt.Sprintf("%s/%s/%s/%s/%s/%d", s.pair, strings.Join(s.stack, ","), s.popped, s.pend, s.need, s.last)
}

func parseStage(ts string) stageState {
	p := strings.Split(ts, "/")
	var s stageState
	s.pair = p[0]
	if p[1] != "" {
		s.stack = strings.Split(p[1], ",")
	}
	s.popped, s.pend, s.need = p[2], p[3], p[4]
	fmt.Sscanf(p[5], "%d", &s.last)
	return s
}

var stageOrder = map[string]int{"ReadHeader": 1, "ReadBody": 2, "ServerHandle": 3, "Write": 4}

// stageEventArg recognises a stats.<Stage>Start / stats.<Stage>Finish variable.
func stageEventArg(info *types.Info, e ast.Expr) (stage, kind string) {
	var id *ast.Ident
	switch x := e.(type) {
	case *ast.SelectorExpr:
		id = x.Sel
	case *ast.Ident:
		id = x
	}
	if id == nil {
		return
	}
	v, _ := info.Uses[id].(*types.Var)
	if v == nil || v.Pkg() == nil || v.Pkg().Path() != pkgStats {
		return
	}
	switch {
	case strings.HasSuffix(v.Name(), "Start"):
		return strings.TrimSuffix(v.Name(), "Start"), "start"
	case strings.HasSuffix(v.Name(), "Finish"):
		return strings.TrimSuffix(v.Name(), "Finish"), "finish"
	}
	return
}

// C19.stages — stage events inside one start/finish pair: each recorded <Stage>Start is
// followed by a push of the closure that records the matching <Stage>Finish; popped closures
// are invoked; stages start in the order ReadHeader < ReadBody < ServerHandle < Write, each
// only after the previous one finished; the stack is empty at every DoFinish and every exit.
func c19Stages(e *Env) {
	const rule = "C19.stages"
	w, r := e.W, e.R
	r.Explainf("C19.stages: ESP typestate with a modelled event stack over the same functions: every Record(<Stage>Start) is followed by push(closure recording <Stage>Finish) of the same stage, every popped closure is invoked, stages start in the order ReadHeader<ReadBody<ServerHandle<Write only when the stack is empty, and the stack is empty at every DoFinish and at every exit (the epilogue drains it before the final finish).")
	field := w.Field("pkg/protocol/http1", "Option", "EnableTrace")
	stackT := w.Named("pkg/protocol/http1", "eventStack")
	if field == nil || stackT == nil {
		r.Anchor(rule, "http1.Option.EnableTrace / http1.eventStack")
		return
	}
	isStackMethod := func(f *types.Func, name string) bool {
		return esp.Is(f, Mod+"/pkg/protocol/http1", "eventStack", name)
	}
	fns := funcsCalling(w, func(f *types.Func) bool { return esp.Is(f, pkgTracer, "Controller", "DoStart") })
	r.Floor(rule, len(fns), 1, "functions calling tracer.Controller.DoStart")
	for _, fi := range fns {
		fname := w.FuncName(fi.Obj)
		info := fi.Pkg.TypesInfo
		assume := map[string]bool{}
		for k := range selectorKeysOfField(fi, field) {
			assume[k] = true
		}
		nStart := 0
		upd := func(c *esp.Ctx, f func(s *stageState)) {
			s := parseStage(c.S.TS)
			f(&s)
			c.S.TS = s.String()
		}
		rl := &esp.Rule{Name: rule, Init: stageState{pair: "idle"}.String(), Assume: assume,
			Inline: inlineWhen(info, func(f *types.Func) bool {
				return esp.Is(f, pkgTracer, "Controller", "DoStart") || esp.Is(f, pkgTracer, "Controller", "DoFinish") ||
					esp.Is(f, pkgIStats, "", "Record") || isStackMethod(f, "push") || isStackMethod(f, "pop")
			}, nil),
			FuncLit: func(c *esp.Ctx, fl *ast.FuncLit) {
				// closure that records a stage finish
				ast.Inspect(fl.Body, func(n ast.Node) bool {
					if call, ok := n.(*ast.CallExpr); ok {
						if f := calleeOf(info, call); esp.Is(f, pkgIStats, "", "Record") && len(call.Args) >= 2 {
							if st, kind := stageEventArg(info, call.Args[1]); kind == "finish" {
								upd(c, func(s *stageState) { s.pend = st })
							}
						}
					}
					return true
				})
			},
			Call: func(c *esp.Ctx, call *ast.CallExpr, f *types.Func) {
				site := fname + ":" + c.SiteKey(call)
				if isStackMethod(f, "push") || isStackMethod(f, "pop") {
					// both methods dereference their receiver unconditionally: after they return
					// the receiver expression is known to be non-nil
					if se, ok := call.Fun.(*ast.SelectorExpr); ok {
						c.SetFact(types.ExprString(se.X)+" == nil", false)
					}
				}
				switch {
				case esp.Is(f, pkgTracer, "Controller", "DoStart"):
					upd(c, func(s *stageState) { s.pair = "started"; s.last = 0 })
				case esp.Is(f, pkgTracer, "Controller", "DoFinish"):
					s := parseStage(c.S.TS)
					if s.pair == "started" && (len(s.stack) > 0 || (s.popped != "" && s.popped != "nil")) {
						c.Violate(call.Pos(), site+":finish-with-open-stage", fmt.Sprintf("DoFinish while stage(s) %v are started and not finished", append(s.stack, s.popped)))
					}
					upd(c, func(s *stageState) { s.pair = "idle" })
				case esp.Is(f, pkgIStats, "", "Record") && len(call.Args) >= 2:
					st, kind := stageEventArg(info, call.Args[1])
					if kind != "start" {
						return
					}
					s := parseStage(c.S.TS)
					idx, known := stageOrder[st]
					switch {
					case !known:
						c.Violate(call.Pos(), site+":unknown-stage", "stage "+st+" is not in the stage order table")
					case s.pair != "started":
						c.Violate(call.Pos(), site+":stage-outside-pair", "stage "+st+" starts outside a DoStart/DoFinish pair")
					case s.need != "":
						c.Violate(call.Pos(), site+":start-without-push", "stage "+s.need+" was started but its finish closure was not pushed before the next stage event")
					case len(s.stack) > 0 || (s.popped != "" && s.popped != "nil"):
						c.Violate(call.Pos(), site+":overlap", fmt.Sprintf("stage %s starts while %v is not finished", st, append(s.stack, s.popped)))
					case idx <= s.last:
						c.Violate(call.Pos(), site+":order", fmt.Sprintf("stage %s starts after a later stage (index %d) of the same pair", st, s.last))
					}
					upd(c, func(s *stageState) { s.need = st; s.last = idx })
				case isStackMethod(f, "push"):
					s := parseStage(c.S.TS)
					if s.need == "" || s.pend != s.need {
						c.Violate(call.Pos(), site+":push-mismatch", fmt.Sprintf("pushed closure finishes stage %q but the started stage is %q", s.pend, s.need))
					}
					upd(c, func(s *stageState) {
						st := s.pend
						if st == "" {
							st = "?"
						}
						s.stack = append(s.stack, st)
						s.pend, s.need = "", ""
					})
				case isStackMethod(f, "pop"):
					s := parseStage(c.S.TS)
					if s.popped != "" && s.popped != "nil" {
						c.Violate(call.Pos(), site+":lost-finish", "closure finishing stage "+s.popped+" was popped but never invoked")
					}
					upd(c, func(s *stageState) {
						if len(s.stack) == 0 {
							s.popped = "nil"
						} else {
							s.popped = s.stack[len(s.stack)-1]
							s.stack = s.stack[:len(s.stack)-1]
						}
					})
				case f == nil:
					// dynamic call of a popped closure
					if id, ok := call.Fun.(*ast.Ident); ok {
						if v, ok := info.Uses[id].(*types.Var); ok && !v.IsField() {
							if sig, ok := v.Type().Underlying().(*types.Signature); ok && sig.Params().Len() == 2 && sig.Results().Len() == 0 {
								s := parseStage(c.S.TS)
								if s.popped == "nil" {
									c.Violate(call.Pos(), site+":nil-call", "closure popped from an empty stack is invoked")
								}
								upd(c, func(s *stageState) { s.popped = "" })
							}
						}
					}
				}
			},
			Branch: func(c *esp.Ctx, cond ast.Expr, val bool) {
				// `last != nil` right after a pop: the outcome is determined by the modelled stack
				be, ok := cond.(*ast.BinaryExpr)
				if !ok || (be.Op != token.NEQ && be.Op != token.EQL) {
					return
				}
				if id, ok := be.Y.(*ast.Ident); !ok || id.Name != "nil" {
					return
				}
				x, ok := be.X.(*ast.Ident)
				if !ok {
					return
				}
				if v, ok := info.Uses[x].(*types.Var); !ok || v.IsField() {
					return
				} else if _, isSig := v.Type().Underlying().(*types.Signature); !isSig {
					return
				}
				s := parseStage(c.S.TS)
				if s.popped == "" {
					return
				}
				nonNil := val == (be.Op == token.NEQ)
				if (s.popped == "nil") == nonNil {
					c.Prune = true
				}
				if !nonNil && s.popped == "nil" {
					upd(c, func(s *stageState) { s.popped = "" })
				}
			},
			Exit: func(c *esp.Ctx) {
				if c.S.Panic {
					return
				}
				s := parseStage(c.S.TS)
				if len(s.stack) > 0 || (s.popped != "" && s.popped != "nil") || s.need != "" {
					c.Violate(c.S.Ret, fname+":exit-open-stage", fmt.Sprintf("function exits with started-but-unfinished stage(s) %v%s%s", s.stack, s.popped, s.need))
				}
			},
		}
		for _, hf := range withHelpers(w, fi, 2) {
			hinfo := hf.Pkg.TypesInfo
			ast.Inspect(hf.Decl, func(n ast.Node) bool {
				if call, ok := n.(*ast.CallExpr); ok {
					if f := calleeOf(hinfo, call); esp.Is(f, pkgIStats, "", "Record") && len(call.Args) >= 2 {
						if _, kind := stageEventArg(hinfo, call.Args[1]); kind == "start" {
							nStart++
						}
					}
				}
				return true
			})
		}
		ex := esp.New(w, fi, rl)
		viol := ex.Run(fi)
		r.Unit("%s: %s — %d stage-start sites, %d states explored, %d exit states", rule, fname, nStart, ex.Steps, ex.Exits)
		r.Floor(rule, nStart, 4, "stage start records in "+fname)
		if len(viol) == 0 {
			r.OK(rule, fname+":paths", w.Pos(fi.Decl.Pos()), fmt.Sprintf("stage start/push/pop/finish protocol holds on all %d exit states", ex.Exits))
		}
		for _, v := range viol {
			r.Fail(rule, v.Key, w.Pos(v.Pos), "stage events are ordered and every started stage is finished inside its pair", v.Msg, v.Path...)
		}
	}
}
