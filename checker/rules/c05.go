package rules

import (
	"fmt"
	"go/ast"
	"go/token"
	"go/types"
	"sort"
	"strings"

	"hzcheck/core"
)

func init() {
	register("C05", c05RetainTrailer, c05Taint, c05Sanitiser, c05Single, c05Retain, c05Fresh, c09Siblings)
}

// header serialiser roots: the AppendBytes methods of the three header-block types
var c05Roots = [][2]string{{"RequestHeader", "AppendBytes"}, {"ResponseHeader", "AppendBytes"}, {"Trailer", "AppendBytes"}}

// start-line operands: the property's list of application inputs (header name/value, cookie,
// content type, redirect location, trailer) does not contain the method, the request target
// or the status line.
var c05StartLine = map[string]map[string]string{
	"pkg/protocol.RequestHeader.AppendBytes":  {"Method": "request method: start-line operand, not in the property's list of inputs", "RequestURI": "request target: start-line operand, not in the property's list of inputs"},
	"pkg/protocol.ResponseHeader.AppendBytes": {"StatusLine": "status line built from an int status code and the constant reason table"},
}

func isByteSlice(t types.Type) bool {
	s, ok := t.Underlying().(*types.Slice)
	if !ok {
		return false
	}
	b, ok := s.Elem().Underlying().(*types.Basic)
	return ok && b.Kind() == types.Uint8
}

func isBuiltin(info *types.Info, call *ast.CallExpr, name string) bool {
	id, ok := call.Fun.(*ast.Ident)
	if !ok || id.Name != name {
		return false
	}
	_, isB := info.Uses[id].(*types.Builtin)
	return isB
}

// chokePoint returns the header-line choke point and the sanitiser it applies to values.
func c05Choke(w *core.World) (choke *core.FuncInfo, sanitiser *types.Func) {
	choke = w.Func("pkg/protocol", "", "appendHeaderLine")
	if choke == nil {
		return nil, nil
	}
	info := choke.Pkg.TypesInfo
	sig := choke.Obj.Type().(*types.Signature)
	if sig.Params().Len() != 3 {
		return choke, nil
	}
	valueParam := sig.Params().At(2)
	ast.Inspect(choke.Decl.Body, func(n ast.Node) bool {
		call, ok := n.(*ast.CallExpr)
		if !ok || !isBuiltin(info, call, "append") {
			return true
		}
		for _, a := range call.Args[1:] {
			if c2, ok := unparen(a).(*ast.CallExpr); ok && len(c2.Args) == 1 && usedVar(info, c2.Args[0]) == valueParam {
				if f := calleeOf(info, c2); f != nil {
					sanitiser = f
				}
			}
		}
		return true
	})
	return choke, sanitiser
}

var c05Seen = map[*core.World]map[string]bool{}

// C05.taint — every operand appended to a header block is constant, sanitised or passes
// through the choke point.
func c05Taint(e *Env) {
	const rule = "C05.taint"
	w, r := e.W, e.R
	r.Explainf("C05.taint: starting from RequestHeader/ResponseHeader/Trailer.AppendBytes and following every module helper that receives the output buffer, each operand of an `append(dst, …)` into the header block is a compile-time constant (literal, or package variable with a constant initialiser that nothing in the module writes), the result of the choke point's sanitiser, or one of three named start-line operands; every other line is produced by the choke point appendHeaderLine. Anything else is reported at that append.")
	choke, sanitiser := c05Choke(w)
	if choke == nil || (sanitiser == nil && c05InlineOut(w, choke) == nil) {
		r.Anchor(rule, "protocol.appendHeaderLine and the sanitiser it applies to its value parameter")
		return
	}
	seen := map[*types.Func]bool{}
	nOperands, nChoke := 0, 0
	var check func(fi *core.FuncInfo, chain string, dst *types.Var)
	check = func(fi *core.FuncInfo, chain string, dst *types.Var) {
		if seen[fi.Obj] {
			return
		}
		seen[fi.Obj] = true
		info := fi.Pkg.TypesInfo
		fname := w.FuncName(fi.Obj)
		r.Unit("%s: serialiser %s (reached via %s)", rule, fname, chain)
		// locals aliasing dst: dst = append(dst, …) keeps the same variable; other []byte locals
		// assigned from dst are treated as dst too
		dsts := map[*types.Var]bool{dst: true}
		ast.Inspect(fi.Decl.Body, func(n ast.Node) bool {
			if as, ok := n.(*ast.AssignStmt); ok && len(as.Lhs) == 1 && len(as.Rhs) == 1 {
				if v := usedVar(info, as.Rhs[0]); v != nil && dsts[v] {
					if lv := usedVar(info, as.Lhs[0]); lv != nil {
						dsts[lv] = true
					}
				}
			}
			return true
		})
		k := 0
		ast.Inspect(fi.Decl.Body, func(n ast.Node) bool {
			call, ok := n.(*ast.CallExpr)
			if !ok {
				return true
			}
			f := calleeOf(info, call)
			if f != nil && f.Origin() == choke.Obj {
				nChoke++
				return false // arguments are validated/sanitised inside the choke point
			}
			if isBuiltin(info, call, "append") && len(call.Args) >= 2 {
				if v := usedVar(info, call.Args[0]); v == nil || !dsts[v] {
					return true
				}
				for _, a := range call.Args[1:] {
					nOperands++
					k++
					key := fmt.Sprintf("%s:append:%s", fname, types.ExprString(a))
					pos := w.Pos(a.Pos())
					desc := "operand appended to the header block is constant, sanitised or a start-line operand"
					if _, ok := constBytesExpr(w, info, a); ok {
						r.OK(rule, key, pos, desc)
						continue
					}
					if tv, ok := info.Types[a]; ok && tv.Value != nil {
						r.OK(rule, key, pos, desc)
						continue
					}
					if c2, ok := unparen(a).(*ast.CallExpr); ok {
						if g := calleeOf(info, c2); g != nil {
							if sanitiser != nil && g.Origin() == sanitiser {
								r.OK(rule, key, pos, desc)
								continue
							}
							if reason, ok := c05StartLine[fname][g.Name()]; ok {
								r.Except(rule, key, pos, desc, reason)
								continue
							}
						}
					}
					r.Fail(rule, key, pos, desc, fmt.Sprintf("`%s` is appended raw into the header block by %s (reached via %s): CR/LF inside it become line breaks of the message, i.e. injected header lines", types.ExprString(a), fname, chain))
				}
				return true
			}
			// helper that receives the buffer
			if f != nil && len(call.Args) > 0 {
				if v := usedVar(info, call.Args[0]); v != nil && dsts[v] {
					if d := w.DeclOf(f); d != nil && d.Decl.Body != nil {
						sig := f.Type().(*types.Signature)
						if sig.Params().Len() > 0 && isByteSlice(sig.Params().At(0).Type()) {
							check(d, chain+" → "+f.Name(), sig.Params().At(0))
						}
					} else if f.Pkg() != nil && !w.InModule(f.Pkg()) {
						r.Fail(rule, fmt.Sprintf("%s:foreign:%s", fname, f.FullName()), w.Pos(call.Pos()), "header block is only extended by analysable module code", "buffer handed to "+f.FullName()+"; undecided")
					}
				}
			}
			return true
		})
	}
	nRoots := 0
	for _, rt := range c05Roots {
		fi := w.Func("pkg/protocol", rt[0], rt[1])
		if fi == nil {
			r.Anchor(rule, "protocol."+rt[0]+"."+rt[1])
			continue
		}
		sig := fi.Obj.Type().(*types.Signature)
		if sig.Params().Len() != 1 || !isByteSlice(sig.Params().At(0).Type()) {
			r.Anchor(rule, "protocol."+rt[0]+"."+rt[1]+"(dst []byte)")
			continue
		}
		nRoots++
		check(fi, rt[0]+"."+rt[1], sig.Params().At(0))
	}
	names := map[string]bool{}
	for f := range seen {
		names[w.FuncName(f)] = true
	}
	c05Seen[w] = names
	r.Floor(rule, nRoots, 3, "header serialiser roots")
	r.Floor(rule, nOperands, 8, "append operands examined")
	r.Floor(rule, nChoke, 15, "lines routed through the choke point")
}

// C05.sanitiser — inside the choke point the key append is dominated by the validation loop
// and the value reaches append only through the sanitiser; both tables have the needed shape.
func c05Sanitiser(e *Env) {
	const rule = "C05.sanitiser"
	w, r := e.W, e.R
	r.Explainf("C05.sanitiser: in appendHeaderLine the only raw operand is the key, appended after a range loop over the key that returns the buffer unchanged when Table[k]==0, with Table[c]==0 for CR, LF, NUL, SP and ':'; the value is appended only as sanitiser(value); the sanitiser returns a buffer of len(value) whose every element is overwritten by Table2[…] in a full-range loop, and Table2[i] ∉ {CR, LF} for all 256 i.")
	choke, sanitiser := c05Choke(w)
	if choke == nil {
		r.Anchor(rule, "protocol.appendHeaderLine")
		return
	}
	inlineOut := c05InlineOut(w, choke)
	if sanitiser == nil && inlineOut == nil {
		r.Fail(rule, w.FuncName(choke.Obj)+":sanitiser-call", w.Pos(choke.Decl.Pos()), "the value is appended as sanitiser(value)", "no `append(dst, f(value)...)` in the choke point and no local sanitised copy of the value: the value does not pass through the sanitising table on its way into the header block")
	}
	info := choke.Pkg.TypesInfo
	cname := w.FuncName(choke.Obj)
	sig := choke.Obj.Type().(*types.Signature)
	dst, key, val := sig.Params().At(0), sig.Params().At(1), sig.Params().At(2)
	// validation loop: inline, or in a predicate called as `if !valid(key) { return dst }`
	var loop ast.Node // the statement after which the key counts as validated
	var table []int
	tname := ""
	// findLoop looks in body for `for _, k := range kv { if Table[k] == 0 { <fail> } }`
	findLoop := func(finfo *types.Info, body *ast.BlockStmt, kv *types.Var, fail func(*ast.ReturnStmt) bool) (*ast.RangeStmt, []int, string) {
		for _, st := range body.List {
			rs, ok := st.(*ast.RangeStmt)
			if !ok || usedVar(finfo, rs.X) != kv {
				continue
			}
			elem, _ := rs.Value.(*ast.Ident)
			if elem == nil {
				continue
			}
			ev := finfo.ObjectOf(elem)
			for _, bs := range rs.Body.List {
				is, ok := bs.(*ast.IfStmt)
				if !ok || !terminates(is.Body) {
					continue
				}
				be, ok := unparen(is.Cond).(*ast.BinaryExpr)
				if !ok || be.Op != token.EQL {
					continue
				}
				ix, ok := unparen(be.X).(*ast.IndexExpr)
				if !ok {
					continue
				}
				if z, ok := constInt(finfo, be.Y); !ok || z != 0 {
					continue
				}
				if id, ok := unparen(ix.Index).(*ast.Ident); !ok || finfo.ObjectOf(id) != ev {
					continue
				}
				rs2, ok := is.Body.List[len(is.Body.List)-1].(*ast.ReturnStmt)
				if !ok || !fail(rs2) {
					continue
				}
				if t, n, ok := byteTable(w, finfo, ix.X); ok && len(t) == 256 {
					return rs, t, n
				}
			}
		}
		return nil, nil, ""
	}
	returnsDst := func(rs *ast.ReturnStmt) bool { return len(rs.Results) == 1 && usedVar(info, rs.Results[0]) == dst }
	if rs, t, n := findLoop(info, choke.Decl.Body, key, returnsDst); rs != nil {
		loop, table, tname = rs, t, n
	} else {
		for _, st := range choke.Decl.Body.List {
			is, ok := st.(*ast.IfStmt)
			if !ok || is.Init != nil || len(is.Body.List) == 0 {
				continue
			}
			last, ok := is.Body.List[len(is.Body.List)-1].(*ast.ReturnStmt)
			if !ok || !returnsDst(last) {
				continue
			}
			u, ok := unparen(is.Cond).(*ast.UnaryExpr)
			if !ok || u.Op != token.NOT {
				continue
			}
			call, ok := unparen(u.X).(*ast.CallExpr)
			if !ok || len(call.Args) != 1 || usedVar(info, call.Args[0]) != key {
				continue
			}
			pd := w.DeclOf(calleeOf(info, call))
			if pd == nil || pd.Decl.Body == nil || len(pd.Decl.Body.List) == 0 {
				continue
			}
			psig := pd.Obj.Type().(*types.Signature)
			if psig.Params().Len() != 1 || psig.Results().Len() != 1 {
				continue
			}
			pinfo := pd.Pkg.TypesInfo
			isConstBool := func(e ast.Expr, want string) bool {
				id, ok := unparen(e).(*ast.Ident)
				return ok && id.Name == want
			}
			// the predicate answers true only by falling through the loop
			fin, ok := pd.Decl.Body.List[len(pd.Decl.Body.List)-1].(*ast.ReturnStmt)
			if !ok || len(fin.Results) != 1 || !isConstBool(fin.Results[0], "true") {
				continue
			}
			otherTrue := false
			ast.Inspect(pd.Decl.Body, func(m ast.Node) bool {
				if rs, ok := m.(*ast.ReturnStmt); ok && rs != fin && len(rs.Results) == 1 && !isConstBool(rs.Results[0], "false") {
					otherTrue = true
				}
				return true
			})
			if otherTrue {
				continue
			}
			if rs, t, n := findLoop(pinfo, pd.Decl.Body, psig.Params().At(0), func(rs *ast.ReturnStmt) bool { return len(rs.Results) == 1 && isConstBool(rs.Results[0], "false") }); rs != nil {
				loop, table, tname = is, t, n
			}
		}
	}
	r.Check(loop != nil, rule, cname+":key-validation-loop", w.Pos(choke.Decl.Pos()), "the key is validated byte by byte and an invalid key drops the line", "neither `for _, k := range key { if Table[k] == 0 { return dst } }` nor `if !valid(key) { return dst }` with such a loop in valid found before the key is appended")
	if table != nil {
		for _, c := range []int{'\r', '\n', 0, ' ', ':'} {
			r.Check(table[c] == 0, rule, fmt.Sprintf("%s:keytable:%#02x", cname, c), w.Pos(choke.Decl.Pos()), fmt.Sprintf("%s[%#02x] == 0 (byte may not occur in a header name)", tname, c), fmt.Sprintf("%s accepts byte %#02x in a header name", tname, c))
		}
		r.Finite += 256
	}
	// operands of append in the choke point
	n := 0
	var inlineAppendPos token.Pos
	ast.Inspect(choke.Decl.Body, func(nd ast.Node) bool {
		call, ok := nd.(*ast.CallExpr)
		if !ok || !isBuiltin(info, call, "append") {
			return true
		}
		for _, a := range call.Args[1:] {
			n++
			k := fmt.Sprintf("%s:append:%s", cname, types.ExprString(a))
			pos := w.Pos(a.Pos())
			switch {
			case usedVar(info, a) == key:
				r.Check(loop != nil && loop.End() < call.Pos(), rule, k, pos, "key is appended only after the validation loop", "key appended before/without validation")
			case usedVar(info, a) == val:
				r.Fail(rule, k, pos, "value reaches the block only through the sanitiser", "the raw value parameter is appended")
			default:
				if _, ok := constBytesExpr(w, info, a); ok {
					r.OK(rule, k, pos, "constant operand")
				} else if c2, ok := unparen(a).(*ast.CallExpr); ok && sanitiser != nil && calleeOf(info, c2) != nil && calleeOf(info, c2).Origin() == sanitiser {
					r.OK(rule, k, pos, "value is appended as sanitiser(value)")
				} else if sanitiser == nil && inlineOut != nil && usedVar(info, a) == inlineOut {
					inlineAppendPos = call.Pos()
					r.OK(rule, k, pos, "the sanitised copy of the value is appended")
				} else {
					r.Fail(rule, k, pos, "choke point appends only key, constants and sanitiser(value)", "unrecognised operand `"+types.ExprString(a)+"`")
				}
			}
		}
		return true
	})
	r.Floor(rule, n, 4, "append operands in the choke point")
	// sanitiser body: the sanitising function, or the choke point itself when it sanitises inline
	var sfi *core.FuncInfo
	var in *types.Var
	sname := ""
	switch {
	case sanitiser != nil:
		sfi = w.DeclOf(sanitiser)
		if sfi == nil || sfi.Decl.Body == nil {
			r.Anchor(rule, "body of the sanitiser "+sanitiser.FullName())
			return
		}
		sname = w.FuncName(sanitiser)
		in = sanitiser.Type().(*types.Signature).Params().At(0)
	case inlineOut != nil:
		sfi, in, sname = choke, val, cname+":inline"
	default:
		return
	}
	sinfo := sfi.Pkg.TypesInfo
	var out *types.Var
	madeLen := false
	var mapTable []int
	mapName := ""
	fullLoop := false
	var loopEnd token.Pos
	for _, st := range sfi.Decl.Body.List {
		switch x := st.(type) {
		case *ast.AssignStmt:
			if len(x.Lhs) == 1 && len(x.Rhs) == 1 {
				if call, ok := unparen(x.Rhs[0]).(*ast.CallExpr); ok && isBuiltin(sinfo, call, "make") && len(call.Args) == 2 {
					if lc, ok := unparen(call.Args[1]).(*ast.CallExpr); ok && isBuiltin(sinfo, lc, "len") && usedVar(sinfo, lc.Args[0]) == in {
						out = usedVar(sinfo, x.Lhs[0])
						madeLen = true
					}
				}
			}
		case *ast.ForStmt:
			// for i := 0; i < len(out); i++ { out[i] = T[out[i] | in[i]] }
			var iv types.Object
			if as, ok := x.Init.(*ast.AssignStmt); ok && len(as.Lhs) == 1 {
				if z, ok := constInt(sinfo, as.Rhs[0]); ok && z == 0 {
					if id, ok := as.Lhs[0].(*ast.Ident); ok {
						iv = sinfo.ObjectOf(id)
					}
				}
			}
			be, _ := x.Cond.(*ast.BinaryExpr)
			if iv == nil || be == nil || be.Op != token.LSS {
				continue
			}
			lc, ok := unparen(be.Y).(*ast.CallExpr)
			if !ok || !isBuiltin(sinfo, lc, "len") {
				continue
			}
			if v := usedVar(sinfo, lc.Args[0]); v == nil || (v != out && v != in) {
				continue
			}
			if inc, ok := x.Post.(*ast.IncDecStmt); !ok || inc.Tok != token.INC {
				continue
			}
			for _, bs := range x.Body.List {
				as, ok := bs.(*ast.AssignStmt)
				if !ok || len(as.Lhs) != 1 || len(as.Rhs) != 1 {
					continue
				}
				li, ok := unparen(as.Lhs[0]).(*ast.IndexExpr)
				if !ok || usedVar(sinfo, li.X) != out {
					continue
				}
				if id, ok := unparen(li.Index).(*ast.Ident); !ok || sinfo.ObjectOf(id) != iv {
					continue
				}
				ri, ok := unparen(as.Rhs[0]).(*ast.IndexExpr)
				if !ok {
					continue
				}
				if t, nme, ok := byteTable(w, sinfo, ri.X); ok && len(t) == 256 {
					mapTable, mapName, fullLoop = t, nme, true
					loopEnd = x.End()
				}
			}
		case *ast.RangeStmt:
			// for i := range out { out[i] = T[…] }  /  for i, c := range in { out[i] = T[c] }
			if v := usedVar(sinfo, x.X); v == nil || (v != out && v != in) {
				continue
			}
			kid, _ := x.Key.(*ast.Ident)
			if kid == nil {
				continue
			}
			for _, bs := range x.Body.List {
				as, ok := bs.(*ast.AssignStmt)
				if !ok || len(as.Lhs) != 1 || len(as.Rhs) != 1 {
					continue
				}
				li, ok := unparen(as.Lhs[0]).(*ast.IndexExpr)
				if !ok || usedVar(sinfo, li.X) != out {
					continue
				}
				if id, ok := unparen(li.Index).(*ast.Ident); !ok || sinfo.ObjectOf(id) != sinfo.ObjectOf(kid) {
					continue
				}
				if ri, ok := unparen(as.Rhs[0]).(*ast.IndexExpr); ok {
					if t, nme, ok := byteTable(w, sinfo, ri.X); ok && len(t) == 256 {
						mapTable, mapName, fullLoop = t, nme, true
						loopEnd = x.End()
					}
				}
			}
		}
	}
	retOK := false
	if sanitiser == nil {
		// inline: the copy must be the operand appended, after the rewriting loop
		retOK = out != nil && out == inlineOut && inlineAppendPos.IsValid() && loopEnd.IsValid() && loopEnd < inlineAppendPos
	} else {
		ast.Inspect(sfi.Decl.Body, func(nd ast.Node) bool {
			if rs, ok := nd.(*ast.ReturnStmt); ok && len(rs.Results) == 1 {
				retOK = out != nil && usedVar(sinfo, rs.Results[0]) == out
			}
			return true
		})
	}
	r.Check(madeLen && retOK, rule, sname+":fresh-buffer", w.Pos(sfi.Decl.Pos()), "sanitiser returns a fresh buffer of len(value)", "the sanitiser does not return `make([]byte, len(val))`; its output is not known to be fully rewritten")
	r.Check(fullLoop, rule, sname+":full-range-map", w.Pos(sfi.Decl.Pos()), "every output byte is Table[…] written in a loop over the full length", "no full-range loop `out[i] = Table[…]` found")
	if mapTable != nil {
		bad := []string{}
		for i, v := range mapTable {
			if v == '\r' || v == '\n' {
				bad = append(bad, fmt.Sprintf("%s[%#02x]=%#02x", mapName, i, v))
			}
		}
		sort.Strings(bad)
		r.Finite += 256
		r.Check(len(bad) == 0, rule, sname+":table-no-crlf", w.Pos(sfi.Decl.Pos()), mapName+"[i] is neither CR nor LF for all 256 i", "table lets line breaks through: "+strings.Join(bad, ", "))
	}
}

// c05InlineOut: when the choke point sanitises the value itself (no separate function), the
// local it builds with make([]byte, len(value)) and appends instead of the value.
func c05InlineOut(w *core.World, choke *core.FuncInfo) *types.Var {
	if choke == nil {
		return nil
	}
	info := choke.Pkg.TypesInfo
	sig := choke.Obj.Type().(*types.Signature)
	if sig.Params().Len() != 3 {
		return nil
	}
	val := sig.Params().At(2)
	var out *types.Var
	ast.Inspect(choke.Decl.Body, func(n ast.Node) bool {
		if as, ok := n.(*ast.AssignStmt); ok && len(as.Lhs) == 1 && len(as.Rhs) == 1 {
			if call, ok := unparen(as.Rhs[0]).(*ast.CallExpr); ok && isBuiltin(info, call, "make") && len(call.Args) == 2 {
				if lc, ok := unparen(call.Args[1]).(*ast.CallExpr); ok && isBuiltin(info, lc, "len") && usedVar(info, lc.Args[0]) == val {
					out = usedVar(info, as.Lhs[0])
				}
			}
		}
		return true
	})
	return out
}

// C05.single — nothing else in the protocol packages assembles header lines.
func c05Single(e *Env) {
	const rule = "C05.single"
	w, r := e.W, e.R
	r.Explainf("C05.single: every non-test function of pkg/protocol… that appends bytestr.StrCRLF or bytestr.StrColonSpace to a byte slice is the choke point, one of the three serialiser roots, or a helper the taint rule reaches from them; header lines assembled anywhere else would bypass the choke point.")
	choke, _ := c05Choke(w)
	crlf, colon := bytestrVar(w, "StrCRLF"), bytestrVar(w, "StrColonSpace")
	if choke == nil || crlf == nil || colon == nil {
		r.Anchor(rule, "appendHeaderLine / bytestr.StrCRLF / bytestr.StrColonSpace")
		return
	}
	allowed := map[string]bool{w.FuncName(choke.Obj): true}
	for _, rt := range c05Roots {
		allowed["pkg/protocol."+rt[0]+"."+rt[1]] = true
	}
	for k := range c05Seen[w] {
		allowed[k] = true
	}
	n := 0
	for _, fi := range declaredNonTest(w) {
		if !strings.HasPrefix(fi.Pkg.PkgPath, pkgProto) {
			continue
		}
		info := fi.Pkg.TypesInfo
		fname := w.FuncName(fi.Obj)
		hit := false
		ast.Inspect(fi.Decl.Body, func(nd ast.Node) bool {
			call, ok := nd.(*ast.CallExpr)
			if !ok || !isBuiltin(info, call, "append") || len(call.Args) < 2 {
				return true
			}
			for _, a := range call.Args[1:] {
				if v := usedVar(info, a); v == crlf || v == colon {
					hit = true
				}
			}
			return true
		})
		if !hit {
			continue
		}
		n++
		r.Check(allowed[fname], rule, fname+":assembles-lines", w.Pos(fi.Decl.Pos()), "line terminators/separators are appended only by the checked serialisers and the choke point", fname+" assembles header lines itself (appends CRLF / ': '), outside the functions covered by C05.taint")
	}
	r.Floor(rule, n, 4, "functions appending CRLF or ': '")
}
