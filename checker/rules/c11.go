package rules

import (
	"fmt"
	"go/ast"
	"go/token"
	"go/types"
	"strings"

	"hzcheck/core"
	"hzcheck/esp"
)

func init() {
	register("C11",
		func(e *Env) { streamFraming(e, "C11.framing", "pkg/protocol/http1/req") },
		c11Max, c11Host, c11Continue, c02Retry, c14Drain, c14EOF, c10Rewind, c04Slots, c10SkipBody, c09Siblings, c17Slot, c17DeepCopy, c04OwnedLen, c11PutEscape, c04ReadCommit, c03EOFConv,
		// the request goes out and the response comes in through the buffered connection
		c13Alias, c13Window, c13Remainder, c13WriterReset,
		// the exchange function arms the deadlines of every write and read of the request
		c10Deadline,
		func(e *Env) {
			dispatchAgreement(e, "C11.dispatch", func(fi *core.FuncInfo) bool { return fi.Pkg.PkgPath == pkgResp || fi.Pkg.PkgPath == pkgProto })
		})
}

// C11.max — the configured maximum response size is what every response body reader gets.
func c11Max(e *Env) {
	const rule = "C11.max"
	w, r := e.W, e.R
	r.Explainf("C11.max: value identity: every call from the HTTP/1 client (package http1) to a function of package http1/resp that has an int parameter passes the selector of ClientOptions.MaxResponseBodySize for it; inside package resp such a parameter is handed on unchanged as the limit argument of ext.ReadBody / ext.ReadBodyWithStreaming (third parameter) or of another resp reader.")
	field := w.Field("pkg/protocol/http1", "ClientOptions", "MaxResponseBodySize")
	if field == nil {
		r.Anchor(rule, "http1.ClientOptions.MaxResponseBodySize")
		return
	}
	intParams := func(f *types.Func) []int {
		var out []int
		sig := f.Type().(*types.Signature)
		for i := 0; i < sig.Params().Len(); i++ {
			if b, ok := sig.Params().At(i).Type().Underlying().(*types.Basic); ok && b.Kind() == types.Int {
				out = append(out, i)
			}
		}
		return out
	}
	nCalls := 0
	limitParam := map[*types.Func]int{} // resp function → index of its limit parameter
	for _, fi := range declaredNonTest(w) {
		if fi.Pkg.PkgPath != pkgHTTP1 {
			continue
		}
		info := fi.Pkg.TypesInfo
		fname := w.FuncName(fi.Obj)
		k := 0
		ast.Inspect(fi.Decl.Body, func(n ast.Node) bool {
			call, ok := n.(*ast.CallExpr)
			if !ok {
				return true
			}
			f := calleeOf(info, call)
			if f == nil || f.Pkg() == nil || f.Pkg().Path() != pkgResp || !strings.HasPrefix(f.Name(), "Read") {
				return true
			}
			for _, i := range intParams(f) {
				if i >= len(call.Args) {
					continue
				}
				nCalls++
				k++
				limitParam[f] = i
				key := fmt.Sprintf("%s:%s#%d", fname, f.Name(), k)
				r.Check(usedVar(info, call.Args[i]) == field, rule, key, w.Pos(call.Pos()), "response reader is given ClientOptions.MaxResponseBodySize",
					"`"+types.ExprString(call.Args[i])+"` is passed as the body-size limit of "+f.Name()+" instead of the configured MaxResponseBodySize: the configured maximum is not enforced on this path")
			}
			return true
		})
	}
	r.Floor(rule, nCalls, 3, "client calls into resp readers with a size limit")
	// inside resp: the limit parameter is handed on unchanged
	nFlow := 0
	for f, idx := range limitParam {
		fi := w.DeclOf(f)
		if fi == nil {
			continue
		}
		info := fi.Pkg.TypesInfo
		p := f.Type().(*types.Signature).Params().At(idx)
		fname := w.FuncName(f)
		passes := 0
		assigned := false
		ast.Inspect(fi.Decl.Body, func(n ast.Node) bool {
			switch x := n.(type) {
			case *ast.AssignStmt:
				for _, l := range x.Lhs {
					if usedVar(info, l) == p {
						assigned = true
					}
				}
			case *ast.CallExpr:
				g := calleeOf(info, x)
				if g == nil {
					return true
				}
				for ai, a := range x.Args {
					if usedVar(info, a) != p {
						continue
					}
					switch {
					case esp.Is(g, pkgExt, "", "ReadBody") && ai == 2, esp.Is(g, pkgExt, "", "ReadBodyWithStreaming") && ai == 2:
						passes++
					case g.Pkg() != nil && g.Pkg().Path() == pkgResp:
						if _, ok := limitParam[g]; !ok {
							limitParam[g] = ai
						}
						passes++
					}
				}
			}
			return true
		})
		nFlow++
		r.Check(passes >= 1 && !assigned, rule, fname+":limit-flows", w.Pos(fi.Decl.Pos()), "the limit parameter reaches the body reader unchanged", fmt.Sprintf("parameter %s is reassigned (%v) or not handed to ext.ReadBody/ReadBodyWithStreaming (passes=%d)", p.Name(), assigned, passes))
	}
	r.Floor(rule, nFlow, 2, "resp readers forwarding the limit")
}

// C11.host — a request without any host is refused before a byte is written.
func c11Host(e *Env) {
	const rule = "C11.host"
	w, r := e.W, e.R
	r.Explainf("C11.host: ESP typestate over the request serialiser (the function req.Write delegates to): no byte is written (network WriteBinary, header or stream write) before the host test; on the path where the Host header is empty the URI host is consulted and an empty URI host returns the host-required error.")
	fi := w.Func("pkg/protocol/http1/req", "", "write")
	errVar, _ := w.Object("pkg/protocol/http1/req", "errRequestHostRequired").(*types.Var)
	if fi == nil || errVar == nil {
		r.Anchor(rule, "req.write / req.errRequestHostRequired")
		return
	}
	info := fi.Pkg.TypesInfo
	fname := w.FuncName(fi.Obj)
	// structural: an if whose condition has the disjunct len(req.Header.Host()) == 0 contains
	// `if len(host) == 0 { return errRequestHostRequired }` with host := uri.Host()
	okOuter, okInner := false, false
	var innerIf *ast.IfStmt
	isLenZero := func(e ast.Expr, pred func(ast.Expr) bool) bool {
		be, ok := unparen(e).(*ast.BinaryExpr)
		if !ok || be.Op != token.EQL {
			return false
		}
		if z, ok := constInt(info, be.Y); !ok || z != 0 {
			return false
		}
		call, ok := unparen(be.X).(*ast.CallExpr)
		return ok && isBuiltin(info, call, "len") && pred(call.Args[0])
	}
	isHeaderHost := func(e ast.Expr) bool {
		c, ok := unparen(e).(*ast.CallExpr)
		return ok && esp.Is(calleeOf(info, c), pkgProto, "RequestHeader", "Host")
	}
	hostVars := map[*types.Var]bool{}
	ast.Inspect(fi.Decl.Body, func(n ast.Node) bool {
		if as, ok := n.(*ast.AssignStmt); ok && len(as.Lhs) == 1 && len(as.Rhs) == 1 {
			if c, ok := unparen(as.Rhs[0]).(*ast.CallExpr); ok && esp.Is(calleeOf(info, c), pkgProto, "URI", "Host") {
				if v := usedVar(info, as.Lhs[0]); v != nil {
					hostVars[v] = true
				}
			}
		}
		return true
	})
	var hasDisj func(e ast.Expr) bool
	hasDisj = func(e ast.Expr) bool {
		if be, ok := unparen(e).(*ast.BinaryExpr); ok && be.Op == token.LOR {
			return hasDisj(be.X) || hasDisj(be.Y)
		}
		return isLenZero(e, isHeaderHost)
	}
	for _, st := range fi.Decl.Body.List {
		is, ok := st.(*ast.IfStmt)
		if !ok || !hasDisj(is.Cond) {
			continue
		}
		okOuter = true
		for _, s2 := range is.Body.List {
			is2, ok := s2.(*ast.IfStmt)
			if !ok || !isLenZero(is2.Cond, func(e ast.Expr) bool { return hostVars[usedVar(info, e)] }) {
				continue
			}
			if rs, ok := is2.Body.List[len(is2.Body.List)-1].(*ast.ReturnStmt); ok && len(rs.Results) == 1 && usedVar(info, rs.Results[0]) == errVar {
				okInner = true
				innerIf = is2
			}
		}
		break
	}
	r.Check(okOuter, rule, fname+":consults-uri-host", w.Pos(fi.Decl.Pos()), "an empty Host header makes the serialiser consult the URI host", "no top-level `if len(req.Header.Host()) == 0 || …` found")
	r.Check(okInner, rule, fname+":refuses-empty-host", w.Pos(fi.Decl.Pos()), "an empty URI host returns the host-required error", "no `if len(host) == 0 { return errRequestHostRequired }` inside it")
	// no write before the test
	early := ""
	if innerIf != nil {
		ast.Inspect(fi.Decl.Body, func(n ast.Node) bool {
			call, ok := n.(*ast.CallExpr)
			if !ok || call.Pos() > innerIf.Pos() {
				return true
			}
			f := calleeOf(info, call)
			if f != nil && ((f.Name() == "WriteBinary" || f.Name() == "Flush" || f.Name() == "Malloc") && f.Pkg() != nil && f.Pkg().Path() == pkgNetwork || strings.HasPrefix(f.Name(), "write") || f.Name() == "WriteHeader") {
				early = types.ExprString(call)
			}
			return true
		})
	}
	r.Check(early == "", rule, fname+":nothing-written-before", w.Pos(fi.Decl.Pos()), "nothing is written before the host test", "`"+early+"` precedes the host test")
}

// C11.continue — the 100-continue interim response is skipped by re-reading into the same
// header object.
func c11Continue(e *Env) {
	const rule = "C11.continue"
	w, r := e.W, e.R
	r.Explainf("C11.continue: in resp.ReadHeaders the branch on StatusCode() == 100 reads the header again with the identical header and reader arguments and returns a read error; the first read's error is returned before the status is looked at.")
	fi := w.Func("pkg/protocol/http1/resp", "", "ReadHeaders")
	if fi == nil {
		r.Anchor(rule, "resp.ReadHeaders")
		return
	}
	info := fi.Pkg.TypesInfo
	fname := w.FuncName(fi.Obj)
	var calls []*ast.CallExpr
	ast.Inspect(fi.Decl.Body, func(n ast.Node) bool {
		if c, ok := n.(*ast.CallExpr); ok && esp.Is(calleeOf(info, c), pkgResp, "", "ReadHeader") {
			calls = append(calls, c)
		}
		return true
	})
	if len(calls) != 2 {
		r.Fail(rule, fname+":two-reads", w.Pos(fi.Decl.Pos()), "ReadHeaders reads the header once and once more after an interim 100 response", fmt.Sprintf("%d ReadHeader calls found", len(calls)))
		return
	}
	same := types.ExprString(calls[0].Args[0]) == types.ExprString(calls[1].Args[0]) && types.ExprString(calls[0].Args[1]) == types.ExprString(calls[1].Args[1])
	r.Check(same, rule, fname+":same-target", w.Pos(calls[1].Pos()), "the re-read after 100 Continue fills the same header from the same reader", "the two ReadHeader calls use different arguments")
	par := parents(fi.Decl)
	guard := false
	for _, cond := range enclosingThenConds(par, calls[1]) {
		if be, ok := unparen(cond).(*ast.BinaryExpr); ok && be.Op == token.EQL {
			if v, ok := constInt(info, be.Y); ok && v == 100 {
				if c, ok := unparen(be.X).(*ast.CallExpr); ok && esp.Is(calleeOf(info, c), pkgProto, "ResponseHeader", "StatusCode") {
					guard = true
				}
			}
		}
	}
	r.Check(guard, rule, fname+":only-on-100", w.Pos(calls[1].Pos()), "the re-read happens exactly for status 100", "second ReadHeader is not nested in `if resp.Header.StatusCode() == 100`")
	// both errors are returned
	n := 0
	for _, c := range calls {
		switch p := par[c].(type) {
		case *ast.AssignStmt:
			if blk, ok := par[p].(*ast.BlockStmt); ok {
				for i, s := range blk.List {
					if s == ast.Stmt(p) && i+1 < len(blk.List) {
						if is, ok := blk.List[i+1].(*ast.IfStmt); ok && terminates(is.Body) {
							n++
						}
					}
				}
			}
			if is, ok := par[p].(*ast.IfStmt); ok && is.Init == ast.Stmt(p) && terminates(is.Body) {
				n++
			}
		case *ast.ReturnStmt:
			n++
		}
	}
	r.Check(n == 2, rule, fname+":errors-returned", w.Pos(fi.Decl.Pos()), "both header reads return their error", fmt.Sprintf("only %d of 2 ReadHeader results are tested and returned", n))
}
