package rules

import (
	"fmt"
	"go/types"
	"sort"
	"strings"

	"golang.org/x/tools/go/ssa"
)

// poolExempt: pooled struct type → field → reason (reviewed).
var poolExempt = map[string]map[string]string{
	"pkg/common/stackless.funcWork":             {"done": "reusable completion channel (capacity 1, drained by the waiter before putFuncWork); carries no data between users"},
	"pkg/route.hijackConn":                      {"e": "immutable back-pointer to the owning engine; the pool is a field of that same engine"},
	"pkg/protocol/http1/resp.chunkedBodyWriter": {"Once": "reset on the acquire side: NewChunkedBodyWriter assigns `Once = sync.Once{}` right after Get (checked by C09.pools acquire-side obligation)"},
	"pkg/app.RequestContext": {"HTMLRender": excServer, "enableTrace": excServer, "binder": excBinder, "validator": excBinder, "clientIPFunc": excEngine, "formValueFunc": excEngine,
		"mu": excMutex, "finishedMu": excMutex, "hijackHandler": "cleared by Server.Serve after every handler (C09.order)", "exiled": "exiled contexts are never pooled (C09.scoped)"},
}

// poolTypeExempt: whole pooled types that are outside the property (not request/response
// state handed to applications).
var poolTypeExempt = map[string]string{}

// c09Pools (tier 2) — every sync.Pool.Put of a pointer to a module struct is preceded, on
// every path to the Put inside the same function, by a reset of every field of the struct.
func c09Pools(e *Env) {
	const rule = "C09.pools"
	w, r := e.W, e.R
	r.Explainf("C09.pools: every sync.Pool Put of a pointer to a struct declared in the module (non-test code) is discovered from the SSA program; on every path from the function entry to the Put each field of the struct is reset (same must-write analysis as C09.reset, rooted at the value being put), or the field/type is in the reviewed exemption table.")
	w.BuildSSA()
	fc := newFieldCov(w)
	for _, tg := range c09Targets {
		if tg.Guards != nil {
			if n := w.Named(tg.Rel, tg.Typ); n != nil {
				if st, ok := n.Underlying().(*types.Struct); ok {
					fc.setGuards(n, st, tg.Guards)
				}
			}
		}
	}
	type site struct {
		fn   *ssa.Function
		call ssa.CallInstruction
		arg  ssa.Value
		nt   *types.Named
		st   *types.Struct
	}
	var sites []site
	var fns []*ssa.Function
	for _, fi := range declaredNonTest(w) {
		if fn := w.SSAFunc(fi); fn != nil {
			fns = append(fns, fn)
			fns = append(fns, fn.AnonFuncs...)
		}
	}
	for _, fn := range fns {
		for _, b := range fn.Blocks {
			for _, ins := range b.Instrs {
				c, ok := ins.(ssa.CallInstruction)
				if !ok {
					continue
				}
				cal := c.Common().StaticCallee()
				if cal == nil || cal.Name() != "Put" || cal.Signature.Recv() == nil || !strings.HasSuffix(cal.Signature.Recv().Type().String(), "sync.Pool") {
					continue
				}
				args := c.Common().Args
				arg := args[len(args)-1]
				if mi, ok := arg.(*ssa.MakeInterface); ok {
					arg = mi.X
				}
				nt, st := structOfPtr(arg.Type())
				if st == nil || nt == nil || !w.InModule(nt.Obj().Pkg()) {
					continue
				}
				sites = append(sites, site{fn, c, arg, nt, st})
			}
		}
	}
	c09PoolAcquire(e, fc, fns)
	sort.Slice(sites, func(i, j int) bool { return sites[i].call.Pos() < sites[j].call.Pos() })
	r.Floor(rule, len(sites), 10, "sync.Pool.Put sites of module struct pointers")
	perFn := map[string]int{}
	for _, s := range sites {
		tname := w.RelPkg(s.nt.Obj().Pkg()) + "." + s.nt.Obj().Name()
		fname := s.fn.String()
		if s.fn.Object() != nil {
			if f, ok := s.fn.Object().(*types.Func); ok {
				fname = w.FuncName(f)
			}
		} else if s.fn.Parent() != nil && s.fn.Parent().Object() != nil {
			if f, ok := s.fn.Parent().Object().(*types.Func); ok {
				fname = w.FuncName(f) + "$lit"
			}
		}
		perFn[fname+tname]++
		base := fmt.Sprintf("%s:Put(%s)#%d", fname, tname, perFn[fname+tname])
		pos := w.Pos(s.call.Pos())
		if reason, ok := poolTypeExempt[tname]; ok {
			r.Except(rule, base, pos, "pooled "+tname+" is fully reset before Put", reason)
			continue
		}
		ws := fc.writesOf(s.fn, s.arg, s.call)
		al := aliasesOf(s.fn, s.arg)
		tg := fc.typeGuards[s.nt.Obj()]
		var miss []string
		for i := 0; i < s.st.NumFields(); i++ {
			if !fc.coveredTo(s.fn, ws, al, i, s.st, tg[i], s.call.Block()) {
				miss = append(miss, s.st.Field(i).Name())
			}
		}
		r.Unit("%s: %s @%s — %d fields, not reset before Put: %v", rule, base, pos, s.st.NumFields(), miss)
		if len(miss) == 0 {
			r.OK(rule, base, pos, "every field of "+tname+" is reset on every path to the Put")
			continue
		}
		for _, f := range miss {
			key := base + ":" + f
			desc := fmt.Sprintf("field %s.%s is reset before the object is put into the pool", tname, f)
			if reason, ok := poolExempt[tname][f]; ok {
				r.Except(rule, key, pos, desc, reason)
			} else if reason, ok := targetExempt(tname, f); ok {
				r.Except(rule, key, pos, desc, reason)
			} else {
				r.Fail(rule, key, pos, desc, fmt.Sprintf("%s puts a %s into a sync.Pool while field %q still holds what the previous user stored: the next Get observes it", fname, tname, f))
			}
		}
	}
}

// poolAcquireReset: fields that are reset on the acquire side (right after Pool.Get).
var poolAcquireReset = map[string][]string{
	"pkg/protocol/http1/resp.chunkedBodyWriter": {"Once"},
}

func c09PoolAcquire(e *Env, fc *fieldCov, fns []*ssa.Function) {
	const rule = "C09.pools"
	w, r := e.W, e.R
	found := map[string]int{}
	for _, fn := range fns {
		for _, b := range fn.Blocks {
			for _, ins := range b.Instrs {
				ta, ok := ins.(*ssa.TypeAssert)
				if !ok {
					continue
				}
				call, ok := ta.X.(*ssa.Call)
				if !ok {
					continue
				}
				cal := call.Call.StaticCallee()
				if cal == nil || cal.Name() != "Get" || cal.Signature.Recv() == nil || !strings.HasSuffix(cal.Signature.Recv().Type().String(), "sync.Pool") {
					continue
				}
				nt, st := structOfPtr(ta.AssertedType)
				if nt == nil || st == nil {
					continue
				}
				tname := w.RelPkg(nt.Obj().Pkg()) + "." + nt.Obj().Name()
				fields, ok := poolAcquireReset[tname]
				if !ok {
					continue
				}
				ws := fc.writesOf(fn, ta, nil)
				al := aliasesOf(fn, ta)
				for _, f := range fields {
					idx := -1
					for i := 0; i < st.NumFields(); i++ {
						if st.Field(i).Name() == f {
							idx = i
						}
					}
					found[tname+"."+f]++
					key := fmt.Sprintf("%s:Get(%s):%s", fn.Name(), tname, f)
					// paths from the Get's block to the returns
					covered := idx >= 0 && fc.coveredFrom(fn, ws, al, idx, st, b)
					r.Check(covered, rule, key, w.Pos(ta.Pos()), "field "+tname+"."+f+" is reset on every path after Pool.Get", "the acquire side does not reset the field on every path although the release side leaves it untouched")
				}
			}
		}
	}
	for t, fs := range poolAcquireReset {
		for _, f := range fs {
			r.Check(found[t+"."+f] > 0, rule, "acquire-site:"+t+"."+f, "-", "an acquire site for "+t+" exists", "no Pool.Get().(*T) site found for an acquire-side exemption")
		}
	}
}

// targetExempt reuses the tier-1 exemption of the type's Reset method.
func targetExempt(tname, field string) (string, bool) {
	for _, t := range c09Targets {
		if t.Rel+"."+t.Typ == tname && (t.Meth == "Reset" || t.Meth == "reset") {
			if r, ok := t.Exempt[field]; ok {
				return r, true
			}
		}
	}
	return "", false
}
