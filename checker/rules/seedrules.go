package rules

// Rules added after independently seeded changes exposed clauses that earlier rules did not
// cover. Each encodes an invariant of the mechanism named in the property (not the seed's
// text): see DESIGN.md §7.

import (
	"fmt"
	"go/ast"
	"go/token"
	"go/types"
	"strings"

	"hzcheck/core"
	"hzcheck/esp"
)

// C03.hexwidth — the chunk-size parser cannot produce a negative size.
func c03HexWidth(e *Env) {
	const rule = "C03.hexwidth"
	w, r := e.W, e.R
	r.Explainf("C03.hexwidth: bytesconv.ReadHexInt accumulates `n = n<<4 | digit`; its digit-count guard `i >= C` / `i > C` (C read from the per-architecture constant of the analysed build configuration) admits D digits, and 4·D must stay below the width of int minus the sign bit (≤ 60 of 63 bits on 64-bit, ≤ 28 of 31 on 32-bit). One more digit lets a peer send a chunk size that wraps negative; every consumer (limit check, slice arithmetic, Peek/Skip) assumes size ≥ 0 and panics.")
	fi := w.Func("internal/bytesconv", "", "ReadHexInt")
	if fi == nil {
		r.Anchor(rule, "bytesconv.ReadHexInt")
		return
	}
	info := fi.Pkg.TypesInfo
	// counter variable: the one incremented in the loop and compared in a guard that returns an error
	found := false
	ast.Inspect(fi.Decl.Body, func(n ast.Node) bool {
		is, ok := n.(*ast.IfStmt)
		if !ok || !terminates(is.Body) {
			return true
		}
		be, ok := unparen(is.Cond).(*ast.BinaryExpr)
		if !ok || (be.Op != token.GEQ && be.Op != token.GTR) {
			return true
		}
		c, isC := constInt(info, be.Y)
		cv := usedVar(info, be.X)
		if !isC || cv == nil || c < 2 {
			return true
		}
		// the guarded variable is incremented in the function
		inc := false
		ast.Inspect(fi.Decl.Body, func(m ast.Node) bool {
			if x, ok := m.(*ast.IncDecStmt); ok && x.Tok == token.INC && usedVar(info, x.X) == cv {
				inc = true
			}
			return true
		})
		if !inc {
			return true
		}
		found = true
		digits := c
		if be.Op == token.GTR {
			digits = c + 1
		}
		intBits := 63
		if strings.Contains(e.Config, "386") || strings.Contains(e.Config, "arm/") {
			intBits = 31
		}
		r.Check(4*digits <= intBits, rule, "ReadHexInt:digits", w.Pos(is.Pos()), fmt.Sprintf("at most %d hex digits (%d bits) are accumulated into an int of %d value bits", digits, 4*digits, intBits),
			fmt.Sprintf("the guard `%s` admits %d hex digits = %d bits, more than the %d value bits of int on %s: a %d-digit chunk size with the top bit set becomes negative", types.ExprString(is.Cond), digits, 4*digits, intBits, e.Config, digits))
		return false
	})
	r.Check(found, rule, "ReadHexInt:has-guard", w.Pos(fi.Decl.Pos()), "ReadHexInt bounds the number of digits", "no `if i >= maxHexIntChars { return error }` guard found")
	// shift width agrees with the per-digit width
	okShift := false
	ast.Inspect(fi.Decl.Body, func(n ast.Node) bool {
		if be, ok := n.(*ast.BinaryExpr); ok && be.Op == token.SHL {
			if s, ok := constInt(info, be.Y); ok && s == 4 {
				okShift = true
			}
		}
		return true
	})
	r.Check(okShift, rule, "ReadHexInt:shift4", w.Pos(fi.Decl.Pos()), "each hex digit shifts the accumulator by 4 bits", "accumulator is not shifted by 4")
}

// C13.accumulate — cross-node copies advance the destination index additively.
func c13Accumulate(e *Env) {
	const rule = "C13.accumulate"
	w, r := e.W, e.R
	r.Explainf("C13.accumulate: in package network/standard, inside a loop, a variable used as the low bound of a copy destination (`copy(buf[v:], …)`) and updated from that copy must be advanced with `v += copy(…)`; `v = copy(…)` restarts the offset after the second node, so data spanning three or more buffer nodes is written over itself and the tail is stale memory.")
	n := 0
	for _, fi := range declaredNonTest(w) {
		if fi.Pkg.PkgPath != pkgStd {
			continue
		}
		info := fi.Pkg.TypesInfo
		fname := w.FuncName(fi.Obj)
		par := parents(fi.Decl)
		ast.Inspect(fi.Decl.Body, func(nd ast.Node) bool {
			as, ok := nd.(*ast.AssignStmt)
			if !ok || len(as.Lhs) != 1 || len(as.Rhs) != 1 {
				return true
			}
			call, ok := unparen(as.Rhs[0]).(*ast.CallExpr)
			if !ok || !isBuiltin(info, call, "copy") {
				return true
			}
			se, ok := unparen(call.Args[0]).(*ast.SliceExpr)
			if !ok || se.Low == nil {
				return true
			}
			v := usedVar(info, as.Lhs[0])
			if v == nil || usedVar(info, se.Low) != v {
				return true
			}
			if enclosing(par, as, func(n ast.Node) bool { _, ok := n.(*ast.ForStmt); return ok }) == nil {
				return true
			}
			n++
			r.Check(as.Tok == token.ADD_ASSIGN, rule, fmt.Sprintf("%s:%s#%d", fname, v.Name(), n), w.Pos(as.Pos()), "destination offset is advanced with += across loop iterations", "`"+nodeString2(as)+"` overwrites the running offset with the size of the last piece: the third and later pieces land on top of the second")
			return true
		})
	}
	r.Floor(rule, n, 1, "offset-accumulating copies in loops")
}

func nodeString2(as *ast.AssignStmt) string {
	return types.ExprString(as.Lhs[0]) + " " + as.Tok.String() + " " + types.ExprString(as.Rhs[0])
}

// C14.drain — the drain skips exactly the unread remainder; the stream is only marked
// consumed on EOF.
func c14Drain(e *Env) {
	const rule = "C14.drain"
	w, r := e.W, e.R
	r.Explainf("C14.drain: in the body stream's drain (fixed-length part) the amount to discard is contentLength − offset when the handler read past the prefetched prefix (`offset > prefetchSize`) and contentLength − prefetchSize otherwise (linear normal forms of the two assignments under that condition); in Read the stream is marked fully consumed (`offset = contentLength`) only inside an `err == io.EOF` test, and every other store to offset is `+=` of a byte count or the reset to 0 — a read timeout must leave the unread remainder to be drained (or the connection closed), not declared read.")
	sk := w.Func("pkg/protocol/http1/ext", "bodyStream", "skipRest")
	off := w.Field("pkg/protocol/http1/ext", "bodyStream", "offset")
	cl := w.Field("pkg/protocol/http1/ext", "bodyStream", "contentLength")
	if sk == nil || off == nil || cl == nil {
		r.Anchor(rule, "ext.bodyStream.skipRest / offset / contentLength")
		return
	}
	info := sk.Pkg.TypesInfo
	fname := w.FuncName(sk.Obj)
	// the drained variable: decremented in a loop by the skipped amount
	var need *types.Var
	ast.Inspect(sk.Decl.Body, func(n ast.Node) bool {
		if as, ok := n.(*ast.AssignStmt); ok && as.Tok == token.SUB_ASSIGN && len(as.Lhs) == 1 {
			if v := usedVar(info, as.Lhs[0]); v != nil && !v.IsField() {
				need = v
			}
		}
		return true
	})
	if need == nil {
		// the counting loop may live in a helper that receives the amount as a parameter
		for _, hf := range withHelpers(w, sk, 1)[1:] {
			hinfo := hf.Pkg.TypesInfo
			hsig := hf.Obj.Type().(*types.Signature)
			pi := -1
			ast.Inspect(hf.Decl.Body, func(n ast.Node) bool {
				if as, ok := n.(*ast.AssignStmt); ok && as.Tok == token.SUB_ASSIGN && len(as.Lhs) == 1 {
					if v := usedVar(hinfo, as.Lhs[0]); v != nil {
						for i := 0; i < hsig.Params().Len(); i++ {
							if hsig.Params().At(i) == v {
								pi = i
							}
						}
					}
				}
				return true
			})
			if pi < 0 {
				continue
			}
			ast.Inspect(sk.Decl.Body, func(n ast.Node) bool {
				if c, ok := n.(*ast.CallExpr); ok && calleeOf(info, c) == hf.Obj && pi < len(c.Args) {
					if v := usedVar(info, c.Args[pi]); v != nil && !v.IsField() {
						need = v
					}
				}
				return true
			})
		}
	}
	if need == nil {
		r.Fail(rule, fname+":drain-counter", w.Pos(sk.Decl.Pos()), "the drain counts down the bytes still to skip", "no local decremented with -= in the drain")
	} else {
		// assignments need = …
		type asg struct {
			lf   linForm
			cond ast.Expr
			then bool
			pos  token.Pos
		}
		var asgs []asg
		par := parents(sk.Decl)
		ast.Inspect(sk.Decl.Body, func(n ast.Node) bool {
			as, ok := n.(*ast.AssignStmt)
			if !ok || (as.Tok != token.ASSIGN && as.Tok != token.DEFINE) || len(as.Lhs) != 1 || usedVar(info, as.Lhs[0]) != need {
				return true
			}
			lf, ok := linEval(info, as.Rhs[0], nil)
			if !ok {
				return true
			}
			a := asg{lf: lf, pos: as.Pos()}
			for cur := ast.Node(as); cur != nil; cur = par[cur] {
				if is, ok := par[cur].(*ast.IfStmt); ok {
					a.cond = is.Cond
					a.then = cur == ast.Node(is.Body)
					break
				}
			}
			asgs = append(asgs, a)
			return true
		})
		okPast, okWithin := false, false
		// pastPrefetch: does the branch mean "offset is beyond the prefetched size"? The
		// comparison may be written either way round, negated, or with the branches swapped.
		pastPrefetch := func(cond ast.Expr, then bool) (past bool, pv *types.Var, ok bool) {
			neg := !then
			c := unparen(cond)
			for {
				u, isU := c.(*ast.UnaryExpr)
				if !isU || u.Op != token.NOT {
					break
				}
				neg = !neg
				c = unparen(u.X)
			}
			be, isB := c.(*ast.BinaryExpr)
			if !isB {
				return
			}
			x, y, op := be.X, be.Y, be.Op
			if usedVar(info, y) == off { // pv OP off  ≡  off OP' pv
				x, y = y, x
				switch op {
				case token.LSS:
					op = token.GTR
				case token.LEQ:
					op = token.GEQ
				case token.GTR:
					op = token.LSS
				case token.GEQ:
					op = token.LEQ
				}
			}
			if usedVar(info, x) != off {
				return
			}
			pv = usedVar(info, y)
			if pv == nil {
				return
			}
			switch op {
			case token.GTR, token.GEQ:
				return !neg, pv, true
			case token.LSS, token.LEQ:
				return neg, pv, true
			}
			return
		}
		for _, a := range asgs {
			if a.cond == nil {
				continue
			}
			past, pv, ok := pastPrefetch(a.cond, a.then)
			if !ok {
				continue
			}
			if past && linIs(a.lf, map[types.Object]int{cl: 1, off: -1}, 0) {
				okPast = true
			}
			if !past && linIs(a.lf, map[types.Object]int{cl: 1, pv: -1}, 0) {
				okWithin = true
			}
		}
		// default-then-override form: `need := contentLength − prefetchSize` unconditionally,
		// then `if offset > prefetchSize { need = contentLength − offset }` (or the mirror image)
		for _, a := range asgs {
			if a.cond == nil {
				continue
			}
			past, pv, ok := pastPrefetch(a.cond, a.then)
			if !ok {
				continue
			}
			for _, d := range asgs {
				if d.cond != nil || d.pos >= a.pos {
					continue
				}
				if past && linIs(a.lf, map[types.Object]int{cl: 1, off: -1}, 0) && linIs(d.lf, map[types.Object]int{cl: 1, pv: -1}, 0) {
					okWithin = true
				}
				if !past && linIs(a.lf, map[types.Object]int{cl: 1, pv: -1}, 0) && linIs(d.lf, map[types.Object]int{cl: 1, off: -1}, 0) {
					okPast = true
				}
			}
		}
		r.Check(okPast, rule, fname+":skip-past-prefetch", w.Pos(sk.Decl.Pos()), "after reading past the prefetched prefix the drain skips contentLength − offset", "no assignment `"+need.Name()+" = contentLength − offset` under `offset > prefetchSize`: bytes the handler already took from the wire are skipped again and the head of the next request is eaten")
		r.Check(okWithin, rule, fname+":skip-within-prefetch", w.Pos(sk.Decl.Pos()), "while still inside the prefetched prefix the drain skips contentLength − prefetchSize", "no assignment `"+need.Name()+" = contentLength − prefetchSize` on the other branch")
	}
	// who writes offset, and how
	n := 0
	for _, fi := range declaredNonTest(w) {
		if fi.Pkg.PkgPath != pkgExt {
			continue
		}
		finfo := fi.Pkg.TypesInfo
		fn := w.FuncName(fi.Obj)
		par := parents(fi.Decl)
		k := 0
		ast.Inspect(fi.Decl.Body, func(nd ast.Node) bool {
			as, ok := nd.(*ast.AssignStmt)
			if !ok {
				return true
			}
			for i, l := range as.Lhs {
				if usedVar(finfo, l) != off {
					continue
				}
				n++
				k++
				key := fmt.Sprintf("%s:offset-write#%d", fn, k)
				switch {
				case as.Tok == token.ADD_ASSIGN:
					r.OK(rule, key, w.Pos(as.Pos()), "offset advances by a byte count")
				case as.Tok == token.ASSIGN && len(as.Rhs) == len(as.Lhs) && usedVar(finfo, as.Rhs[i]) == cl:
					guarded := false
					for _, cond := range enclosingThenConds(par, as) {
						if be, ok := unparen(cond).(*ast.BinaryExpr); ok && be.Op == token.EQL {
							if se, ok := unparen(be.Y).(*ast.SelectorExpr); ok && se.Sel.Name == "EOF" {
								if ok2, _ := errNilCond(finfo, &ast.BinaryExpr{X: be.X, Op: token.EQL, Y: ast.NewIdent("nil")}, true); ok2 {
									guarded = true
								}
							}
						}
					}
					r.Check(guarded, rule, key, w.Pos(as.Pos()), "the stream is declared fully consumed only on io.EOF", "`offset = contentLength` is not nested in `if err == io.EOF`: after a timeout or other read error the unread rest of the body is never drained and is parsed as the next message on the reused connection")
				case as.Tok == token.ASSIGN && len(as.Rhs) == len(as.Lhs) && isConstInt(finfo, as.Rhs[i], 0):
					r.OK(rule, key, w.Pos(as.Pos()), "offset reset to 0")
				default:
					r.Fail(rule, key, w.Pos(as.Pos()), "offset is only advanced, reset, or set to contentLength on EOF", "unexpected store `"+nodeString2(as)+"`")
				}
			}
			return true
		})
	}
	r.Floor(rule, n, 3, "stores to bodyStream.offset")
}

// C15.errflow — no error produced while decoding is silently dropped.
func c15ErrFlow(e *Env) {
	const rule = "C15.errflow"
	w, r := e.W, e.R
	r.Explainf("C15.errflow: in the binding packages every plain assignment `v = <expr>` to an error-typed local is followed, in v's scope, by a use of that same variable (returned, tested, wrapped); an assignment whose variable is never read again — typically because an inner `:=` shadowed the result that is returned — turns a conversion error into a silent zero value.")
	n := 0
	for _, fi := range declaredNonTest(w) {
		if !strings.HasPrefix(fi.Pkg.PkgPath, Mod+"/"+relBinding) {
			continue
		}
		info := fi.Pkg.TypesInfo
		fname := w.FuncName(fi.Obj)
		par := parents(fi.Decl)
		namedRes := map[*types.Var]bool{}
		sig := fi.Obj.Type().(*types.Signature)
		for i := 0; i < sig.Results().Len(); i++ {
			namedRes[sig.Results().At(i)] = true
		}
		hasBareReturn := false
		ast.Inspect(fi.Decl.Body, func(nd ast.Node) bool {
			if rs, ok := nd.(*ast.ReturnStmt); ok && len(rs.Results) == 0 {
				hasBareReturn = true
			}
			return true
		})
		k := 0
		ast.Inspect(fi.Decl.Body, func(nd ast.Node) bool {
			as, ok := nd.(*ast.AssignStmt)
			if !ok || as.Tok != token.ASSIGN {
				return true
			}
			for _, l := range as.Lhs {
				id, ok := l.(*ast.Ident)
				if !ok || id.Name == "_" {
					continue
				}
				v, _ := info.Uses[id].(*types.Var)
				if v == nil || v.IsField() || v.Type().String() != "error" || isPkgLevel(v) {
					continue
				}
				if namedRes[v] && hasBareReturn {
					continue // read by a bare return
				}
				n++
				k++
				// a use of v positioned after the assignment, or anywhere in an enclosing loop
				loop := enclosing(par, as, func(n ast.Node) bool {
					switch n.(type) {
					case *ast.ForStmt, *ast.RangeStmt:
						return true
					}
					return false
				})
				used := false
				ast.Inspect(fi.Decl.Body, func(m ast.Node) bool {
					u, ok := m.(*ast.Ident)
					if !ok || info.Uses[u] != v || u == id {
						return true
					}
					// skip pure re-assignments (LHS of another assignment)
					if pa, ok := par[u].(*ast.AssignStmt); ok {
						for _, pl := range pa.Lhs {
							if pl == ast.Expr(u) {
								return true
							}
						}
					}
					if u.Pos() > as.End() || (loop != nil && within(u, loop)) {
						used = true
					}
					return true
				})
				r.Check(used, rule, fmt.Sprintf("%s:%s#%d", fname, v.Name(), k), w.Pos(as.Pos()), "an assigned error is examined or returned afterwards", "`"+nodeString2(as)+"` is never read again: the variable is a shadowing inner `"+v.Name()+"`, so the function goes on to return the outer (nil) error and the field silently keeps its zero value")
			}
			return true
		})
	}
	r.Floor(rule, n, 5, "error assignments in the binding packages")
}

// C16.uniqueOrder — names are uniquified in their final (mangled) form.
func c16UniqueOrder(e *Env) {
	const rule = "C16.order"
	r := e.R
	r.Explainf("C16.order: in the router generator the string handed to util.GetMiddlewareUniqueName is already the mangled Go identifier (its last assignment comes from convertToMiddlewareName), and the uniquified name is not mangled again before it is stored: two different raw segments that mangle to the same identifier (`user-info` / `user_info`) must be told apart by the uniquifier.")
	w, err := e.HZ()
	if err != nil {
		r.Fail(rule, "engine:load-cmd-hz", "-", "cmd/hz module loads", err.Error())
		return
	}
	gen, util := w.Pkg("generator"), w.Pkg("util")
	if gen == nil || util == nil {
		r.Anchor(rule, "cmd/hz/generator / util")
		return
	}
	info := gen.TypesInfo
	isMangle := func(f *types.Func) bool {
		return f != nil && f.Pkg() == gen.Types && f.Name() == "convertToMiddlewareName"
	}
	isUniq := func(f *types.Func) bool {
		return f != nil && f.Pkg() == util.Types && f.Name() == "GetMiddlewareUniqueName"
	}
	n := 0
	for _, fi := range declaredNonTest(w) {
		if fi.Pkg != gen {
			continue
		}
		fname := w.FuncName(fi.Obj)
		// ordered list of relevant assignments
		type ev struct {
			pos  token.Pos
			v    *types.Var
			kind string
		}
		var evs []ev
		var uniqCalls []*ast.CallExpr
		ast.Inspect(fi.Decl.Body, func(nd ast.Node) bool {
			switch x := nd.(type) {
			case *ast.AssignStmt:
				if len(x.Rhs) == 1 {
					if c, ok := unparen(x.Rhs[0]).(*ast.CallExpr); ok {
						f := calleeOf(info, c)
						if v := usedVar(info, x.Lhs[0]); v != nil {
							switch {
							case isMangle(f):
								evs = append(evs, ev{x.End(), v, "mangle"})
							case isUniq(f):
								evs = append(evs, ev{x.End(), v, "uniq"})
							}
						}
					}
				}
			case *ast.CallExpr:
				if isUniq(calleeOf(info, x)) {
					uniqCalls = append(uniqCalls, x)
				}
			}
			return true
		})
		for i, c := range uniqCalls {
			n++
			arg := usedVar(info, c.Args[0])
			last := ""
			for _, e2 := range evs {
				if e2.v == arg && e2.pos < c.Pos() {
					last = e2.kind
				}
			}
			r.Check(last == "mangle", rule, fmt.Sprintf("%s:unique#%d:input-mangled", fname, i+1), w.Pos(c.Pos()), "the uniquifier receives the mangled identifier", "GetMiddlewareUniqueName("+types.ExprString(c.Args[0])+") is called on a name that was not (last) produced by convertToMiddlewareName: identifiers that only differ before mangling collide afterwards (duplicate declarations in the generated file)")
		}
		for _, e2 := range evs {
			if e2.kind != "mangle" {
				continue
			}
			// no mangle of a variable after it was uniquified
			for _, e1 := range evs {
				if e1.kind == "uniq" && e1.v == e2.v && e1.pos < e2.pos {
					r.Fail(rule, fmt.Sprintf("%s:%s:mangled-after-unique", fname, e2.v.Name()), w.Pos(e2.pos), "a uniquified name is not mangled again", "convertToMiddlewareName is applied after GetMiddlewareUniqueName: the suffix that made the name unique was chosen on the unmangled string")
				}
			}
		}
	}
	r.Floor(rule, n, 2, "GetMiddlewareUniqueName call sites")
}

// C17.keep — the argument scanner drops only entries whose key and value are both empty.
func c17Keep(e *Env) {
	const rule = "C17.keep"
	w, r := e.W, e.R
	r.Explainf("C17.keep: in Args.ParseBytes the condition under which a scanned key/value pair keeps its slot is the disjunction `len(key) > 0 || len(value) > 0` over both fields of the slot just filled (the property excepts only entries with both key and value empty; `=v` must survive like net/url's).")
	fi := w.Func("pkg/protocol", "Args", "ParseBytes")
	if fi == nil {
		r.Anchor(rule, "protocol.Args.ParseBytes")
		return
	}
	info := fi.Pkg.TypesInfo
	keyF, valF := w.Field("pkg/protocol", "argsKV", "key"), w.Field("pkg/protocol", "argsKV", "value")
	found, ok := false, false
	ast.Inspect(fi.Decl.Body, func(n ast.Node) bool {
		is, isIf := n.(*ast.IfStmt)
		if !isIf {
			return true
		}
		mentionsKey, mentionsVal := refersTo2(info, is.Cond, keyF), refersTo2(info, is.Cond, valF)
		if !mentionsKey && !mentionsVal {
			return true
		}
		found = true
		be, isB := unparen(is.Cond).(*ast.BinaryExpr)
		if isB && be.Op == token.LOR && mentionsKey && mentionsVal {
			lenGT := func(e ast.Expr, f *types.Var) bool {
				b2, ok := unparen(e).(*ast.BinaryExpr)
				if !ok || b2.Op != token.GTR || !isConstInt(info, b2.Y, 0) {
					return false
				}
				c, ok := unparen(b2.X).(*ast.CallExpr)
				return ok && isBuiltin(info, c, "len") && usedVar(info, c.Args[0]) == f
			}
			if (lenGT(be.X, keyF) && lenGT(be.Y, valF)) || (lenGT(be.X, valF) && lenGT(be.Y, keyF)) {
				ok = true
			}
		}
		return true
	})
	r.Check(found && ok, rule, w.FuncName(fi.Obj)+":keep-condition", w.Pos(fi.Decl.Pos()), "a scanned pair is kept when its key or its value is non-empty", "the keep condition is not `len(kv.key) > 0 || len(kv.value) > 0`: arguments with an empty key and a value (`=v`) are dropped and the next pair overwrites their slot")
	_ = esp.T
	_ = core.Mod
}
