// Package rules holds the repository-specific rule tables of hzcheck, one file per property.
package rules

import (
	"sort"

	"hzcheck/core"
)

// Env is what a rule sees: one loaded build configuration and the report to add to.
type Env struct {
	W      *core.World
	R      *core.Report
	Tier   string
	Config string // "linux/amd64", "linux/386", …
	// HZ lazily loads the cmd/hz module (separate go.mod).
	HZ func() (*core.World, error)
}

func (e *Env) Thorough() bool { return e.Tier == "thorough" }

const Mod = core.Mod

type RuleFn func(e *Env)

type PropertyRules struct {
	ID    string
	Rules []RuleFn
	// NeedsRepo is false for properties decided only in cmd/hz.
	SkipRoot bool
	// Configs lists extra build configurations analysed in the thorough tier.
	ExtraConfigs [][]string
}

var registry = map[string]*PropertyRules{}

func register(id string, fns ...RuleFn) *PropertyRules {
	p := &PropertyRules{ID: id, Rules: fns}
	registry[id] = p
	return p
}

func Get(id string) *PropertyRules { return registry[id] }

func IDs() []string {
	var out []string
	for k := range registry {
		out = append(out, k)
	}
	sort.Strings(out)
	return out
}
