package rules

import (
	"fmt"
	"go/ast"
	"go/constant"
	"go/token"
	"go/types"
	"regexp"
	"sort"
	"strings"

	"hzcheck/core"
	"hzcheck/esp"
)

func init() {
	register("C15", c15Order, c15Getters, c15Bits, c15Cache, c15ErrFlow, c15Default, c15Config, c15LoopErr, c15CacheInfo, c17Slot, c17Fill)
}

const (
	relDecoder = "pkg/app/server/binding/internal/decoder"
	pkgDecoder = Mod + "/" + relDecoder
	relBinding = "pkg/app/server/binding"
)

var c15Priority = []string{"path", "form", "query", "cookie", "header", "json"}

func constString(info *types.Info, e ast.Expr) (string, bool) {
	if tv, ok := info.Types[e]; ok && tv.Value != nil && tv.Value.Kind() == constant.String {
		return constant.StringVal(tv.Value), true
	}
	return "", false
}

// stringListOf resolves the []string value iterated by a range statement: a local assigned
// from a composite literal, or a package variable with a literal initialiser.
func stringLists(w *core.World, fi *core.FuncInfo) [][]string {
	info := fi.Pkg.TypesInfo
	lits := map[*types.Var][]string{}
	eval := func(cl *ast.CompositeLit, inf *types.Info) ([]string, bool) {
		var out []string
		for _, el := range cl.Elts {
			s, ok := constString(inf, el)
			if !ok {
				return nil, false
			}
			out = append(out, s)
		}
		return out, true
	}
	ast.Inspect(fi.Decl.Body, func(n ast.Node) bool {
		if as, ok := n.(*ast.AssignStmt); ok && len(as.Lhs) == 1 && len(as.Rhs) == 1 {
			if cl, ok := unparen(as.Rhs[0]).(*ast.CompositeLit); ok {
				if l, ok := eval(cl, info); ok {
					if v := usedVar(info, as.Lhs[0]); v != nil {
						lits[v] = l
					}
				}
			}
		}
		return true
	})
	var out [][]string
	ast.Inspect(fi.Decl.Body, func(n ast.Node) bool {
		rs, ok := n.(*ast.RangeStmt)
		if !ok {
			return true
		}
		if cl, ok := unparen(rs.X).(*ast.CompositeLit); ok {
			if l, ok := eval(cl, info); ok {
				out = append(out, l)
			}
			return true
		}
		v := usedVar(info, rs.X)
		if l, ok := lits[v]; ok {
			out = append(out, l)
		} else if isPkgLevel(v) {
			pf := pkgVars(w)
			if init, ok := pf.init[v]; ok {
				if cl, ok := unparen(init).(*ast.CompositeLit); ok {
					if _, mut := pf.mutated[v]; !mut {
						if l, ok := eval(cl, pf.initInfo[v]); ok {
							out = append(out, l)
						}
					}
				}
			}
		}
		return true
	})
	return out
}

// C15.order — the source priority list.
func c15Order(e *Env) {
	const rule = "C15.order"
	w, r := e.W, e.R
	r.Explainf("C15.order: the tag lists iterated by lookupFieldTags and getDefaultFieldTags (local literals or package variables, constants resolved to their string values) contain path, form, query, cookie, header, json in exactly that relative order — the binder fills a field from the first source in this list that carries a value — and the two sibling functions agree.")
	var got [][]string
	for _, name := range []string{"lookupFieldTags", "getDefaultFieldTags"} {
		fi := w.Func(relDecoder, "", name)
		if fi == nil {
			r.Anchor(rule, "decoder."+name)
			continue
		}
		lists := stringLists(w, fi)
		var best []string
		for _, l := range lists {
			if len(l) > len(best) {
				best = l
			}
		}
		fname := w.FuncName(fi.Obj)
		r.Unit("%s: %s iterates %v", rule, fname, best)
		var sub []string
		for _, s := range best {
			for _, p := range c15Priority {
				if s == p {
					sub = append(sub, s)
				}
			}
		}
		r.Check(strings.Join(sub, ",") == strings.Join(c15Priority, ","), rule, fname+":priority", w.Pos(fi.Decl.Pos()), "source priority is path > form > query > cookie > header > json", fmt.Sprintf("list order is %v", sub))
		got = append(got, sub)
	}
	if len(got) == 2 {
		r.Check(strings.Join(got[0], ",") == strings.Join(got[1], ","), rule, "siblings-agree", "-", "tagged and default field lookups use the same priority", fmt.Sprintf("%v vs %v", got[0], got[1]))
	}
}

// C15.getters — every tag constant selects the getter pair of its own source.
func c15Getters(e *Env) {
	const rule = "C15.getters"
	w, r := e.W, e.R
	r.Explainf("C15.getters: in every switch over a tag key whose case labels are the tag constants (base, slice, map, struct and customised decoders), each case assigns the getter pair of its own source (path→path/pathSlice, form→postForm/postFormSlice, query→query/querySlice, cookie→cookie/cookieSlice, header→header/headerSlice, raw_body→rawBody/rawBodySlice), all switches agree, and each single-value getter reads the request through the accessor of its source (Params.Get, PostArgs, QueryArgs, Header.Cookie, Header.Peek).")
	want := map[string][2]string{"path": {"path", "pathSlice"}, "form": {"postForm", "postFormSlice"}, "query": {"query", "querySlice"}, "cookie": {"cookie", "cookieSlice"}, "header": {"header", "headerSlice"}, "raw_body": {"rawBody", "rawBodySlice"}}
	gField := w.Field(relDecoder, "TagInfo", "Getter")
	sField := w.Field(relDecoder, "TagInfo", "SliceGetter")
	if gField == nil || sField == nil {
		r.Anchor(rule, "decoder.TagInfo.Getter / SliceGetter")
		return
	}
	nSw, nCases := 0, 0
	for _, fi := range declaredNonTest(w) {
		if fi.Pkg.PkgPath != pkgDecoder {
			continue
		}
		info := fi.Pkg.TypesInfo
		fname := w.FuncName(fi.Obj)
		ast.Inspect(fi.Decl.Body, func(n ast.Node) bool {
			sw, ok := n.(*ast.SwitchStmt)
			if !ok || sw.Tag == nil {
				return true
			}
			isTagSwitch := false
			for _, st := range sw.Body.List {
				for _, l := range st.(*ast.CaseClause).List {
					if s, ok := constString(info, l); ok && (s == "path" || s == "query") {
						isTagSwitch = true
					}
				}
			}
			if !isTagSwitch {
				return true
			}
			nSw++
			for _, st := range sw.Body.List {
				cc := st.(*ast.CaseClause)
				for _, l := range cc.List {
					tag, ok := constString(info, l)
					if !ok {
						continue
					}
					exp, has := want[tag]
					if !has {
						continue
					}
					nCases++
					var g, s string
					for _, bs := range cc.Body {
						if as, ok := bs.(*ast.AssignStmt); ok && len(as.Lhs) == 1 && len(as.Rhs) == 1 {
							if fn, ok := info.Uses[identOf(as.Rhs[0])].(*types.Func); ok {
								switch usedVar(info, as.Lhs[0]) {
								case gField:
									g = fn.Name()
								case sField:
									s = fn.Name()
								}
							}
						}
					}
					key := fmt.Sprintf("%s:case:%s", fname, tag)
					r.Check(g == exp[0] && s == exp[1], rule, key, w.Pos(cc.Pos()), fmt.Sprintf("tag %q selects getters %s/%s", tag, exp[0], exp[1]), fmt.Sprintf("tag %q is bound to getters %q/%q: the field would be filled from another source", tag, g, s))
				}
			}
			return true
		})
	}
	r.Floor(rule, nSw, 4, "tag→getter switches")
	r.Floor(rule, nCases, 24, "tag cases with getter assignments")
	// getter bodies read their own source
	src := map[string]func(f *types.Func) bool{
		"path": func(f *types.Func) bool {
			return f.Name() == "Get" && recvNamed(f) != nil && recvNamed(f).Obj().Name() == "Params"
		},
		"postForm": func(f *types.Func) bool { return esp.Is(f, pkgProto, "Request", "PostArgs") },
		"query":    func(f *types.Func) bool { return esp.Is(f, pkgProto, "URI", "QueryArgs") },
		"cookie":   func(f *types.Func) bool { return esp.Is(f, pkgProto, "RequestHeader", "Cookie") },
		"header":   func(f *types.Func) bool { return esp.Is(f, pkgProto, "RequestHeader", "Peek") },
	}
	var names []string
	for k := range src {
		names = append(names, k)
	}
	sort.Strings(names)
	for _, name := range names {
		fi := w.Func(relDecoder, "", name)
		if fi == nil {
			r.Anchor(rule, "decoder."+name)
			continue
		}
		calls := funcsCallingIn(fi, src[name])
		// the first accessor called must be the own source (postForm may fall back to the query later)
		first := ""
		ast.Inspect(fi.Decl.Body, func(n ast.Node) bool {
			if c, ok := n.(*ast.CallExpr); ok && first == "" {
				if f := calleeOf(fi.Pkg.TypesInfo, c); f != nil {
					for k, p := range src {
						if p(f) {
							first = k
						}
					}
				}
			}
			return true
		})
		r.Check(len(calls) >= 1 && first == name, rule, "getter:"+name+":source", w.Pos(fi.Decl.Pos()), "getter "+name+" reads its own request source first", fmt.Sprintf("getter %s consults source %q first", name, first))
	}
}

func identOf(e ast.Expr) *ast.Ident {
	switch x := unparen(e).(type) {
	case *ast.Ident:
		return x
	case *ast.SelectorExpr:
		return x.Sel
	}
	return nil
}

var kindBits = regexp.MustCompile(`^(Int|Uint|Float)(\d+)$`)

// C15.bits — sized kinds get a decoder of that size.
func c15Bits(e *Env) {
	const rule = "C15.bits"
	w, r := e.W, e.R
	r.Explainf("C15.bits: in SelectTextDecoder every case reflect.IntN / UintN / FloatN returns the int / uint / float decoder literal with bitSize == N (so a value that overflows the field type is an error instead of being truncated); the unsized Int/Uint cases leave bitSize at its zero value.")
	fi := w.Func(relDecoder, "", "SelectTextDecoder")
	if fi == nil {
		r.Anchor(rule, "decoder.SelectTextDecoder")
		return
	}
	info := fi.Pkg.TypesInfo
	n := 0
	ast.Inspect(fi.Decl.Body, func(nd ast.Node) bool {
		cc, ok := nd.(*ast.CaseClause)
		if !ok {
			return true
		}
		for _, l := range cc.List {
			se, ok := unparen(l).(*ast.SelectorExpr)
			if !ok {
				continue
			}
			kind := se.Sel.Name
			m := kindBits.FindStringSubmatch(kind)
			isUnsized := kind == "Int" || kind == "Uint"
			if m == nil && !isUnsized {
				continue
			}
			n++
			var lit *ast.CompositeLit
			for _, s := range cc.Body {
				if rs, ok := s.(*ast.ReturnStmt); ok && len(rs.Results) >= 1 {
					ex := unparen(rs.Results[0])
					if u, ok := ex.(*ast.UnaryExpr); ok && u.Op == token.AND {
						ex = unparen(u.X)
					}
					lit, _ = ex.(*ast.CompositeLit)
				}
			}
			key := "SelectTextDecoder:case:" + kind
			if lit == nil {
				r.Fail(rule, key, w.Pos(cc.Pos()), "case returns a decoder literal", "no composite literal returned for reflect."+kind)
				continue
			}
			tname := strings.ToLower(types.ExprString(lit.Type))
			family := strings.ToLower(strings.TrimRight(kind, "0123456789"))
			bits := 0
			for _, el := range lit.Elts {
				if kv, ok := el.(*ast.KeyValueExpr); ok && types.ExprString(kv.Key) == "bitSize" {
					bits, _ = constInt(info, kv.Value)
				}
			}
			wantBits := 0
			if m != nil {
				fmt.Sscan(m[2], &wantBits)
			}
			r.Check(strings.HasPrefix(tname, family) && bits == wantBits, rule, key, w.Pos(cc.Pos()), fmt.Sprintf("reflect.%s → %sDecoder{bitSize: %d}", kind, family, wantBits), fmt.Sprintf("reflect.%s is decoded by %s with bitSize %d", kind, types.ExprString(lit.Type), bits))
		}
		return true
	})
	r.Floor(rule, n, 12, "numeric kind cases in SelectTextDecoder")
}

// C15.cache — the per-type decoder cache is keyed consistently.
func c15Cache(e *Env) {
	const rule = "C15.cache"
	w, r := e.W, e.R
	r.Explainf("C15.cache: in each bind function of the default binder the cache is selected with the same tag variable that GetReqDecoder receives, Load and Store use the same key variable, the cached and the freshly built decoder are invoked with identical arguments, validation (where the function validates) happens on both paths under the stored/returned needValidate flag; tagCache returns a distinct sync.Map field for each tag constant.")
	// the cache selector is found by role: the method of defaultBinder that takes the tag
	// (one string) and returns a *sync.Map
	var tc *core.FuncInfo
	nSel := 0
	for _, fi := range declaredNonTest(w) {
		rn := recvNamed(fi.Obj)
		if rn == nil || rn.Obj().Name() != "defaultBinder" || w.RelPkg(fi.Obj.Pkg()) != relBinding {
			continue
		}
		sig := fi.Obj.Type().(*types.Signature)
		if sig.Params().Len() != 1 || sig.Results().Len() != 1 || !types.Identical(sig.Params().At(0).Type(), types.Typ[types.String]) {
			continue
		}
		if strings.HasSuffix(sig.Results().At(0).Type().String(), "*sync.Map") {
			tc = fi
			nSel++
		}
	}
	if tc == nil || nSel != 1 {
		r.Anchor(rule, fmt.Sprintf("the method of binding.defaultBinder selecting the decoder cache for a tag: func(string) *sync.Map (found %d)", nSel))
		return
	}
	{
		info := tc.Pkg.TypesInfo
		seen := map[*types.Var]string{}
		dup := ""
		n := 0
		ast.Inspect(tc.Decl.Body, func(nd ast.Node) bool {
			cc, ok := nd.(*ast.CaseClause)
			if !ok {
				return true
			}
			for _, s := range cc.Body {
				if rs, ok := s.(*ast.ReturnStmt); ok && len(rs.Results) == 1 {
					if u, ok := unparen(rs.Results[0]).(*ast.UnaryExpr); ok && u.Op == token.AND {
						if f := usedVar(info, u.X); f != nil {
							n++
							label := "default"
							if len(cc.List) > 0 {
								label = types.ExprString(cc.List[0])
							}
							if prev, ok := seen[f]; ok {
								dup = prev + " and " + label + " share " + f.Name()
							}
							seen[f] = label
							if !strings.HasSuffix(f.Type().String(), "sync.Map") {
								dup = f.Name() + " is not a sync.Map"
							}
						}
					}
				}
			}
			return true
		})
		r.Check(dup == "" && n >= 5, rule, w.FuncName(tc.Obj)+":distinct-caches", w.Pos(tc.Decl.Pos()), "each tag has its own sync.Map decoder cache", "cache selection: "+dup)
	}
	nFn := 0
	for _, fi := range funcsCalling(w, func(f *types.Func) bool { return f == tc.Obj }) {
		info := fi.Pkg.TypesInfo
		fname := w.FuncName(fi.Obj)
		nFn++
		var cacheTag, decTag, loadKey, storeKey, cacheVar *types.Var
		loadOn, storeOn := false, false
		// onCache: the method is applied to the variable holding tagCache(tag), or to the call itself
		onCache := func(c *ast.CallExpr) bool {
			se, ok := unparen(c.Fun).(*ast.SelectorExpr)
			if !ok {
				return false
			}
			switch x := unparen(se.X).(type) {
			case *ast.Ident:
				v, _ := info.ObjectOf(x).(*types.Var)
				return v != nil && v == cacheVar
			case *ast.CallExpr:
				return calleeOf(info, x) == tc.Obj
			}
			return false
		}
		// cache := b.tagCache(tag)
		ast.Inspect(fi.Decl.Body, func(nd ast.Node) bool {
			as, ok := nd.(*ast.AssignStmt)
			if !ok || len(as.Lhs) != 1 || len(as.Rhs) != 1 {
				return true
			}
			if c, ok := unparen(as.Rhs[0]).(*ast.CallExpr); ok && calleeOf(info, c) == tc.Obj {
				if id, ok := as.Lhs[0].(*ast.Ident); ok {
					cacheVar, _ = info.ObjectOf(id).(*types.Var)
				}
			}
			return true
		})
		var decoderCalls []*ast.CallExpr
		validates := 0
		ast.Inspect(fi.Decl.Body, func(nd ast.Node) bool {
			c, ok := nd.(*ast.CallExpr)
			if !ok {
				return true
			}
			f := calleeOf(info, c)
			switch {
			case f == tc.Obj && len(c.Args) == 1:
				cacheTag = usedVar(info, c.Args[0])
			case esp.Is(f, pkgDecoder, "", "GetReqDecoder") && len(c.Args) == 3:
				decTag = usedVar(info, c.Args[1])
			case f != nil && f.Name() == "Load" && f.Pkg() != nil && f.Pkg().Path() == "sync" && len(c.Args) == 1:
				loadKey = usedVar(info, c.Args[0])
				loadOn = onCache(c)
			case f != nil && f.Name() == "Store" && f.Pkg() != nil && f.Pkg().Path() == "sync" && len(c.Args) == 2:
				storeKey = usedVar(info, c.Args[0])
				storeOn = onCache(c)
			case f != nil && f.Name() == "ValidateStruct":
				validates++
			case f == nil:
				// dynamic call of a decoder value: decoder(req, params, rv.Elem()) or x.decoder(…)
				if t := info.TypeOf(c.Fun); t != nil {
					if sig, ok := t.Underlying().(*types.Signature); ok && sig.Params().Len() == 3 && sig.Results().Len() == 1 {
						decoderCalls = append(decoderCalls, c)
					}
				}
			}
			return true
		})
		r.Check(cacheTag != nil && cacheTag == decTag, rule, fname+":same-tag", w.Pos(fi.Decl.Pos()), "the cache and the decoder builder are selected by the same tag", "tagCache and GetReqDecoder receive different tag values: a decoder built for one tag would be cached under another")
		r.Check(loadKey != nil && loadKey == storeKey, rule, fname+":same-key", w.Pos(fi.Decl.Pos()), "cache Load and Store use the same key", "Load and Store use different keys")
		r.Check(loadOn && storeOn, rule, fname+":same-cache", w.Pos(fi.Decl.Pos()), "the decoder is looked up in and stored into the map selected by tagCache(tag)", "Load and Store are not both applied to the map returned by tagCache(tag): a decoder built for one tag lands in (or is served from) another tag's cache and later binds of the type use the wrong sources")
		same := len(decoderCalls) == 2
		if same {
			for i := range decoderCalls[0].Args {
				if types.ExprString(decoderCalls[0].Args[i]) != types.ExprString(decoderCalls[1].Args[i]) {
					same = false
				}
			}
		}
		r.Check(same, rule, fname+":same-invocation", w.Pos(fi.Decl.Pos()), "cached and fresh decoders are invoked with identical arguments", fmt.Sprintf("%d decoder invocations with differing arguments", len(decoderCalls)))
		if strings.Contains(fi.Obj.Name(), "Validate") {
			r.Check(validates == 2, rule, fname+":validates-both-paths", w.Pos(fi.Decl.Pos()), "validation runs on the cached and on the fresh path", fmt.Sprintf("%d ValidateStruct calls (expected one per path)", validates))
		}
	}
	r.Floor(rule, nFn, 2, "bind functions using the tag cache")
}
