package rules

import (
	"go/token"
	"go/types"
	"regexp"
	"sort"

	"golang.org/x/tools/go/ssa"

	"hzcheck/core"
)

// Field-coverage engine (E3): which fields of the struct a pointer parameter points to are
// written on every path of a function (must-write), following callees that receive the same
// pointer.

var resetLike = regexp.MustCompile(`(?i)^(reset|release|clear|zero|free|drop|init|store|delete|del|remove|close)`)

type mustKey struct {
	fn  *ssa.Function
	par int
}

type fieldCov struct {
	w    *core.World
	memo map[mustKey]map[int]bool
	busy map[mustKey]bool
	// guards: conditions under which a conditional reset of field i is accepted, by field index:
	// loads of these fields of the same object may guard the reset.
	// typeGuards: named struct type → field index → bool fields of the same struct whose false
	// value means the field needs no reset (`if x.guard { x.F.Reset() }`).
	typeGuards map[*types.TypeName]map[int]map[int]bool
}

func (fc *fieldCov) setGuards(n *types.Named, st *types.Struct, guards map[string][]string) {
	idx := map[string]int{}
	for i := 0; i < st.NumFields(); i++ {
		idx[st.Field(i).Name()] = i
	}
	m := map[int]map[int]bool{}
	for f, gs := range guards {
		fi, ok := idx[f]
		if !ok {
			continue
		}
		m[fi] = map[int]bool{}
		for _, g := range gs {
			if gi, ok := idx[g]; ok {
				m[fi][gi] = true
			}
		}
	}
	fc.typeGuards[n.Obj()] = m
}

func newFieldCov(w *core.World) *fieldCov {
	w.BuildSSA()
	return &fieldCov{w: w, memo: map[mustKey]map[int]bool{}, busy: map[mustKey]bool{}, typeGuards: map[*types.TypeName]map[int]map[int]bool{}}
}

func structOfPtr(t types.Type) (*types.Named, *types.Struct) {
	p, ok := t.Underlying().(*types.Pointer)
	if !ok {
		return nil, nil
	}
	n, _ := p.Elem().(*types.Named)
	st, _ := p.Elem().Underlying().(*types.Struct)
	return n, st
}

// aliases returns the SSA values in fn that are the parameter itself (through phi/copies).
func aliasesOf(fn *ssa.Function, root ssa.Value) map[ssa.Value]bool {
	out := map[ssa.Value]bool{root: true}
	changed := true
	for changed {
		changed = false
		for _, b := range fn.Blocks {
			for _, ins := range b.Instrs {
				switch x := ins.(type) {
				case *ssa.Phi:
					all := len(x.Edges) > 0
					for _, e := range x.Edges {
						if !out[e] {
							all = false
						}
					}
					if all && !out[x] {
						out[x] = true
						changed = true
					}
				case *ssa.ChangeType:
					if out[x.X] && !out[x] {
						out[x] = true
						changed = true
					}
				}
			}
		}
	}
	return out
}

// fieldOfObj: if v is FieldAddr(alias, i) returns i.
func fieldAddrOf(v ssa.Value, al map[ssa.Value]bool) (int, bool) {
	if fa, ok := v.(*ssa.FieldAddr); ok && al[fa.X] {
		return fa.Field, true
	}
	return 0, false
}

// loadOfField: v is *FieldAddr(alias,i), or the result of a getter method of the same object
// whose every return yields the (possibly lazily created) value of field i.
func loadOfField(v ssa.Value, al map[ssa.Value]bool) (int, bool) {
	if u, ok := v.(*ssa.UnOp); ok && u.Op == token.MUL {
		return fieldAddrOf(u.X, al)
	}
	if c, ok := v.(*ssa.Call); ok {
		if callee := c.Call.StaticCallee(); callee != nil && len(c.Call.Args) >= 1 && al[c.Call.Args[0]] {
			return fieldGetter(callee)
		}
	}
	return 0, false
}

var getterMemo = map[*ssa.Function]int{}

// fieldGetter: every return of fn returns the value loaded from field i of its receiver.
func fieldGetter(fn *ssa.Function) (int, bool) {
	if i, ok := getterMemo[fn]; ok {
		return i, i >= 0
	}
	res := -1
	if fn.Blocks != nil && len(fn.Params) >= 1 && fn.Signature.Results().Len() == 1 {
		al := aliasesOf(fn, fn.Params[0])
		okAll, n := true, 0
		for _, b := range fn.Blocks {
			for _, ins := range b.Instrs {
				ret, ok := ins.(*ssa.Return)
				if !ok {
					continue
				}
				n++
				u, ok := ret.Results[0].(*ssa.UnOp)
				if !ok || u.Op != token.MUL {
					okAll = false
					continue
				}
				i, ok := fieldAddrOf(u.X, al)
				if !ok || (res >= 0 && res != i) {
					okAll = false
					continue
				}
				res = i
			}
		}
		if !okAll || n == 0 {
			res = -1
		}
	}
	getterMemo[fn] = res
	return res, res >= 0
}

// writeSites returns, per block, the set of field indices written in that block (all=true
// means every field: whole-struct store).
type blockWrites struct {
	fields map[int]bool
	all    bool
}

func (fc *fieldCov) writes(fn *ssa.Function, par int) map[*ssa.BasicBlock]*blockWrites {
	if par >= len(fn.Params) {
		return map[*ssa.BasicBlock]*blockWrites{}
	}
	return fc.writesOf(fn, fn.Params[par], nil)
}

// writesOf computes per-block field writes through root (any pointer value of fn). When stop
// is non-nil, instructions of stop's block at or after stop are ignored.
func (fc *fieldCov) writesOf(fn *ssa.Function, root ssa.Value, stop ssa.Instruction) map[*ssa.BasicBlock]*blockWrites {
	out := map[*ssa.BasicBlock]*blockWrites{}
	al := aliasesOf(fn, root)
	get := func(b *ssa.BasicBlock) *blockWrites {
		if out[b] == nil {
			out[b] = &blockWrites{fields: map[int]bool{}}
		}
		return out[b]
	}
	for _, b := range fn.Blocks {
		for _, ins := range b.Instrs {
			if stop != nil && ins == stop {
				break
			}
			switch x := ins.(type) {
			case *ssa.Store:
				if i, ok := fieldAddrOf(x.Addr, al); ok {
					// self-assignment x.F = x.F does not count
					if j, ok2 := loadOfField(x.Val, al); ok2 && j == i {
						continue
					}
					get(b).fields[i] = true
				} else if al[x.Addr] {
					get(b).all = true
				} else if ia, ok := x.Addr.(*ssa.IndexAddr); ok {
					// element-wise clearing loop: x.F[i] = nil/0 — the field counts as reset at the
					// point where x.F was loaded for the loop
					if c, ok := x.Val.(*ssa.Const); ok && (c.IsNil() || c.Value == nil || c.Value.String() == "0" || c.Value.String() == "false") {
						if i, ok := loadOfField(ia.X, al); ok {
							// the range-loop header `idx < len(x.F)` dominating the store is the
							// point every path passes; the body clears each element it visits
							for h := b; h != nil; h = h.Idom() {
								if len(h.Instrs) == 0 {
									continue
								}
								iff, ok := h.Instrs[len(h.Instrs)-1].(*ssa.If)
								if !ok {
									continue
								}
								if cmp, ok := iff.Cond.(*ssa.BinOp); ok && cmp.Op == token.LSS {
									if lc, ok := cmp.Y.(*ssa.Call); ok {
										if bi, ok := lc.Call.Value.(*ssa.Builtin); ok && bi.Name() == "len" {
											if j, ok := loadOfField(lc.Call.Args[0], al); ok && j == i {
												get(h).fields[i] = true
												break
											}
										}
									}
								}
							}
						}
					}
				}
			case ssa.CallInstruction:
				c := x.Common()
				callee := c.StaticCallee()
				name := ""
				if callee != nil {
					name = callee.Name()
				} else if c.IsInvoke() {
					name = c.Method.Name()
				}
				args := c.Args
				if c.IsInvoke() {
					args = append([]ssa.Value{c.Value}, c.Args...)
				}
				for ai, a := range args {
					// &x.F handed to a reset-like callee, or the value loaded from x.F used as the
					// receiver/argument of a reset-like callee
					if i, ok := fieldAddrOf(a, al); ok && resetLike.MatchString(name) {
						get(b).fields[i] = true
					} else if i, ok := loadOfField(a, al); ok && resetLike.MatchString(name) && ai == 0 {
						get(b).fields[i] = true
					}
					// the object itself handed on
					if al[a] && callee != nil && callee.Blocks != nil && fc.w.InModule(pkgOf(callee)) {
						pi := ai
						if pi < len(callee.Params) {
							for f := range fc.must(callee, pi) {
								get(b).fields[f] = true
							}
						}
					}
				}
			}
		}
	}
	return out
}

func pkgOf(f *ssa.Function) *types.Package {
	if f.Pkg != nil {
		return f.Pkg.Pkg
	}
	if f.Object() != nil {
		return f.Object().Pkg()
	}
	return nil
}

// nilGuardSucc: if block b ends in an If testing field i of the object for nil/emptiness,
// returns the successor index on which the field is already nil/empty.
func (fc *fieldCov) emptySucc(b *ssa.BasicBlock, al map[ssa.Value]bool, field int, st *types.Struct, guardFields map[int]bool) (int, bool) {
	if len(b.Instrs) == 0 {
		return 0, false
	}
	iff, ok := b.Instrs[len(b.Instrs)-1].(*ssa.If)
	if !ok {
		return 0, false
	}
	var eval func(v ssa.Value) (succ int, ok bool)
	eval = func(v ssa.Value) (int, bool) {
		if i, ok := loadOfField(v, al); ok && guardFields[i] {
			return 1, true // `if x.guard { reset }`: the field needs no reset when the guard is false
		}
		switch x := v.(type) {
		case *ssa.UnOp:
			if x.Op == token.NOT {
				if s, ok := eval(x.X); ok {
					return 1 - s, true
				}
			}
			// bool guard field: `if x.guard { reset }` → field "empty" when guard false
			if i, ok := loadOfField(x, al); ok && guardFields[i] {
				return 1, true
			}
		case *ssa.BinOp:
			isField := func(v ssa.Value) bool {
				if i, ok := loadOfField(v, al); ok && i == field {
					return true
				}
				// len(x.F)
				if c, ok := v.(*ssa.Call); ok {
					if bi, ok := c.Call.Value.(*ssa.Builtin); ok && (bi.Name() == "len" || bi.Name() == "cap") {
						if i, ok := loadOfField(c.Call.Args[0], al); ok && i == field {
							return true
						}
					}
				}
				return false
			}
			isZero := func(v ssa.Value) bool {
				c, ok := v.(*ssa.Const)
				if !ok {
					return false
				}
				return c.IsNil() || (c.Value != nil && c.Value.String() == "0")
			}
			var fx bool
			if isField(x.X) && isZero(x.Y) {
				fx = true
			} else if isField(x.Y) && isZero(x.X) {
				fx = true
			}
			if !fx {
				return 0, false
			}
			switch x.Op {
			case token.EQL:
				return 0, true // true branch: field is nil/0
			case token.NEQ, token.GTR:
				return 1, true // false branch: field is nil/0
			}
		}
		return 0, false
	}
	return eval(iff.Cond)
}

// must returns the fields written on every non-panicking path of fn through parameter par.
func (fc *fieldCov) must(fn *ssa.Function, par int) map[int]bool {
	k := mustKey{fn, par}
	if m, ok := fc.memo[k]; ok {
		return m
	}
	if fc.busy[k] || fn.Blocks == nil || par >= len(fn.Params) {
		return map[int]bool{}
	}
	fc.busy[k] = true
	defer delete(fc.busy, k)
	nt, st := structOfPtr(fn.Params[par].Type())
	res := map[int]bool{}
	if st == nil {
		fc.memo[k] = res
		return res
	}
	ws := fc.writes(fn, par)
	al := aliasesOf(fn, fn.Params[par])
	var tg map[int]map[int]bool
	if nt != nil {
		tg = fc.typeGuards[nt.Obj()]
	}
	for i := 0; i < st.NumFields(); i++ {
		if fc.coveredOnAllPaths(fn, ws, al, i, st, tg[i]) {
			res[i] = true
		}
	}
	fc.memo[k] = res
	return res
}

// coveredOnAllPaths: no path from entry to a return avoids every block writing field i
// (edges on which the field is already nil/empty by an explicit test are not followed).
func (fc *fieldCov) coveredOnAllPaths(fn *ssa.Function, ws map[*ssa.BasicBlock]*blockWrites, al map[ssa.Value]bool, field int, st *types.Struct, guardFields map[int]bool) bool {
	return fc.coveredTo(fn, ws, al, field, st, guardFields, nil)
}

// coveredTo: like coveredOnAllPaths, but the paths of interest end at block target (when
// non-nil) instead of at the returns.
func (fc *fieldCov) coveredTo(fn *ssa.Function, ws map[*ssa.BasicBlock]*blockWrites, al map[ssa.Value]bool, field int, st *types.Struct, guardFields map[int]bool, target *ssa.BasicBlock) bool {
	seen := map[*ssa.BasicBlock]bool{}
	work := []*ssa.BasicBlock{fn.Blocks[0]}
	for len(work) > 0 {
		b := work[len(work)-1]
		work = work[:len(work)-1]
		if seen[b] {
			continue
		}
		seen[b] = true
		if w := ws[b]; w != nil && (w.all || w.fields[field]) {
			continue
		}
		if target != nil && b == target {
			return false
		}
		if len(b.Instrs) > 0 {
			switch b.Instrs[len(b.Instrs)-1].(type) {
			case *ssa.Return:
				if target != nil {
					continue
				}
				return false
			case *ssa.Panic:
				continue
			}
		}
		skip := -1
		if s, ok := fc.emptySucc(b, al, field, st, guardFields); ok {
			skip = s
		}
		for si, s := range b.Succs {
			if si == skip {
				continue
			}
			work = append(work, s)
		}
	}
	return true
}

// notCovered lists the field names of the receiver struct that method fn does not reset on
// every path. guards maps field name → names of bool fields of the same struct that may
// guard its reset.
func (fc *fieldCov) notCovered(fn *ssa.Function, guards map[string][]string) ([]string, *types.Struct) {
	if fn == nil || len(fn.Params) == 0 {
		return nil, nil
	}
	nt, st := structOfPtr(fn.Params[0].Type())
	if st == nil {
		return nil, nil
	}
	if nt != nil && guards != nil {
		fc.setGuards(nt, st, guards)
	}
	ws := fc.writes(fn, 0)
	al := aliasesOf(fn, fn.Params[0])
	idx := map[string]int{}
	for i := 0; i < st.NumFields(); i++ {
		idx[st.Field(i).Name()] = i
	}
	var miss []string
	for i := 0; i < st.NumFields(); i++ {
		gf := map[int]bool{}
		for _, g := range guards[st.Field(i).Name()] {
			if j, ok := idx[g]; ok {
				// a guard field the reset method itself may store to says nothing about the
				// state the object was used in: the guarded reset then does not count
				if !mayStoreField(fn, fn.Params[0], j, 0) {
					gf[j] = true
				}
			}
		}
		// a field whose reset is accepted only under a guard is not reset when the method (or a
		// callee on the same object) stores to that guard itself — also when the guarded reset
		// sits in a callee whose summary already counted it
		guardBroken := false
		for _, g := range guards[st.Field(i).Name()] {
			if j, ok := idx[g]; ok && mayStoreField(fn, fn.Params[0], j, 0) {
				guardBroken = true
			}
		}
		if guardBroken || !fc.coveredOnAllPaths(fn, ws, al, i, st, gf) {
			miss = append(miss, st.Field(i).Name())
		}
	}
	sort.Strings(miss)
	return miss, st
}

// coveredFrom: every path from block start to a return passes a write of the field.
func (fc *fieldCov) coveredFrom(fn *ssa.Function, ws map[*ssa.BasicBlock]*blockWrites, al map[ssa.Value]bool, field int, st *types.Struct, start *ssa.BasicBlock) bool {
	seen := map[*ssa.BasicBlock]bool{}
	work := []*ssa.BasicBlock{start}
	for len(work) > 0 {
		b := work[len(work)-1]
		work = work[:len(work)-1]
		if seen[b] {
			continue
		}
		seen[b] = true
		if w := ws[b]; w != nil && (w.all || w.fields[field]) {
			continue
		}
		if len(b.Instrs) > 0 {
			switch b.Instrs[len(b.Instrs)-1].(type) {
			case *ssa.Return:
				return false
			case *ssa.Panic:
				continue
			}
		}
		work = append(work, b.Succs...)
	}
	return true
}

// mayStoreField: fn (or a callee that receives the same object, two levels) contains a store to
// field j of the object root points to.
func mayStoreField(fn *ssa.Function, root ssa.Value, j int, depth int) bool {
	if fn == nil || fn.Blocks == nil {
		return false
	}
	al := aliasesOf(fn, root)
	for _, b := range fn.Blocks {
		for _, ins := range b.Instrs {
			switch x := ins.(type) {
			case *ssa.Store:
				if i, ok := fieldAddrOf(x.Addr, al); ok && i == j {
					return true
				}
			case ssa.CallInstruction:
				if depth >= 2 {
					continue
				}
				callee := x.Common().StaticCallee()
				if callee == nil || callee.Blocks == nil {
					continue
				}
				for ai, a := range x.Common().Args {
					if al[a] && ai < len(callee.Params) {
						if mayStoreField(callee, callee.Params[ai], j, depth+1) {
							return true
						}
					}
				}
			}
		}
	}
	return false
}
