package rules

import (
	"fmt"
	"go/ast"
	"go/types"
	"sort"
	"strings"

	"hzcheck/esp"
)

func init() {
	register("C09", c09Reset, c09Scoped, func(e *Env) { serveLoop(e, "C09") }, c09Pools, c09Ctor, c07Own, c17Fill, c17Slot, c04Slots, c10ChPool, c09Siblings, c17DeepCopy, c17ParseFresh, c11PutEscape, c09DstTrunc)
}

type resetTarget struct {
	Rel, Typ, Meth string
	// Exempt: field → reason it need not be reset by this method.
	Exempt map[string]string
	// Guards: field → bool fields of the same struct that may guard its reset.
	Guards map[string][]string
}

const (
	excMutex   = "mutex / noCopy marker: carries no request state"
	excScratch = "scratch buffer: every reader re-derives it with [:0] before use, its old contents are never observed"
	excEngine  = "engine-scoped configuration kept on purpose (property anchor: 'connection-scoped fields deliberately kept'): set when the pool allocates the context (Engine.allocateContext) and not request state"
	excBinder  = "engine-scoped: re-assigned unconditionally at the top of Engine.ServeHTTP for every request (checked by C09.scoped)"
	excServer  = "server-scoped: assigned in Server.Serve's prologue before the request loop (checked by C09.scoped)"
)

var ctxExempt = map[string]string{
	"HTMLRender": excServer, "enableTrace": excServer,
	"binder": excBinder, "validator": excBinder,
	"clientIPFunc": excEngine, "formValueFunc": excEngine,
	"mu": excMutex, "finishedMu": excMutex,
	"hijackHandler": "cleared by Server.Serve (SetHijackHandler(nil)) on every path between the handler and the reset (checked by C09.order in the serve-loop typestate)",
	"exiled":        "an exiled context is never put back into the pool (checked by C09.scoped: putRequestContext is dominated by the IsExiled early return)",
}

func with(m map[string]string, kv ...string) map[string]string {
	out := map[string]string{}
	for k, v := range m {
		out[k] = v
	}
	for i := 0; i+1 < len(kv); i += 2 {
		out[kv[i]] = kv[i+1]
	}
	return out
}

var c09Targets = []resetTarget{
	{Rel: "pkg/app", Typ: "RequestContext", Meth: "ResetWithoutConn", Guards: map[string][]string{"traceInfo": {"enableTrace"}},
		Exempt: with(ctxExempt, "conn", "the …WithoutConn variant keeps the connection by definition (keep-alive reuse on the same connection)")},
	{Rel: "pkg/app", Typ: "RequestContext", Meth: "Reset", Guards: map[string][]string{"traceInfo": {"enableTrace"}}, Exempt: ctxExempt},
	{Rel: "pkg/protocol", Typ: "Request", Meth: "Reset", Exempt: map[string]string{"noCopy": excMutex, "maxKeepBodySize": excEngine, "w": "embedded body-writer adaptor whose only field is a back-pointer to this request, set on every use (BodyWriter)"}},
	{Rel: "pkg/protocol", Typ: "Request", Meth: "ResetWithoutConn", Exempt: map[string]string{"noCopy": excMutex, "maxKeepBodySize": excEngine, "w": "embedded body-writer adaptor whose only field is a back-pointer to this request, set on every use (BodyWriter)",
		"isTLS": "connection-scoped: the …WithoutConn variant keeps it with the connection (property anchor)"}},
	{Rel: "pkg/protocol", Typ: "Response", Meth: "Reset", Exempt: map[string]string{"noCopy": excMutex, "maxKeepBodySize": excEngine, "w": "embedded body-writer adaptor whose only field is a back-pointer to this response, set on every use (BodyWriter)"}},
	{Rel: "pkg/protocol", Typ: "RequestHeader", Meth: "Reset", Exempt: map[string]string{"noCopy": excMutex, "bufKV": excScratch}},
	{Rel: "pkg/protocol", Typ: "ResponseHeader", Meth: "Reset", Exempt: map[string]string{"noCopy": excMutex, "bufKV": excScratch}},
	{Rel: "pkg/protocol", Typ: "URI", Meth: "Reset", Exempt: map[string]string{"noCopy": excMutex,
		"fullURI": "output cache recomputed from the parts by every FullURI() call before it is returned", "requestURI": "output cache recomputed from the parts by every RequestURI() call before it is returned"}},
	{Rel: "pkg/protocol", Typ: "Args", Meth: "Reset", Exempt: map[string]string{"noCopy": excMutex, "buf": excScratch}},
	{Rel: "pkg/protocol", Typ: "Cookie", Meth: "Reset", Exempt: map[string]string{"noCopy": excMutex, "buf": excScratch, "bufKV": excScratch}},
	{Rel: "pkg/protocol", Typ: "Trailer", Meth: "Reset", Exempt: map[string]string{"bufKV": excScratch}},
	{Rel: "pkg/common/tracer/traceinfo", Typ: "httpStats", Meth: "Reset", Exempt: map[string]string{"RWMutex": excMutex, "level": "trace level configuration set when the stats object is created, not request state"}},
	{Rel: "pkg/protocol/http1/ext", Typ: "bodyStream", Meth: "reset"},
}

// C09.reset — every field of the recycled types is reset by the reset method on every path.
func c09Reset(e *Env) { resetObligations(e, "C09.reset", nil) }

// resetObligations runs the must-write analysis for the reset targets; keep (when non-nil)
// restricts it to some (target, field) pairs — used by other properties that depend on one
// particular reset (C19: the per-request trace statistics).
func resetObligations(e *Env, rule string, keep func(tg resetTarget, field string) bool) {
	w, r := e.W, e.R
	r.Explainf(rule + ": for each (type, reset method) of the property's list, go/ssa must-write analysis: a field counts as reset when on every non-panicking path of the method (following callees that receive the same object, and edges on which an explicit test shows the field already nil/empty are not followed) it is stored to, or its address / loaded value is handed to a reset-like callee, or the whole struct is overwritten. Obligation: fields(T) minus reset fields ⊆ reviewed exemption table (one reason per field).")
	fc := newFieldCov(w)
	n := 0
	nWant := 0
	for _, tg := range c09Targets {
		if keep != nil && !keep(tg, "") {
			continue
		}
		nWant++
		fi := w.Func(tg.Rel, tg.Typ, tg.Meth)
		name := tg.Rel + "." + tg.Typ + "." + tg.Meth
		if fi == nil {
			r.Anchor(rule, name)
			continue
		}
		fn := w.SSAFunc(fi)
		miss, st := fc.notCovered(fn, tg.Guards)
		if st == nil {
			r.Anchor(rule, name+" (receiver struct)")
			continue
		}
		n++
		missSet := map[string]bool{}
		for _, m := range miss {
			missSet[m] = true
		}
		r.Unit("%s: %s — %d fields, not reset on every path: %v", rule, name, st.NumFields(), miss)
		for i := 0; i < st.NumFields(); i++ {
			f := st.Field(i).Name()
			if keep != nil && !keep(tg, f) {
				continue
			}
			key := name + ":" + f
			pos := w.Pos(st.Field(i).Pos())
			desc := fmt.Sprintf("field %s.%s is reset by %s on every path", tg.Typ, f, tg.Meth)
			switch {
			case !missSet[f]:
				if reason, ok := tg.Exempt[f]; ok && !strings.HasPrefix(reason, "~") {
					// stale exemption: harmless, recorded for review
					r.OKd(rule, key, pos, desc, "reset although exempted ("+reason+")")
				} else {
					r.OK(rule, key, pos, desc)
				}
			case tg.Exempt[f] != "":
				r.Except(rule, key, pos, desc, strings.TrimPrefix(tg.Exempt[f], "~"))
			default:
				r.Fail(rule, key, pos, desc, fmt.Sprintf("%s.%s does not reset field %q on every path and the field is not in the exemption table: state written by one request/use survives into the next user of the recycled object", tg.Typ, tg.Meth, f))
			}
		}
	}
	r.Floor(rule, n, nWant, "reset methods analysed")
	var names []string
	for _, t := range c09Targets {
		names = append(names, t.Typ+"."+t.Meth)
	}
	sort.Strings(names)
}

// c09Scoped — code facts that the exemption table relies on.
func c09Scoped(e *Env) {
	const rule = "C09.scoped"
	w, r := e.W, e.R
	r.Explainf("C09.scoped: facts behind exempted fields are checked in the code: Server.Serve assigns HTMLRender and calls SetEnableTrace/SetConn as top-level statements before its request loop; Engine.ServeHTTP calls SetBinder and SetValidator as top-level (unconditional) statements; every call of putRequestContext is preceded by `if ctx.IsExiled() { return }`; putRequestContext calls Reset before the pool Put.")
	topLevelBeforeLoop := func(rel, recv, name string, wantCalls []string, wantAssign []string) {
		fi := w.Func(rel, recv, name)
		if fi == nil {
			r.Anchor(rule, rel+"."+recv+"."+name)
			return
		}
		info := fi.Pkg.TypesInfo
		seen := map[string]bool{}
		for _, st := range fi.Decl.Body.List {
			if _, isLoop := st.(*ast.ForStmt); isLoop {
				break
			}
			switch x := st.(type) {
			case *ast.ExprStmt:
				if call, ok := x.X.(*ast.CallExpr); ok {
					if f := calleeOf(info, call); f != nil {
						seen["call:"+f.Name()] = true
					}
				}
			case *ast.AssignStmt:
				for _, l := range x.Lhs {
					if v := usedVar(info, l); v != nil && v.IsField() {
						seen["assign:"+v.Name()] = true
					}
				}
			}
		}
		fname := w.FuncName(fi.Obj)
		for _, c := range wantCalls {
			r.Check(seen["call:"+c], rule, fname+":calls:"+c, w.Pos(fi.Decl.Pos()), fname+" calls "+c+" unconditionally before handling requests", "no top-level call of "+c+" before the request loop / handler dispatch: the exempted field would keep the previous user's value")
		}
		for _, a := range wantAssign {
			r.Check(seen["assign:"+a], rule, fname+":assigns:"+a, w.Pos(fi.Decl.Pos()), fname+" assigns "+a+" unconditionally before handling requests", "no top-level assignment of "+a+" before the request loop")
		}
	}
	topLevelBeforeLoop("pkg/protocol/http1", "Server", "Serve", []string{"SetConn", "SetEnableTrace"}, []string{"HTMLRender"})
	topLevelBeforeLoop("pkg/route", "Engine", "ServeHTTP", []string{"SetBinder", "SetValidator"}, nil)
	// exiled contexts are never pooled
	put := w.Func("pkg/protocol/http1", "Server", "putRequestContext")
	if put == nil {
		r.Anchor(rule, "http1.Server.putRequestContext")
		return
	}
	n := 0
	for _, fi := range declaredNonTest(w) {
		info := fi.Pkg.TypesInfo
		par := parents(fi.Decl)
		ast.Inspect(fi.Decl.Body, func(nd ast.Node) bool {
			call, ok := nd.(*ast.CallExpr)
			if !ok || calleeOf(info, call) != put.Obj {
				return true
			}
			n++
			ok = false
			for _, g := range precedingGuards(par, call) {
				if found, pol, _ := condCalls(info, g.Cond, func(f *types.Func) bool { return esp.Is(f, pkgApp, "RequestContext", "IsExiled") }); found && pol > 0 {
					if _, isRet := g.Body.List[len(g.Body.List)-1].(*ast.ReturnStmt); isRet {
						ok = true
					}
				}
			}
			r.Check(ok, rule, fmt.Sprintf("%s:putRequestContext#%d", w.FuncName(fi.Obj), n), w.Pos(call.Pos()), "a context is pooled only when it is not exiled", "putRequestContext is not dominated by `if ctx.IsExiled() { return }`: an exiled context (still referenced by its handler) would be recycled")
			return true
		})
	}
	r.Floor(rule, n, 1, "putRequestContext call sites")
	// Reset before Put inside putRequestContext
	info := put.Pkg.TypesInfo
	state := 0
	for _, st := range put.Decl.Body.List {
		if es, ok := st.(*ast.ExprStmt); ok {
			if call, ok := es.X.(*ast.CallExpr); ok {
				f := calleeOf(info, call)
				if esp.Is(f, pkgApp, "RequestContext", "Reset") && state == 0 {
					state = 1
				}
				if f != nil && f.Name() == "Put" && f.Pkg() != nil && f.Pkg().Path() == "sync" {
					if state == 1 {
						state = 2
					} else {
						state = -1
					}
				}
			}
		}
	}
	r.Check(state == 2, rule, w.FuncName(put.Obj)+":reset-before-put", w.Pos(put.Decl.Pos()), "putRequestContext resets the context before putting it into the pool", "no unconditional ctx.Reset() before Pool.Put")
}

// c09Pools is defined in pools.go (tier 2, thorough).
