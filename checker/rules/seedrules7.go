package rules

// Rules added after the seventh round of independently seeded changes (seeded/*-r7-*).

import (
	"fmt"
	"go/ast"
	"go/constant"
	"go/token"
	"go/types"
	"sort"
	"strings"

	"hzcheck/core"
)

// C09.siblings — the request and the response header reset the same nested state.
func c09Siblings(e *Env) {
	const rule = "C09.siblings"
	w, r := e.W, e.R
	r.Explainf("C09.siblings: RequestHeader and ResponseHeader are sibling implementations of one mechanism; each embeds a Trailer reached through Trailer(). For every method M that both types declare among {Reset, ResetSkipNormalize}, the set of nested resets M performs through the trailer — `h.Trailer().f = <const>` and `h.Trailer().ResetX()` — is the same on both sides. A reset the one sibling performs and the other lost (the trailer's normalisation flag in ResponseHeader.Reset, the trailer contents in RequestHeader.ResetSkipNormalize) lets state of one exchange decide how a later message on the recycled object is parsed or which fields it carries.")
	rq, rs := w.Named("pkg/protocol", "RequestHeader"), w.Named("pkg/protocol", "ResponseHeader")
	if rq == nil || rs == nil {
		r.Anchor(rule, "protocol.RequestHeader / ResponseHeader")
		return
	}
	nested := func(fi *core.FuncInfo) map[string]bool {
		out := map[string]bool{}
		if fi == nil || fi.Decl.Body == nil {
			return out
		}
		info := fi.Pkg.TypesInfo
		viaTrailer := func(x ast.Expr) bool {
			c, ok := unparen(x).(*ast.CallExpr)
			if !ok {
				return false
			}
			f := calleeOf(info, c)
			return f != nil && f.Name() == "Trailer"
		}
		ast.Inspect(fi.Decl.Body, func(n ast.Node) bool {
			switch x := n.(type) {
			case *ast.AssignStmt:
				for i, l := range x.Lhs {
					if se, ok := unparen(l).(*ast.SelectorExpr); ok && viaTrailer(se.X) && i < len(x.Rhs) {
						out["set:"+se.Sel.Name+"="+types.ExprString(x.Rhs[i])] = true
					}
				}
			case *ast.CallExpr:
				if se, ok := unparen(x.Fun).(*ast.SelectorExpr); ok && viaTrailer(se.X) {
					out["call:"+se.Sel.Name] = true
				}
			}
			return true
		})
		return out
	}
	n := 0
	for _, m := range []string{"Reset", "ResetSkipNormalize"} {
		a, b := w.Func("pkg/protocol", "RequestHeader", m), w.Func("pkg/protocol", "ResponseHeader", m)
		if a == nil || b == nil {
			continue
		}
		n++
		na, nb := nested(a), nested(b)
		keys := map[string]bool{}
		for k := range na {
			keys[k] = true
		}
		for k := range nb {
			keys[k] = true
		}
		var ks []string
		for k := range keys {
			ks = append(ks, k)
		}
		sort.Strings(ks)
		for _, k := range ks {
			missing := ""
			pos := a.Decl.Pos()
			switch {
			case !na[k]:
				missing = "RequestHeader." + m
			case !nb[k]:
				missing, pos = "ResponseHeader."+m, b.Decl.Pos()
			}
			r.Check(missing == "", rule, fmt.Sprintf("%s:%s", m, k), w.Pos(pos), "both header types perform the nested trailer reset `"+k+"` in "+m,
				missing+" does not perform `"+k+"` through its trailer although its sibling does: that part of the trailer state survives the reset of a recycled header")
		}
		r.Floor(rule, len(ks), 1, "nested trailer resets in "+m)
	}
	r.Floor(rule, n, 2, "reset methods declared by both header types")
}

// C06.clean (clause of C06.own) is implemented in c06Own; see below for the helper.

// C07.lazybuf — the lazily created buffer of the path cleaner is stored where the caller sees it.
func c07LazyBuf(e *Env) {
	const rule = "C07.lazybuf"
	w, r := e.W, e.R
	r.Explainf("C07.lazybuf: utils.CleanPath writes its result through bufApp(buf *[]byte, …), which creates the buffer on the first byte that differs from the input — the stack buffer when it is large enough, a heap buffer otherwise — and CleanPath returns the input prefix when the buffer is still empty at the end. In every function that takes a *[]byte parameter and assigns a new slice to a local alias of it under a size test, BOTH arms of that test store the new slice through the pointer (`*buf = …`): otherwise all writes for inputs beyond the stack buffer go to a throw-away slice and CleanPath returns an UNCLEANED prefix of any path longer than 128 bytes (`/a/../…` stays).")
	p := w.Pkg("pkg/common/utils")
	if p == nil {
		r.Anchor(rule, "package pkg/common/utils")
		return
	}
	info := p.TypesInfo
	n := 0
	for _, fi := range declaredNonTest(w) {
		if fi.Pkg != p || fi.Decl.Body == nil {
			continue
		}
		sig := fi.Obj.Type().(*types.Signature)
		var ptr *types.Var
		for i := 0; i < sig.Params().Len(); i++ {
			if pt, ok := sig.Params().At(i).Type().(*types.Pointer); ok {
				if sl, ok := pt.Elem().Underlying().(*types.Slice); ok {
					if b, ok := sl.Elem().Underlying().(*types.Basic); ok && b.Kind() == types.Uint8 {
						ptr = sig.Params().At(i)
					}
				}
			}
		}
		if ptr == nil {
			continue
		}
		fname := w.FuncName(fi.Obj)
		storesThrough := func(b ast.Node) bool {
			hit := false
			ast.Inspect(b, func(m ast.Node) bool {
				if as, ok := m.(*ast.AssignStmt); ok {
					for _, l := range as.Lhs {
						if st, ok := unparen(l).(*ast.StarExpr); ok && usedVar(info, st.X) == ptr {
							hit = true
						}
					}
				}
				return true
			})
			return hit
		}
		creates := func(b ast.Node) bool {
			hit := false
			ast.Inspect(b, func(m ast.Node) bool {
				if as, ok := m.(*ast.AssignStmt); ok && len(as.Rhs) == 1 {
					switch y := unparen(as.Rhs[0]).(type) {
					case *ast.CallExpr:
						if isBuiltin(info, y, "make") {
							hit = true
						}
					case *ast.SliceExpr:
						hit = true
					}
				}
				return true
			})
			return hit
		}
		k := 0
		ast.Inspect(fi.Decl.Body, func(nd ast.Node) bool {
			is, ok := nd.(*ast.IfStmt)
			if !ok || is.Else == nil {
				return true
			}
			if !creates(is.Body) || !creates(is.Else) {
				return true
			}
			k++
			n++
			// the store may also follow the if/else as a single statement assigning the alias back
			after := false
			if blk, ok := parents(fi.Decl)[is].(*ast.BlockStmt); ok {
				for _, s := range blk.List {
					if s.Pos() > is.End() && storesThrough(s) {
						after = true
					}
				}
			}
			okA, okB := storesThrough(is.Body) || after, storesThrough(is.Else) || after
			r.Check(okA && okB, rule, fmt.Sprintf("%s:materialise#%d", fname, k), w.Pos(is.Pos()), "both ways of creating the buffer store it through the pointer parameter",
				"one arm of the size test creates the buffer without `*"+ptr.Name()+" = …`: the caller never sees that buffer and returns its unmodified input prefix")
			return true
		})
	}
	r.Floor(rule, n, 1, "buffer materialisation tests in functions taking *[]byte (bufApp)")
}

// C08.thread — accumulators threaded through a helper come back in the order they went in.
func c08Thread(e *Env) {
	const rule = "C08.thread"
	w, r := e.W, e.R
	r.Explainf("C08.thread: the cache cleaner threads two lists of the same type through a helper — `pending, release = clean(cache, pending, release, …)` — files still being read (kept open) and files to close. For every call in package app whose results are assigned back to variables that are also passed as arguments, each return statement of the callee returns, at result position i, the parameter that received the variable assigned from result i. Swapping two same-typed results compiles and closes the descriptor of a file whose response is still being sent.")
	p := w.Pkg("pkg/app")
	if p == nil {
		r.Anchor(rule, "package pkg/app")
		return
	}
	info := p.TypesInfo
	n := 0
	seen := map[string]bool{}
	for _, fi := range declaredNonTest(w) {
		if fi.Pkg != p || fi.Decl.Body == nil {
			continue
		}
		ast.Inspect(fi.Decl.Body, func(nd ast.Node) bool {
			as, ok := nd.(*ast.AssignStmt)
			if !ok || len(as.Rhs) != 1 || len(as.Lhs) < 2 {
				return true
			}
			call, ok := unparen(as.Rhs[0]).(*ast.CallExpr)
			if !ok {
				return true
			}
			cd := w.DeclOf(calleeOf(info, call))
			if cd == nil || cd.Decl.Body == nil {
				return true
			}
			csig := cd.Obj.Type().(*types.Signature)
			// result i ↔ parameter j
			want := map[int]int{}
			for i, l := range as.Lhs {
				lv := usedVar(info, l)
				if lv == nil {
					continue
				}
				for j, a := range call.Args {
					if usedVar(info, a) == lv && j < csig.Params().Len() {
						want[i] = j
					}
				}
			}
			if len(want) < 2 {
				return true
			}
			cname := w.FuncName(cd.Obj)
			k := 0
			ast.Inspect(cd.Decl.Body, func(m ast.Node) bool {
				if _, isLit := m.(*ast.FuncLit); isLit {
					return false
				}
				rs, ok := m.(*ast.ReturnStmt)
				if !ok || len(rs.Results) != len(as.Lhs) {
					return true
				}
				k++
				key := fmt.Sprintf("%s:return#%d:order", cname, k)
				if seen[key] {
					return true
				}
				seen[key] = true
				n++
				bad := ""
				for i, j := range want {
					if usedVar(cd.Pkg.TypesInfo, rs.Results[i]) != csig.Params().At(j) {
						bad = fmt.Sprintf("result %d is `%s`, but callers assign it to the variable they passed as `%s`", i+1, types.ExprString(rs.Results[i]), csig.Params().At(j).Name())
					}
				}
				r.Check(bad == "", rule, key, w.Pos(rs.Pos()), "threaded accumulators are returned in the order of the parameters they came in", bad+": the two lists change roles at every call")
				return true
			})
			return true
		})
	}
	r.Floor(rule, n, 1, "return statements of accumulator-threading helpers in package app")
}

// C13.abortfirst — the read buffer is released only after the disconnect detector has stopped.
func c13AbortFirst(e *Env) {
	const rule = "C13.abortfirst"
	w, r := e.W, e.R
	r.Explainf("C13.abortfirst: with client-disconnect detection a second goroutine sits in a blocking Peek on the connection's read buffer while the handler runs; AbortBlockingRead is the only synchronisation with it and waits for that read to return. In Server.Serve the reader's Release (which resets and recycles buffer nodes) that follows the response therefore comes AFTER the AbortBlockingRead call: releasing first lets the pending read store the next request's bytes into a node that was just reset, and the buffer then reports stale bytes of the previous request as unread.")
	serve := w.Func("pkg/protocol/http1", "Server", "Serve")
	if serve == nil {
		r.Anchor(rule, "http1.Server.Serve")
		return
	}
	info := serve.Pkg.TypesInfo
	fname := w.FuncName(serve.Obj)
	var abort token.Pos
	var writeResp token.Pos
	ast.Inspect(serve.Decl.Body, func(nd ast.Node) bool {
		if c, ok := nd.(*ast.CallExpr); ok {
			if f := calleeOf(info, c); f != nil {
				if f.Name() == "AbortBlockingRead" && !abort.IsValid() {
					abort = c.Pos()
				}
				if f.Name() == "writeResponse" && !writeResp.IsValid() {
					writeResp = c.Pos()
				}
			}
		}
		return true
	})
	if !abort.IsValid() {
		r.OK(rule, fname+":no-detector", w.Pos(serve.Decl.Pos()), "Serve has no blocking-read abort: no second reader to synchronise with")
		return
	}
	n := 0
	par := parents(serve.Decl)
	ast.Inspect(serve.Decl.Body, func(nd ast.Node) bool {
		c, ok := nd.(*ast.CallExpr)
		if !ok {
			return true
		}
		f := calleeOf(info, c)
		if f == nil || f.Name() != "Release" || c.Pos() < writeResp {
			return true
		}
		// Release of the reader (an interface method of network.Reader), outside deferred closures
		if _, inLit := enclosing(par, c, func(m ast.Node) bool { _, ok := m.(*ast.FuncLit); return ok }).(*ast.FuncLit); inLit {
			return true
		}
		if n > 0 {
			return true // only the first Release after the response matters
		}
		n++
		r.Check(c.Pos() > abort, rule, fname+":Release-after-abort", w.Pos(c.Pos()), "the reader is released after the disconnect detector's read was aborted",
			"`"+types.ExprString(c)+"` precedes AbortBlockingRead(): the detector goroutine may still be inside its blocking read of the buffer being reset")
		return true
	})
	r.Floor(rule, n, 1, "reader Release after the response in Serve")
}

// C17.ctl — the control-byte test of URI parsing is the RFC 3986 / net/url set.
func c17CTL(e *Env) {
	const rule = "C17.ctl"
	w, r := e.W, e.R
	r.Explainf("C17.ctl: URI.parse refuses a string that contains an ASCII control byte, like net/url. The refusing predicate (a loop over the bytes whose body is `if <cond on the byte> { return true }`) is evaluated for all 256 byte values: it is true exactly for 0x00–0x1F and 0x7F. One byte more (`<= ' '`) and every URI with a raw space in its fragment or raw query — which String() emits verbatim — parses back as empty.")
	fi := w.Func("pkg/protocol", "", "stringContainsCTLByte")
	if fi == nil {
		// by role: func([]byte) bool called at the top of URI.parse
		ps := w.Func("pkg/protocol", "URI", "parse")
		if ps != nil {
			for _, hf := range withHelpers(w, ps, 1)[1:] {
				sig := hf.Obj.Type().(*types.Signature)
				if sig.Params().Len() == 1 && sig.Results().Len() == 1 && sig.Results().At(0).Type().String() == "bool" && isByteSlice(sig.Params().At(0).Type()) {
					fi = hf
				}
			}
		}
	}
	if fi == nil {
		r.Anchor(rule, "protocol.stringContainsCTLByte")
		return
	}
	info := fi.Pkg.TypesInfo
	fname := w.FuncName(fi.Obj)
	var cond ast.Expr
	var bv *types.Var
	ast.Inspect(fi.Decl.Body, func(nd ast.Node) bool {
		is, ok := nd.(*ast.IfStmt)
		if !ok || cond != nil || len(is.Body.List) != 1 {
			return true
		}
		if rs, ok := is.Body.List[0].(*ast.ReturnStmt); ok && len(rs.Results) == 1 {
			if id, ok := unparen(rs.Results[0]).(*ast.Ident); ok && id.Name == "true" {
				cond = is.Cond
			}
		}
		return true
	})
	if cond == nil {
		r.Anchor(rule, fname+": `if <cond> { return true }`")
		return
	}
	// the byte variable: the only non-constant identifier of byte type in cond
	ast.Inspect(cond, func(nd ast.Node) bool {
		if id, ok := nd.(*ast.Ident); ok {
			if v, ok := info.Uses[id].(*types.Var); ok {
				if b, ok := v.Type().Underlying().(*types.Basic); ok && b.Kind() == types.Uint8 {
					bv = v
				}
			}
		}
		return true
	})
	var eval func(x ast.Expr, b int64) (bool, bool)
	num := func(x ast.Expr, b int64) (int64, bool) {
		if v := usedVar(info, x); v != nil && v == bv {
			return b, true
		}
		if tv, ok := info.Types[x]; ok && tv.Value != nil {
			if c, ok := constant.Int64Val(constant.ToInt(tv.Value)); ok {
				return c, true
			}
		}
		return 0, false
	}
	eval = func(x ast.Expr, b int64) (bool, bool) {
		switch y := unparen(x).(type) {
		case *ast.UnaryExpr:
			if y.Op == token.NOT {
				v, ok := eval(y.X, b)
				return !v, ok
			}
		case *ast.BinaryExpr:
			switch y.Op {
			case token.LOR, token.LAND:
				l, ok1 := eval(y.X, b)
				rr, ok2 := eval(y.Y, b)
				if y.Op == token.LOR {
					return l || rr, ok1 && ok2
				}
				return l && rr, ok1 && ok2
			case token.LSS, token.LEQ, token.GTR, token.GEQ, token.EQL, token.NEQ:
				l, ok1 := num(y.X, b)
				rr, ok2 := num(y.Y, b)
				if !ok1 || !ok2 {
					return false, false
				}
				switch y.Op {
				case token.LSS:
					return l < rr, true
				case token.LEQ:
					return l <= rr, true
				case token.GTR:
					return l > rr, true
				case token.GEQ:
					return l >= rr, true
				case token.EQL:
					return l == rr, true
				default:
					return l != rr, true
				}
			}
		}
		return false, false
	}
	var wrong []string
	decided := bv != nil
	for b := int64(0); b < 256 && decided; b++ {
		got, ok := eval(cond, b)
		if !ok {
			decided = false
			break
		}
		want := b < 0x20 || b == 0x7f
		if got != want {
			wrong = append(wrong, fmt.Sprintf("0x%02X", b))
		}
	}
	if !decided {
		r.Fail(rule, fname+":ctl-set", w.Pos(cond.Pos()), "the control-byte predicate is true exactly for 0x00–0x1F and 0x7F", "the condition `"+types.ExprString(cond)+"` is not a boolean combination of comparisons of the byte with constants; undecided")
		return
	}
	r.Check(len(wrong) == 0, rule, fname+":ctl-set", w.Pos(cond.Pos()), "the control-byte predicate is true exactly for 0x00–0x1F and 0x7F (256 values evaluated)",
		"`"+types.ExprString(cond)+"` differs from the control set for byte(s) "+strings.Join(wrong, ", ")+": URIs containing such a byte no longer parse (or control bytes are let through)")
}

// C15.cacheinfo — what is cached per type is complete, whoever fills the cache.
func c15CacheInfo(e *Env) {
	const rule = "C15.cacheinfo"
	w, r := e.W, e.R
	r.Explainf("C15.cacheinfo: the binder caches, per struct type, a record with the compiled decoder and whether the type carries validation tags; Bind and BindAndValidate share the cache for the default tag, and the cached path of BindAndValidate trusts the record. Every composite literal of that record type in package binding sets ALL its fields, and from variables — not from zero/constant values: a record stored by plain Bind without the validation bit makes every later BindAndValidate of the type skip its `vd` expressions.")
	p := w.Pkg(relBinding)
	if p == nil {
		r.Anchor(rule, "package binding")
		return
	}
	info := p.TypesInfo
	// the record type: the struct type of composite literals passed to a Store call
	var rec *types.Named
	for _, fi := range declaredNonTest(w) {
		if fi.Pkg != p || fi.Decl.Body == nil {
			continue
		}
		ast.Inspect(fi.Decl.Body, func(nd ast.Node) bool {
			c, ok := nd.(*ast.CallExpr)
			if !ok || len(c.Args) != 2 {
				return true
			}
			if f := calleeOf(info, c); f == nil || f.Name() != "Store" {
				return true
			}
			if cl, ok := unparen(c.Args[1]).(*ast.CompositeLit); ok {
				if nt, ok := info.TypeOf(cl).(*types.Named); ok && nt.Obj().Pkg() == p.Types {
					rec = nt
				}
			}
			return true
		})
	}
	if rec == nil {
		r.Anchor(rule, "the record type stored in the decoder cache")
		return
	}
	st, _ := rec.Underlying().(*types.Struct)
	n := 0
	for _, fi := range declaredNonTest(w) {
		if fi.Pkg != p || fi.Decl.Body == nil {
			continue
		}
		fname := w.FuncName(fi.Obj)
		k := 0
		ast.Inspect(fi.Decl.Body, func(nd ast.Node) bool {
			cl, ok := nd.(*ast.CompositeLit)
			if !ok || info.TypeOf(cl) != types.Type(rec) {
				return true
			}
			k++
			n++
			set := map[string]bool{}
			constField := ""
			for _, el := range cl.Elts {
				if kv, ok := el.(*ast.KeyValueExpr); ok {
					if id, ok := kv.Key.(*ast.Ident); ok {
						set[id.Name] = true
						if tv, ok := info.Types[kv.Value]; ok && tv.Value != nil {
							constField = id.Name
						}
					}
				}
			}
			var missing []string
			for i := 0; st != nil && i < st.NumFields(); i++ {
				if !set[st.Field(i).Name()] && len(cl.Elts) > 0 {
					if _, positional := cl.Elts[0].(*ast.KeyValueExpr); positional {
						missing = append(missing, st.Field(i).Name())
					}
				}
			}
			if len(cl.Elts) == 0 {
				missing = append(missing, "(all)")
			}
			why := ""
			if len(missing) > 0 {
				why = "the literal leaves " + strings.Join(missing, ", ") + " at its zero value"
			} else if constField != "" {
				why = "the literal sets " + constField + " to a constant instead of what the decoder builder reported"
			}
			r.Check(why == "", rule, fmt.Sprintf("%s:%s#%d", fname, rec.Obj().Name(), k), w.Pos(cl.Pos()), "the cached record is complete", why+": the cache is shared by the binding entry points, so the other entry point acts on the incomplete record (validation skipped)")
			return true
		})
	}
	r.Floor(rule, n, 2, "literals of the cached decoder record")
}

// C05.fresh — a recycled header carries no field of an earlier message: the header and trailer
// reset obligations under C05.
func c05Fresh(e *Env) {
	resetObligations(e, "C05.fresh", func(tg resetTarget, field string) bool {
		return tg.Typ == "RequestHeader" || tg.Typ == "ResponseHeader" || tg.Typ == "Trailer"
	})
}

// C14.keepstream — a request keeps its body stream until the stream was read to the end.
func c14KeepStream(e *Env) {
	const rule = "C14.keepstream"
	w, r := e.W, e.R
	r.Explainf("C14.keepstream: the serve loop drains what a handler left unread of a streamed request body only while the request still holds the stream (`Request.IsBodyStream()`); the server's stream type has no Close, so Request.CloseBodyStream merely forgets it. In the methods of protocol.Request that copy the stream somewhere (utils.CopyZeroAlloc / io.Copy from req.bodyStream) the following CloseBodyStream is reached only when the copy returned no error: a copy that stopped early — the handler's writer failed — must leave the stream attached, otherwise the unread rest of the body is parsed as the next request.")
	nt := w.Named("pkg/protocol", "Request")
	bs := w.Field("pkg/protocol", "Request", "bodyStream")
	if nt == nil || bs == nil {
		r.Anchor(rule, "protocol.Request.bodyStream")
		return
	}
	n := 0
	for _, fi := range declaredNonTest(w) {
		if fi.Decl.Body == nil || recvNamed(fi.Obj) != nt {
			continue
		}
		info := fi.Pkg.TypesInfo
		par := parents(fi.Decl)
		fname := w.FuncName(fi.Obj)
		k := 0
		ast.Inspect(fi.Decl.Body, func(nd ast.Node) bool {
			blk, ok := nd.(*ast.BlockStmt)
			if !ok {
				return true
			}
			for i, s := range blk.List {
				as, ok := s.(*ast.AssignStmt)
				if !ok || len(as.Rhs) != 1 {
					continue
				}
				c, ok := unparen(as.Rhs[0]).(*ast.CallExpr)
				if !ok || len(c.Args) != 2 || usedVar(info, c.Args[1]) != bs {
					continue
				}
				f := calleeOf(info, c)
				if f == nil || !strings.HasPrefix(f.Name(), "Copy") {
					continue
				}
				var ev *types.Var
				if len(as.Lhs) == 2 {
					ev = usedVar(info, as.Lhs[1])
				}
				// CloseBodyStream calls later in the same block (at any depth)
				for _, s2 := range blk.List[i+1:] {
					ast.Inspect(s2, func(m ast.Node) bool {
						cc, ok := m.(*ast.CallExpr)
						if !ok {
							return true
						}
						if g := calleeOf(info, cc); g == nil || g.Name() != "CloseBodyStream" {
							return true
						}
						k++
						n++
						okc := false
						// under `err == nil`, or after an `if err != nil { return }`
						for _, g := range guardConds(par, cc) {
							if g.cond != nil {
								if isErr, isNil := errNilCond(info, g.cond, !g.neg); isErr && isNil {
									okc = true
								}
							}
						}
						for _, s3 := range blk.List[i+1:] {
							if s3.Pos() >= s2.Pos() {
								break
							}
							if is, ok := s3.(*ast.IfStmt); ok && is.Else == nil && terminates(is.Body) {
								if isErr, isNil := errNilCond(info, is.Cond, true); isErr && !isNil {
									okc = true
								}
							}
						}
						_ = ev
						r.Check(okc, rule, fmt.Sprintf("%s:CloseBodyStream#%d:after-complete-copy", fname, k), w.Pos(cc.Pos()), "the body stream is detached only after it was copied to the end",
							"`"+types.ExprString(cc)+"` follows the copy unconditionally: when the copy failed half-way the request forgets a stream that still has unread bytes, the serve loop no longer drains them, and they are parsed as the next request on the connection")
						return true
					})
				}
			}
			return true
		})
	}
	r.Floor(rule, n, 2, "CloseBodyStream calls after a copy of the request body stream")
}
