package rules

// Rules added after the eighth round of independently seeded changes (seeded/*-r8-*).

import (
	"fmt"
	"go/ast"
	"go/constant"
	"go/token"
	"go/types"
	"strings"

	"golang.org/x/tools/go/cfg"

	"hzcheck/core"
)

func inFuncLit(par map[ast.Node]ast.Node, n ast.Node) bool {
	_, ok := enclosing(par, n, func(m ast.Node) bool { _, ok := m.(*ast.FuncLit); return ok }).(*ast.FuncLit)
	return ok
}

// precedingStmts lists, innermost first, the statements that execute before n on every path
// that reaches it structurally: the earlier siblings of n and of each of its ancestors.
func precedingStmts(par map[ast.Node]ast.Node, n ast.Node) []ast.Stmt {
	var out []ast.Stmt
	for cur := n; cur != nil; cur = par[cur] {
		var list []ast.Stmt
		switch p := par[cur].(type) {
		case *ast.BlockStmt:
			list = p.List
		case *ast.CaseClause:
			list = p.Body
		case *ast.CommClause:
			list = p.Body
		case *ast.FuncDecl, *ast.FuncLit:
			return out
		}
		for i, s := range list {
			if ast.Node(s) == cur {
				for j := i - 1; j >= 0; j-- {
					out = append(out, list[j])
				}
			}
		}
	}
	return out
}

// baseIsField: x is the field f itself (`c.f`) or a local that body binds to it (`b := c.f`).
func baseIsField(info *types.Info, body ast.Node, x ast.Expr, f *types.Var) bool {
	bv := usedVar(info, x)
	if bv == nil {
		return false
	}
	if bv == f {
		return true
	}
	if bv.IsField() || body == nil {
		return false
	}
	hit := false
	ast.Inspect(body, func(m ast.Node) bool {
		if as, ok := m.(*ast.AssignStmt); ok && len(as.Lhs) == len(as.Rhs) {
			for i, l := range as.Lhs {
				if id, ok := l.(*ast.Ident); ok && (info.Defs[id] == types.Object(bv) || info.Uses[id] == types.Object(bv)) && usedVar(info, as.Rhs[i]) == f {
					hit = true
				}
			}
		}
		return true
	})
	return hit
}

func splitOp(x ast.Expr, op token.Token) []ast.Expr {
	x = unparen(x)
	if be, ok := x.(*ast.BinaryExpr); ok && be.Op == op {
		return append(splitOp(be.X, op), splitOp(be.Y, op)...)
	}
	return []ast.Expr{x}
}

// C03.eofconv — a read error becomes io.EOF only after the transport's timeout was ruled out.
func c03EOFConv(e *Env) {
	const rule = "C03.eofconv"
	w, r := e.W, e.R
	r.Explainf("C03.eofconv: the header and trailer readers treat `any error on the first byte` as a clean end of input (`if n == 1 || err == io.EOF { return io.EOF }`), and their callers accept io.EOF from the trailer reader as the regular end of a chunked body. A read timeout must therefore be recognised BEFORE that conversion, and by a test that matches what the connections really return: network.Reader implementations hand back the raw net error (standard.Conn.fill returns the *net.OpError of the socket unchanged; ToHertzError is applied by the client only), so the accepted recognisers are structural — `strings.Contains(err.Error(), \"timeout\")` or a `Timeout()` call on the asserted net error, directly or through a one-statement helper — not a comparison with the errs.ErrTimeout sentinel. For every `return io.EOF` in package protocol/http1/… that is reachable with an error from a network.Reader call other than io.EOF itself, an earlier statement on the way to it is `if <recogniser(err)> { return <other error> }`. Without it a peer that stalls after `0\\r\\n` gets its incomplete request handled and the connection kept alive.")
	n := 0
	for _, fi := range declaredNonTest(w) {
		if fi.Decl.Body == nil || !strings.HasPrefix(w.RelPkg(fi.Obj.Pkg()), "pkg/protocol/http1") {
			continue
		}
		info := fi.Pkg.TypesInfo
		errT := types.Universe.Lookup("error").Type()
		errVars := map[*types.Var]token.Pos{}
		siblings := map[*types.Var][]*types.Var{}
		ast.Inspect(fi.Decl.Body, func(nd ast.Node) bool {
			as, ok := nd.(*ast.AssignStmt)
			if !ok || len(as.Rhs) != 1 {
				return true
			}
			c, ok := unparen(as.Rhs[0]).(*ast.CallExpr)
			if !ok {
				return true
			}
			f := calleeOf(info, c)
			if f == nil || f.Pkg() == nil || w.RelPkg(f.Pkg()) != "pkg/network" {
				return true
			}
			if sig, _ := f.Type().(*types.Signature); sig == nil || sig.Recv() == nil {
				return true
			}
			for _, l := range as.Lhs {
				if v := usedVar(info, l); v != nil && !v.IsField() && types.Identical(v.Type(), errT) {
					if _, seen := errVars[v]; !seen {
						errVars[v] = as.Pos()
					}
					for _, l2 := range as.Lhs {
						if v2 := usedVar(info, l2); v2 != nil && !v2.IsField() && v2 != v {
							siblings[v] = append(siblings[v], v2)
						}
					}
				}
			}
			return true
		})
		if len(errVars) == 0 {
			continue
		}
		par := parents(fi.Decl)
		fname := w.FuncName(fi.Obj)
		isEOF := func(x ast.Expr) bool {
			v := usedVar(info, x)
			return v != nil && v.Pkg() != nil && v.Pkg().Path() == "io" && v.Name() == "EOF"
		}
		k := 0
		ast.Inspect(fi.Decl.Body, func(nd ast.Node) bool {
			rs, ok := nd.(*ast.ReturnStmt)
			if !ok || inFuncLit(par, rs) {
				return true
			}
			eof := false
			for _, x := range rs.Results {
				if isEOF(x) {
					eof = true
				}
			}
			if !eof {
				return true
			}
			// the return depends on the outcome of a read: one of its guards mentions the error
			// of a network read (or the value that read returned) that is in scope here
			var ev *types.Var
			for v, p := range errVars {
				if p >= rs.Pos() || v.Parent() == nil || !v.Parent().Contains(rs.Pos()) {
					continue
				}
				dep := false
				for _, g := range guardConds(par, rs) {
					if g.cond == nil {
						continue
					}
					if refersTo(info, g.cond, v) {
						dep = true
					}
					for _, sb := range siblings[v] {
						if refersTo(info, g.cond, sb) {
							dep = true
						}
					}
				}
				if dep && (ev == nil || errVars[ev] < p) {
					ev = v
				}
			}
			if ev == nil {
				return true
			}
			// a pure pass-through of io.EOF is no conversion
			for _, g := range guardConds(par, rs) {
				if g.cond == nil {
					continue
				}
				parts, want := splitOp(g.cond, token.LAND), token.EQL
				if g.neg {
					parts, want = splitOp(g.cond, token.LOR), token.NEQ
				}
				for _, p := range parts {
					if be, ok := p.(*ast.BinaryExpr); ok && be.Op == want {
						if usedVar(info, be.X) == ev && isEOF(be.Y) || usedVar(info, be.Y) == ev && isEOF(be.X) {
							return true
						}
					}
				}
			}
			k++
			n++
			found := false
			for _, s := range precedingStmts(par, rs) {
				is, ok := s.(*ast.IfStmt)
				if !ok || !terminates(is.Body) {
					continue
				}
				if last, isRet := is.Body.List[len(is.Body.List)-1].(*ast.ReturnStmt); isRet {
					bad := false
					for _, x := range last.Results {
						if isEOF(x) {
							bad = true
						}
					}
					if bad {
						continue
					}
				}
				if timeoutRecogniser(w, info, is, is.Cond, ev, 1) {
					found = true
				}
			}
			r.Check(found, rule, fmt.Sprintf("%s:eof-conversion#%d", fname, k), w.Pos(rs.Pos()), "a read error is reported as io.EOF only after a structural timeout test on it",
				"`"+nodeString(rs)+"` turns any error of the preceding read into io.EOF and no earlier `if` on the way recognises a raw transport timeout of `"+ev.Name()+"` (strings.Contains(err.Error(), \"timeout\") or net.Error.Timeout()): a stalled peer is treated as a cleanly finished message — the handler runs on an incomplete chunked request and the connection stays in keep-alive")
			return true
		})
	}
	r.Floor(rule, n, 3, "conversions of a read error into io.EOF in protocol/http1")
}

// timeoutRecogniser: does cond contain a test that is true for a raw net timeout held in ev?
func timeoutRecogniser(w *core.World, info *types.Info, scope ast.Node, cond ast.Node, ev *types.Var, depth int) bool {
	found := false
	ast.Inspect(cond, func(nd ast.Node) bool {
		c, ok := nd.(*ast.CallExpr)
		if !ok || found {
			return true
		}
		f := calleeOf(info, c)
		if f == nil {
			return true
		}
		switch {
		case f.Pkg() != nil && f.Pkg().Path() == "strings" && f.Name() == "Contains" && len(c.Args) == 2:
			if ec, ok := unparen(c.Args[0]).(*ast.CallExpr); ok {
				if se, ok := unparen(ec.Fun).(*ast.SelectorExpr); ok && se.Sel.Name == "Error" && usedVar(info, se.X) == ev {
					if tv, ok := info.Types[c.Args[1]]; ok && tv.Value != nil && tv.Value.Kind() == constant.String && strings.Contains(constant.StringVal(tv.Value), "timeout") {
						found = true
					}
				}
			}
		case f.Name() == "Timeout":
			se, ok := unparen(c.Fun).(*ast.SelectorExpr)
			if !ok {
				return true
			}
			switch x := unparen(se.X).(type) {
			case *ast.TypeAssertExpr:
				found = usedVar(info, x.X) == ev
			case *ast.Ident:
				// ne, ok := err.(net.Error) somewhere in the enclosing statement
				v := usedVar(info, x)
				ast.Inspect(scope, func(m ast.Node) bool {
					if as, ok := m.(*ast.AssignStmt); ok && len(as.Rhs) == 1 && len(as.Lhs) >= 1 {
						if ta, ok := unparen(as.Rhs[0]).(*ast.TypeAssertExpr); ok && usedVar(info, ta.X) == ev {
							if id, ok := as.Lhs[0].(*ast.Ident); ok && (info.Defs[id] == types.Object(v) || info.Uses[id] == types.Object(v)) && v != nil {
								found = true
							}
						}
					}
					return true
				})
			}
		case depth > 0 && w.InModule(f.Pkg()) && len(c.Args) == 1 && usedVar(info, c.Args[0]) == ev:
			if hf := w.DeclOf(f); hf != nil && hf.Decl.Body != nil {
				sig := f.Type().(*types.Signature)
				if sig.Params().Len() == 1 {
					if timeoutRecogniser(w, hf.Pkg.TypesInfo, hf.Decl.Body, hf.Decl.Body, sig.Params().At(0), 0) {
						found = true
					}
				}
			}
		}
		return true
	})
	return found
}

// C04.ownedlen — the free space Malloc hands out lies in a buffer the connection owns.
func c04OwnedLen(e *Env) {
	const rule = "C04.ownedlen"
	w, r := e.W, e.R
	r.Explainf("C04.ownedlen: standard.Conn.Malloc carves its result out of the tail node of the output buffer while `outputBuffer.len` (free bytes of that node) is large enough. WriteBinary links the caller's own slice (a response body of 4 KiB or more) as a read-only tail node and sets len = 0 so that nothing is ever allocated inside it. The invariant `len > 0 ⇒ the tail node's buffer is owned by the connection` is kept by every store: each assignment of a non-zero value to outputBuffer.len measures (cap(N.buf) / N.Cap()) a node N for which the same function establishes ownership — N comes from newBufferNode, or the store is inside `if N.recyclable()` (a test that includes !readOnly), or it follows Conn.Malloc on the tail (which either stays in an owned node or links a fresh one), or N is the local that an earlier `if !N.recyclable() || … { …; N = … }` replaced. A store outside these forms lets the next response's header block be written into the spare capacity of the previous response's body slice — into the very buffer the handler reuses for the next body.")
	lenF := w.Field("pkg/network/standard", "linkBuffer", "len")
	outF := w.Field("pkg/network/standard", "Conn", "outputBuffer")
	bufF := w.Field("pkg/network/standard", "linkBufferNode", "buf")
	roF := w.Field("pkg/network/standard", "linkBufferNode", "readOnly")
	node := w.Named("pkg/network/standard", "linkBufferNode")
	malloc := w.Func("pkg/network/standard", "Conn", "Malloc")
	if lenF == nil || outF == nil || bufF == nil || roF == nil || node == nil || malloc == nil {
		r.Anchor(rule, "standard.Conn.outputBuffer / linkBuffer.len / linkBufferNode.{buf,readOnly} / Conn.Malloc")
		return
	}
	// ownership tests: bool methods of the node whose result requires !readOnly
	ownTest := map[*types.Func]bool{}
	fresh := map[*types.Func]bool{}
	for _, fi := range declaredNonTest(w) {
		if fi.Decl.Body == nil || w.RelPkg(fi.Obj.Pkg()) != "pkg/network/standard" {
			continue
		}
		sig := fi.Obj.Type().(*types.Signature)
		info := fi.Pkg.TypesInfo
		if recvNamed(fi.Obj) == node && sig.Results().Len() == 1 && types.Identical(sig.Results().At(0).Type(), types.Typ[types.Bool]) && len(fi.Decl.Body.List) == 1 {
			if rs, ok := fi.Decl.Body.List[0].(*ast.ReturnStmt); ok && len(rs.Results) == 1 {
				// the result implies !readOnly: a conjunct `!readOnly`, or `!(… || readOnly || …)`
				for _, p := range splitOp(rs.Results[0], token.LAND) {
					if u, ok := p.(*ast.UnaryExpr); ok && u.Op == token.NOT {
						for _, d := range splitOp(u.X, token.LOR) {
							if usedVar(info, d) == roF {
								ownTest[fi.Obj] = true
							}
						}
					}
				}
			}
		}
		if sig.Recv() == nil && sig.Results().Len() == 1 {
			if pt, ok := sig.Results().At(0).Type().(*types.Pointer); ok && types.Identical(pt.Elem(), node) {
				fresh[fi.Obj] = true
			}
		}
	}
	if len(ownTest) == 0 || len(fresh) == 0 {
		r.Anchor(rule, "a linkBufferNode method testing !readOnly and a node constructor")
		return
	}
	n := 0
	for _, fi := range declaredNonTest(w) {
		if fi.Decl.Body == nil || w.RelPkg(fi.Obj.Pkg()) != "pkg/network/standard" {
			continue
		}
		info := fi.Pkg.TypesInfo
		fname := w.FuncName(fi.Obj)
		var par map[ast.Node]ast.Node
		k := 0
		isOwnTest := func(x ast.Expr, nstr string, neg bool) bool {
			x = unparen(x)
			if neg {
				u, ok := x.(*ast.UnaryExpr)
				if !ok || u.Op != token.NOT {
					return false
				}
				x = unparen(u.X)
			}
			c, ok := x.(*ast.CallExpr)
			if !ok {
				return false
			}
			f := calleeOf(info, c)
			se, isSel := unparen(c.Fun).(*ast.SelectorExpr)
			return f != nil && ownTest[f] && isSel && types.ExprString(se.X) == nstr
		}
		ast.Inspect(fi.Decl.Body, func(nd ast.Node) bool {
			as, ok := nd.(*ast.AssignStmt)
			if !ok || as.Tok != token.ASSIGN {
				return true
			}
			for i, l := range as.Lhs {
				se, ok := unparen(l).(*ast.SelectorExpr)
				if !ok || usedVar(info, se) != lenF || !baseIsField(info, fi.Decl.Body, se.X, outF) || i >= len(as.Rhs) {
					continue
				}
				rhs := as.Rhs[i]
				if v, isC := constInt(info, rhs); isC && v == 0 {
					continue
				}
				if par == nil {
					par = parents(fi.Decl)
				}
				k++
				n++
				key := fmt.Sprintf("%s:len-store#%d", fname, k)
				// the node whose capacity is measured
				var nexpr ast.Expr
				ast.Inspect(rhs, func(m ast.Node) bool {
					c, ok := m.(*ast.CallExpr)
					if !ok || nexpr != nil {
						return true
					}
					if isBuiltin(info, c, "cap") && len(c.Args) == 1 {
						if s2, ok := unparen(c.Args[0]).(*ast.SelectorExpr); ok && usedVar(info, s2) == bufF {
							nexpr = s2.X
						}
					} else if f := calleeOf(info, c); f != nil && recvNamed(f) == node {
						if s2, ok := unparen(c.Fun).(*ast.SelectorExpr); ok {
							nexpr = s2.X
						}
					}
					return true
				})
				if nexpr == nil {
					r.Fail(rule, key, w.Pos(as.Pos()), "a non-zero store to outputBuffer.len measures an owned node", "`"+nodeString(as)+"` does not measure a node (cap(N.buf) or N.Cap()): the free space it announces cannot be tied to an owned buffer")
					continue
				}
				nstr := types.ExprString(nexpr)
				nvar := usedVar(info, nexpr)
				why := ""
				// (iii) inside `if N.recyclable()`
				for _, g := range guardConds(par, as) {
					if g.cond == nil || g.neg {
						continue
					}
					for _, p := range splitOp(g.cond, token.LAND) {
						if isOwnTest(p, nstr, false) {
							why = "inside the ownership test of " + nstr
						}
					}
				}
				// (i) fresh node
				if why == "" && nvar != nil && !nvar.IsField() {
					ast.Inspect(fi.Decl.Body, func(m ast.Node) bool {
						if d, ok := m.(*ast.AssignStmt); ok && len(d.Lhs) == 1 && len(d.Rhs) == 1 && d.Pos() < as.Pos() && usedVar(info, d.Lhs[0]) == nvar {
							if c, ok := unparen(d.Rhs[0]).(*ast.CallExpr); ok {
								if f := calleeOf(info, c); f != nil && fresh[f] {
									why = nstr + " comes from " + f.Name()
								}
							}
						}
						return true
					})
				}
				for _, s := range precedingStmts(par, as) {
					if why != "" {
						break
					}
					switch x := s.(type) {
					case *ast.ExprStmt:
						// (ii) Conn.Malloc on the tail directly before
						if c, ok := x.X.(*ast.CallExpr); ok {
							if f := calleeOf(info, c); f != nil && f == malloc.Obj && strings.HasSuffix(nstr, ".write") {
								why = "follows Malloc on the tail node"
							}
						}
					case *ast.IfStmt:
						// (iv) `if !N.recyclable() || … { …; N = … }`
						if nvar == nil || nvar.IsField() {
							continue
						}
						neg := false
						for _, p := range splitOp(x.Cond, token.LOR) {
							if isOwnTest(p, nstr, true) {
								neg = true
							}
						}
						assigns := false
						ast.Inspect(x.Body, func(m ast.Node) bool {
							if d, ok := m.(*ast.AssignStmt); ok {
								for _, dl := range d.Lhs {
									if usedVar(info, dl) == nvar {
										assigns = true
									}
								}
							}
							return true
						})
						if neg && assigns {
							why = "a node failing the ownership test was replaced before"
						}
					}
				}
				if why != "" {
					r.OKd(rule, key, w.Pos(as.Pos()), "a non-zero store to outputBuffer.len measures an owned node", why)
				} else {
					r.Fail(rule, key, w.Pos(as.Pos()), "a non-zero store to outputBuffer.len measures an owned node",
						"`"+nodeString(as)+"` announces the spare capacity of "+nstr+" without establishing that the node is not a caller-owned (read-only) buffer: after a large body was written with WriteBinary, the next Malloc returns memory inside the caller's body slice and the next response's headers overwrite its body")
				}
			}
			return true
		})
	}
	r.Floor(rule, n, 3, "non-zero stores to outputBuffer.len")
}

// C08.openerr — a failed os call on a served path ends the attempt.
func c08OpenErr(e *Env) {
	const rule = "C08.openerr"
	w, r := e.W, e.R
	r.Explainf("C08.openerr: the file handler answers 404 (or the plain file) exactly when the file system says so, and it learns that from the error results of os.Open, os.Stat, os.Create and File.Stat/Readdir. In package app, after every `v, err := <os call>` whose value is used, the first later statement of the block that mentions err or v is a test of err alone — `if err != nil { … return/panic }` — so no path continues with a value of a failed call or treats a failed call like a successful one. Folding the error into another condition (`if err == nil && a != b { … }`) lets the failure fall through to the success path: the leftover compressed copy of a deleted file is served with 200. Existence probes that discard the value (`if _, err := os.Stat(p); err == nil`) are not in scope.")
	n := 0
	for _, fi := range declaredNonTest(w) {
		if fi.Decl.Body == nil || w.RelPkg(fi.Obj.Pkg()) != "pkg/app" {
			continue
		}
		info := fi.Pkg.TypesInfo
		fname := w.FuncName(fi.Obj)
		errT := types.Universe.Lookup("error").Type()
		k := 0
		var visit func(list []ast.Stmt)
		check := func(list []ast.Stmt, i int) {
			as, ok := list[i].(*ast.AssignStmt)
			if !ok || len(as.Rhs) != 1 || len(as.Lhs) != 2 {
				return
			}
			c, ok := unparen(as.Rhs[0]).(*ast.CallExpr)
			if !ok {
				return
			}
			f := calleeOf(info, c)
			if f == nil || f.Pkg() == nil || f.Pkg().Path() != "os" {
				return
			}
			switch f.Name() {
			case "Open", "Stat", "Lstat", "Create", "OpenFile", "Readdir", "ReadDir":
			default:
				return
			}
			val, ev := usedVar(info, as.Lhs[0]), usedVar(info, as.Lhs[1])
			if id, ok := as.Lhs[0].(*ast.Ident); ok && val == nil {
				val, _ = info.Defs[id].(*types.Var)
			}
			if id, ok := as.Lhs[1].(*ast.Ident); ok && ev == nil {
				ev, _ = info.Defs[id].(*types.Var)
			}
			if val == nil || ev == nil || !types.Identical(ev.Type(), errT) {
				return
			}
			k++
			n++
			key := fmt.Sprintf("%s:%s#%d", fname, f.Name(), k)
			ok2, what := false, "no later statement of the block tests the error"
			for j := i + 1; j < len(list); j++ {
				if !refersTo(info, list[j], ev) && !refersTo(info, list[j], val) {
					continue
				}
				what = "`" + firstLine(nodeString(list[j])) + "`"
				if is, isIf := list[j].(*ast.IfStmt); isIf && is.Init == nil {
					if isErr, isNil := errNilCond(info, is.Cond, true); isErr && !isNil && usedVar(info, unparen(is.Cond).(*ast.BinaryExpr).X) == ev && blockLeaves(is.Body) {
						ok2 = true
					}
				}
				break
			}
			r.Check(ok2, rule, key, w.Pos(as.Pos()), "the error of an os call is tested alone, and the failure branch leaves, before the result is used",
				"after `"+nodeString(as)+"` the next statement that mentions the results is "+what+", not `if "+ev.Name()+" != nil { … return }`: a failed "+f.Name()+" (file deleted, no permission) continues on the success path")
		}
		visit = func(list []ast.Stmt) {
			for i := range list {
				check(list, i)
			}
		}
		ast.Inspect(fi.Decl.Body, func(nd ast.Node) bool {
			switch x := nd.(type) {
			case *ast.BlockStmt:
				visit(x.List)
			case *ast.CaseClause:
				visit(x.Body)
			}
			return true
		})
	}
	r.Floor(rule, n, 8, "os calls whose value and error are both kept in package app")
}

func firstLine(s string) string {
	if i := strings.IndexByte(s, '\n'); i >= 0 {
		return s[:i] + " …"
	}
	return s
}

// blockLeaves: the block ends in return or panic (or, nested, in an if/else that does).
func blockLeaves(b *ast.BlockStmt) bool {
	if b == nil || len(b.List) == 0 {
		return false
	}
	switch x := b.List[len(b.List)-1].(type) {
	case *ast.ReturnStmt:
		return true
	case *ast.ExprStmt:
		if c, ok := x.X.(*ast.CallExpr); ok {
			if id, ok := c.Fun.(*ast.Ident); ok && id.Name == "panic" {
				return true
			}
		}
	case *ast.BranchStmt:
		return x.Tok == token.CONTINUE || x.Tok == token.BREAK || x.Tok == token.GOTO
	}
	return false
}

// C12.groupfresh — a derived group owns its middleware slice.
func c12GroupFresh(e *Env) {
	const rule = "C12.groupfresh"
	w, r := e.W, e.R
	r.Explainf("C12.groupfresh: RouterGroup.Use appends in place (`group.Handlers = append(group.Handlers, …)`), so two groups whose Handlers share a backing array with spare capacity overwrite each other's middleware: a route then runs a sibling group's middleware, or one attached to the parent after the child was derived. Every RouterGroup value built in package route therefore gets a Handlers slice of its own: in each composite literal of RouterGroup the Handlers element (followed through the local variable it may be held in, all assignments) is nil, a fresh make/literal, or the result of a chain builder (a function returning a HandlersChain it allocates with make — C12.assembly checks that it copies) — never a read of another group's Handlers field, a slice of it, or an append to it.")
	rg := w.Named("pkg/route", "RouterGroup")
	hc := w.Named("pkg/app", "HandlersChain")
	if rg == nil || hc == nil {
		r.Anchor(rule, "route.RouterGroup / app.HandlersChain")
		return
	}
	builder := map[*types.Func]bool{}
	for _, fi := range declaredNonTest(w) {
		if fi.Pkg.PkgPath != pkgRoute || fi.Decl.Body == nil {
			continue
		}
		sig := fi.Obj.Type().(*types.Signature)
		if sig.Results().Len() != 1 || !types.Identical(sig.Results().At(0).Type(), hc) {
			continue
		}
		info := fi.Pkg.TypesInfo
		ast.Inspect(fi.Decl.Body, func(n ast.Node) bool {
			if c, ok := n.(*ast.CallExpr); ok && isBuiltin(info, c, "make") {
				builder[fi.Obj] = true
			}
			return true
		})
	}
	n, nBuilt := 0, 0
	for _, fi := range declaredNonTest(w) {
		if fi.Pkg.PkgPath != pkgRoute || fi.Decl.Body == nil {
			continue
		}
		info := fi.Pkg.TypesInfo
		fname := w.FuncName(fi.Obj)
		k := 0
		var classify func(x ast.Expr, depth int) (ok bool, built bool, why string)
		classify = func(x ast.Expr, depth int) (bool, bool, string) {
			x = unparen(x)
			if tv, has := info.Types[x]; has && tv.IsNil() {
				return true, false, ""
			}
			switch y := x.(type) {
			case *ast.CompositeLit:
				return true, false, ""
			case *ast.CallExpr:
				if isBuiltin(info, y, "make") {
					return true, false, ""
				}
				if f := calleeOf(info, y); f != nil && builder[f] {
					return true, true, ""
				}
				if tv, has := info.Types[y.Fun]; has && tv.IsType() && len(y.Args) == 1 {
					return classify(y.Args[0], depth)
				}
				return false, false, "`" + types.ExprString(x) + "` is not a chain builder"
			case *ast.Ident:
				v := usedVar(info, y)
				if v == nil || v.IsField() || isPkgLevel(v) || depth == 0 {
					return false, false, "`" + y.Name + "` cannot be followed to a fresh slice"
				}
				allOK, anyBuilt, seen, why := true, false, 0, ""
				ast.Inspect(fi.Decl.Body, func(m ast.Node) bool {
					switch d := m.(type) {
					case *ast.AssignStmt:
						for i, l := range d.Lhs {
							id, isID := l.(*ast.Ident)
							if !isID || !(info.Defs[id] == types.Object(v) || info.Uses[id] == types.Object(v)) {
								continue
							}
							seen++
							if len(d.Rhs) != len(d.Lhs) {
								allOK, why = false, "`"+nodeString(d)+"`"
								continue
							}
							o, b, wy := classify(d.Rhs[i], depth-1)
							if !o {
								allOK, why = false, wy
							}
							anyBuilt = anyBuilt || b
						}
					case *ast.ValueSpec:
						for i, id := range d.Names {
							if info.Defs[id] == types.Object(v) && i < len(d.Values) {
								seen++
								o, b, wy := classify(d.Values[i], depth-1)
								if !o {
									allOK, why = false, wy
								}
								anyBuilt = anyBuilt || b
							}
						}
					}
					return true
				})
				if seen == 0 {
					return false, false, "`" + y.Name + "` is a parameter or captured value"
				}
				return allOK, anyBuilt, why
			case *ast.SelectorExpr:
				return false, false, "`" + types.ExprString(x) + "` is the slice another group keeps appending to"
			}
			return false, false, "`" + types.ExprString(x) + "` may share its backing array"
		}
		ast.Inspect(fi.Decl.Body, func(nd ast.Node) bool {
			cl, ok := nd.(*ast.CompositeLit)
			if !ok {
				return true
			}
			t := info.TypeOf(cl)
			if t == nil || !types.Identical(t, rg) {
				return true
			}
			for _, el := range cl.Elts {
				kv, ok := el.(*ast.KeyValueExpr)
				if !ok {
					continue
				}
				if id, ok := kv.Key.(*ast.Ident); !ok || id.Name != "Handlers" {
					continue
				}
				k++
				n++
				good, built, why := classify(kv.Value, 2)
				if built {
					nBuilt++
				}
				r.Check(good, rule, fmt.Sprintf("%s:RouterGroup-literal#%d:Handlers", fname, k), w.Pos(kv.Pos()), "a new group's Handlers is nil, freshly allocated or the result of a chain builder",
					"in `Handlers: "+types.ExprString(kv.Value)+"` "+why+": the new group shares the backing array, and a later Use() on either group overwrites the other's middleware when the array has spare capacity")
			}
			return true
		})
	}
	r.Floor(rule, nBuilt, 1, "RouterGroup literals whose Handlers comes from a chain builder")
}

// C13.cursors — after the consumed head node was recycled, no cursor is left on it.
func c13Cursors(e *Env) {
	const rule = "C13.cursors"
	w, r := e.W, e.R
	r.Explainf("C13.cursors: standard.Conn.Release gives the consumed head node back to the node pool. Outside the loop `for head != read` (which only releases nodes strictly before the read cursor) the released node may be the one `read` still points to — everything was consumed, and a read that failed with a timeout right after appending an empty tail node leaves head == read on the old node. On every control-flow path from such a `node.Release()` to a return of Conn.Release, both cursors `inputBuffer.head` and `inputBuffer.read` are assigned afterwards (directly, or by a helper that assigns them on all of its paths) — go/cfg, reachability from the release that avoids the assignment. A path that leaves `read` untouched makes the next Peek/Skip/Read walk a recycled node: nil dereference, or another connection's bytes.")
	rel := w.Func("pkg/network/standard", "Conn", "Release")
	headF := w.Field("pkg/network/standard", "linkBuffer", "head")
	readF := w.Field("pkg/network/standard", "linkBuffer", "read")
	inF := w.Field("pkg/network/standard", "Conn", "inputBuffer")
	node := w.Named("pkg/network/standard", "linkBufferNode")
	if rel == nil || headF == nil || readF == nil || inF == nil || node == nil {
		r.Anchor(rule, "standard.Conn.Release / Conn.inputBuffer / linkBuffer.{head,read}")
		return
	}
	info := rel.Pkg.TypesInfo
	fname := w.FuncName(rel.Obj)
	par := parents(rel.Decl)
	// cursor expressions are judged inside Conn.Release and its same-package helpers: aliases are
	// looked up in every function body of the package
	enclosingDecl := map[*types.Info]ast.Node{}
	{
		file := &ast.BlockStmt{}
		for _, fi := range declaredNonTest(w) {
			if fi.Pkg == rel.Pkg && fi.Decl.Body != nil {
				file.List = append(file.List, fi.Decl.Body)
			}
		}
		enclosingDecl[rel.Pkg.TypesInfo] = file
	}
	isCursor := func(inf *types.Info, x ast.Expr, f *types.Var) bool {
		se, ok := unparen(x).(*ast.SelectorExpr)
		if !ok || usedVar(inf, se) != f {
			return false
		}
		// the field itself or a local alias of the input buffer (`in := c.inputBuffer`)
		var body ast.Node
		if fd, ok := enclosingDecl[inf]; ok {
			body = fd
		}
		return baseIsField(inf, body, se.X, inF)
	}
	// mustAssign(fi, f): every path through fi's body assigns cursor f
	var assignsNode func(inf *types.Info, nd ast.Node, f *types.Var, depth int) bool
	mustAssign := func(fi *core.FuncInfo, f *types.Var, depth int) bool {
		if fi == nil || fi.Decl.Body == nil {
			return false
		}
		inf := fi.Pkg.TypesInfo
		g := cfg.New(fi.Decl.Body, func(*ast.CallExpr) bool { return true })
		seen := map[*cfg.Block]bool{}
		var walk func(b *cfg.Block, from int) bool // true: an exit is reachable without assignment
		walk = func(b *cfg.Block, from int) bool {
			for i := from; i < len(b.Nodes); i++ {
				if assignsNode(inf, b.Nodes[i], f, depth) {
					return false
				}
			}
			if len(b.Succs) == 0 {
				return true
			}
			for _, s := range b.Succs {
				if !seen[s] {
					seen[s] = true
					if walk(s, 0) {
						return true
					}
				}
			}
			return false
		}
		if len(g.Blocks) == 0 {
			return false
		}
		return !walk(g.Blocks[0], 0)
	}
	assignsNode = func(inf *types.Info, nd ast.Node, f *types.Var, depth int) bool {
		switch x := nd.(type) {
		case *ast.AssignStmt:
			for _, l := range x.Lhs {
				if isCursor(inf, l, f) {
					return true
				}
			}
		case *ast.ExprStmt:
			if c, ok := x.X.(*ast.CallExpr); ok && depth > 0 {
				if fn := calleeOf(inf, c); fn != nil && w.InModule(fn.Pkg()) {
					if hf := w.DeclOf(fn); hf != nil && hf.Pkg == rel.Pkg {
						return mustAssign(hf, f, depth-1)
					}
				}
			}
		}
		return false
	}
	g := cfg.New(rel.Decl.Body, func(*ast.CallExpr) bool { return true })
	n := 0
	for _, b := range g.Blocks {
		for i, nd := range b.Nodes {
			es, ok := nd.(*ast.ExprStmt)
			if !ok {
				continue
			}
			c, ok := es.X.(*ast.CallExpr)
			if !ok {
				continue
			}
			fn := calleeOf(info, c)
			se, isSel := unparen(c.Fun).(*ast.SelectorExpr)
			if fn == nil || !isSel || fn.Name() != "Release" || recvNamed(fn) != node {
				continue
			}
			// does the released node alias the head cursor?
			alias := isCursor(info, se.X, headF)
			if v := usedVar(info, se.X); v != nil && !v.IsField() {
				ast.Inspect(rel.Decl.Body, func(m ast.Node) bool {
					if d, ok := m.(*ast.AssignStmt); ok && len(d.Lhs) == 1 && len(d.Rhs) == 1 && usedVar(info, d.Lhs[0]) == v && d.Pos() < es.Pos() && isCursor(info, d.Rhs[0], headF) {
						if id, isID := d.Lhs[0].(*ast.Ident); isID && info.Defs[id] != nil {
							// same block scope as the release
							if within(es, par[d]) {
								alias = true
							}
						}
					}
					return true
				})
			}
			if !alias {
				continue
			}
			// inside `for head != read`?
			if fs, ok := enclosing(par, es, func(m ast.Node) bool { _, ok := m.(*ast.ForStmt); return ok }).(*ast.ForStmt); ok && fs.Cond != nil {
				if be, ok := unparen(fs.Cond).(*ast.BinaryExpr); ok && be.Op == token.NEQ &&
					(isCursor(info, be.X, headF) && isCursor(info, be.Y, readF) || isCursor(info, be.X, readF) && isCursor(info, be.Y, headF)) {
					continue
				}
			}
			n++
			for _, f := range []*types.Var{headF, readF} {
				seen := map[*cfg.Block]bool{}
				var walk func(b *cfg.Block, from int) bool
				walk = func(b *cfg.Block, from int) bool {
					for j := from; j < len(b.Nodes); j++ {
						if assignsNode(info, b.Nodes[j], f, 1) {
							return false
						}
					}
					if len(b.Succs) == 0 {
						return true
					}
					for _, s := range b.Succs {
						if !seen[s] {
							seen[s] = true
							if walk(s, 0) {
								return true
							}
						}
					}
					return false
				}
				escapes := walk(b, i+1)
				r.Check(!escapes, rule, fmt.Sprintf("%s:release#%d:%s", fname, n, f.Name()), w.Pos(es.Pos()), "after the head node was recycled, the cursor is assigned on every path to the return",
					"a path from `"+nodeString(es)+"` reaches the end of "+fname+" without assigning inputBuffer."+f.Name()+" (an assignment inside one branch of a helper does not count): the cursor can still point at the node that was just returned to the pool")
			}
		}
	}
	r.Floor(rule, n, 1, "releases of the head node outside the head != read loop in Conn.Release")
}

// C17.deepcopy — copying an argument list copies the bytes, not the slots.
func c17DeepCopy(e *Env) {
	const rule = "C17.deepcopy"
	w, r := e.W, e.R
	r.Explainf("C17.deepcopy: Args.CopyTo, URI.CopyTo, Request.CopyTo and the header/cookie copies go through one function that copies a []argsKV into another (two []argsKV parameters, the one it returns is the destination). Each argsKV holds two byte slices, so copying a slot as a value (`copy(tmp, src)`, `append(dst, src...)`, `dst[i] = src[i]`, `*d = *s`) or assigning a field (`d.key = s.key`) makes the copy share the source's bytes: RequestContext.Copy() handed to a goroutine then shows the NEXT request's query values once the recycled source is rewritten. In that function the source parameter is only measured (len), indexed or ranged over; its elements are only reached through field selection; and a slice-typed field of a source element only appears as the spread operand of append (`append(d.key[:0], s.key...)`) or under len.")
	kv := w.Named("pkg/protocol", "argsKV")
	if kv == nil {
		r.Anchor(rule, "protocol.argsKV")
		return
	}
	isKVs := func(t types.Type) bool {
		s, ok := t.Underlying().(*types.Slice)
		return ok && types.Identical(s.Elem(), kv)
	}
	n, nf := 0, 0
	for _, fi := range declaredNonTest(w) {
		if fi.Decl.Body == nil || w.RelPkg(fi.Obj.Pkg()) != "pkg/protocol" {
			continue
		}
		sig := fi.Obj.Type().(*types.Signature)
		if sig.Recv() != nil || sig.Params().Len() != 2 || sig.Results().Len() != 1 || !isKVs(sig.Params().At(0).Type()) || !isKVs(sig.Params().At(1).Type()) || !isKVs(sig.Results().At(0).Type()) {
			continue
		}
		info := fi.Pkg.TypesInfo
		fname := w.FuncName(fi.Obj)
		// destination = the parameter that is returned
		var dst, src *types.Var
		ast.Inspect(fi.Decl.Body, func(nd ast.Node) bool {
			if rs, ok := nd.(*ast.ReturnStmt); ok && len(rs.Results) == 1 {
				if v := usedVar(info, rs.Results[0]); v != nil && (v == sig.Params().At(0) || v == sig.Params().At(1)) {
					dst = v
				}
			}
			return true
		})
		if dst == nil {
			continue
		}
		src = sig.Params().At(0)
		if src == dst {
			src = sig.Params().At(1)
		}
		nf++
		par := parents(fi.Decl)
		// locals derived from the source: &src[i], src[i], range values
		derived := map[*types.Var]bool{}
		var rootsInSrc func(x ast.Expr) bool
		rootsInSrc = func(x ast.Expr) bool {
			switch y := unparen(x).(type) {
			case *ast.Ident:
				v := usedVar(info, y)
				return v != nil && (v == src || derived[v])
			case *ast.IndexExpr:
				return rootsInSrc(y.X)
			case *ast.SliceExpr:
				return rootsInSrc(y.X)
			case *ast.StarExpr:
				return rootsInSrc(y.X)
			case *ast.UnaryExpr:
				return y.Op == token.AND && rootsInSrc(y.X)
			case *ast.SelectorExpr:
				return rootsInSrc(y.X)
			}
			return false
		}
		for changed := true; changed; {
			changed = false
			ast.Inspect(fi.Decl.Body, func(nd ast.Node) bool {
				switch d := nd.(type) {
				case *ast.AssignStmt:
					for i, l := range d.Lhs {
						id, ok := l.(*ast.Ident)
						if !ok || i >= len(d.Rhs) || len(d.Lhs) != len(d.Rhs) {
							continue
						}
						v, _ := info.Defs[id].(*types.Var)
						if v == nil {
							v, _ = info.Uses[id].(*types.Var)
						}
						if v == nil || v == dst || derived[v] {
							continue
						}
						t := v.Type()
						if p, ok := t.(*types.Pointer); ok {
							t = p.Elem()
						}
						if types.Identical(t, kv) && rootsInSrc(d.Rhs[i]) {
							derived[v], changed = true, true
						}
					}
				case *ast.RangeStmt:
					if rootsInSrc(d.X) && d.Value != nil {
						if id, ok := d.Value.(*ast.Ident); ok {
							if v, _ := info.Defs[id].(*types.Var); v != nil && !derived[v] {
								derived[v], changed = true, true
							}
						}
					}
				}
				return true
			})
		}
		k := 0
		bad := func(x ast.Node, what string) {
			k++
			r.Fail(rule, fmt.Sprintf("%s:shares#%d", fname, k), w.Pos(x.Pos()), "the source list is copied byte by byte", what+": the destination shares key/value bytes with the source, and rewriting the (recycled) source changes the copy")
		}
		ast.Inspect(fi.Decl.Body, func(nd ast.Node) bool {
			x, ok := nd.(ast.Expr)
			if !ok {
				return true
			}
			switch y := x.(type) {
			case *ast.Ident:
				v := usedVar(info, y)
				if v == nil || !(v == src || derived[v]) {
					return true
				}
				if _, isDef := info.Defs[y]; isDef && info.Defs[y] != nil {
					return true
				}
				n++
				p := par[y]
				for {
					if pe, ok := p.(*ast.ParenExpr); ok {
						p = par[pe]
						continue
					}
					break
				}
				switch q := p.(type) {
				case *ast.IndexExpr:
					if q.X == ast.Expr(y) && v == src {
						// element: must be selected from or have its address taken / bound to a derived local
						pp := par[q]
						switch z := pp.(type) {
						case *ast.SelectorExpr:
							return true
						case *ast.UnaryExpr:
							if z.Op == token.AND {
								if as, ok := par[z].(*ast.AssignStmt); ok {
									for _, l := range as.Lhs {
										if lv := usedVar(info, l); lv != nil && derived[lv] {
											return true
										}
										if id, ok := l.(*ast.Ident); ok {
											if dv, _ := info.Defs[id].(*types.Var); dv != nil && derived[dv] {
												return true
											}
										}
									}
								}
							}
						case *ast.AssignStmt:
							for _, l := range z.Lhs {
								if id, ok := l.(*ast.Ident); ok {
									if dv, _ := info.Defs[id].(*types.Var); dv != nil && derived[dv] {
										return true
									}
								}
							}
						}
						bad(q, "`"+firstLine(nodeString(pp))+"` uses the source element `"+types.ExprString(q)+"` as a whole value")
						return true
					}
					if q.Index == ast.Expr(y) {
						return true
					}
				case *ast.CallExpr:
					if isBuiltin(info, q, "len") {
						return true
					}
					bad(q, "`"+types.ExprString(q)+"` passes the source "+y.Name+" as a whole")
					return true
				case *ast.RangeStmt:
					if q.X == ast.Expr(y) {
						return true
					}
				case *ast.SelectorExpr:
					if q.X == ast.Expr(y) {
						return true // field access: judged at the selector
					}
				case *ast.StarExpr:
					if _, ok := par[q].(*ast.SelectorExpr); ok {
						return true
					}
					bad(q, "`"+firstLine(nodeString(par[q]))+"` copies the source slot `"+types.ExprString(q)+"` as a value")
					return true
				case *ast.BinaryExpr:
					return true
				}
				bad(y, "`"+firstLine(nodeString(p))+"` lets the source "+y.Name+" flow as a whole value")
			case *ast.SelectorExpr:
				// slice-typed field of a source element
				if !rootsInSrc(y.X) || !isByteSlice(info.TypeOf(y)) {
					return true
				}
				n++
				p := par[y]
				if pe, ok := p.(*ast.ParenExpr); ok {
					p = par[pe]
				}
				if c, ok := p.(*ast.CallExpr); ok {
					if isBuiltin(info, c, "len") {
						return true
					}
					if isBuiltin(info, c, "append") && c.Ellipsis.IsValid() && len(c.Args) >= 2 && unparen(c.Args[len(c.Args)-1]) == ast.Expr(y) {
						return true
					}
					if isBuiltin(info, c, "copy") && len(c.Args) == 2 && unparen(c.Args[1]) == ast.Expr(y) {
						return true
					}
				}
				bad(y, "`"+firstLine(nodeString(p))+"` uses the source's byte slice `"+types.ExprString(y)+"` itself")
			}
			return true
		})
		if k == 0 {
			r.OK(rule, fname+":byte-copy", w.Pos(fi.Decl.Pos()), fmt.Sprintf("the source list is only measured, indexed and selected from; its byte slices are only spread into append (%d uses)", n))
		}
	}
	r.Floor(rule, nf, 1, "functions copying one []argsKV into another in package protocol")
	r.Floor(rule, n, 3, "uses of the source list examined")
}

// C18.hooksfirst — once shutdown began, no return comes before the hooks were started.
func c18HooksFirst(e *Env) {
	const rule = "C18.hooksfirst"
	w, r := e.W, e.R
	r.Explainf("C18.hooksfirst: Engine.Shutdown moves the status to shutdown (its first two statements, C18.atomic) and must then run the OnShutdown hooks whatever else fails: deregistration from the service registry and the transport's Shutdown can both return errors. Structurally: the statement that starts the hooks (it reaches the function that walks Engine.OnShutdown) and — when the hooks run in a goroutine — the deferred wait for them are unconditional statements of Shutdown's body, and no return statement lies between the status transition and them. An error return placed before them (deregister first, `return err`) skips every hook.")
	sd := w.Func("pkg/route", "Engine", "Shutdown")
	if sd == nil || sd.Decl.Body == nil {
		r.Anchor(rule, "route.Engine.Shutdown")
		return
	}
	info := sd.Pkg.TypesInfo
	fname := w.FuncName(sd.Obj)
	// functions of package route that walk OnShutdown
	walkers := map[*types.Func]bool{}
	for _, fi := range declaredNonTest(w) {
		if fi.Pkg != sd.Pkg || fi.Decl.Body == nil || fi == sd {
			continue
		}
		ast.Inspect(fi.Decl.Body, func(nd ast.Node) bool {
			if se, ok := nd.(*ast.SelectorExpr); ok && se.Sel.Name == "OnShutdown" {
				if v := usedVar(fi.Pkg.TypesInfo, se); v != nil && v.IsField() {
					walkers[fi.Obj] = true
				}
			}
			return true
		})
	}
	reaches := func(nd ast.Node) bool {
		hit := false
		ast.Inspect(nd, func(m ast.Node) bool {
			switch x := m.(type) {
			case *ast.CallExpr:
				if f := calleeOf(info, x); f != nil {
					if walkers[f] {
						hit = true
					} else if hf := w.DeclOf(f); hf != nil && hf.Pkg == sd.Pkg && hf.Decl.Body != nil {
						ast.Inspect(hf.Decl.Body, func(k ast.Node) bool {
							if c2, ok := k.(*ast.CallExpr); ok {
								if f2 := calleeOf(hf.Pkg.TypesInfo, c2); f2 != nil && walkers[f2] {
									hit = true
								}
							}
							return true
						})
					}
				}
			case *ast.SelectorExpr:
				if x.Sel.Name == "OnShutdown" {
					if v := usedVar(info, x); v != nil && v.IsField() {
						hit = true
					}
				}
			}
			return true
		})
		return hit
	}
	var start ast.Stmt
	var wait ast.Stmt
	async := false
	for _, s := range sd.Decl.Body.List {
		if start == nil && reaches(s) {
			if _, isDefer := s.(*ast.DeferStmt); !isDefer {
				start = s
				_, async = s.(*ast.GoStmt)
				continue
			}
		}
		if d, ok := s.(*ast.DeferStmt); ok && start != nil && wait == nil {
			recv := false
			hasRecv := func(nd ast.Node) {
				ast.Inspect(nd, func(m ast.Node) bool {
					if u, ok := m.(*ast.UnaryExpr); ok && u.Op == token.ARROW {
						recv = true
					}
					return true
				})
			}
			hasRecv(d)
			// or a deferred same-package helper that does the receive
			if f := calleeOf(info, d.Call); f != nil && !recv {
				if hf := w.DeclOf(f); hf != nil && hf.Pkg == sd.Pkg && hf.Decl.Body != nil {
					hasRecv(hf.Decl.Body)
				}
			}
			if recv {
				wait = d
			}
		}
	}
	if start == nil {
		r.Fail(rule, fname+":hooks-start", w.Pos(sd.Decl.Pos()), "the shutdown hooks are started by an unconditional statement of Shutdown", "no top-level statement of "+fname+" reaches the function that walks Engine.OnShutdown: the hooks are started conditionally or not at all")
		return
	}
	limit := start.End()
	if async {
		if wait == nil {
			r.Fail(rule, fname+":hooks-wait", w.Pos(start.Pos()), "the hooks started in a goroutine are awaited by a deferred receive", "the hooks run in a goroutine and no top-level defer after it receives from a channel: Shutdown returns while hooks are still running")
		} else {
			r.OK(rule, fname+":hooks-wait", w.Pos(wait.Pos()), "the hooks started in a goroutine are awaited by a deferred receive")
			limit = wait.End()
		}
	}
	// the status transition: the first two statements
	from := sd.Decl.Body.Pos()
	if len(sd.Decl.Body.List) >= 2 {
		from = sd.Decl.Body.List[1].End()
	}
	par := parents(sd.Decl)
	k := 0
	ast.Inspect(sd.Decl.Body, func(nd ast.Node) bool {
		rs, ok := nd.(*ast.ReturnStmt)
		if !ok || inFuncLit(par, rs) || rs.Pos() < from || rs.Pos() > limit {
			return true
		}
		k++
		r.Fail(rule, fmt.Sprintf("%s:early-return#%d", fname, k), w.Pos(rs.Pos()), "no return between the status transition and the start of the hooks",
			"`"+nodeString(rs)+"` leaves Shutdown after the engine was marked as shutting down and before the OnShutdown hooks were started (and their wait installed): on this path no hook runs")
		return true
	})
	if k == 0 {
		r.OK(rule, fname+":hooks-first", w.Pos(start.Pos()), "no return between the status transition and the start of the hooks")
	}
}

// C14.clamp — a body stream of declared length never fills the caller's buffer beyond it.
func c14Clamp(e *Env) {
	const rule = "C14.clamp"
	w, r := e.W, e.R
	r.Explainf("C14.clamp: bodyStream.Read serves a body of declared length from two sources, the prefetched bytes and the connection. The prefetched part can hold MORE than the declared length (when the length exceeds the body limit the prefetch takes whatever is buffered, including a pipelined request — known finding K1), so every fill of the caller's buffer outside the chunked branch must be bounded by `contentLength − offset`: the destination is a slice local cut by `if … len(s) > R { s = s[:R] }`, or its high bound uses an int local clamped by `if … m > R { m = R }`, or (for copy) the source came from a read of such a clamped size — with R the expression `contentLength − offset` or a local holding it. An unclamped fill makes offset pass contentLength: the size of the next read from the wire goes negative (slice bounds out of range — a panic the peer controls) or the handler receives the next request as body bytes.")
	bs := w.Named("pkg/protocol/http1/ext", "bodyStream")
	rd := w.Func("pkg/protocol/http1/ext", "bodyStream", "Read")
	clF := w.Field("pkg/protocol/http1/ext", "bodyStream", "contentLength")
	offF := w.Field("pkg/protocol/http1/ext", "bodyStream", "offset")
	if bs == nil || rd == nil || clF == nil || offF == nil || rd.Decl.Body == nil {
		r.Anchor(rule, "ext.bodyStream.Read / bodyStream.{contentLength,offset}")
		return
	}
	info := rd.Pkg.TypesInfo
	fname := w.FuncName(rd.Obj)
	sig := rd.Obj.Type().(*types.Signature)
	if sig.Params().Len() != 1 {
		r.Anchor(rule, fname+"(p []byte)")
		return
	}
	pvar := sig.Params().At(0)
	par := parents(rd.Decl)
	isRest := func(x ast.Expr) bool {
		be, ok := unparen(x).(*ast.BinaryExpr)
		return ok && be.Op == token.SUB && usedVar(info, be.X) == clF && usedVar(info, be.Y) == offF
	}
	// locals holding contentLength − offset
	restVar := map[*types.Var]bool{}
	ast.Inspect(rd.Decl.Body, func(nd ast.Node) bool {
		if as, ok := nd.(*ast.AssignStmt); ok && len(as.Lhs) == 1 && len(as.Rhs) == 1 && isRest(as.Rhs[0]) {
			if id, ok := as.Lhs[0].(*ast.Ident); ok {
				if v, _ := info.Defs[id].(*types.Var); v != nil {
					restVar[v] = true
				}
			}
		}
		return true
	})
	isR := func(x ast.Expr) bool {
		if isRest(x) {
			return true
		}
		v := usedVar(info, x)
		return v != nil && restVar[v]
	}
	// clamp statements
	clampedInt := map[*types.Var]token.Pos{}
	clampedSlice := map[*types.Var]token.Pos{}
	ast.Inspect(rd.Decl.Body, func(nd ast.Node) bool {
		is, ok := nd.(*ast.IfStmt)
		if !ok || len(is.Body.List) != 1 {
			return true
		}
		as, ok := is.Body.List[0].(*ast.AssignStmt)
		if !ok || len(as.Lhs) != 1 || len(as.Rhs) != 1 {
			return true
		}
		lv := usedVar(info, as.Lhs[0])
		if lv == nil || lv.IsField() {
			return true
		}
		for _, p := range splitOp(is.Cond, token.LAND) {
			be, ok := p.(*ast.BinaryExpr)
			if !ok {
				continue
			}
			big, small := be.X, be.Y
			switch be.Op {
			case token.GTR, token.GEQ:
			case token.LSS, token.LEQ:
				big, small = be.Y, be.X
			default:
				continue
			}
			if !isR(small) {
				continue
			}
			// m > R { m = R }
			if usedVar(info, big) == lv && isR(as.Rhs[0]) {
				clampedInt[lv] = is.End()
			}
			// len(s) > R { s = s[:R] }
			if c, ok := unparen(big).(*ast.CallExpr); ok && isBuiltin(info, c, "len") && len(c.Args) == 1 && usedVar(info, c.Args[0]) == lv {
				if se, ok := unparen(as.Rhs[0]).(*ast.SliceExpr); ok && usedVar(info, se.X) == lv && se.Low == nil && se.High != nil && isR(se.High) {
					clampedSlice[lv] = is.End()
				}
			}
		}
		return true
	})
	rootsInP := func(x ast.Expr) bool {
		for {
			switch y := unparen(x).(type) {
			case *ast.SliceExpr:
				x = y.X
				continue
			case *ast.Ident:
				v := usedVar(info, y)
				if v == pvar {
					return true
				}
				// a local assigned from p
				hit := false
				ast.Inspect(rd.Decl.Body, func(m ast.Node) bool {
					if as, ok := m.(*ast.AssignStmt); ok && len(as.Lhs) == 1 && len(as.Rhs) == 1 && v != nil {
						if id, ok := as.Lhs[0].(*ast.Ident); ok && info.Defs[id] == types.Object(v) && usedVar(info, as.Rhs[0]) == pvar {
							hit = true
						}
					}
					return true
				})
				return hit
			}
			return false
		}
	}
	mentionsClampedInt := func(x ast.Expr, at token.Pos) bool {
		hit := false
		ast.Inspect(x, func(m ast.Node) bool {
			if id, ok := m.(*ast.Ident); ok {
				if v := usedVar(info, id); v != nil {
					if end, ok := clampedInt[v]; ok && end < at {
						hit = true
					}
				}
			}
			return true
		})
		return hit
	}
	n := 0
	ast.Inspect(rd.Decl.Body, func(nd ast.Node) bool {
		c, ok := nd.(*ast.CallExpr)
		if !ok || inFuncLit(par, c) {
			return true
		}
		var dst, src ast.Expr
		if isBuiltin(info, c, "copy") && len(c.Args) == 2 {
			dst, src = c.Args[0], c.Args[1]
		} else if f := calleeOf(info, c); f != nil && f.Name() == "Read" && len(c.Args) == 1 && isByteSlice(info.TypeOf(c.Args[0])) {
			dst = c.Args[0]
		} else {
			return true
		}
		if !rootsInP(dst) {
			return true
		}
		// the chunked branch has its own accounting (C14.chunk*)
		for _, g := range guardConds(par, c) {
			if g.cond == nil || g.neg {
				continue
			}
			if be, ok := unparen(g.cond).(*ast.BinaryExpr); ok && be.Op == token.EQL && usedVar(info, be.X) == clF {
				if v, isC := constInt(info, be.Y); isC && v == -1 {
					return true
				}
			}
		}
		n++
		why := ""
		if v := usedVar(info, dst); v != nil {
			if end, ok := clampedSlice[v]; ok && end < c.Pos() {
				why = "destination " + v.Name() + " was cut to contentLength − offset"
			}
		}
		if se, ok := unparen(dst).(*ast.SliceExpr); ok && why == "" && se.High != nil && mentionsClampedInt(se.High, c.Pos()) {
			why = "high bound uses a size clamped to contentLength − offset"
		}
		if src != nil && why == "" {
			if sv := usedVar(info, src); sv != nil {
				ast.Inspect(rd.Decl.Body, func(m ast.Node) bool {
					if as, ok := m.(*ast.AssignStmt); ok && len(as.Rhs) == 1 && as.Pos() < c.Pos() {
						for _, l := range as.Lhs {
							if usedVar(info, l) == sv {
								if rc, ok := unparen(as.Rhs[0]).(*ast.CallExpr); ok {
									for _, a := range rc.Args {
										if mentionsClampedInt(a, rc.Pos()) {
											why = "source was read with a size clamped to contentLength − offset"
										}
									}
								}
							}
						}
					}
					return true
				})
			}
		}
		key := fmt.Sprintf("%s:fill#%d", fname, n)
		if why != "" {
			r.OKd(rule, key, w.Pos(c.Pos()), "a fill of the caller's buffer is bounded by the rest of the declared length", why)
		} else {
			r.Fail(rule, key, w.Pos(c.Pos()), "a fill of the caller's buffer is bounded by the rest of the declared length",
				"`"+types.ExprString(c)+"` can store more than contentLength − offset bytes: the prefetched part may hold bytes past the declared length, offset then exceeds contentLength and the next read from the wire gets a negative size (slice bounds out of range) or the next request is delivered as body")
		}
		return true
	})
	r.Floor(rule, n, 3, "fills of the caller's buffer in bodyStream.Read outside the chunked branch")
}

// C18.closes — once shutdown began, every way out of Shutdown has shut the transport down.
func c18Closes(e *Env) {
	const rule = "C18.closes"
	w, r := e.W, e.R
	r.Explainf("C18.closes: `no new connection is accepted afterwards` needs the listener closed, and that only happens in the transport's Shutdown. In Engine.Shutdown no return statement after the status transition (its first two statements) comes before the call of the transport's Shutdown: an error return on the way there (a registry that fails to deregister) leaves the engine marked as shutting down with its listener open — connections are still accepted and served, nothing drains them, and a second Shutdown is refused because the status is no longer `running`.")
	sd := w.Func("pkg/route", "Engine", "Shutdown")
	if sd == nil || sd.Decl.Body == nil {
		r.Anchor(rule, "route.Engine.Shutdown")
		return
	}
	info := sd.Pkg.TypesInfo
	fname := w.FuncName(sd.Obj)
	par := parents(sd.Decl)
	var tcall *ast.CallExpr
	ast.Inspect(sd.Decl.Body, func(nd ast.Node) bool {
		if c, ok := nd.(*ast.CallExpr); ok && tcall == nil && !inFuncLit(par, c) {
			if f := calleeOf(info, c); f != nil && f.Name() == "Shutdown" && f.Pkg() != nil && w.RelPkg(f.Pkg()) == "pkg/network" {
				tcall = c
			}
		}
		return true
	})
	if tcall == nil {
		r.Anchor(rule, fname+": call of network.Transporter.Shutdown")
		return
	}
	from := sd.Decl.Body.Pos()
	if len(sd.Decl.Body.List) >= 2 {
		from = sd.Decl.Body.List[1].End()
	}
	k := 0
	ast.Inspect(sd.Decl.Body, func(nd ast.Node) bool {
		rs, ok := nd.(*ast.ReturnStmt)
		if !ok || inFuncLit(par, rs) || rs.Pos() < from || rs.Pos() > tcall.Pos() {
			return true
		}
		k++
		// name the failing step: the call whose outcome guards this return
		step := fmt.Sprintf("#%d", k)
		if is, ok := enclosing(par, rs, func(m ast.Node) bool { _, ok := m.(*ast.IfStmt); return ok }).(*ast.IfStmt); ok {
			ast.Inspect(is, func(m ast.Node) bool {
				if c, ok := m.(*ast.CallExpr); ok && c.Pos() < rs.Pos() && strings.HasPrefix(step, "#") {
					if f := calleeOf(info, c); f != nil && f.Pkg() != nil && !strings.Contains(f.Pkg().Path(), "hlog") {
						step = f.Name()
					}
				}
				return true
			})
		}
		r.Fail(rule, fname+":return-before-transport-shutdown:"+step, w.Pos(rs.Pos()), "no return between the status transition and the transport's Shutdown",
			"`"+nodeString(rs)+"` leaves Shutdown after the engine was marked as shutting down and before `"+types.ExprString(tcall)+"`: the listener stays open — new connections are accepted and served after Shutdown returned, and a second Shutdown reports `not running`")
		return true
	})
	if k == 0 {
		r.OK(rule, fname+":transport-shutdown-on-every-exit", w.Pos(tcall.Pos()), "no return between the status transition and the transport's Shutdown")
	}
}
