package rules

// Role finders for private functions the rules are anchored in. A rule names such a function
// by its current private name; when that name does not resolve (a maintainer renamed it), the
// finder below identifies the function by what it does. A finder must yield exactly one
// candidate, otherwise the anchor stays unresolved and the rule fails closed as before.

import (
	"go/ast"
	"go/types"
	"strings"

	"hzcheck/core"
	"hzcheck/esp"
)

type roleSpec struct {
	rel, recv, name string
	// find returns the candidates among the functions of package rel (with receiver type
	// recv, or package-level when recv is empty)
	is func(w *core.World, fi *core.FuncInfo) bool
}

func callsWhere(fi *core.FuncInfo, pred func(*types.Func, *ast.CallExpr) bool) bool {
	found := false
	ast.Inspect(fi.Decl.Body, func(n ast.Node) bool {
		if c, ok := n.(*ast.CallExpr); ok && !found {
			if f := calleeOf(fi.Pkg.TypesInfo, c); f != nil && pred(f, c) {
				found = true
			}
		}
		return !found
	})
	return found
}

func calledFrom(w *core.World, caller *core.FuncInfo, fi *core.FuncInfo) bool {
	return caller != nil && callsWhere(caller, func(f *types.Func, _ *ast.CallExpr) bool { return f == fi.Obj })
}

func sigString(f *types.Func) string {
	return types.TypeString(f.Type(), func(p *types.Package) string { return p.Name() })
}

var roleTable = []roleSpec{
	// ---- HTTP/1 server
	{"pkg/protocol/http1", "", "writeResponse", func(w *core.World, fi *core.FuncInfo) bool {
		// the package-level function that serialises the response: calls resp.Write
		return callsWhere(fi, func(f *types.Func, _ *ast.CallExpr) bool { return esp.Is(f, pkgResp, "", "Write") })
	}},
	{"pkg/protocol/http1", "", "writeErrorResponse", func(w *core.World, fi *core.FuncInfo) bool {
		// writes a response after forcing Connection: close, choosing the status from an error
		return callsWhere(fi, func(f *types.Func, _ *ast.CallExpr) bool { return esp.Is(f, pkgHTTP1, "", "writeResponse") }) &&
			callsWhere(fi, func(f *types.Func, _ *ast.CallExpr) bool { return f.Name() == "SetConnectionClose" })
	}},
	{"pkg/protocol/http1", "", "defaultErrorHandler", func(w *core.World, fi *core.FuncInfo) bool {
		// the error handler writeErrorResponse falls back to: (ctx, err) with 4xx constants
		sig := fi.Obj.Type().(*types.Signature)
		return sig.Params().Len() == 2 && sig.Results().Len() == 0 && sig.Params().At(1).Type().String() == "error" &&
			strings.HasSuffix(sig.Params().At(0).Type().String(), "app.RequestContext") &&
			callsWhere(fi, func(f *types.Func, _ *ast.CallExpr) bool { return f.Name() == "AbortWithMsg" })
	}},
	// ---- HTTP/1 client pool
	{"pkg/protocol/http1", "HostClient", "closeConn", func(w *core.World, fi *core.FuncInfo) bool {
		// takes a *clientConn, closes the network connection and gives the pooled object back
		sig := fi.Obj.Type().(*types.Signature)
		return sig.Params().Len() == 1 && strings.HasSuffix(sig.Params().At(0).Type().String(), "http1.clientConn") &&
			callsWhere(fi, func(f *types.Func, _ *ast.CallExpr) bool { return f.Name() == "Close" }) &&
			callsWhere(fi, func(f *types.Func, _ *ast.CallExpr) bool { return f.Name() == "releaseClientConn" })
	}},
	{"pkg/protocol/http1", "HostClient", "releaseConn", func(w *core.World, fi *core.FuncInfo) bool {
		// takes a *clientConn and appends it to the idle list (or delivers it to a waiter)
		sig := fi.Obj.Type().(*types.Signature)
		if sig.Params().Len() != 1 || !strings.HasSuffix(sig.Params().At(0).Type().String(), "http1.clientConn") {
			return false
		}
		conns := w.Field("pkg/protocol/http1", "HostClient", "conns")
		found := false
		ast.Inspect(fi.Decl.Body, func(n ast.Node) bool {
			if as, ok := n.(*ast.AssignStmt); ok && len(as.Lhs) == 1 && conns != nil && usedVar(fi.Pkg.TypesInfo, as.Lhs[0]) == conns {
				if c, ok := unparen(as.Rhs[0]).(*ast.CallExpr); ok && isBuiltin(fi.Pkg.TypesInfo, c, "append") {
					found = true
				}
			}
			return true
		})
		return found
	}},
	{"pkg/protocol/http1", "HostClient", "acquireConn", func(w *core.World, fi *core.FuncInfo) bool {
		sig := fi.Obj.Type().(*types.Signature)
		return sig.Results().Len() == 3 && strings.HasSuffix(sig.Results().At(0).Type().String(), "http1.clientConn") && sig.Results().At(2).Type().String() == "error"
	}},
	{"pkg/protocol/http1", "wantConn", "tryDeliver", func(w *core.World, fi *core.FuncInfo) bool {
		sig := fi.Obj.Type().(*types.Signature)
		return sig.Params().Len() == 2 && sig.Results().Len() == 1 && strings.HasSuffix(sig.Params().At(0).Type().String(), "http1.clientConn") && sig.Results().At(0).Type().String() == "bool"
	}},
	{"pkg/protocol/http1", "", "acquireClientConn", func(w *core.World, fi *core.FuncInfo) bool {
		sig := fi.Obj.Type().(*types.Signature)
		return sig.Params().Len() == 1 && sig.Results().Len() == 1 && strings.HasSuffix(sig.Results().At(0).Type().String(), "http1.clientConn")
	}},
	// ---- streamed body
	{"pkg/protocol/http1/ext", "bodyStream", "skipRest", func(w *core.World, fi *core.FuncInfo) bool {
		// the drain: the method of bodyStream that ReleaseBodyStream calls and that returns an error
		sig := fi.Obj.Type().(*types.Signature)
		return sig.Params().Len() == 0 && sig.Results().Len() == 1 && sig.Results().At(0).Type().String() == "error" &&
			calledFrom(w, w.Func("pkg/protocol/http1/ext", "", "ReleaseBodyStream"), fi)
	}},
	// ---- header serialisation / URI
	{"pkg/protocol", "", "appendHeaderLine", func(w *core.World, fi *core.FuncInfo) bool {
		// (dst, key, value []byte) []byte that emits ": " and CRLF
		sig := fi.Obj.Type().(*types.Signature)
		if sig.Params().Len() != 3 || sig.Results().Len() != 1 {
			return false
		}
		colon, crlf := bytestrVar(w, "StrColonSpace"), bytestrVar(w, "StrCRLF")
		return colon != nil && crlf != nil && refersTo(fi.Pkg.TypesInfo, fi.Decl.Body, colon) && refersTo(fi.Pkg.TypesInfo, fi.Decl.Body, crlf)
	}},
	{"pkg/protocol", "", "normalizePath", func(w *core.World, fi *core.FuncInfo) bool {
		// (dst, src []byte) []byte called by URI.parse / SetPathBytes that searches for "/../"
		sig := fi.Obj.Type().(*types.Signature)
		v := bytestrVar(w, "StrSlashDotDotSlash")
		return sig.Params().Len() == 2 && sig.Results().Len() == 1 && v != nil && refersTo(fi.Pkg.TypesInfo, fi.Decl.Body, v)
	}},
	{"pkg/protocol", "", "decodeArgAppendNoPlus", func(w *core.World, fi *core.FuncInfo) bool {
		return calledFrom(w, w.Func("pkg/protocol", "", "normalizePath"), fi) && fi.Obj.Type().(*types.Signature).Params().Len() == 2 &&
			callsWhere(fi, func(f *types.Func, _ *ast.CallExpr) bool { return f.Name() == "IndexByte" })
	}},
	{"pkg/protocol", "", "addLeadingSlash", func(w *core.World, fi *core.FuncInfo) bool {
		// loop-free (dst, src []byte) []byte called by the normaliser that appends the '/' byte
		sig := fi.Obj.Type().(*types.Signature)
		if sig.Params().Len() != 2 || sig.Results().Len() != 1 || !calledFrom(w, w.Func("pkg/protocol", "", "normalizePath"), fi) {
			return false
		}
		info := fi.Pkg.TypesInfo
		slash, loop := false, false
		ast.Inspect(fi.Decl.Body, func(n ast.Node) bool {
			switch x := n.(type) {
			case *ast.ForStmt, *ast.RangeStmt:
				loop = true
			case *ast.CallExpr:
				if isBuiltin(info, x, "append") && len(x.Args) == 2 {
					if c, ok := constInt(info, x.Args[1]); ok && c == '/' {
						slash = true
					}
				}
			}
			return true
		})
		return slash && !loop
	}},
	{"pkg/protocol", "", "decodeArgAppend", func(w *core.World, fi *core.FuncInfo) bool {
		return calledFrom(w, w.Func("pkg/protocol", "argsScanner", "next"), fi) && fi.Obj.Type().(*types.Signature).Params().Len() == 2
	}},
	// ---- buffered connection
	{"pkg/network/standard", "Conn", "releaseCaches", func(w *core.World, fi *core.FuncInfo) bool {
		// no parameters/results; frees every element of the [][]byte field and truncates it
		sig := fi.Obj.Type().(*types.Signature)
		if sig.Params().Len() != 0 || sig.Results().Len() != 0 {
			return false
		}
		trunc := false
		ast.Inspect(fi.Decl.Body, func(n ast.Node) bool {
			if as, ok := n.(*ast.AssignStmt); ok && len(as.Lhs) == 1 {
				if v := usedVar(fi.Pkg.TypesInfo, as.Lhs[0]); v != nil && v.IsField() && v.Type().String() == "[][]byte" {
					trunc = true
				}
			}
			return true
		})
		return trunc && callsWhere(fi, func(f *types.Func, _ *ast.CallExpr) bool { return f.Name() == "free" })
	}},
	// ---- router
	{"pkg/route", "RouterGroup", "combineHandlers", func(w *core.World, fi *core.FuncInfo) bool {
		sig := fi.Obj.Type().(*types.Signature)
		return sig.Params().Len() == 1 && sig.Results().Len() == 1 && strings.HasSuffix(sig.Params().At(0).Type().String(), "app.HandlersChain") && strings.HasSuffix(sig.Results().At(0).Type().String(), "app.HandlersChain")
	}},
	{"pkg/route", "router", "insert", func(w *core.World, fi *core.FuncInfo) bool {
		return callsWhere(fi, func(f *types.Func, _ *ast.CallExpr) bool { return esp.Is(f, Mod+"/pkg/route", "", "newNode") })
	}},
	{"pkg/route", "", "newNode", func(w *core.World, fi *core.FuncInfo) bool {
		sig := fi.Obj.Type().(*types.Signature)
		return sig.Results().Len() == 1 && strings.HasSuffix(sig.Results().At(0).Type().String(), "route.node") && sig.Params().Len() >= 5
	}},
	{"pkg/protocol/http1/ext", "", "appendBodyFixedSize", func(w *core.World, fi *core.FuncInfo) bool {
		// (reader, dst, n) → ([]byte, error): appends exactly n body bytes, called from ReadBody
		sig := fi.Obj.Type().(*types.Signature)
		return sig.Params().Len() == 3 && sig.Results().Len() == 2 && sig.Params().At(2).Type().String() == "int" &&
			calledFrom(w, w.Func("pkg/protocol/http1/ext", "", "ReadBody"), fi) && !strings.Contains(fi.Obj.Name(), "Chunked") && !strings.Contains(fi.Obj.Name(), "Identity")
	}},
	{"pkg/common/utils", "", "bufApp", func(w *core.World, fi *core.FuncInfo) bool {
		// the lazy-buffer append helper CleanPath calls with (&buf, s, w, c)
		return fi.Obj.Type().(*types.Signature).Params().Len() == 4 && calledFrom(w, w.Func("pkg/common/utils", "", "CleanPath"), fi)
	}},
	{"pkg/app", "fsFile", "decReadersCount", func(w *core.World, fi *core.FuncInfo) bool {
		f := w.Field("pkg/app", "fsFile", "readersCount")
		found := false
		ast.Inspect(fi.Decl.Body, func(n ast.Node) bool {
			if x, ok := n.(*ast.IncDecStmt); ok && x.Tok.String() == "--" && f != nil && usedVar(fi.Pkg.TypesInfo, x.X) == f {
				found = true
			}
			return true
		})
		return found && fi.Obj.Type().(*types.Signature).Params().Len() == 0
	}},
	{"pkg/network/standard", "Conn", "peekBuffer", func(w *core.World, fi *core.FuncInfo) bool {
		sig := fi.Obj.Type().(*types.Signature)
		return sig.Params().Len() == 2 && sig.Results().Len() == 0 && calledFrom(w, w.Func("pkg/network/standard", "Conn", "Peek"), fi)
	}},
	{"pkg/network/standard", "transport", "updateActive", func(w *core.World, fi *core.FuncInfo) bool {
		return callsWhere(fi, func(f *types.Func, _ *ast.CallExpr) bool { return f.Name() == "AddInt32" })
	}},
	// ---- buffered connection
	{"pkg/network/standard", "Conn", "fill", func(w *core.World, fi *core.FuncInfo) bool {
		sig := fi.Obj.Type().(*types.Signature)
		return sig.Params().Len() == 1 && sig.Results().Len() == 1 && sig.Results().At(0).Type().String() == "error" &&
			calledFrom(w, w.Func("pkg/network/standard", "Conn", "Peek"), fi)
	}},
}

// fieldRole finds a renamed private field by how the package uses it.
type fieldRole struct {
	rel, typ, name string
	is             func(w *core.World, f *types.Var, uses []fieldUse) bool
}

type fieldUse struct {
	fi   *core.FuncInfo
	node ast.Node // the statement/expression using the field
	kind string   // "inc", "dec", "addr-arg:<callee>", "assign", "read"
}

var fieldRoleTable = []fieldRole{
	{"pkg/app", "fsFile", "readersCount", func(w *core.World, f *types.Var, uses []fieldUse) bool {
		inc, dec := false, false
		for _, u := range uses {
			inc = inc || u.kind == "inc"
			dec = dec || u.kind == "dec"
		}
		return inc && dec
	}},
	{"pkg/network/standard", "transport", "active", func(w *core.World, f *types.Var, uses []fieldUse) bool {
		for _, u := range uses {
			if u.kind == "addr-arg:AddInt32" {
				return true
			}
		}
		return false
	}},
	{"pkg/network/standard", "transport", "ln", func(w *core.World, f *types.Var, uses []fieldUse) bool {
		// the only field holding the listening socket
		return f.Type().String() == "net.Listener"
	}},
	{"pkg/route", "Engine", "allNoRoute", func(w *core.World, f *types.Var, uses []fieldUse) bool {
		// the chain rebuilt from the registered NoRoute handlers: X = combineHandlers(noRoute)
		for _, u := range uses {
			if strings.HasPrefix(u.kind, "assign-call:") && strings.HasSuffix(u.kind, ":noRoute") {
				return true
			}
		}
		return false
	}},
	{"pkg/route", "Engine", "allNoMethod", func(w *core.World, f *types.Var, uses []fieldUse) bool {
		for _, u := range uses {
			if strings.HasPrefix(u.kind, "assign-call:") && strings.HasSuffix(u.kind, ":noMethod") {
				return true
			}
		}
		return false
	}},
	{"pkg/app", "fsFile", "bigFiles", func(w *core.World, f *types.Var, uses []fieldUse) bool {
		// the free list of big-file readers: the only slice of *bigFileReader
		return strings.HasSuffix(f.Type().String(), "[]*"+w.ModPfx+"/pkg/app.bigFileReader")
	}},
	{"pkg/app", "fsFile", "bigFilesLock", func(w *core.World, f *types.Var, uses []fieldUse) bool {
		// the only mutex of fsFile
		return f.Type().String() == "sync.Mutex"
	}},
	{"pkg/network/netpoll", "transporter", "el", func(w *core.World, f *types.Var, uses []fieldUse) bool {
		// the netpoll event loop handle: the only field of an EventLoop type
		return strings.HasSuffix(f.Type().String(), "netpoll.EventLoop")
	}},
	{"pkg/network/standard", "Conn", "caches", func(w *core.World, f *types.Var, uses []fieldUse) bool {
		// the list of pooled buffers a cross-node Peek handed out: the only [][]byte field
		return f.Type().String() == "[][]byte"
	}},
	{"pkg/protocol/http1", "HostClient", "connsCount", func(w *core.World, f *types.Var, uses []fieldUse) bool {
		inc, dec := false, false
		for _, u := range uses {
			inc = inc || u.kind == "inc"
			dec = dec || u.kind == "dec"
		}
		return inc && dec
	}},
}

func installFieldRoles(w *core.World, r *core.Report) {
	if w.FieldAlias == nil {
		w.FieldAlias = map[string]*types.Var{}
	}
	for _, fr := range fieldRoleTable {
		key := fr.rel + "|" + fr.typ + "|" + fr.name
		if w.FieldAlias[key] != nil || w.Field(fr.rel, fr.typ, fr.name) != nil {
			continue
		}
		n := w.Named(fr.rel, fr.typ)
		if n == nil {
			continue
		}
		st, _ := n.Underlying().(*types.Struct)
		if st == nil {
			continue
		}
		uses := map[*types.Var][]fieldUse{}
		for _, fi := range declaredNonTest(w) {
			if fi.Decl.Body == nil || w.RelPkg(fi.Obj.Pkg()) != fr.rel {
				continue
			}
			info := fi.Pkg.TypesInfo
			ast.Inspect(fi.Decl.Body, func(nd ast.Node) bool {
				switch x := nd.(type) {
				case *ast.IncDecStmt:
					if v := usedVar(info, x.X); v != nil && v.IsField() {
						k := "inc"
						if x.Tok.String() == "--" {
							k = "dec"
						}
						uses[v] = append(uses[v], fieldUse{fi, x, k})
					}
				case *ast.AssignStmt:
					// field = callee(…, otherField, …): "assign-call:<callee>:<otherField>"
					if len(x.Lhs) == 1 && len(x.Rhs) == 1 {
						if v := usedVar(info, x.Lhs[0]); v != nil && v.IsField() {
							if c, ok := unparen(x.Rhs[0]).(*ast.CallExpr); ok {
								if f := calleeOf(info, c); f != nil {
									for _, a := range c.Args {
										if av := usedVar(info, a); av != nil && av.IsField() {
											uses[v] = append(uses[v], fieldUse{fi, x, "assign-call:" + f.Name() + ":" + av.Name()})
										}
									}
								}
							}
						}
					}
				case *ast.CallExpr:
					if f := calleeOf(info, x); f != nil {
						for _, a := range x.Args {
							if u, ok := unparen(a).(*ast.UnaryExpr); ok && u.Op.String() == "&" {
								if v := usedVar(info, u.X); v != nil && v.IsField() {
									uses[v] = append(uses[v], fieldUse{fi, x, "addr-arg:" + f.Name()})
								}
							}
						}
					}
				}
				return true
			})
		}
		var cands []*types.Var
		for i := 0; i < st.NumFields(); i++ {
			if f := st.Field(i); fr.is(w, f, uses[f]) {
				cands = append(cands, f)
			}
		}
		if len(cands) == 1 {
			w.FieldAlias[key] = cands[0]
			r.Unit("role: field %s.%s.%s is no longer declared; %s plays that role (found by how it is used)", fr.rel, fr.typ, fr.name, cands[0].Name())
		}
	}
}

// type roles: a renamed private named type is found by how the mechanism uses it.
type typeRole struct {
	rel, name string
	is        func(w *core.World, n *types.Named) bool
}

var typeRoleTable = []typeRole{
	{"pkg/protocol/http1", "clientConn", func(w *core.World, n *types.Named) bool {
		// the pooled connection record: the struct whose pointer HostClient.releaseConn takes
		for _, m := range []string{"releaseConn", "closeConn"} {
			if fi := w.Func("pkg/protocol/http1", "HostClient", m); fi != nil {
				sig := fi.Obj.Type().(*types.Signature)
				if sig.Params().Len() == 1 {
					if pt, ok := sig.Params().At(0).Type().(*types.Pointer); ok && pt.Elem() == types.Type(n) {
						return true
					}
				}
			}
		}
		return false
	}},
}

func installTypeRoles(w *core.World, r *core.Report) {
	if w.TypeAlias == nil {
		w.TypeAlias = map[string]*types.Named{}
	}
	for _, tr := range typeRoleTable {
		key := tr.rel + "|" + tr.name
		if w.TypeAlias[key] != nil || w.Named(tr.rel, tr.name) != nil {
			continue
		}
		p := w.Pkg(tr.rel)
		if p == nil {
			continue
		}
		var cands []*types.Named
		for _, nm := range p.Types.Scope().Names() {
			if tn, ok := p.Types.Scope().Lookup(nm).(*types.TypeName); ok {
				if n, ok := tn.Type().(*types.Named); ok && tr.is(w, n) {
					cands = append(cands, n)
				}
			}
		}
		if len(cands) == 1 {
			w.TypeAlias[key] = cands[0]
			r.Unit("role: type %s.%s is no longer declared; %s plays that role (found by how it is used)", tr.rel, tr.name, cands[0].Obj().Name())
		}
	}
}

// installRoles resolves renamed private anchors for world w. It is idempotent per world.
func installRoles(w *core.World, r *core.Report) {
	if w == nil {
		return
	}
	if w.Alias == nil {
		w.Alias = map[string]*core.FuncInfo{}
	}
	esp.Aliases = map[string]*types.Func{}
	installFieldRoles(w, r)
	installTypeRoles(w, r)
	for _, rs := range roleTable {
		if w.Func(rs.rel, rs.recv, rs.name) != nil && w.Alias[rs.rel+"|"+rs.recv+"|"+rs.name] == nil {
			continue
		}
		key := rs.rel + "|" + rs.recv + "|" + rs.name
		if a := w.Alias[key]; a != nil {
			esp.Aliases[w.ModPfx+"/"+rs.rel+"|"+rs.recv+"|"+rs.name] = a.Obj
			continue
		}
		var cands []*core.FuncInfo
		for _, fi := range declaredNonTest(w) {
			if fi.Decl.Body == nil || w.RelPkg(fi.Obj.Pkg()) != rs.rel {
				continue
			}
			rn := recvNamed(fi.Obj)
			if (rs.recv == "") != (rn == nil) || (rn != nil && rn.Obj().Name() != rs.recv) {
				continue
			}
			if rs.is(w, fi) {
				cands = append(cands, fi)
			}
		}
		if len(cands) == 1 {
			w.Alias[key] = cands[0]
			esp.Aliases[w.ModPfx+"/"+rs.rel+"|"+rs.recv+"|"+rs.name] = cands[0].Obj
			r.Unit("role: %s.%s.%s is no longer declared; %s plays that role (found by what it does)", rs.rel, rs.recv, rs.name, w.FuncName(cands[0].Obj))
		}
	}
}
func InstallRoles(w *core.World, r *core.Report) { installRoles(w, r) }
