package rules

import (
	"go/ast"
	"go/types"
	"sort"

	"golang.org/x/tools/go/types/typeutil"

	"hzcheck/core"
)

func calleeOf(info *types.Info, call *ast.CallExpr) *types.Func {
	f, _ := typeutil.Callee(info, call).(*types.Func)
	return f
}

func sortStrings(s []string) { sort.Strings(s) }

// inlineWhen builds an esp.Rule.Inline predicate: a same-package callee is explored inline when
// its body contains a call whose callee satisfies isCall, or a node satisfying isNode — i.e.
// when a block carrying events of the rule was moved into a helper.
func inlineWhen(info *types.Info, isCall func(*types.Func) bool, isNode func(ast.Node) bool) func(*types.Func, *ast.FuncDecl) bool {
	cache := map[*ast.FuncDecl]bool{}
	return func(_ *types.Func, d *ast.FuncDecl) bool {
		if v, ok := cache[d]; ok {
			return v
		}
		found := false
		ast.Inspect(d.Body, func(n ast.Node) bool {
			if found || n == nil {
				return false
			}
			if isNode != nil && isNode(n) {
				found = true
			}
			if c, ok := n.(*ast.CallExpr); ok && isCall != nil {
				if f := calleeOf(info, c); f != nil && isCall(f) {
					found = true
				}
			}
			return !found
		})
		cache[d] = found
		return found
	}
}

// withHelpers returns fi followed by the same-package functions it calls, transitively up to
// depth levels: the bodies a rule with callee inlining looks through. Used for instance
// counts, so that moving a counted construct into a helper does not change the count.
func withHelpers(w *core.World, fi *core.FuncInfo, depth int) []*core.FuncInfo {
	out := []*core.FuncInfo{fi}
	seen := map[*types.Func]bool{fi.Obj: true}
	frontier := []*core.FuncInfo{fi}
	for d := 0; d < depth; d++ {
		var next []*core.FuncInfo
		for _, cur := range frontier {
			ast.Inspect(cur.Decl, func(n ast.Node) bool {
				if c, ok := n.(*ast.CallExpr); ok {
					if f := calleeOf(cur.Pkg.TypesInfo, c); f != nil && !seen[f] && f.Pkg() == fi.Obj.Pkg() {
						if hd := w.DeclOf(f); hd != nil && hd.Decl.Body != nil {
							seen[f] = true
							out = append(out, hd)
							next = append(next, hd)
						}
					}
				}
				return true
			})
		}
		frontier = next
	}
	return out
}
