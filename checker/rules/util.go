package rules

import (
	"go/ast"
	"go/types"
	"sort"

	"golang.org/x/tools/go/types/typeutil"
)

func calleeOf(info *types.Info, call *ast.CallExpr) *types.Func {
	f, _ := typeutil.Callee(info, call).(*types.Func)
	return f
}

func sortStrings(s []string) { sort.Strings(s) }
