package rules

// Rules added after the second round of independently seeded changes (seeded/*-r2-*): each
// encodes the structural condition the missed change violated, not the patch.

import (
	"fmt"
	"go/ast"
	"go/token"
	"go/types"
	"strings"

	"golang.org/x/tools/go/ssa"

	"hzcheck/esp"
	"hzcheck/zone"
)

// C07.root — the lexical cleaner never moves its write index onto the root slash.
func c07Root(e *Env) {
	const rule = "C07.root"
	w, r := e.W, e.R
	r.Explainf("C07.root: zone abstract interpretation of utils.CleanPath: the write index starts at 1 (behind the root '/') and every backtracking decrement is guarded, so it is ≥ 1 (a) at every call of the append helper that receives it as the position to write and (b) as the upper bound of every slice that becomes the result. An index of 0 overwrites the leading '/' (or yields the empty string): the cleaned path no longer begins with '/' and the router answers 400/takes another route.")
	fi := w.Func("pkg/common/utils", "", "CleanPath")
	app := w.Func("pkg/common/utils", "", "bufApp")
	if fi == nil || app == nil {
		r.Anchor(rule, "utils.CleanPath / utils.bufApp")
		return
	}
	fn := w.SSAFunc(fi)
	appFn := w.SSAFunc(app)
	if fn == nil || appFn == nil {
		r.Anchor(rule, "SSA of utils.CleanPath")
		return
	}
	fname := w.FuncName(fi.Obj)
	z := getZone(w)
	nApp, nRet := 0, 0
	prove := func(a *zone.Analyzer, d *zone.DBM, v ssa.Value, key, what string, pos token.Pos) {
		if d == nil {
			r.Fail(rule, key, w.Pos(pos), what, "the instruction lies in a block the analysis did not reach; undecided")
			return
		}
		// 1 − v ≤ 0
		ub := zone.Tub(d, zone.ConstTerm(1), a.IntTerm(v))
		r.Check(ub <= 0, rule, key, w.Pos(pos), what, fmt.Sprintf("write index ≥ 1 is not established here (bound of 1 − index: %s): a `..` that pops the top-level segment can move the index onto the root slash, which the next segment overwrites", boundStr(ub)))
	}
	// slices that flow into a return value (directly or through a string conversion)
	feedsReturn := func(v ssa.Value) bool {
		seen := map[ssa.Value]bool{}
		var walk func(v ssa.Value) bool
		walk = func(v ssa.Value) bool {
			if seen[v] {
				return false
			}
			seen[v] = true
			refs := v.Referrers()
			if refs == nil {
				return false
			}
			for _, u := range *refs {
				switch x := u.(type) {
				case *ssa.Return:
					return true
				case *ssa.Convert:
					if walk(x) {
						return true
					}
				case *ssa.Phi:
					if walk(x) {
						return true
					}
				}
			}
			return false
		}
		return walk(v)
	}
	opts := zone.Options{
		Custom: func(a *zone.Analyzer, d *zone.DBM, ins ssa.Instruction) {
			switch x := ins.(type) {
			case *ssa.Call:
				if x.Call.StaticCallee() == appFn && len(x.Call.Args) == 4 {
					nApp++
					prove(a, d, x.Call.Args[2], fmt.Sprintf("%s:bufApp#%d:index>=1", fname, nApp), "the append helper never writes position 0 (the root slash)", x.Pos())
				}
			case *ssa.Slice:
				if x.High != nil && feedsReturn(x) {
					nRet++
					prove(a, d, x.High, fmt.Sprintf("%s:result#%d:len>=1", fname, nRet), "the returned path keeps its first byte (the root slash)", x.Pos())
				}
			}
		},
	}
	z.prog.Analyze(fn, opts)
	r.Unit("%s: %s — %d append sites, %d result slices", rule, fname, nApp, nRet)
	r.Floor(rule, nApp, 3, "bufApp call sites in CleanPath")
	r.Floor(rule, nRet, 2, "result slices in CleanPath")
}

// C17.slot — a scanner that fills a recycled key/value slot writes every field it ever writes
// on every path on which it reports an item.
func c17Slot(e *Env) {
	const rule = "C17.slot"
	w, r := e.W, e.R
	r.Explainf("C17.slot: query-argument and cookie scanners fill a caller-provided *argsKV that comes from a recycled slice (allocArg reuses old slots without clearing them). ESP typestate over every path of each `next(kv *argsKV) bool` method (the bool local that says whether the key is still being read is tracked): on every path that returns true, each field of *kv that the scanner assigns anywhere has been assigned on that path. A field left untouched on one path (e.g. the value of a key without '=') shows the previous occupant's bytes: Peek returns another request's value.")
	kvT := w.Named("pkg/protocol", "argsKV")
	if kvT == nil {
		r.Anchor(rule, "protocol.argsKV")
		return
	}
	n := 0
	for _, fi := range w.AllDecls() {
		if fi.Decl.Body == nil || fi.Obj.Name() != "next" || w.IsTestFile(fi.Decl.Pos()) {
			continue
		}
		sig := fi.Obj.Type().(*types.Signature)
		if sig.Params().Len() != 1 || sig.Results().Len() != 1 {
			continue
		}
		pt, ok := sig.Params().At(0).Type().(*types.Pointer)
		if !ok || !types.Identical(pt.Elem(), kvT) {
			continue
		}
		n++
		info := fi.Pkg.TypesInfo
		fname := w.FuncName(fi.Obj)
		kv := sig.Params().At(0)
		// fields assigned anywhere
		fieldOf := func(lhs ast.Expr) string {
			se, ok := unparen(lhs).(*ast.SelectorExpr)
			if !ok {
				return ""
			}
			if id, ok := unparen(se.X).(*ast.Ident); ok && info.ObjectOf(id) == types.Object(kv) {
				return se.Sel.Name
			}
			return ""
		}
		all := map[string]bool{}
		ast.Inspect(fi.Decl.Body, func(nd ast.Node) bool {
			if as, ok := nd.(*ast.AssignStmt); ok {
				for _, l := range as.Lhs {
					if f := fieldOf(l); f != "" {
						all[f] = true
					}
				}
			}
			return true
		})
		var names []string
		for f := range all {
			names = append(names, f)
		}
		sortStrings(names)
		r.Floor(rule, len(names), 2, "fields of the slot written by "+fname)
		rl := &esp.Rule{
			Name: rule, Init: "",
			Node: func(c *esp.Ctx, nd ast.Node) {
				as, ok := nd.(*ast.AssignStmt)
				if !ok {
					return
				}
				for _, l := range as.Lhs {
					if f := fieldOf(l); f != "" && !strings.Contains(c.S.TS, "["+f+"]") {
						// keep the set canonical: sorted concatenation
						set := append(strings.FieldsFunc(c.S.TS, func(r rune) bool { return r == '[' || r == ']' }), f)
						sortStrings(set)
						c.S.TS = "[" + strings.Join(set, "][") + "]"
					}
				}
			},
			Exit: func(c *esp.Ctx) {
				if c.S.Panic || c.S.RetStmt == nil || len(c.S.RetStmt.Results) != 1 {
					return
				}
				if id, ok := unparen(c.S.RetStmt.Results[0]).(*ast.Ident); !ok || id.Name != "true" {
					return
				}
				for _, f := range names {
					if !strings.Contains(c.S.TS, "["+f+"]") {
						c.Violate(c.S.RetStmt.Pos(), fname+":"+f+":unwritten-on-true", "an item is reported although kv."+f+" was not assigned on this path: the recycled slot keeps the previous occupant's "+f)
					}
				}
			},
		}
		ex := esp.New(w, fi, rl)
		vs := ex.Run(fi)
		r.Unit("%s: %s — fields %v, %d states, %d exits", rule, fname, names, ex.Steps, ex.Exits)
		if len(vs) == 0 {
			r.OK(rule, fname+":paths", w.Pos(fi.Decl.Pos()), "every field of the slot is written on every path that reports an item")
		}
		for _, v := range vs {
			r.Fail(rule, v.Key, w.Pos(v.Pos), "every field of the recycled slot is written before an item is reported", v.Msg, v.Path...)
		}
	}
	r.Floor(rule, n, 2, "scanner methods next(*argsKV) bool")
}

// C14.eof — the "terminal chunk seen" flag is set only together with a consumed trailer.
func c14EOF(e *Env) {
	const rule = "C14.eof"
	w, r := e.W, e.R
	r.Explainf("C14.eof: the drain trusts bodyStream.chunkEOF (`if chunkEOF { return nil }`) to mean that the terminal chunk AND the trailer section have been consumed. ESP typestate over every method of bodyStream that sets the flag: an assignment chunkEOF = true is reached only after a trailer consumer (ext.ReadTrailer / ext.SkipTrailer) returned nil on that path (`err == nil` tracked), or the function then returns that consumer's error directly to the connection owner (`return SkipTrailer(…)` in the drain, whose error closes the connection — C14.skiperr). Setting the flag before the trailer is known to be consumed leaves a rejected trailer on the connection as the next request.")
	fld := w.Field("pkg/protocol/http1/ext", "bodyStream", "chunkEOF")
	if fld == nil {
		r.Anchor(rule, "ext.bodyStream.chunkEOF")
		return
	}
	isTrailerCall := func(f *types.Func) bool {
		return esp.Is(f, pkgExt, "", "ReadTrailer") || esp.Is(f, pkgExt, "", "SkipTrailer")
	}
	n := 0
	for _, fi := range w.AllDecls() {
		if fi.Decl.Body == nil || fi.Pkg.PkgPath != pkgExt || w.IsTestFile(fi.Decl.Pos()) {
			continue
		}
		info := fi.Pkg.TypesInfo
		setsTrue := func(nd ast.Node) bool {
			as, ok := nd.(*ast.AssignStmt)
			if !ok || len(as.Lhs) != len(as.Rhs) {
				return false
			}
			for i, l := range as.Lhs {
				if usedVar(info, l) == fld {
					if id, ok := unparen(as.Rhs[i]).(*ast.Ident); ok && id.Name == "true" {
						return true
					}
				}
			}
			return false
		}
		has := false
		ast.Inspect(fi.Decl.Body, func(nd ast.Node) bool {
			if setsTrue(nd) {
				has = true
			}
			return true
		})
		if !has {
			continue
		}
		n++
		fname := w.FuncName(fi.Obj)
		// typestate: "" (no trailer call yet) | "tried" (called, outcome unknown) | "ok" (returned nil)
		// suffix "+early": flag set before the trailer was known to be consumed
		rl := &esp.Rule{
			Name: rule, Init: "",
			Track:  func(key string) bool { return key == "err == nil" },
			Inline: inlineWhen(info, isTrailerCall, setsTrue),
			Call: func(c *esp.Ctx, call *ast.CallExpr, f *types.Func) {
				if isTrailerCall(f) {
					early := strings.HasSuffix(c.S.TS, "+early")
					c.S.TS = "tried"
					if early {
						c.S.TS += "+early"
					}
				}
			},
			Branch: func(c *esp.Ctx, cond ast.Expr, val bool) {
				isErr, nilOutcome := errNilCond(info, cond, val)
				if isErr && nilOutcome && strings.HasPrefix(c.S.TS, "tried") {
					c.S.TS = "ok" + strings.TrimPrefix(c.S.TS, "tried")
				}
			},
			Node: func(c *esp.Ctx, nd ast.Node) {
				if setsTrue(nd) && !strings.HasPrefix(c.S.TS, "ok") && !strings.HasSuffix(c.S.TS, "+early") {
					c.S.TS += "+early"
				}
			},
			Exit: func(c *esp.Ctx) {
				if c.S.Panic || !strings.HasSuffix(c.S.TS, "+early") {
					return
				}
				// accepted: `return <trailer consumer>(…)` as the only error result
				if rs := c.S.RetStmt; rs != nil && len(rs.Results) == 1 {
					if call, ok := unparen(rs.Results[0]).(*ast.CallExpr); ok && isTrailerCall(calleeOf(info, call)) {
						return
					}
				}
				pos := c.S.Ret
				c.Violate(pos, fname+":flag-before-trailer", "chunkEOF is set to true on a path on which the trailer section was not (yet) consumed successfully, and the function does not hand the trailer consumer's error straight to its caller: after a rejected trailer the drain returns nil and the trailer bytes are parsed as the next request")
			},
		}
		ex := esp.New(w, fi, rl)
		vs := ex.Run(fi)
		r.Unit("%s: %s — %d states, %d exits", rule, fname, ex.Steps, ex.Exits)
		if len(vs) == 0 {
			r.OK(rule, fname+":paths", w.Pos(fi.Decl.Pos()), "chunkEOF is set only with a consumed trailer")
		}
		for _, v := range vs {
			r.Fail(rule, v.Key, w.Pos(v.Pos), "the terminal-chunk flag implies a consumed trailer", v.Msg, v.Path...)
		}
	}
	r.Floor(rule, n, 2, "bodyStream methods that set chunkEOF")
}

// C13.release — Release recycles a node that may hold unread bytes only when the whole input
// buffer is empty.
func c13Release(e *Env) {
	const rule = "C13.release"
	w, r := e.W, e.R
	r.Explainf("C13.release: in standard.Conn.Release every recycling of a buffer node (linkBufferNode.Reset/Release, directly or through a Conn helper that performs it) is either (a) inside the loop that walks `head` up to — not including — the read node, or (b) inside the then-branch of a test `<total unread> == 0`, where <total unread> is the input buffer's length field read directly or through the accessor that returns it. A per-node emptiness test is not enough: the read node can be exhausted while the next node still holds unread bytes, and resetting that node drops them while Len() keeps counting them.")
	rel := w.Func("pkg/network/standard", "Conn", "Release")
	lenF := w.Field("pkg/network/standard", "linkBuffer", "len")
	headF := w.Field("pkg/network/standard", "linkBuffer", "head")
	readF := w.Field("pkg/network/standard", "linkBuffer", "read")
	if rel == nil || lenF == nil || headF == nil || readF == nil {
		r.Anchor(rule, "standard.Conn.Release / linkBuffer.{len,head,read}")
		return
	}
	info := rel.Pkg.TypesInfo
	isNodeRecycle := func(f *types.Func) bool {
		rn := recvNamed(f)
		return rn != nil && rn.Obj().Name() == "linkBufferNode" && rn.Obj().Pkg() == rel.Pkg.Types && (f.Name() == "Reset" || f.Name() == "Release")
	}
	// helpers of Conn that recycle a node themselves
	recycles := func(f *types.Func) bool {
		if f == nil {
			return false
		}
		if isNodeRecycle(f) {
			return true
		}
		d := w.DeclOf(f)
		if d == nil || d.Pkg != rel.Pkg || d.Decl.Body == nil {
			return false
		}
		return len(funcsCallingIn(d, isNodeRecycle)) > 0
	}
	// <total unread>: linkBuffer.len, or a call of a method whose body is `return ….len`
	var isTotal func(x ast.Expr) bool
	isTotal = func(x ast.Expr) bool {
		x = unparen(x)
		if usedVar(info, x) == lenF {
			return true
		}
		if call, ok := x.(*ast.CallExpr); ok && len(call.Args) == 0 {
			if d := w.DeclOf(calleeOf(info, call)); d != nil && d.Decl.Body != nil && len(d.Decl.Body.List) == 1 {
				if rs, ok := d.Decl.Body.List[0].(*ast.ReturnStmt); ok && len(rs.Results) == 1 {
					return usedVar(d.Pkg.TypesInfo, rs.Results[0]) == lenF
				}
			}
		}
		return false
	}
	isZero := func(x ast.Expr) bool { v, ok := constInt(info, x); return ok && v == 0 }
	par := parents(rel.Decl)
	fname := w.FuncName(rel.Obj)
	n := 0
	ord := map[string]int{}
	ast.Inspect(rel.Decl.Body, func(nd ast.Node) bool {
		call, ok := nd.(*ast.CallExpr)
		if !ok {
			return true
		}
		f := calleeOf(info, call)
		if !recycles(f) {
			return true
		}
		n++
		ord[f.Name()]++
		key := fmt.Sprintf("%s:%s#%d:guarded", fname, f.Name(), ord[f.Name()])
		okGuard, how := false, ""
		var child ast.Node = call
		for p := par[call]; p != nil; child, p = p, par[p] {
			switch x := p.(type) {
			case *ast.IfStmt:
				if child == ast.Node(x.Body) {
					if be, ok := unparen(x.Cond).(*ast.BinaryExpr); ok && be.Op == token.EQL && ((isTotal(be.X) && isZero(be.Y)) || (isTotal(be.Y) && isZero(be.X))) {
						okGuard, how = true, "whole buffer empty"
					}
				}
			case *ast.ForStmt:
				if be, ok := unparen(x.Cond).(*ast.BinaryExpr); ok && be.Op == token.NEQ {
					a, b := usedVar(info, be.X), usedVar(info, be.Y)
					if (a == headF && b == readF) || (a == readF && b == headF) {
						okGuard, how = true, "nodes before the read node"
					}
				}
			}
			if okGuard {
				break
			}
		}
		if okGuard {
			r.OKd(rule, key, w.Pos(call.Pos()), "node recycling in Release is guarded", how)
		} else {
			r.Fail(rule, key, w.Pos(call.Pos()), "node recycling in Release is guarded by whole-buffer emptiness or confined to nodes before the read node",
				"`"+types.ExprString(call)+"` is reached without a test that the total unread length is 0 (a test of one node's length does not cover the following node): buffered bytes behind a node boundary are dropped")
		}
		return true
	})
	r.Floor(rule, n, 3, "node-recycling calls in Conn.Release")
}

// C16.probe — "is this declaration already in the generated file?" probes are delimited on the
// left, so that a name cannot be found inside a longer one.
func c16Probe(e *Env) {
	const rule = "C16.probe"
	r := e.R
	r.Explainf("C16.probe: the update path of the generator decides whether a handler/middleware declaration already exists with bytes.Contains(file, []byte(fmt.Sprintf(format, name…))). For every such probe in cmd/hz/generator whose format starts its first verb with a generated identifier, the constant text immediately before that verb must end in a byte that cannot occur inside a Go identifier (space, '(' …). Without it `_bMw()` is found inside `func _a_bMw()`, the declaration is not appended, and the regenerated router calls an undeclared function.")
	w, err := e.HZ()
	if err != nil {
		r.Fail(rule, "engine:load-cmd-hz", "-", "cmd/hz module loads", err.Error())
		return
	}
	gen := w.Pkg("generator")
	if gen == nil {
		r.Anchor(rule, "cmd/hz/generator")
		return
	}
	info := gen.TypesInfo
	isIdentByte := func(b byte) bool {
		return b == '_' || (b >= '0' && b <= '9') || (b >= 'a' && b <= 'z') || (b >= 'A' && b <= 'Z') || b >= 0x80
	}
	isSprintf := func(c *ast.CallExpr) bool {
		f := calleeOf(info, c)
		return f != nil && f.Pkg() != nil && f.Pkg().Path() == "fmt" && f.Name() == "Sprintf"
	}
	n := 0
	for _, fi := range declaredNonTest(w) {
		if fi.Pkg != gen || fi.Decl.Body == nil {
			continue
		}
		fname := w.FuncName(fi.Obj)
		// Sprintf calls that define a needle: directly inside the Contains call, or assigned to the
		// variable used there
		var sprintfsOf func(x ast.Expr) []*ast.CallExpr
		sprintfsOf = func(x ast.Expr) []*ast.CallExpr {
			x = unparen(x)
			switch y := x.(type) {
			case *ast.CallExpr:
				if isSprintf(y) {
					return []*ast.CallExpr{y}
				}
				if tv, ok := info.Types[y.Fun]; ok && tv.IsType() && len(y.Args) == 1 { // []byte(…)
					return sprintfsOf(y.Args[0])
				}
			case *ast.Ident:
				v, _ := info.ObjectOf(y).(*types.Var)
				if v == nil {
					return nil
				}
				var out []*ast.CallExpr
				ast.Inspect(fi.Decl.Body, func(nd ast.Node) bool {
					if as, ok := nd.(*ast.AssignStmt); ok && len(as.Lhs) == len(as.Rhs) {
						for i, l := range as.Lhs {
							if id, ok := unparen(l).(*ast.Ident); ok && info.ObjectOf(id) == types.Object(v) {
								out = append(out, sprintfsOf(as.Rhs[i])...)
							}
						}
					}
					return true
				})
				return out
			}
			return nil
		}
		ord := 0
		ast.Inspect(fi.Decl.Body, func(nd ast.Node) bool {
			call, ok := nd.(*ast.CallExpr)
			if !ok || len(call.Args) != 2 {
				return true
			}
			f := calleeOf(info, call)
			if f == nil || f.Pkg() == nil || f.Name() != "Contains" || (f.Pkg().Path() != "bytes" && f.Pkg().Path() != "strings") {
				return true
			}
			for _, sp := range sprintfsOf(call.Args[1]) {
				if len(sp.Args) < 2 {
					continue
				}
				format, ok := strEval(w, info, sp.Args[0], 0)
				if !ok {
					continue
				}
				i := strings.Index(format, "%")
				if i < 0 || i+1 >= len(format) || (format[i+1] != 's' && format[i+1] != 'v') {
					continue
				}
				ord++
				n++
				key := fmt.Sprintf("%s:probe#%d:left-delimited", fname, ord)
				okDelim := i > 0 && !isIdentByte(format[i-1])
				r.Check(okDelim, rule, key, w.Pos(sp.Pos()), "existence probe cannot match inside a longer identifier",
					fmt.Sprintf("probe format %q puts the generated name at an identifier boundary it does not check: the name is found as the tail of a longer declared name and its own declaration is never appended", format))
			}
			return true
		})
	}
	r.Floor(rule, n, 3, "Sprintf-built existence probes in cmd/hz/generator")
}

// C20.sorted — every expression tree that is not reachable from the top-level root through
// operand links gets its own priority sort.
func c20Sorted(e *Env) {
	const rule = "C20.sorted"
	w, r := e.W, e.R
	r.Explainf("C20.sorted: the parser builds trees left to right and re-associates them afterwards with sortPriority, which follows Left/RightOperand links only. Every group root that a function creates with newGroupExprNode() and fills with parseExprNode must therefore, in that function, either be handed to sortPriority after the parse or be attached with SetLeftOperand/SetRightOperand (so that the caller's pass reaches it). Roots kept in side lists (function arguments, selector sub-expressions) that skip the sort evaluate `1 + $ * 2` as `(1 + $) * 2`.")
	p := w.Pkg(relTagexpr)
	if p == nil {
		r.Anchor(rule, "package internal/tagexpr")
		return
	}
	info := p.TypesInfo
	parse := w.Func(relTagexpr, "Expr", "parseExprNode")
	sortF := w.Func(relTagexpr, "", "sortPriority")
	newGrp := w.Func(relTagexpr, "", "newGroupExprNode")
	if parse == nil || sortF == nil || newGrp == nil {
		r.Anchor(rule, "tagexpr.(*Expr).parseExprNode / sortPriority / newGroupExprNode")
		return
	}
	n := 0
	for _, fi := range declaredNonTest(w) {
		if fi.Pkg != p || fi.Decl.Body == nil || fi.Obj == parse.Obj {
			continue
		}
		fname := w.FuncName(fi.Obj)
		// locals holding a fresh group root
		roots := map[types.Object]bool{}
		ast.Inspect(fi.Decl.Body, func(nd ast.Node) bool {
			if as, ok := nd.(*ast.AssignStmt); ok && len(as.Lhs) == 1 && len(as.Rhs) == 1 {
				if c, ok := unparen(as.Rhs[0]).(*ast.CallExpr); ok && calleeOf(info, c) == newGrp.Obj {
					if id, ok := as.Lhs[0].(*ast.Ident); ok {
						roots[info.ObjectOf(id)] = true
					}
				}
			}
			return true
		})
		if len(roots) == 0 {
			continue
		}
		ord := 0
		seen := map[types.Object]bool{}
		ast.Inspect(fi.Decl.Body, func(nd ast.Node) bool {
			c, ok := nd.(*ast.CallExpr)
			if !ok || calleeOf(info, c) != parse.Obj || len(c.Args) != 2 {
				return true
			}
			id, ok := unparen(c.Args[1]).(*ast.Ident)
			if !ok || !roots[info.ObjectOf(id)] {
				return true
			}
			root := info.ObjectOf(id)
			if seen[root] {
				return true // several parse calls fill the same root (alternative branches): one obligation
			}
			seen[root] = true
			ord++
			n++
			key := fmt.Sprintf("%s:root#%d:sorted-or-linked", fname, ord)
			how := ""
			ast.Inspect(fi.Decl.Body, func(m ast.Node) bool {
				c2, ok := m.(*ast.CallExpr)
				if !ok || c2.Pos() < c.End() {
					return true
				}
				for _, a := range c2.Args {
					if aid, ok := unparen(a).(*ast.Ident); ok && info.ObjectOf(aid) == root {
						f := calleeOf(info, c2)
						switch {
						case f == sortF.Obj:
							how = "sortPriority"
						case f != nil && (f.Name() == "SetLeftOperand" || f.Name() == "SetRightOperand") && how == "":
							how = f.Name()
						}
					}
				}
				return true
			})
			if how != "" {
				r.OKd(rule, key, w.Pos(c.Pos()), "a locally parsed expression tree is priority-sorted or linked as an operand", how)
			} else {
				r.Fail(rule, key, w.Pos(c.Pos()), "a locally parsed expression tree is priority-sorted or linked as an operand",
					"the tree parsed into `"+id.Name+"` is neither passed to sortPriority nor attached as an operand: it stays left-associated and ignores operator priority when evaluated")
			}
			return true
		})
	}
	r.Floor(rule, n, 5, "locally created expression roots filled by parseExprNode")
}
