package rules

// Rules added after the second round of independently seeded changes (seeded/*-r2-*): each
// encodes the structural condition the missed change violated, not the patch.

import (
	"fmt"
	"go/ast"
	"go/token"
	"go/types"
	"sort"
	"strings"

	"golang.org/x/tools/go/ssa"

	"hzcheck/core"
	"hzcheck/esp"
	"hzcheck/zone"
)

// C07.root — the lexical cleaner never moves its write index onto the root slash.
func c07Root(e *Env) {
	const rule = "C07.root"
	w, r := e.W, e.R
	r.Explainf("C07.root: zone abstract interpretation of utils.CleanPath: the write index starts at 1 (behind the root '/') and every backtracking decrement is guarded, so it is ≥ 1 (a) at every call of the append helper that receives it as the position to write and (b) as the upper bound of every slice that becomes the result. An index of 0 overwrites the leading '/' (or yields the empty string): the cleaned path no longer begins with '/' and the router answers 400/takes another route.")
	fi := w.Func("pkg/common/utils", "", "CleanPath")
	app := w.Func("pkg/common/utils", "", "bufApp")
	if fi == nil || app == nil {
		r.Anchor(rule, "utils.CleanPath / utils.bufApp")
		return
	}
	fn := w.SSAFunc(fi)
	appFn := w.SSAFunc(app)
	if fn == nil || appFn == nil {
		r.Anchor(rule, "SSA of utils.CleanPath")
		return
	}
	fname := w.FuncName(fi.Obj)
	z := getZone(w)
	nApp, nRet := 0, 0
	prove := func(a *zone.Analyzer, d *zone.DBM, v ssa.Value, key, what string, pos token.Pos) {
		if d == nil {
			r.Fail(rule, key, w.Pos(pos), what, "the instruction lies in a block the analysis did not reach; undecided")
			return
		}
		// 1 − v ≤ 0
		ub := zone.Tub(d, zone.ConstTerm(1), a.IntTerm(v))
		r.Check(ub <= 0, rule, key, w.Pos(pos), what, fmt.Sprintf("write index ≥ 1 is not established here (bound of 1 − index: %s): a `..` that pops the top-level segment can move the index onto the root slash, which the next segment overwrites", boundStr(ub)))
	}
	// slices that flow into a return value (directly or through a string conversion)
	feedsReturn := func(v ssa.Value) bool {
		seen := map[ssa.Value]bool{}
		var walk func(v ssa.Value) bool
		walk = func(v ssa.Value) bool {
			if seen[v] {
				return false
			}
			seen[v] = true
			refs := v.Referrers()
			if refs == nil {
				return false
			}
			for _, u := range *refs {
				switch x := u.(type) {
				case *ssa.Return:
					return true
				case *ssa.Convert:
					if walk(x) {
						return true
					}
				case *ssa.Phi:
					if walk(x) {
						return true
					}
				}
			}
			return false
		}
		return walk(v)
	}
	opts := zone.Options{
		Custom: func(a *zone.Analyzer, d *zone.DBM, ins ssa.Instruction) {
			switch x := ins.(type) {
			case *ssa.Call:
				if x.Call.StaticCallee() == appFn && len(x.Call.Args) == 4 {
					nApp++
					prove(a, d, x.Call.Args[2], fmt.Sprintf("%s:bufApp#%d:index>=1", fname, nApp), "the append helper never writes position 0 (the root slash)", x.Pos())
				}
			case *ssa.Slice:
				if x.High != nil && feedsReturn(x) {
					nRet++
					prove(a, d, x.High, fmt.Sprintf("%s:result#%d:len>=1", fname, nRet), "the returned path keeps its first byte (the root slash)", x.Pos())
				}
			}
		},
	}
	z.prog.Analyze(fn, opts)
	r.Unit("%s: %s — %d append sites, %d result slices", rule, fname, nApp, nRet)
	r.Floor(rule, nApp, 3, "bufApp call sites in CleanPath")
	r.Floor(rule, nRet, 2, "result slices in CleanPath")
}

// C17.slot — a scanner that fills a recycled key/value slot writes every field it ever writes
// on every path on which it reports an item.
func c17Slot(e *Env) {
	const rule = "C17.slot"
	w, r := e.W, e.R
	r.Explainf("C17.slot: query-argument and cookie scanners fill a caller-provided *argsKV that comes from a recycled slice (allocArg reuses old slots without clearing them). ESP typestate over every path of each `next(kv *argsKV) bool` method (the bool local that says whether the key is still being read is tracked): on every path that returns true, each field of *kv that the scanner assigns anywhere has been assigned on that path. A field left untouched on one path (e.g. the value of a key without '=') shows the previous occupant's bytes: Peek returns another request's value.")
	kvT := w.Named("pkg/protocol", "argsKV")
	if kvT == nil {
		r.Anchor(rule, "protocol.argsKV")
		return
	}
	n := 0
	for _, fi := range w.AllDecls() {
		if fi.Decl.Body == nil || fi.Obj.Name() != "next" || w.IsTestFile(fi.Decl.Pos()) {
			continue
		}
		sig := fi.Obj.Type().(*types.Signature)
		if sig.Params().Len() != 1 || sig.Results().Len() != 1 {
			continue
		}
		pt, ok := sig.Params().At(0).Type().(*types.Pointer)
		if !ok || !types.Identical(pt.Elem(), kvT) {
			continue
		}
		n++
		info := fi.Pkg.TypesInfo
		fname := w.FuncName(fi.Obj)
		kv := sig.Params().At(0)
		// fields assigned anywhere
		fieldOf := func(lhs ast.Expr) string {
			se, ok := unparen(lhs).(*ast.SelectorExpr)
			if !ok {
				return ""
			}
			if id, ok := unparen(se.X).(*ast.Ident); ok && info.ObjectOf(id) == types.Object(kv) {
				return se.Sel.Name
			}
			return ""
		}
		all := map[string]bool{}
		ast.Inspect(fi.Decl.Body, func(nd ast.Node) bool {
			if as, ok := nd.(*ast.AssignStmt); ok {
				for _, l := range as.Lhs {
					if f := fieldOf(l); f != "" {
						all[f] = true
					}
				}
			}
			return true
		})
		var names []string
		for f := range all {
			names = append(names, f)
		}
		sortStrings(names)
		r.Floor(rule, len(names), 2, "fields of the slot written by "+fname)
		rl := &esp.Rule{
			Name: rule, Init: "",
			Node: func(c *esp.Ctx, nd ast.Node) {
				as, ok := nd.(*ast.AssignStmt)
				if !ok {
					return
				}
				for _, l := range as.Lhs {
					if f := fieldOf(l); f != "" && !strings.Contains(c.S.TS, "["+f+"]") {
						// keep the set canonical: sorted concatenation
						set := append(strings.FieldsFunc(c.S.TS, func(r rune) bool { return r == '[' || r == ']' }), f)
						sortStrings(set)
						c.S.TS = "[" + strings.Join(set, "][") + "]"
					}
				}
			},
			Exit: func(c *esp.Ctx) {
				if c.S.Panic || c.S.RetStmt == nil || len(c.S.RetStmt.Results) != 1 {
					return
				}
				if id, ok := unparen(c.S.RetStmt.Results[0]).(*ast.Ident); !ok || id.Name != "true" {
					return
				}
				for _, f := range names {
					if !strings.Contains(c.S.TS, "["+f+"]") {
						c.Violate(c.S.RetStmt.Pos(), fname+":"+f+":unwritten-on-true", "an item is reported although kv."+f+" was not assigned on this path: the recycled slot keeps the previous occupant's "+f)
					}
				}
			},
		}
		ex := esp.New(w, fi, rl)
		vs := ex.Run(fi)
		r.Unit("%s: %s — fields %v, %d states, %d exits", rule, fname, names, ex.Steps, ex.Exits)
		if len(vs) == 0 {
			r.OK(rule, fname+":paths", w.Pos(fi.Decl.Pos()), "every field of the slot is written on every path that reports an item")
		}
		for _, v := range vs {
			r.Fail(rule, v.Key, w.Pos(v.Pos), "every field of the recycled slot is written before an item is reported", v.Msg, v.Path...)
		}
	}
	r.Floor(rule, n, 2, "scanner methods next(*argsKV) bool")
}

// C14.eof — the "terminal chunk seen" flag is set only together with a consumed trailer.
func c14EOF(e *Env) {
	const rule = "C14.eof"
	w, r := e.W, e.R
	r.Explainf("C14.eof: the drain trusts bodyStream.chunkEOF (`if chunkEOF { return nil }`) to mean that the terminal chunk AND the trailer section have been consumed. ESP typestate over every method of bodyStream that sets the flag: an assignment chunkEOF = true is reached only after a trailer consumer (ext.ReadTrailer / ext.SkipTrailer) returned nil on that path (`err == nil` tracked), or the function then returns that consumer's error directly to the connection owner (`return SkipTrailer(…)` in the drain, whose error closes the connection — C14.skiperr). Setting the flag before the trailer is known to be consumed leaves a rejected trailer on the connection as the next request.")
	fld := w.Field("pkg/protocol/http1/ext", "bodyStream", "chunkEOF")
	if fld == nil {
		r.Anchor(rule, "ext.bodyStream.chunkEOF")
		return
	}
	isTrailerCall := func(f *types.Func) bool {
		return esp.Is(f, pkgExt, "", "ReadTrailer") || esp.Is(f, pkgExt, "", "SkipTrailer")
	}
	n := 0
	for _, fi := range w.AllDecls() {
		if fi.Decl.Body == nil || fi.Pkg.PkgPath != pkgExt || w.IsTestFile(fi.Decl.Pos()) {
			continue
		}
		info := fi.Pkg.TypesInfo
		setsTrue := func(nd ast.Node) bool {
			as, ok := nd.(*ast.AssignStmt)
			if !ok || len(as.Lhs) != len(as.Rhs) {
				return false
			}
			for i, l := range as.Lhs {
				if usedVar(info, l) == fld {
					if id, ok := unparen(as.Rhs[i]).(*ast.Ident); ok && id.Name == "true" {
						return true
					}
				}
			}
			return false
		}
		has := false
		ast.Inspect(fi.Decl.Body, func(nd ast.Node) bool {
			if setsTrue(nd) {
				has = true
			}
			return true
		})
		if !has {
			continue
		}
		n++
		fname := w.FuncName(fi.Obj)
		// typestate: "" (no trailer call yet) | "tried" (called, outcome unknown) | "ok" (returned nil)
		// suffix "+early": flag set before the trailer was known to be consumed
		rl := &esp.Rule{
			Name: rule, Init: "",
			Track:  func(key string) bool { return key == "err == nil" },
			Inline: inlineWhen(info, isTrailerCall, setsTrue),
			Call: func(c *esp.Ctx, call *ast.CallExpr, f *types.Func) {
				if isTrailerCall(f) {
					early := strings.HasSuffix(c.S.TS, "+early")
					c.S.TS = "tried"
					if early {
						c.S.TS += "+early"
					}
				}
			},
			Branch: func(c *esp.Ctx, cond ast.Expr, val bool) {
				isErr, nilOutcome := errNilCond(info, cond, val)
				if isErr && nilOutcome && strings.HasPrefix(c.S.TS, "tried") {
					c.S.TS = "ok" + strings.TrimPrefix(c.S.TS, "tried")
				}
			},
			Node: func(c *esp.Ctx, nd ast.Node) {
				if setsTrue(nd) && !strings.HasPrefix(c.S.TS, "ok") && !strings.HasSuffix(c.S.TS, "+early") {
					c.S.TS += "+early"
				}
			},
			Exit: func(c *esp.Ctx) {
				if c.S.Panic || !strings.HasSuffix(c.S.TS, "+early") {
					return
				}
				// accepted: `return <trailer consumer>(…)` as the only error result
				if rs := c.S.RetStmt; rs != nil && len(rs.Results) == 1 {
					if call, ok := unparen(rs.Results[0]).(*ast.CallExpr); ok && isTrailerCall(calleeOf(info, call)) {
						return
					}
				}
				pos := c.S.Ret
				c.Violate(pos, fname+":flag-before-trailer", "chunkEOF is set to true on a path on which the trailer section was not (yet) consumed successfully, and the function does not hand the trailer consumer's error straight to its caller: after a rejected trailer the drain returns nil and the trailer bytes are parsed as the next request")
			},
		}
		ex := esp.New(w, fi, rl)
		vs := ex.Run(fi)
		r.Unit("%s: %s — %d states, %d exits", rule, fname, ex.Steps, ex.Exits)
		if len(vs) == 0 {
			r.OK(rule, fname+":paths", w.Pos(fi.Decl.Pos()), "chunkEOF is set only with a consumed trailer")
		}
		for _, v := range vs {
			r.Fail(rule, v.Key, w.Pos(v.Pos), "the terminal-chunk flag implies a consumed trailer", v.Msg, v.Path...)
		}
	}
	r.Floor(rule, n, 2, "bodyStream methods that set chunkEOF")
}

// C13.release — Release recycles a node that may hold unread bytes only when the whole input
// buffer is empty.
func c13Release(e *Env) {
	const rule = "C13.release"
	w, r := e.W, e.R
	r.Explainf("C13.release: in standard.Conn.Release every recycling of a buffer node (linkBufferNode.Reset/Release, directly or through a Conn helper that performs it) is either (a) inside the loop that walks `head` up to — not including — the read node, or (b) inside the then-branch of a test `<total unread> == 0`, where <total unread> is the input buffer's length field read directly or through the accessor that returns it. A per-node emptiness test is not enough: the read node can be exhausted while the next node still holds unread bytes, and resetting that node drops them while Len() keeps counting them.")
	rel := w.Func("pkg/network/standard", "Conn", "Release")
	lenF := w.Field("pkg/network/standard", "linkBuffer", "len")
	headF := w.Field("pkg/network/standard", "linkBuffer", "head")
	readF := w.Field("pkg/network/standard", "linkBuffer", "read")
	if rel == nil || lenF == nil || headF == nil || readF == nil {
		r.Anchor(rule, "standard.Conn.Release / linkBuffer.{len,head,read}")
		return
	}
	info := rel.Pkg.TypesInfo
	isNodeRecycle := func(f *types.Func) bool {
		rn := recvNamed(f)
		return rn != nil && rn.Obj().Name() == "linkBufferNode" && rn.Obj().Pkg() == rel.Pkg.Types && (f.Name() == "Reset" || f.Name() == "Release")
	}
	// helpers of Conn that recycle a node themselves
	recycles := func(f *types.Func) bool {
		if f == nil {
			return false
		}
		if isNodeRecycle(f) {
			return true
		}
		d := w.DeclOf(f)
		if d == nil || d.Pkg != rel.Pkg || d.Decl.Body == nil {
			return false
		}
		return len(funcsCallingIn(d, isNodeRecycle)) > 0
	}
	// <total unread>: linkBuffer.len, or a call of a method whose body is `return ….len`
	var isTotal func(x ast.Expr) bool
	isTotal = func(x ast.Expr) bool {
		x = unparen(x)
		if usedVar(info, x) == lenF {
			return true
		}
		if call, ok := x.(*ast.CallExpr); ok && len(call.Args) == 0 {
			if d := w.DeclOf(calleeOf(info, call)); d != nil && d.Decl.Body != nil && len(d.Decl.Body.List) == 1 {
				if rs, ok := d.Decl.Body.List[0].(*ast.ReturnStmt); ok && len(rs.Results) == 1 {
					return usedVar(d.Pkg.TypesInfo, rs.Results[0]) == lenF
				}
			}
		}
		return false
	}
	isZero := func(x ast.Expr) bool { v, ok := constInt(info, x); return ok && v == 0 }
	par := parents(rel.Decl)
	fname := w.FuncName(rel.Obj)
	n := 0
	ord := map[string]int{}
	ast.Inspect(rel.Decl.Body, func(nd ast.Node) bool {
		call, ok := nd.(*ast.CallExpr)
		if !ok {
			return true
		}
		f := calleeOf(info, call)
		if !recycles(f) {
			return true
		}
		n++
		ord[f.Name()]++
		key := fmt.Sprintf("%s:%s#%d:guarded", fname, f.Name(), ord[f.Name()])
		okGuard, how := false, ""
		var child ast.Node = call
		for p := par[call]; p != nil; child, p = p, par[p] {
			switch x := p.(type) {
			case *ast.IfStmt:
				if child == ast.Node(x.Body) {
					if be, ok := unparen(x.Cond).(*ast.BinaryExpr); ok && be.Op == token.EQL && ((isTotal(be.X) && isZero(be.Y)) || (isTotal(be.Y) && isZero(be.X))) {
						okGuard, how = true, "whole buffer empty"
					}
				}
			case *ast.ForStmt:
				if be, ok := unparen(x.Cond).(*ast.BinaryExpr); ok && be.Op == token.NEQ {
					a, b := usedVar(info, be.X), usedVar(info, be.Y)
					if (a == headF && b == readF) || (a == readF && b == headF) {
						okGuard, how = true, "nodes before the read node"
					}
				}
			}
			if okGuard {
				break
			}
		}
		if !okGuard && !isNodeRecycle(f) {
			// a helper that confines its own recycling to the walk from head up to the read node
			if d := w.DeclOf(f); d != nil && d.Decl.Body != nil {
				hinfo := d.Pkg.TypesInfo
				hpar := parents(d.Decl)
				all, some := true, false
				ast.Inspect(d.Decl.Body, func(m ast.Node) bool {
					hc, ok := m.(*ast.CallExpr)
					if !ok || !isNodeRecycle(calleeOf(hinfo, hc)) {
						return true
					}
					some = true
					in := false
					for p := hpar[hc]; p != nil; p = hpar[p] {
						if fs, ok := p.(*ast.ForStmt); ok {
							if be, ok := unparen(fs.Cond).(*ast.BinaryExpr); ok && be.Op == token.NEQ {
								a, b := usedVar(hinfo, be.X), usedVar(hinfo, be.Y)
								if (a == headF && b == readF) || (a == readF && b == headF) {
									in = true
								}
							}
						}
					}
					if !in {
						all = false
					}
					return true
				})
				if some && all {
					okGuard, how = true, "the helper only recycles nodes before the read node"
				}
			}
		}
		if okGuard {
			r.OKd(rule, key, w.Pos(call.Pos()), "node recycling in Release is guarded", how)
		} else {
			r.Fail(rule, key, w.Pos(call.Pos()), "node recycling in Release is guarded by whole-buffer emptiness or confined to nodes before the read node",
				"`"+types.ExprString(call)+"` is reached without a test that the total unread length is 0 (a test of one node's length does not cover the following node): buffered bytes behind a node boundary are dropped")
		}
		return true
	})
	r.Floor(rule, n, 3, "node-recycling calls in Conn.Release")
}

// C16.probe — "is this declaration already in the generated file?" probes are delimited on the
// left, so that a name cannot be found inside a longer one.
func c16Probe(e *Env) {
	const rule = "C16.probe"
	r := e.R
	r.Explainf("C16.probe: the update path of the generator decides whether a handler/middleware declaration already exists with bytes.Contains(file, []byte(fmt.Sprintf(format, name…))). For every such probe in cmd/hz/generator whose format starts its first verb with a generated identifier, the constant text immediately before that verb must end in a byte that cannot occur inside a Go identifier (space, '(' …). Without it `_bMw()` is found inside `func _a_bMw()`, the declaration is not appended, and the regenerated router calls an undeclared function. A probe whose needle is a bare generated value (`[]byte(info.DepPkg)`, no Sprintf, no concatenation with a delimiter) is reported for the same reason: the import path of package hello is found inside that of hello/example and hello's routes are never registered.")
	w, err := e.HZ()
	if err != nil {
		r.Fail(rule, "engine:load-cmd-hz", "-", "cmd/hz module loads", err.Error())
		return
	}
	gen := w.Pkg("generator")
	if gen == nil {
		r.Anchor(rule, "cmd/hz/generator")
		return
	}
	info := gen.TypesInfo
	isIdentByte := func(b byte) bool {
		return b == '_' || (b >= '0' && b <= '9') || (b >= 'a' && b <= 'z') || (b >= 'A' && b <= 'Z') || b >= 0x80
	}
	isSprintf := func(c *ast.CallExpr) bool {
		f := calleeOf(info, c)
		return f != nil && f.Pkg() != nil && f.Pkg().Path() == "fmt" && f.Name() == "Sprintf"
	}
	n := 0
	for _, fi := range declaredNonTest(w) {
		if fi.Pkg != gen || fi.Decl.Body == nil {
			continue
		}
		fname := w.FuncName(fi.Obj)
		// Sprintf calls that define a needle: directly inside the Contains call, or assigned to the
		// variable used there
		var sprintfsOf func(x ast.Expr) []*ast.CallExpr
		sprintfsOf = func(x ast.Expr) []*ast.CallExpr {
			x = unparen(x)
			switch y := x.(type) {
			case *ast.CallExpr:
				if isSprintf(y) {
					return []*ast.CallExpr{y}
				}
				if tv, ok := info.Types[y.Fun]; ok && tv.IsType() && len(y.Args) == 1 { // []byte(…)
					return sprintfsOf(y.Args[0])
				}
			case *ast.Ident:
				v, _ := info.ObjectOf(y).(*types.Var)
				if v == nil {
					return nil
				}
				var out []*ast.CallExpr
				ast.Inspect(fi.Decl.Body, func(nd ast.Node) bool {
					if as, ok := nd.(*ast.AssignStmt); ok && len(as.Lhs) == len(as.Rhs) {
						for i, l := range as.Lhs {
							if id, ok := unparen(l).(*ast.Ident); ok && info.ObjectOf(id) == types.Object(v) {
								out = append(out, sprintfsOf(as.Rhs[i])...)
							}
						}
					}
					return true
				})
				return out
			}
			return nil
		}
		ord := 0
		ast.Inspect(fi.Decl.Body, func(nd ast.Node) bool {
			call, ok := nd.(*ast.CallExpr)
			if !ok || len(call.Args) != 2 {
				return true
			}
			f := calleeOf(info, call)
			if f == nil || f.Pkg() == nil || f.Name() != "Contains" || (f.Pkg().Path() != "bytes" && f.Pkg().Path() != "strings") {
				return true
			}
			// a needle that is a bare generated value (`[]byte(info.DepPkg)`): no delimiter at all
			// (router, middleware and register generation only: the files of the property; handler and
			// custom-template updates are outside it)
			if cv, ok := unparen(call.Args[1]).(*ast.CallExpr); ok && len(cv.Args) == 1 && strings.HasSuffix(w.Fset.Position(fi.Decl.Pos()).Filename, "/router.go") {
				if tv, isT := info.Types[cv.Fun]; isT && tv.IsType() {
					inner := unparen(cv.Args[0])
					_, isSel := inner.(*ast.SelectorExpr)
					_, isID := inner.(*ast.Ident)
					if tvv, has := info.Types[inner]; (isSel || isID) && has && tvv.Value == nil {
						bare := true
						if v := usedVar(info, inner); v != nil && !v.IsField() {
							// a local built with delimiters elsewhere (Sprintf / concatenation) is not bare
							ast.Inspect(fi.Decl.Body, func(m ast.Node) bool {
								if as, ok := m.(*ast.AssignStmt); ok && len(as.Lhs) == 1 && len(as.Rhs) == 1 && usedVar(info, as.Lhs[0]) == v {
									switch unparen(as.Rhs[0]).(type) {
									case *ast.BinaryExpr, *ast.CallExpr:
										bare = false
									}
								} else if ok && len(as.Lhs) == 1 && len(as.Rhs) == 1 {
									if id, isI := as.Lhs[0].(*ast.Ident); isI && info.Defs[id] == types.Object(v) {
										switch unparen(as.Rhs[0]).(type) {
										case *ast.BinaryExpr, *ast.CallExpr:
											bare = false
										}
									}
								}
								return true
							})
						}
						if bare {
							ord++
							n++
							r.Fail(rule, fmt.Sprintf("%s:probe#%d:bare-needle", fname, ord), w.Pos(call.Pos()), "existence probe cannot match inside a longer name or path",
								"`"+types.ExprString(call)+"` searches for the bare value `"+types.ExprString(inner)+"`: it is also found inside a longer one (import path .../router/hello inside .../router/hello/example), the entry is taken as present and its registration is never generated")
						}
					}
				}
			}
			for _, sp := range sprintfsOf(call.Args[1]) {
				if len(sp.Args) < 2 {
					continue
				}
				format, ok := strEval(w, info, sp.Args[0], 0)
				if !ok {
					continue
				}
				i := strings.Index(format, "%")
				if i < 0 || i+1 >= len(format) || (format[i+1] != 's' && format[i+1] != 'v') {
					continue
				}
				ord++
				n++
				key := fmt.Sprintf("%s:probe#%d:left-delimited", fname, ord)
				okDelim := i > 0 && !isIdentByte(format[i-1])
				r.Check(okDelim, rule, key, w.Pos(sp.Pos()), "existence probe cannot match inside a longer identifier",
					fmt.Sprintf("probe format %q puts the generated name at an identifier boundary it does not check: the name is found as the tail of a longer declared name and its own declaration is never appended", format))
			}
			return true
		})
	}
	r.Floor(rule, n, 3, "Sprintf-built existence probes in cmd/hz/generator")
}

// C20.sorted — every expression tree that is not reachable from the top-level root through
// operand links gets its own priority sort.
func c20Sorted(e *Env) {
	const rule = "C20.sorted"
	w, r := e.W, e.R
	r.Explainf("C20.sorted: the parser builds trees left to right and re-associates them afterwards with sortPriority, which follows Left/RightOperand links only. Every group root that a function creates with newGroupExprNode() and fills with parseExprNode must therefore, in that function, either be handed to sortPriority after the parse or be attached with SetLeftOperand/SetRightOperand (so that the caller's pass reaches it). Roots kept in side lists (function arguments, selector sub-expressions) that skip the sort evaluate `1 + $ * 2` as `(1 + $) * 2`.")
	p := w.Pkg(relTagexpr)
	if p == nil {
		r.Anchor(rule, "package internal/tagexpr")
		return
	}
	info := p.TypesInfo
	parse := w.Func(relTagexpr, "Expr", "parseExprNode")
	sortF := w.Func(relTagexpr, "", "sortPriority")
	newGrp := w.Func(relTagexpr, "", "newGroupExprNode")
	if parse == nil || sortF == nil || newGrp == nil {
		r.Anchor(rule, "tagexpr.(*Expr).parseExprNode / sortPriority / newGroupExprNode")
		return
	}
	n := 0
	for _, fi := range declaredNonTest(w) {
		if fi.Pkg != p || fi.Decl.Body == nil || fi.Obj == parse.Obj {
			continue
		}
		fname := w.FuncName(fi.Obj)
		// locals holding a fresh group root
		roots := map[types.Object]bool{}
		ast.Inspect(fi.Decl.Body, func(nd ast.Node) bool {
			if as, ok := nd.(*ast.AssignStmt); ok && len(as.Lhs) == 1 && len(as.Rhs) == 1 {
				if c, ok := unparen(as.Rhs[0]).(*ast.CallExpr); ok && calleeOf(info, c) == newGrp.Obj {
					if id, ok := as.Lhs[0].(*ast.Ident); ok {
						roots[info.ObjectOf(id)] = true
					}
				}
			}
			return true
		})
		if len(roots) == 0 {
			continue
		}
		ord := 0
		seen := map[types.Object]bool{}
		ast.Inspect(fi.Decl.Body, func(nd ast.Node) bool {
			c, ok := nd.(*ast.CallExpr)
			if !ok || calleeOf(info, c) != parse.Obj || len(c.Args) != 2 {
				return true
			}
			id, ok := unparen(c.Args[1]).(*ast.Ident)
			if !ok || !roots[info.ObjectOf(id)] {
				return true
			}
			root := info.ObjectOf(id)
			if seen[root] {
				return true // several parse calls fill the same root (alternative branches): one obligation
			}
			seen[root] = true
			ord++
			n++
			key := fmt.Sprintf("%s:root#%d:sorted-or-linked", fname, ord)
			how := ""
			ast.Inspect(fi.Decl.Body, func(m ast.Node) bool {
				c2, ok := m.(*ast.CallExpr)
				if !ok || c2.Pos() < c.End() {
					return true
				}
				for _, a := range c2.Args {
					if aid, ok := unparen(a).(*ast.Ident); ok && info.ObjectOf(aid) == root {
						f := calleeOf(info, c2)
						switch {
						case f == sortF.Obj:
							how = "sortPriority"
						case f != nil && (f.Name() == "SetLeftOperand" || f.Name() == "SetRightOperand") && how == "":
							how = f.Name()
						}
					}
				}
				return true
			})
			if how != "" {
				r.OKd(rule, key, w.Pos(c.Pos()), "a locally parsed expression tree is priority-sorted or linked as an operand", how)
			} else {
				r.Fail(rule, key, w.Pos(c.Pos()), "a locally parsed expression tree is priority-sorted or linked as an operand",
					"the tree parsed into `"+id.Name+"` is neither passed to sortPriority nor attached as an operand: it stays left-associated and ignores operator priority when evaluated")
			}
			return true
		})
	}
	r.Floor(rule, n, 5, "locally created expression roots filled by parseExprNode")
}

// C13.len — the unread-length counter moves with the bytes.
func c13Len(e *Env) {
	const rule = "C13.len"
	w, r := e.W, e.R
	r.Explainf("C13.len: linkBuffer.len (what Len() reports) is written only (a) as `len += n` in a block that also advances a node's write offset by the same n (`malloc += n`: bytes received), and (b) as `len -= n` in a function that first rejects `Len() < n` and advances the read node's offset — the only writer of a read offset on the input side; it is never assigned otherwise. The counter then equals the number of received-but-unconsumed bytes, which is what Peek/Skip/fill and Release's fast path rely on.")
	lenF := w.Field("pkg/network/standard", "linkBuffer", "len")
	malloc := w.Field("pkg/network/standard", "linkBufferNode", "malloc")
	off := w.Field("pkg/network/standard", "linkBufferNode", "off")
	inBuf := w.Field("pkg/network/standard", "Conn", "inputBuffer")
	if lenF == nil || malloc == nil || off == nil || inBuf == nil {
		r.Anchor(rule, "standard.linkBuffer.len / linkBufferNode.malloc / off / Conn.inputBuffer")
		return
	}
	nAdd, nSub := 0, 0
	for _, fi := range declaredNonTest(w) {
		if fi.Decl.Body == nil || w.RelPkg(fi.Obj.Pkg()) != "pkg/network/standard" {
			continue
		}
		info := fi.Pkg.TypesInfo
		fname := w.FuncName(fi.Obj)
		par := parents(fi.Decl)
		k := 0
		// the counter of the input side: c.inputBuffer.len
		isInLen := func(x ast.Expr) bool {
			se, ok := unparen(x).(*ast.SelectorExpr)
			return ok && usedVar(info, se) == lenF && usedVar(info, se.X) == inBuf
		}
		ast.Inspect(fi.Decl.Body, func(nd ast.Node) bool {
			switch x := nd.(type) {
			case *ast.IncDecStmt:
				if isInLen(x.X) {
					k++
					r.Fail(rule, fmt.Sprintf("%s:len-write#%d", fname, k), w.Pos(x.Pos()), "the unread-length counter changes only by the number of bytes received or consumed", "`"+types.ExprString(x.X)+x.Tok.String()+"` changes the counter by one without a matching offset change")
				}
			case *ast.AssignStmt:
				for i, l := range x.Lhs {
					if !isInLen(l) {
						continue
					}
					k++
					key := fmt.Sprintf("%s:len-write#%d", fname, k)
					pos := w.Pos(x.Pos())
					if len(x.Rhs) != len(x.Lhs) || (x.Tok != token.ADD_ASSIGN && x.Tok != token.SUB_ASSIGN) {
						r.Fail(rule, key, pos, "the unread-length counter changes only by += received / -= consumed", "`"+nodeString2(x)+"` sets the counter directly")
						continue
					}
					amt := usedVar(info, x.Rhs[i])
					if amt == nil {
						r.Fail(rule, key, pos, "the amount added to/subtracted from the counter is a variable shared with the offset update", "amount `"+types.ExprString(x.Rhs[i])+"` is not a plain variable; undecided")
						continue
					}
					if x.Tok == token.ADD_ASSIGN {
						nAdd++
						// same block: <node>.malloc += amt
						paired := false
						if blk, ok := par[x].(*ast.BlockStmt); ok {
							for _, s := range blk.List {
								if a2, ok := s.(*ast.AssignStmt); ok && a2.Tok == token.ADD_ASSIGN && len(a2.Lhs) == 1 && len(a2.Rhs) == 1 && usedVar(info, a2.Lhs[0]) == malloc && usedVar(info, a2.Rhs[0]) == amt {
									paired = true
								}
							}
						}
						r.Check(paired, rule, key+":paired-with-malloc", pos, "len += n goes with malloc += n in the same block", "`"+nodeString2(x)+"` has no `….malloc += "+amt.Name()+"` beside it: Len() would count bytes that were not received (or miss received ones)")
					} else {
						nSub++
						// guard: an earlier statement of the function returns when Len() < amt
						guarded := false
						for _, s := range fi.Decl.Body.List {
							if s.Pos() >= x.Pos() {
								break
							}
							is, ok := s.(*ast.IfStmt)
							if !ok || !terminates(is.Body) {
								continue
							}
							if be, ok := unparen(is.Cond).(*ast.BinaryExpr); ok && be.Op == token.LSS && usedVar(info, be.Y) == amt {
								if usedVar(info, be.X) == lenF {
									guarded = true
								} else if c, ok := unparen(be.X).(*ast.CallExpr); ok && len(c.Args) == 0 {
									if d := w.DeclOf(calleeOf(info, c)); d != nil && d.Decl.Body != nil && len(d.Decl.Body.List) == 1 {
										if rs, ok := d.Decl.Body.List[0].(*ast.ReturnStmt); ok && len(rs.Results) == 1 && usedVar(d.Pkg.TypesInfo, rs.Results[0]) == lenF {
											guarded = true
										}
									}
								}
							}
						}
						advances := false
						ast.Inspect(fi.Decl.Body, func(m ast.Node) bool {
							if a2, ok := m.(*ast.AssignStmt); ok && a2.Tok == token.ADD_ASSIGN && len(a2.Lhs) == 1 && usedVar(info, a2.Lhs[0]) == off {
								advances = true
							}
							return true
						})
						r.Check(guarded, rule, key+":not-below-zero", pos, "len -= n only after `Len() < n` was rejected", "`"+nodeString2(x)+"` is not preceded by a check that "+amt.Name()+" bytes are buffered: the counter can go negative")
						r.Check(advances, rule, key+":advances-read-offset", pos, "the function that decreases the counter advances a read offset", "no `….off += …` in "+fname+": bytes are counted as consumed but stay readable")
					}
				}
			}
			return true
		})
	}
	r.Floor(rule, nAdd, 1, "`len += n` sites")
	r.Floor(rule, nSub, 1, "`len -= n` sites")
}

// C10.budget — the per-phase deadline never exceeds what is left of the request timeout.
func c10Budget(e *Env) {
	const rule = "C10.budget"
	w, r := e.W, e.R
	r.Explainf("C10.budget: zone abstract interpretation of the function that turns the whole-request timeout into the deadline of the next write/read (http1.updateReqTimeout, or whatever (Duration, Duration, Time) → (bool, Duration) function doNonNilReqResp uses): on every return that does not ask to close the connection and lies behind the computation `left := reqTimeout − time.Since(begin)`, the returned duration is ≤ left (and it is the phase timeout only when that is smaller). A deadline larger than the remaining budget lets a stalled peer hold a call beyond its request timeout.")
	var fi *core.FuncInfo
	if fi = w.Func("pkg/protocol/http1", "", "updateReqTimeout"); fi == nil {
		// by role: package-level (Duration, Duration, Time) → (bool, Duration)
		n := 0
		for _, d := range declaredNonTest(w) {
			if d.Decl.Body == nil || w.RelPkg(d.Obj.Pkg()) != "pkg/protocol/http1" || recvNamed(d.Obj) != nil {
				continue
			}
			if sigString(d.Obj) == "func(reqTimeout time.Duration, compareTimeout time.Duration, before time.Time) (shouldCloseConn bool, timeout time.Duration)" ||
				(func() bool {
					s := d.Obj.Type().(*types.Signature)
					return s.Params().Len() == 3 && s.Results().Len() == 2 && s.Params().At(0).Type().String() == "time.Duration" && s.Params().At(1).Type().String() == "time.Duration" && s.Params().At(2).Type().String() == "time.Time" && s.Results().At(0).Type().String() == "bool" && s.Results().At(1).Type().String() == "time.Duration"
				})() {
				fi = d
				n++
			}
		}
		if n != 1 {
			r.Anchor(rule, "http1.updateReqTimeout (or the one (Duration, Duration, Time) → (bool, Duration) function of the package)")
			return
		}
	}
	fn := w.SSAFunc(fi)
	if fn == nil || len(fn.Params) != 3 {
		r.Anchor(rule, "SSA of "+w.FuncName(fi.Obj))
		return
	}
	fname := w.FuncName(fi.Obj)
	// left := reqTimeout - time.Since(before)
	var left ssa.Value
	for _, b := range fn.Blocks {
		for _, ins := range b.Instrs {
			if bo, ok := ins.(*ssa.BinOp); ok && bo.Op == token.SUB && bo.X == ssa.Value(fn.Params[0]) {
				if c, ok := bo.Y.(*ssa.Call); ok && c.Call.StaticCallee() != nil && c.Call.StaticCallee().Pkg != nil && c.Call.StaticCallee().Pkg.Pkg.Path() == "time" {
					left = bo
				}
			}
		}
	}
	if left == nil {
		r.Fail(rule, fname+":remaining", w.Pos(fi.Decl.Pos()), "the remaining budget is computed as reqTimeout − time.Since(begin)", "no such subtraction found in "+fname+"; undecided")
		return
	}
	lb := left.(*ssa.BinOp).Block()
	z := getZone(w)
	n := 0
	opts := zone.Options{
		Custom: func(a *zone.Analyzer, d *zone.DBM, ins ssa.Instruction) {
			ret, ok := ins.(*ssa.Return)
			if !ok || len(ret.Results) != 2 || !lb.Dominates(ret.Block()) {
				return
			}
			if c, isC := ret.Results[0].(*ssa.Const); !isC || c.Value == nil || c.Value.String() != "false" {
				return
			}
			n++
			key := fmt.Sprintf("%s:return#%d:within-budget", fname, n)
			if d == nil {
				r.Fail(rule, key, w.Pos(ret.Pos()), "returned deadline ≤ remaining request budget", "return in a block the analysis did not reach; undecided")
				return
			}
			ub := zone.Tub(d, a.IntTerm(ret.Results[1]), a.IntTerm(left))
			r.Check(ub <= 0, rule, key, w.Pos(ret.Pos()), "returned deadline ≤ remaining request budget",
				fmt.Sprintf("on this return the deadline is not shown to be ≤ the remaining budget (bound of deadline − left: %s): the phase timeout is handed out although less than that is left of the request timeout", boundStr(ub)))
		},
	}
	z.prog.Analyze(fn, opts)
	r.Unit("%s: %s — %d keep-alive returns behind the budget computation", rule, fname, n)
	r.Floor(rule, n, 2, "returns (false, d) behind `left := reqTimeout − time.Since(…)`")
}

// C06.payload — a node's route payload (handlers, pattern, parameter names) is replaced or
// cleared as a whole.
func c06Payload(e *Env) {
	const rule = "C06.payload"
	w, r := e.W, e.R
	r.Explainf("C06.payload: the route payload of a tree node is the set of node fields that newNode initialises from the route description insert receives (handler chain, full pattern, parameter names). In router.insert every block that assigns one payload field of a node assigns all of them on that node — from the route's values when a route is attached, or to their zero values when an edge is split and the payload moves to the new node. A partial update leaves the handler of one route with the pattern or parameter names of another (Param(\"id\") filed under another route's name).")
	ins := w.Func("pkg/route", "router", "insert")
	newNode := w.Func("pkg/route", "", "newNode")
	node := w.Named("pkg/route", "node")
	if ins == nil || newNode == nil || node == nil {
		r.Anchor(rule, "route.router.insert / newNode / node")
		return
	}
	info := ins.Pkg.TypesInfo
	fname := w.FuncName(ins.Obj)
	// parameters of insert that are passed to newNode somewhere: the route description
	insParams := map[*types.Var]bool{}
	sig := ins.Obj.Type().(*types.Signature)
	for i := 0; i < sig.Params().Len(); i++ {
		insParams[sig.Params().At(i)] = true
	}
	nnSig := newNode.Obj.Type().(*types.Signature)
	routeParamOfNewNode := map[*types.Var]bool{} // newNode params that receive an insert param at some call in insert
	ast.Inspect(ins.Decl.Body, func(n ast.Node) bool {
		if c, ok := n.(*ast.CallExpr); ok && calleeOf(info, c) == newNode.Obj {
			for i, a := range c.Args {
				if v := usedVar(info, a); v != nil && insParams[v] && i < nnSig.Params().Len() {
					// the path/prefix and kind arguments describe the edge, not the route payload
					if b, isB := v.Type().Underlying().(*types.Basic); isB && (b.Kind() == types.Uint8 || b.Info()&types.IsInteger != 0) {
						continue
					}
					routeParamOfNewNode[nnSig.Params().At(i)] = true
				}
			}
		}
		return true
	})
	// payload fields: fields the newNode literal sets from those parameters
	payload := map[*types.Var]bool{}
	ninfo := newNode.Pkg.TypesInfo
	ast.Inspect(newNode.Decl.Body, func(n ast.Node) bool {
		if kv, ok := n.(*ast.KeyValueExpr); ok {
			if v := usedVar(ninfo, kv.Value); v != nil && routeParamOfNewNode[v] {
				if f, _ := ninfo.ObjectOf(kv.Key.(*ast.Ident)).(*types.Var); f != nil && f.IsField() {
					if _, isPtr := f.Type().Underlying().(*types.Pointer); !isPtr { // child links are C06.reparent's
						if f.Name() != "prefix" && f.Name() != "label" {
							payload[f] = true
						}
					}
				}
			}
		}
		return true
	})
	var pnames []string
	for f := range payload {
		pnames = append(pnames, f.Name())
	}
	sortStrings(pnames)
	r.Unit("%s: payload fields of route.node: %v", rule, pnames)
	r.Floor(rule, len(payload), 3, "payload fields of the tree node")
	// blocks of insert
	nBlk := 0
	ast.Inspect(ins.Decl.Body, func(n ast.Node) bool {
		var stmts []ast.Stmt
		switch x := n.(type) {
		case *ast.BlockStmt:
			stmts = x.List
		case *ast.CaseClause:
			stmts = x.Body
		default:
			return true
		}
		// per base variable: payload fields assigned directly in this block
		type upd struct {
			fields map[*types.Var]bool
			pos    ast.Node
		}
		byBase := map[*types.Var]*upd{}
		for _, s := range stmts {
			as, ok := s.(*ast.AssignStmt)
			if !ok {
				continue
			}
			for _, l := range as.Lhs {
				se, ok := unparen(l).(*ast.SelectorExpr)
				if !ok {
					continue
				}
				f := usedVar(info, se)
				if f == nil || !payload[f] {
					continue
				}
				base := usedVar(info, se.X)
				if base == nil {
					continue
				}
				if byBase[base] == nil {
					byBase[base] = &upd{fields: map[*types.Var]bool{}, pos: as}
				}
				byBase[base].fields[f] = true
			}
		}
		for base, u := range byBase {
			nBlk++
			var missing []string
			for f := range payload {
				if !u.fields[f] {
					missing = append(missing, f.Name())
				}
			}
			sortStrings(missing)
			var have []string
			for f := range u.fields {
				have = append(have, f.Name())
			}
			sortStrings(have)
			key := fmt.Sprintf("%s:%s{%s}", fname, base.Name(), strings.Join(have, ","))
			r.Check(len(missing) == 0, rule, key, w.Pos(u.pos.Pos()), "a block that changes a node's route payload changes all of it",
				fmt.Sprintf("the block assigns %v of %s but not %v: the node keeps part of another route's description", have, base.Name(), missing))
		}
		return true
	})
	r.Floor(rule, nBlk, 3, "blocks of insert that update a node's route payload")
}

// C13.remainder — a loop that works off a byte count subtracts from the running remainder.
func c13Remainder(e *Env) {
	const rule = "C13.remainder"
	w, r := e.W, e.R
	r.Explainf("C13.remainder: in package network/standard every for-loop whose init copies a byte count into a loop variable (`for ack := n; ack > 0; …`) updates that variable only by subtracting from ITSELF (`ack = ack - l`, `ack -= l`): recomputing it from the original count (`ack = n - l`) is right for one step only — across three buffer nodes the cursor lands too far ahead and Len() disagrees with the real position.")
	n := 0
	for _, fi := range declaredNonTest(w) {
		if fi.Decl.Body == nil || w.RelPkg(fi.Obj.Pkg()) != "pkg/network/standard" {
			continue
		}
		info := fi.Pkg.TypesInfo
		fname := w.FuncName(fi.Obj)
		k := 0
		ast.Inspect(fi.Decl.Body, func(nd ast.Node) bool {
			fs, ok := nd.(*ast.ForStmt)
			if !ok || fs.Init == nil || fs.Cond == nil {
				return true
			}
			ini, ok := fs.Init.(*ast.AssignStmt)
			if !ok || len(ini.Lhs) != 1 || len(ini.Rhs) != 1 || ini.Tok != token.DEFINE {
				return true
			}
			lv := usedVar(info, ini.Lhs[0])
			src := usedVar(info, ini.Rhs[0])
			if lv == nil || src == nil {
				return true
			}
			// condition `lv > 0`
			be, ok := unparen(fs.Cond).(*ast.BinaryExpr)
			if !ok || be.Op != token.GTR || usedVar(info, be.X) != lv {
				return true
			}
			k++
			n++
			key := fmt.Sprintf("%s:loop#%d:%s", fname, k, lv.Name())
			bad := ""
			check := func(as *ast.AssignStmt) {
				for i, l := range as.Lhs {
					if usedVar(info, l) != lv {
						continue
					}
					switch as.Tok {
					case token.SUB_ASSIGN:
					case token.ASSIGN:
						okForm := false
						if len(as.Rhs) == len(as.Lhs) {
							if b2, ok := unparen(as.Rhs[i]).(*ast.BinaryExpr); ok && b2.Op == token.SUB && usedVar(info, b2.X) == lv {
								okForm = true
							}
						}
						if !okForm {
							bad = nodeString2(as)
						}
					default:
						bad = nodeString2(as)
					}
				}
			}
			if p, ok := fs.Post.(*ast.AssignStmt); ok {
				check(p)
			}
			ast.Inspect(fs.Body, func(m ast.Node) bool {
				if as, ok := m.(*ast.AssignStmt); ok {
					check(as)
				}
				return true
			})
			r.Check(bad == "", rule, key, w.Pos(fs.Pos()), "the remaining count is reduced from its own previous value", "`"+bad+"` recomputes the remainder instead of subtracting from it: after the second buffer node the count is wrong")
			return true
		})
	}
	r.Floor(rule, n, 1, "count-down loops over a byte count in network/standard")
}

// C12.abortfirst — helpers documented to stop the chain abort before they do anything that
// can unwind the stack.
func c12AbortFirst(e *Env) {
	const rule = "C12.abortfirst"
	w, r := e.W, e.R
	r.Explainf("C12.abortfirst: in every RequestContext method that calls Abort() and also renders a body through Render/JSON-style helpers (which panic when the payload cannot be marshalled), Abort() precedes the rendering call: otherwise a recovered panic leaves the chain index un-aborted and the handlers after the aborting one still run.")
	abort := w.Func("pkg/app", "RequestContext", "Abort")
	render := w.Func("pkg/app", "RequestContext", "Render")
	if abort == nil || render == nil {
		r.Anchor(rule, "app.RequestContext.Abort / Render")
		return
	}
	// methods that (transitively, within RequestContext) reach Render
	reachRender := map[*types.Func]bool{render.Obj: true}
	for changed := true; changed; {
		changed = false
		for _, fi := range declaredNonTest(w) {
			if rn := recvNamed(fi.Obj); rn == nil || rn.Obj().Name() != "RequestContext" || fi.Decl.Body == nil || reachRender[fi.Obj] {
				continue
			}
			if len(funcsCallingIn(fi, func(f *types.Func) bool { return reachRender[f] })) > 0 {
				reachRender[fi.Obj] = true
				changed = true
			}
		}
	}
	n := 0
	for _, fi := range declaredNonTest(w) {
		if rn := recvNamed(fi.Obj); rn == nil || rn.Obj().Name() != "RequestContext" || fi.Decl.Body == nil {
			continue
		}
		aborts := funcsCallingIn(fi, func(f *types.Func) bool { return f == abort.Obj })
		renders := funcsCallingIn(fi, func(f *types.Func) bool { return reachRender[f] })
		if len(aborts) == 0 || len(renders) == 0 || fi.Obj == abort.Obj {
			continue
		}
		n++
		first := renders[0]
		for _, c := range renders {
			if c.Pos() < first.Pos() {
				first = c
			}
		}
		okOrder := false
		for _, a := range aborts {
			if a.Pos() < first.Pos() {
				okOrder = true
			}
		}
		r.Check(okOrder, rule, w.FuncName(fi.Obj)+":abort-before-render", w.Pos(fi.Decl.Pos()), "Abort() precedes the rendering call", "the body is rendered (may panic on an unmarshallable payload) before Abort(): after a recovered panic the remaining handlers run")
	}
	r.Floor(rule, n, 1, "RequestContext methods that abort and render")
}

// C16.cache — a name is recorded only after it was made unique.
func c16Cache(e *Env) {
	const rule = "C16.cache"
	r := e.R
	r.Explainf("C16.cache: in cmd/hz/generator, when a block makes a name unique with one of util's Get…UniqueName functions (`x, _ = util.GetHandlerPackageUniqueName(x)`), no earlier statement of that block stores x into a map or a field: what is cached for later methods of the same package must be the unique alias, or two packages end up behind one import alias.")
	w, err := e.HZ()
	if err != nil {
		r.Fail(rule, "engine:load-cmd-hz", "-", "cmd/hz module loads", err.Error())
		return
	}
	gen, util := w.Pkg("generator"), w.Pkg("util")
	if gen == nil || util == nil {
		r.Anchor(rule, "cmd/hz/generator / util")
		return
	}
	info := gen.TypesInfo
	isUniq := func(f *types.Func) bool {
		return f != nil && f.Pkg() == util.Types && strings.HasPrefix(f.Name(), "Get") && strings.HasSuffix(f.Name(), "UniqueName")
	}
	n := 0
	for _, fi := range declaredNonTest(w) {
		if fi.Pkg != gen || fi.Decl.Body == nil {
			continue
		}
		fname := w.FuncName(fi.Obj)
		k := 0
		ast.Inspect(fi.Decl.Body, func(nd ast.Node) bool {
			blk, ok := nd.(*ast.BlockStmt)
			if !ok {
				return true
			}
			for i, s := range blk.List {
				as, ok := s.(*ast.AssignStmt)
				if !ok || len(as.Rhs) != 1 {
					continue
				}
				c, ok := unparen(as.Rhs[0]).(*ast.CallExpr)
				if !ok || !isUniq(calleeOf(info, c)) || len(c.Args) != 1 {
					continue
				}
				x := usedVar(info, as.Lhs[0])
				if x == nil || usedVar(info, c.Args[0]) != x {
					continue
				}
				k++
				n++
				key := fmt.Sprintf("%s:uniq#%d:%s", fname, k, x.Name())
				early := ""
				for _, prev := range blk.List[:i] {
					ast.Inspect(prev, func(m ast.Node) bool {
						a2, ok := m.(*ast.AssignStmt)
						if !ok {
							return true
						}
						for j, l := range a2.Lhs {
							if j >= len(a2.Rhs) || usedVar(info, a2.Rhs[j]) != x {
								continue
							}
							switch unparen(l).(type) {
							case *ast.IndexExpr, *ast.SelectorExpr:
								early = nodeString2(a2)
							}
						}
						return true
					})
				}
				r.Check(early == "", rule, key, w.Pos(as.Pos()), "nothing records the name before it is made unique", "`"+early+"` stores the raw name before `"+nodeString2(as)+"`: later uses read the non-unique name back")
			}
			return true
		})
	}
	r.Floor(rule, n, 1, "in-place uniquifications `x, _ = util.Get…UniqueName(x)` in the generator")
}

// C15.default — a default is dropped when the JSON body carries the key (all sibling decoders).
func c15Default(e *Env) {
	const rule = "C15.default"
	w, r := e.W, e.R
	r.Explainf("C15.default: the field decoders are siblings of one scheme. In each of them the json-tag branch takes the declared default unconditionally (`v = tagInfo.Default`) and then clears it when the body carries the key (`if … && keyExist(req, tagInfo) { v = \"\" }`). Every call of keyExist in package decoder must have exactly that shape; the variable survives loop iterations, so 'set the default only when the key is absent' lets a default stored for an earlier, higher-priority tag overwrite a value the JSON body did bind.")
	p := w.Pkg("pkg/app/server/binding/internal/decoder")
	if p == nil {
		r.Anchor(rule, "package binding/internal/decoder")
		return
	}
	info := p.TypesInfo
	n := 0
	for _, fi := range declaredNonTest(w) {
		if fi.Pkg != p || fi.Decl.Body == nil || fi.Obj.Name() == "keyExist" {
			continue
		}
		fname := w.FuncName(fi.Obj)
		par := parents(fi.Decl)
		k := 0
		ast.Inspect(fi.Decl.Body, func(nd ast.Node) bool {
			call, ok := nd.(*ast.CallExpr)
			if !ok {
				return true
			}
			f := calleeOf(info, call)
			if f == nil || f.Name() != "keyExist" || f.Pkg() != p.Types {
				return true
			}
			k++
			n++
			key := fmt.Sprintf("%s:keyExist#%d", fname, k)
			// enclosing if whose condition holds the call as a positive conjunct
			var is *ast.IfStmt
			neg := false
			for cur := ast.Node(call); cur != nil; cur = par[cur] {
				if u, ok := cur.(*ast.UnaryExpr); ok && u.Op == token.NOT {
					neg = !neg
				}
				if x, ok := par[cur].(*ast.IfStmt); ok {
					if cur == ast.Node(x.Cond) {
						is = x
					}
					break
				}
			}
			var cleared *types.Var
			if is != nil && !neg {
				for _, s := range is.Body.List {
					if as, ok := s.(*ast.AssignStmt); ok && len(as.Lhs) == 1 && len(as.Rhs) == 1 && as.Tok == token.ASSIGN {
						if v, ok2 := constString(info, as.Rhs[0]); ok2 && v == "" {
							cleared = usedVar(info, as.Lhs[0])
						}
					}
				}
			}
			r.Check(cleared != nil, rule, key+":clears-default", w.Pos(call.Pos()), "when the body carries the key the pending default is cleared", "keyExist is not used as `if … && keyExist(…) { v = \"\" }`: the default can be applied over a value bound from the JSON body")
			if cleared == nil {
				return true
			}
			// the same variable is set from a Default field earlier in the enclosing block
			taken := false
			if blk, ok := par[is].(*ast.BlockStmt); ok {
				for _, s := range blk.List {
					if s.Pos() >= is.Pos() {
						break
					}
					if as, ok := s.(*ast.AssignStmt); ok && len(as.Lhs) == 1 && len(as.Rhs) == 1 && usedVar(info, as.Lhs[0]) == cleared {
						if se, ok := unparen(as.Rhs[0]).(*ast.SelectorExpr); ok && se.Sel.Name == "Default" {
							taken = true
						}
					}
				}
			}
			r.Check(taken, rule, key+":takes-default-first", w.Pos(call.Pos()), "the json branch first takes this tag's default unconditionally", "no unconditional `"+cleared.Name()+" = tagInfo.Default` before the keyExist test in the same block: a default carried over from an earlier tag stays in force")
			return true
		})
	}
	r.Floor(rule, n, 4, "keyExist call sites in the sibling decoders")
}

// C08.precond — a reader that needs an open file is only chosen for entries that have one.
func c08Precond(e *Env) {
	const rule = "C08.precond"
	w, r := e.W, e.R
	r.Explainf("C08.precond: fsFile methods that panic when the entry has no open file (`if ff.f == nil { panic(…) }`) have the precondition f != nil. (1) Every fsFile literal sets exactly one of `f` (a file on disk) and `dirIndex` (a generated directory page), and neither field is assigned elsewhere, so `len(ff.dirIndex) == 0` implies f != nil. (2) Every call of such a method is guarded — directly or through a predicate method on the same entry whose single return is a conjunction — by `len(ff.dirIndex) == 0` or `ff.f != nil`. Dropping the conjunct sends a large generated index page to the big-file reader, which panics in the handler.")
	ff := w.Named("pkg/app", "fsFile")
	fF := w.Field("pkg/app", "fsFile", "f")
	dI := w.Field("pkg/app", "fsFile", "dirIndex")
	p := w.Pkg("pkg/app")
	if ff == nil || fF == nil || dI == nil || p == nil {
		r.Anchor(rule, "app.fsFile / f / dirIndex")
		return
	}
	info := p.TypesInfo
	// (1) constructors
	nLit := 0
	for _, fi := range declaredNonTest(w) {
		if fi.Pkg != p || fi.Decl.Body == nil {
			continue
		}
		fname := w.FuncName(fi.Obj)
		ast.Inspect(fi.Decl.Body, func(nd ast.Node) bool {
			switch x := nd.(type) {
			case *ast.CompositeLit:
				if t := info.TypeOf(x); t == nil || !types.Identical(t, ff) {
					return true
				}
				nLit++
				hasF, hasD := false, false
				for _, el := range x.Elts {
					if kv, ok := el.(*ast.KeyValueExpr); ok {
						if id, ok := kv.Key.(*ast.Ident); ok {
							switch info.ObjectOf(id) {
							case types.Object(fF):
								hasF = true
							case types.Object(dI):
								hasD = true
							}
						}
					}
				}
				r.Check(hasF != hasD, rule, fmt.Sprintf("%s:fsFile-literal#%d:one-of-f-dirIndex", fname, nLit), w.Pos(x.Pos()), "an fsFile is built with exactly one of an open file and a generated index", fmt.Sprintf("literal sets f=%v dirIndex=%v", hasF, hasD))
			case *ast.AssignStmt:
				for _, l := range x.Lhs {
					if v := usedVar(info, l); v == fF || v == dI {
						r.Fail(rule, fname+":assigns:"+v.Name(), w.Pos(x.Pos()), "f and dirIndex are fixed at construction", "`"+nodeString2(x)+"` changes the field after construction; the invariant is undecided")
					}
				}
			}
			return true
		})
	}
	r.Floor(rule, nLit, 2, "fsFile literals")
	// (2) methods with the precondition
	isGuardExpr := func(finfo *types.Info, x ast.Expr) bool {
		be, ok := unparen(x).(*ast.BinaryExpr)
		if !ok {
			return false
		}
		if be.Op == token.NEQ && usedVar(finfo, be.X) == fF {
			if id, ok := unparen(be.Y).(*ast.Ident); ok && id.Name == "nil" {
				return true
			}
		}
		if be.Op == token.EQL {
			if c, ok := unparen(be.X).(*ast.CallExpr); ok && isBuiltin(finfo, c, "len") && usedVar(finfo, c.Args[0]) == dI {
				if z, ok := constInt(finfo, be.Y); ok && z == 0 {
					return true
				}
			}
		}
		return false
	}
	var conjuncts func(x ast.Expr) []ast.Expr
	conjuncts = func(x ast.Expr) []ast.Expr {
		if be, ok := unparen(x).(*ast.BinaryExpr); ok && be.Op == token.LAND {
			return append(conjuncts(be.X), conjuncts(be.Y)...)
		}
		return []ast.Expr{x}
	}
	implies := func(finfo *types.Info, cond ast.Expr) bool {
		for _, cj := range conjuncts(cond) {
			if isGuardExpr(finfo, cj) {
				return true
			}
			// predicate method whose body is `return a && b && …`
			if c, ok := unparen(cj).(*ast.CallExpr); ok {
				if d := w.DeclOf(calleeOf(finfo, c)); d != nil && d.Pkg == p && d.Decl.Body != nil && len(d.Decl.Body.List) == 1 {
					if rs, ok := d.Decl.Body.List[0].(*ast.ReturnStmt); ok && len(rs.Results) == 1 {
						for _, c2 := range conjuncts(rs.Results[0]) {
							if isGuardExpr(d.Pkg.TypesInfo, c2) {
								return true
							}
						}
					}
				}
			}
		}
		return false
	}
	var needF []*core.FuncInfo
	for _, fi := range declaredNonTest(w) {
		if fi.Pkg != p || fi.Decl.Body == nil {
			continue
		}
		if rn := recvNamed(fi.Obj); rn == nil || rn.Obj() != ff.Obj() {
			continue
		}
		for _, s := range fi.Decl.Body.List {
			is, ok := s.(*ast.IfStmt)
			if !ok || len(is.Body.List) == 0 {
				continue
			}
			be, ok := unparen(is.Cond).(*ast.BinaryExpr)
			if !ok || be.Op != token.EQL || usedVar(info, be.X) != fF {
				continue
			}
			if es, ok := is.Body.List[0].(*ast.ExprStmt); ok {
				if c, ok := es.X.(*ast.CallExpr); ok && isBuiltin(info, c, "panic") {
					needF = append(needF, fi)
				}
			}
		}
	}
	r.Floor(rule, len(needF), 1, "fsFile methods that panic on f == nil")
	nCall := 0
	for _, need := range needF {
		for _, fi := range declaredNonTest(w) {
			if fi.Pkg != p || fi.Decl.Body == nil {
				continue
			}
			par := parents(fi.Decl)
			k := 0
			for _, call := range funcsCallingIn(fi, func(f *types.Func) bool { return f == need.Obj }) {
				k++
				nCall++
				okG := false
				for _, cond := range enclosingThenConds(par, call) {
					if implies(info, cond) {
						okG = true
					}
				}
				// an earlier `if !G { return … }` in an enclosing block establishes G as well
				for cur := ast.Node(call); cur != nil && !okG; cur = par[cur] {
					blk, isBlk := par[cur].(*ast.BlockStmt)
					if !isBlk {
						continue
					}
					for _, st := range blk.List {
						if st.Pos() >= cur.Pos() {
							break
						}
						if is, ok := st.(*ast.IfStmt); ok && is.Else == nil && terminates(is.Body) {
							if u, ok := unparen(is.Cond).(*ast.UnaryExpr); ok && u.Op == token.NOT && implies(info, u.X) {
								okG = true
							}
						}
					}
				}
				r.Check(okG, rule, fmt.Sprintf("%s:%s#%d:guarded", w.FuncName(fi.Obj), need.Obj.Name(), k), w.Pos(call.Pos()), need.Obj.Name()+" is called only for entries with an open file", "the call is not under a condition implying `len(ff.dirIndex) == 0` / `ff.f != nil`: a generated directory page (no file) reaches a reader that panics without one")
			}
		}
	}
	r.Floor(rule, nCall, 1, "calls of the f-requiring methods")
	r.Assume("C08.precond: a generated directory index is never empty (createDirIndex writes at least the HTML frame), so len(dirIndex) == 0 identifies file entries")
}

// C13.window — bytes are taken from a node only inside its [off, malloc) window.
func c13Window(e *Env) {
	const rule = "C13.window"
	w, r := e.W, e.R
	r.Explainf("C13.window: fill stretches every node's slice to its capacity (`node.buf = node.buf[:cap]`), so the valid bytes of a node are buf[off:malloc] only. In package network/standard every slice of a node's buf that starts at its read offset (`buf[X.off…`) has an explicit upper bound; `buf[off:]` also copies the stale bytes behind malloc, which advances the destination index too far when a read spans two nodes.")
	bufF := w.Field("pkg/network/standard", "linkBufferNode", "buf")
	off := w.Field("pkg/network/standard", "linkBufferNode", "off")
	if bufF == nil || off == nil {
		r.Anchor(rule, "standard.linkBufferNode.buf / off")
		return
	}
	n := 0
	for _, fi := range declaredNonTest(w) {
		if fi.Decl.Body == nil || w.RelPkg(fi.Obj.Pkg()) != "pkg/network/standard" {
			continue
		}
		info := fi.Pkg.TypesInfo
		fname := w.FuncName(fi.Obj)
		k := 0
		ast.Inspect(fi.Decl.Body, func(nd ast.Node) bool {
			se, ok := nd.(*ast.SliceExpr)
			if !ok || usedVar(info, se.X) != bufF || se.Low == nil {
				return true
			}
			fromOff := false
			ast.Inspect(se.Low, func(m ast.Node) bool {
				if x, ok := m.(ast.Expr); ok && usedVar(info, x) == off {
					fromOff = true
				}
				return true
			})
			if !fromOff {
				return true
			}
			k++
			n++
			r.Check(se.High != nil, rule, fmt.Sprintf("%s:buf[off…]#%d:bounded", fname, k), w.Pos(se.Pos()), "a slice of a node's buffer that starts at its read offset has an upper bound", "`"+types.ExprString(se)+"` runs to the end of the stretched buffer: bytes behind the node's write offset are taken for data")
			return true
		})
	}
	r.Floor(rule, n, 3, "slices buf[off…] in network/standard")
}

// C13.alias — a local holding a buffer's tail node is re-read after a call that may replace
// the tail node.
func c13Alias(e *Env) {
	const rule = "C13.alias"
	w, r := e.W, e.R
	r.Explainf("C13.alias: the tail node of a link buffer (`linkBuffer.write`) is replaced by the functions that append a node (found as the functions assigning that field: Malloc, WriteBinary, fill, handleTail). In every function of package network/standard, a local variable assigned from `….write` is not used after a call to one of those functions until it has been assigned from `….write` again (statement order): the stale alias points at the previous node, and resetting or filling it corrupts what is flushed.")
	writeF := w.Field("pkg/network/standard", "linkBuffer", "write")
	if writeF == nil {
		r.Anchor(rule, "standard.linkBuffer.write")
		return
	}
	// functions that assign the field
	repl := map[*types.Func]bool{}
	for _, fi := range declaredNonTest(w) {
		if fi.Decl.Body == nil || w.RelPkg(fi.Obj.Pkg()) != "pkg/network/standard" {
			continue
		}
		info := fi.Pkg.TypesInfo
		ast.Inspect(fi.Decl.Body, func(nd ast.Node) bool {
			if as, ok := nd.(*ast.AssignStmt); ok {
				for _, l := range as.Lhs {
					if usedVar(info, l) == writeF {
						repl[fi.Obj] = true
					}
				}
			}
			return true
		})
	}
	r.Floor(rule, len(repl), 2, "functions that replace a buffer's tail node")
	n := 0
	for _, fi := range declaredNonTest(w) {
		if fi.Decl.Body == nil || w.RelPkg(fi.Obj.Pkg()) != "pkg/network/standard" {
			continue
		}
		info := fi.Pkg.TypesInfo
		fname := w.FuncName(fi.Obj)
		// locals assigned from ….write
		holders := map[*types.Var]bool{}
		ast.Inspect(fi.Decl.Body, func(nd ast.Node) bool {
			if as, ok := nd.(*ast.AssignStmt); ok && len(as.Lhs) == len(as.Rhs) {
				for i, l := range as.Lhs {
					if id, ok := l.(*ast.Ident); ok && usedVar(info, as.Rhs[i]) == writeF {
						if v, ok := info.ObjectOf(id).(*types.Var); ok && !v.IsField() {
							holders[v] = true
						}
					}
				}
			}
			return true
		})
		for v := range holders {
			n++
			// events in source order: refresh / stale / use
			type ev struct {
				pos  token.Pos
				kind string
				txt  string
			}
			var evs []ev
			refreshLHS := map[*ast.Ident]bool{}
			ast.Inspect(fi.Decl.Body, func(nd ast.Node) bool {
				switch x := nd.(type) {
				case *ast.AssignStmt:
					if len(x.Lhs) == len(x.Rhs) {
						for i, l := range x.Lhs {
							if id, ok := l.(*ast.Ident); ok && info.ObjectOf(id) == types.Object(v) && usedVar(info, x.Rhs[i]) == writeF {
								evs = append(evs, ev{x.End(), "refresh", ""})
								refreshLHS[id] = true
							}
						}
					}
				case *ast.CallExpr:
					if f := calleeOf(info, x); f != nil && repl[f] {
						evs = append(evs, ev{x.End(), "stale", f.Name()})
					}
				case *ast.Ident:
					if info.ObjectOf(x) == types.Object(v) && !refreshLHS[x] {
						evs = append(evs, ev{x.Pos(), "use", ""})
					}
				}
				return true
			})
			sort.Slice(evs, func(i, j int) bool { return evs[i].pos < evs[j].pos })
			stale, bad := "", ""
			var badPos token.Pos
			for _, e2 := range evs {
				switch e2.kind {
				case "refresh":
					stale = ""
				case "stale":
					stale = e2.txt
				case "use":
					if stale != "" && bad == "" {
						bad, badPos = stale, e2.pos
					}
				}
			}
			key := fmt.Sprintf("%s:%s:fresh", fname, v.Name())
			if bad == "" {
				r.OK(rule, key, w.Pos(fi.Decl.Pos()), "the tail-node alias is re-read after every call that may replace the tail")
			} else {
				r.Fail(rule, key, w.Pos(badPos), "the tail-node alias is re-read after every call that may replace the tail", v.Name()+" is used after "+bad+"(…) without being re-read from ….write: it still points at the previous tail node")
			}
		}
	}
	r.Floor(rule, n, 1, "locals holding a buffer's tail node")
}
