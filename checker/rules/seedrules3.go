package rules

// Rules added after the fourth round of independently seeded changes (seeded/*-r4-*).

import (
	"fmt"
	"go/ast"
	"go/token"
	"go/types"
	"strings"

	"hzcheck/core"
)

// C15.config — the decoder configuration copies each binder option into the field of the
// same name, and the sibling builders agree.
func c15Config(e *Env) {
	const rule = "C15.config"
	w, r := e.W, e.R
	r.Explainf("C15.config: the decoders are built from a DecodeConfig literal that snapshots the binder's options; the decoder is cached per type, so a wrong snapshot is permanent. In every DecodeConfig literal of package binding, an element `K: b.config.F` (a field of BindConfig) has K == F — an option is copied into the field of the same name — and all such literals set the same keys.")
	p := w.Pkg(relBinding)
	if p == nil {
		r.Anchor(rule, "package binding")
		return
	}
	info := p.TypesInfo
	n := 0
	var keysets []string
	for _, fi := range declaredNonTest(w) {
		if fi.Pkg != p || fi.Decl.Body == nil {
			continue
		}
		fname := w.FuncName(fi.Obj)
		k := 0
		ast.Inspect(fi.Decl.Body, func(nd ast.Node) bool {
			cl, ok := nd.(*ast.CompositeLit)
			if !ok {
				return true
			}
			t := info.TypeOf(cl)
			if t == nil || !strings.HasSuffix(t.String(), "decoder.DecodeConfig") {
				return true
			}
			k++
			n++
			var keys []string
			for _, el := range cl.Elts {
				kv, ok := el.(*ast.KeyValueExpr)
				if !ok {
					continue
				}
				kid, _ := kv.Key.(*ast.Ident)
				if kid == nil {
					continue
				}
				keys = append(keys, kid.Name)
				se, ok := unparen(kv.Value).(*ast.SelectorExpr)
				if !ok {
					continue
				}
				fv := usedVar(info, se)
				if fv == nil || !fv.IsField() {
					continue
				}
				// only options read from the binder's configuration struct
				if xt := info.TypeOf(se.X); xt == nil || !strings.Contains(xt.String(), "BindConfig") {
					continue
				}
				r.Check(kid.Name == fv.Name(), rule, fmt.Sprintf("%s:DecodeConfig#%d:%s", fname, k, kid.Name), w.Pos(kv.Pos()), "decoder option "+kid.Name+" is copied from the binder option of the same name", "`"+kid.Name+": "+types.ExprString(kv.Value)+"` copies a different option: decoders built here (and cached for the type) ignore "+kid.Name)
			}
			sortStrings(keys)
			keysets = append(keysets, strings.Join(keys, ","))
			return true
		})
	}
	r.Floor(rule, n, 1, "DecodeConfig literals in package binding")
	same := true
	for _, ks := range keysets {
		if ks != keysets[0] {
			same = false
		}
	}
	r.Check(same, rule, "binding:DecodeConfig:siblings-agree", "-", "all DecodeConfig literals set the same options", fmt.Sprintf("the literals differ in the options they set: %v", keysets))
}

// C17.fill — every function that takes a recycled slot from allocArg writes all its fields.
func c17Fill(e *Env) {
	const rule = "C17.fill"
	w, r := e.W, e.R
	r.Explainf("C17.fill: allocArg hands out a slot of the backing array without clearing it. In every function of package protocol that obtains a slot this way (`args, kv = allocArg(args)`) and fills it itself (functions that hand kv to a scanner are covered by C17.slot), each field of argsKV that the function assigns through kv anywhere is assigned on every path: at the top level of the function, or in both arms of an if/else. A field set in one arm only (noValue on the no-value branch) keeps the previous occupant's state: a later `k=v` is serialised as `k`.")
	p := w.Pkg("pkg/protocol")
	kvT := w.Named("pkg/protocol", "argsKV")
	if p == nil || kvT == nil {
		r.Anchor(rule, "protocol.argsKV")
		return
	}
	st, _ := kvT.Underlying().(*types.Struct)
	info := p.TypesInfo
	n := 0
	// the slot allocator, by shape: func([]argsKV) ([]argsKV, *argsKV) in package protocol
	isSlotAlloc := func(f *types.Func) bool {
		if f == nil || f.Pkg() != p.Types {
			return false
		}
		sig, _ := f.Type().(*types.Signature)
		if sig == nil || sig.Recv() != nil || sig.Params().Len() != 1 || sig.Results().Len() != 2 {
			return false
		}
		sl, ok := sig.Params().At(0).Type().Underlying().(*types.Slice)
		if !ok || !types.Identical(sig.Results().At(0).Type(), sig.Params().At(0).Type()) {
			return false
		}
		pt, ok := sig.Results().At(1).Type().(*types.Pointer)
		return ok && types.Identical(pt.Elem(), sl.Elem())
	}
	for _, fi := range declaredNonTest(w) {
		if fi.Pkg != p || fi.Decl.Body == nil || isSlotAlloc(fi.Obj) {
			continue
		}
		// kv variable assigned from allocArg
		var kv *types.Var
		ast.Inspect(fi.Decl.Body, func(nd ast.Node) bool {
			if as, ok := nd.(*ast.AssignStmt); ok && len(as.Rhs) == 1 && len(as.Lhs) == 2 {
				if c, ok := unparen(as.Rhs[0]).(*ast.CallExpr); ok {
					if f := calleeOf(info, c); isSlotAlloc(f) {
						kv = usedVar(info, as.Lhs[1])
					}
				}
			}
			return true
		})
		if kv == nil {
			continue
		}
		// a function that hands the slot to a callee (a scanner's next(kv)) delegates the filling:
		// C17.slot covers the scanners
		delegated := false
		ast.Inspect(fi.Decl.Body, func(nd ast.Node) bool {
			if c, ok := nd.(*ast.CallExpr); ok {
				for _, a := range c.Args {
					if usedVar(info, a) == kv {
						delegated = true
					}
				}
			}
			return true
		})
		if delegated {
			continue
		}
		n++
		fname := w.FuncName(fi.Obj)
		// the fields this function assigns through kv somewhere
		assignedSomewhere := map[*types.Var]bool{}
		ast.Inspect(fi.Decl.Body, func(nd ast.Node) bool {
			if as, ok := nd.(*ast.AssignStmt); ok {
				for _, l := range as.Lhs {
					if se, ok := unparen(l).(*ast.SelectorExpr); ok && usedVar(info, se.X) == kv {
						if f := usedVar(info, se); f != nil {
							assignedSomewhere[f] = true
						}
					}
				}
			}
			return true
		})
		// must-assign over statement lists: a field is covered by a list if some statement
		// assigns kv.F, or an if with else covers it in both arms
		var covers func(list []ast.Stmt, f *types.Var) bool
		covers = func(list []ast.Stmt, f *types.Var) bool {
			for _, s := range list {
				switch x := s.(type) {
				case *ast.AssignStmt:
					for _, l := range x.Lhs {
						if se, ok := unparen(l).(*ast.SelectorExpr); ok && usedVar(info, se) == f && usedVar(info, se.X) == kv {
							return true
						}
					}
				case *ast.IfStmt:
					if x.Else != nil {
						var els []ast.Stmt
						switch e2 := x.Else.(type) {
						case *ast.BlockStmt:
							els = e2.List
						case *ast.IfStmt:
							els = []ast.Stmt{e2}
						}
						if covers(x.Body.List, f) && covers(els, f) {
							return true
						}
					}
				case *ast.BlockStmt:
					if covers(x.List, f) {
						return true
					}
				}
			}
			return false
		}
		// where the slot is obtained inside a nested block, that block's statement list is the scope
		scope := fi.Decl.Body.List
		ast.Inspect(fi.Decl.Body, func(nd ast.Node) bool {
			var list []ast.Stmt
			switch blk := nd.(type) {
			case *ast.BlockStmt:
				list = blk.List
			case *ast.CaseClause:
				list = blk.Body
			case *ast.CommClause:
				list = blk.Body
			}
			for _, s2 := range list {
				if as, ok := s2.(*ast.AssignStmt); ok && len(as.Lhs) == 2 && usedVar(info, as.Lhs[1]) == kv {
					scope = list
				}
			}
			return true
		})
		for i := 0; st != nil && i < st.NumFields(); i++ {
			f := st.Field(i)
			if !assignedSomewhere[f] {
				continue // a list whose readers never look at this field (cookies: noValue)
			}
			r.Check(covers(scope, f), rule, fname+":"+f.Name(), w.Pos(fi.Decl.Pos()), "field "+f.Name()+" of the recycled slot is assigned on every path", "kv."+f.Name()+" is not assigned on every path after allocArg: the slot keeps what its previous occupant left there")
		}
	}
	r.Floor(rule, n, 2, "functions filling a slot obtained from allocArg")
}

// C10.chpool — a result channel goes back to its pool only after its result was received.
func c10ChPool(e *Env) {
	const rule = "C10.chpool"
	w, r := e.W, e.R
	r.Explainf("C10.chpool: in every function of the client packages that takes a channel from a sync.Pool, hands it to a goroutine it starts (the goroutine sends the result on it) and waits in a select, the channel is Put back only inside the select case that received from it. Putting it back on the timeout arm (or after the select) recycles a channel a sender still holds: the next caller receives the previous request's late response.")
	n := 0
	for _, fi := range declaredNonTest(w) {
		if fi.Decl.Body == nil || !strings.HasPrefix(w.RelPkg(fi.Obj.Pkg()), "pkg/protocol") {
			continue
		}
		info := fi.Pkg.TypesInfo
		fname := w.FuncName(fi.Obj)
		// pooled values: v := pool.Get()
		pooled := map[*types.Var]bool{}
		ast.Inspect(fi.Decl.Body, func(nd ast.Node) bool {
			if as, ok := nd.(*ast.AssignStmt); ok && len(as.Lhs) == 1 && len(as.Rhs) == 1 {
				if c, ok := unparen(as.Rhs[0]).(*ast.CallExpr); ok {
					if f := calleeOf(info, c); f != nil && f.Name() == "Get" && f.Pkg() != nil && f.Pkg().Path() == "sync" {
						if v := usedVar(info, as.Lhs[0]); v != nil {
							pooled[v] = true
						}
					}
				}
			}
			return true
		})
		if len(pooled) == 0 {
			continue
		}
		// channel aliases: ch = v.(chan T)
		chanOf := map[*types.Var]*types.Var{} // pooled value -> typed channel variable
		ast.Inspect(fi.Decl.Body, func(nd ast.Node) bool {
			if as, ok := nd.(*ast.AssignStmt); ok && len(as.Lhs) == 1 && len(as.Rhs) == 1 {
				if ta, ok := unparen(as.Rhs[0]).(*ast.TypeAssertExpr); ok {
					if v := usedVar(info, ta.X); v != nil && pooled[v] {
						if cv := usedVar(info, as.Lhs[0]); cv != nil {
							if _, isCh := cv.Type().Underlying().(*types.Chan); isCh {
								chanOf[v] = cv
							}
						}
					}
				}
			}
			return true
		})
		par := parents(fi.Decl)
		for v, ch := range chanOf {
			// a goroutine started here sends on ch
			sends := false
			ast.Inspect(fi.Decl.Body, func(nd ast.Node) bool {
				if g, ok := nd.(*ast.GoStmt); ok {
					ast.Inspect(g, func(m ast.Node) bool {
						if s, ok := m.(*ast.SendStmt); ok && usedVar(info, s.Chan) == ch {
							sends = true
						}
						return true
					})
				}
				return true
			})
			if !sends {
				continue
			}
			n++ // a pooled channel with a sender goroutine (whether or not it is put back)
			k := 0
			ast.Inspect(fi.Decl.Body, func(nd ast.Node) bool {
				c, ok := nd.(*ast.CallExpr)
				if !ok || len(c.Args) != 1 {
					return true
				}
				f := calleeOf(info, c)
				if f == nil || f.Name() != "Put" || f.Pkg() == nil || f.Pkg().Path() != "sync" {
					return true
				}
				if a := usedVar(info, c.Args[0]); a != v && a != ch {
					return true
				}
				k++
				okPut := false
				for cur := ast.Node(c); cur != nil; cur = par[cur] {
					if cc, ok := par[cur].(*ast.CommClause); ok && cc.Comm != nil {
						ast.Inspect(cc.Comm, func(m ast.Node) bool {
							if u, ok := m.(*ast.UnaryExpr); ok && u.Op == token.ARROW && usedVar(info, u.X) == ch {
								okPut = true
							}
							return true
						})
					}
				}
				r.Check(okPut, rule, fmt.Sprintf("%s:Put#%d:after-receive", fname, k), w.Pos(c.Pos()), "the result channel is pooled only in the select case that received its result", "`"+types.ExprString(c)+"` is reached without having received from "+ch.Name()+": the goroutine still running for this call will send its (late) result to whoever gets the channel next")
				return true
			})
			// the same holds for every other object the goroutine works on: it may be given back
			// to its pool (Release…/Put) only in the case that received the goroutine's result
			used := map[*types.Var]bool{}
			var goStmts []*ast.GoStmt
			ast.Inspect(fi.Decl.Body, func(nd ast.Node) bool {
				if g, ok := nd.(*ast.GoStmt); ok {
					goStmts = append(goStmts, g)
					ast.Inspect(g, func(m ast.Node) bool {
						if id, ok := m.(*ast.Ident); ok {
							if uv, ok := info.Uses[id].(*types.Var); ok && !uv.IsField() && uv != v && uv != ch && uv.Pkg() == fi.Obj.Pkg() && uv.Parent() != uv.Pkg().Scope() {
								used[uv] = true
							}
						}
						return true
					})
				}
				return true
			})
			kr := 0
			ast.Inspect(fi.Decl.Body, func(nd ast.Node) bool {
				c, ok := nd.(*ast.CallExpr)
				if !ok || len(c.Args) != 1 {
					return true
				}
				for _, g := range goStmts {
					if within(c, g) {
						return true
					}
				}
				f := calleeOf(info, c)
				if f == nil || !(strings.HasPrefix(f.Name(), "Release") || (f.Name() == "Put" && f.Pkg() != nil && f.Pkg().Path() == "sync")) {
					return true
				}
				a := usedVar(info, c.Args[0])
				if a == nil || !used[a] {
					return true
				}
				kr++
				okRel := false
				for cur := ast.Node(c); cur != nil; cur = par[cur] {
					if cc, ok := par[cur].(*ast.CommClause); ok && cc.Comm != nil {
						ast.Inspect(cc.Comm, func(m ast.Node) bool {
							if u, ok := m.(*ast.UnaryExpr); ok && u.Op == token.ARROW && usedVar(info, u.X) == ch {
								okRel = true
							}
							return true
						})
					}
				}
				r.Check(okRel, rule, fmt.Sprintf("%s:%s(%s)#%d:after-receive", fname, f.Name(), a.Name(), kr), w.Pos(c.Pos()), "an object the worker goroutine uses is given back to its pool only in the select case that received the worker's result",
					"`"+types.ExprString(c)+"` is reached without having received from "+ch.Name()+": on the timeout arm the goroutine started for this call is still using "+a.Name()+", which is reset and handed to the next Acquire while it is being written")
				return true
			})
		}
	}
	r.Floor(rule, n, 1, "pooled result channels handed to a sender goroutine")
}

// C16.collect — the update path collects the group and the handler middleware of a node
// independently, as the template declares them.
func c16Collect(e *Env) {
	const rule = "C16.collect"
	r := e.R
	r.Explainf("C16.collect: the middleware template declares a group function when a node has children and a handler function when it has a handler — two independent conditions, a node can have both. Wherever the generator collects these names for an existing middleware.go (appends of node.GroupMiddleware and node.HandlerMiddleware to one list), the two appends sit under independent ifs: neither is in the else-branch of the other. An `else if` drops the handler middleware of a node that is both a route and a group; the router then calls an undeclared function.")
	w, err := e.HZ()
	if err != nil {
		r.Fail(rule, "engine:load-cmd-hz", "-", "cmd/hz module loads", err.Error())
		return
	}
	gen := w.Pkg("generator")
	if gen == nil {
		r.Anchor(rule, "cmd/hz/generator")
		return
	}
	info := gen.TypesInfo
	n := 0
	for _, fi := range declaredNonTest(w) {
		if fi.Pkg != gen || fi.Decl.Body == nil {
			continue
		}
		fname := w.FuncName(fi.Obj)
		par := parents(fi.Decl)
		// appends per list variable
		type app struct {
			call  *ast.CallExpr
			field string
		}
		byList := map[*types.Var][]app{}
		ast.Inspect(fi.Decl.Body, func(nd ast.Node) bool {
			as, ok := nd.(*ast.AssignStmt)
			if !ok || len(as.Lhs) != 1 || len(as.Rhs) != 1 {
				return true
			}
			c, ok := unparen(as.Rhs[0]).(*ast.CallExpr)
			if !ok || !isBuiltin(info, c, "append") || len(c.Args) != 2 {
				return true
			}
			lv := usedVar(info, as.Lhs[0])
			se, ok := unparen(c.Args[1]).(*ast.SelectorExpr)
			if lv == nil || !ok {
				return true
			}
			if se.Sel.Name == "GroupMiddleware" || se.Sel.Name == "HandlerMiddleware" {
				byList[lv] = append(byList[lv], app{c, se.Sel.Name})
			}
			return true
		})
		for lv, apps := range byList {
			var g, h *ast.CallExpr
			for _, a := range apps {
				if a.field == "GroupMiddleware" {
					g = a.call
				} else {
					h = a.call
				}
			}
			if g == nil || h == nil {
				continue
			}
			n++
			// is x inside the else part of an if whose then part contains y?
			inElseOf := func(x, y ast.Node) bool {
				for cur := x; cur != nil; cur = par[cur] {
					if is, ok := par[cur].(*ast.IfStmt); ok && cur == is.Else {
						found := false
						ast.Inspect(is.Body, func(m ast.Node) bool {
							if m == y {
								found = true
							}
							return true
						})
						if found {
							return true
						}
					}
				}
				return false
			}
			r.Check(!inElseOf(h, g) && !inElseOf(g, h), rule, fmt.Sprintf("%s:%s:independent", fname, lv.Name()), w.Pos(h.Pos()), "group and handler middleware of a node are collected independently", "one of the two appends is in the else-branch of the other: a node that is both a route and a group contributes only one of its two middleware functions")
		}
	}
	r.Floor(rule, n, 1, "collectors of group+handler middleware names")
}

// C04.slots — deleting from a header list keeps every slot's buffers private.
func c04Slots(e *Env) {
	const rule = "C04.slots"
	w, r := e.W, e.R
	r.Explainf("C04.slots: header and argument lists are []argsKV whose slots (key/value buffers) are reused by the next append. Wherever package protocol deletes an element in place (`copy(xs[i:], xs[i+1:])`), the removed element is saved before the copy and parked in the vacated last slot afterwards (`tmp := *kv … xs[n] = tmp`), so that no two slots of the backing array share buffers. Without it the slot behind the new end aliases the last live entry, and the next header written there overwrites that entry's bytes — in this and every later response of the pooled context.")
	p := w.Pkg("pkg/protocol")
	kvT := w.Named("pkg/protocol", "argsKV")
	if p == nil || kvT == nil {
		r.Anchor(rule, "protocol.argsKV")
		return
	}
	info := p.TypesInfo
	n := 0
	for _, fi := range declaredNonTest(w) {
		if fi.Pkg != p || fi.Decl.Body == nil {
			continue
		}
		fname := w.FuncName(fi.Obj)
		par := parents(fi.Decl)
		k := 0
		ast.Inspect(fi.Decl.Body, func(nd ast.Node) bool {
			c, ok := nd.(*ast.CallExpr)
			if !ok || !isBuiltin(info, c, "copy") || len(c.Args) != 2 {
				return true
			}
			d, ok1 := unparen(c.Args[0]).(*ast.SliceExpr)
			s, ok2 := unparen(c.Args[1]).(*ast.SliceExpr)
			if !ok1 || !ok2 || types.ExprString(d.X) != types.ExprString(s.X) {
				return true
			}
			st, ok := info.TypeOf(d.X).Underlying().(*types.Slice)
			if !ok || !types.Identical(st.Elem(), kvT) {
				return true
			}
			k++
			n++
			key := fmt.Sprintf("%s:delete#%d:parks-removed-slot", fname, k)
			// enclosing statement list
			var stmt ast.Node = c
			for stmt != nil {
				if _, ok := stmt.(ast.Stmt); ok {
					break
				}
				stmt = par[stmt]
			}
			blk, _ := par[stmt].(*ast.BlockStmt)
			okPark := false
			if blk != nil {
				var saved *types.Var
				after := false
				for _, s2 := range blk.List {
					if ast.Node(s2) == stmt {
						after = true
						continue
					}
					as, ok := s2.(*ast.AssignStmt)
					if !ok || len(as.Lhs) != 1 || len(as.Rhs) != 1 {
						continue
					}
					if !after {
						// tmp := *kv  /  tmp := xs[i]
						if v := usedVar(info, as.Lhs[0]); v != nil && types.Identical(v.Type(), kvT) {
							saved = v
						}
					} else if saved != nil {
						if ix, ok := unparen(as.Lhs[0]).(*ast.IndexExpr); ok && types.ExprString(ix.X) == types.ExprString(d.X) && usedVar(info, as.Rhs[0]) == saved {
							okPark = true
						}
					}
				}
			}
			r.Check(okPark, rule, key, w.Pos(c.Pos()), "the removed element is parked in the vacated slot", "`"+types.ExprString(c)+"` is not followed by `"+types.ExprString(d.X)+"[n] = <saved element>`: the slot behind the new end shares its key/value buffers with the last live entry")
			return true
		})
	}
	r.Floor(rule, n, 2, "in-place deletions from []argsKV")
}

// C18.waitgroup — a WaitGroup is incremented before the goroutine it accounts for starts.
func c18WaitGroup(e *Env) {
	const rule = "C18.waitgroup"
	w, r := e.W, e.R
	r.Explainf("C18.waitgroup: in packages route, app/server and network/…, no `wg.Add` is called inside a goroutine literal on a sync.WaitGroup declared outside it: Wait can then run before any Add and return at once — Shutdown would not wait for its hooks.")
	n := 0
	for _, fi := range declaredNonTest(w) {
		rel := w.RelPkg(fi.Obj.Pkg())
		if fi.Decl.Body == nil || !(rel == "pkg/route" || strings.HasPrefix(rel, "pkg/app/server") || strings.HasPrefix(rel, "pkg/network")) {
			continue
		}
		info := fi.Pkg.TypesInfo
		fname := w.FuncName(fi.Obj)
		k := 0
		ast.Inspect(fi.Decl.Body, func(nd ast.Node) bool {
			g, ok := nd.(*ast.GoStmt)
			if !ok {
				return true
			}
			fl, ok := g.Call.Fun.(*ast.FuncLit)
			if !ok {
				return true
			}
			ast.Inspect(fl.Body, func(m ast.Node) bool {
				c, ok := m.(*ast.CallExpr)
				if !ok {
					return true
				}
				f := calleeOf(info, c)
				if f == nil || f.Pkg() == nil || f.Pkg().Path() != "sync" {
					return true
				}
				rn := recvNamed(f)
				if rn == nil || rn.Obj().Name() != "WaitGroup" {
					return true
				}
				se, ok := unparen(c.Fun).(*ast.SelectorExpr)
				if !ok {
					return true
				}
				v := usedVar(info, se.X)
				if v == nil || (v.Pos() >= fl.Pos() && v.Pos() <= fl.End()) {
					return true // declared inside the goroutine
				}
				k++
				n++
				key := fmt.Sprintf("%s:go#%d:%s.%s", fname, k, v.Name(), f.Name())
				if f.Name() == "Add" {
					r.Fail(rule, key, w.Pos(c.Pos()), "the WaitGroup is incremented before the goroutine starts", "`"+types.ExprString(c)+"` runs inside the goroutine: "+v.Name()+".Wait() may already have returned")
				} else {
					r.OK(rule, key, w.Pos(c.Pos()), "goroutine reports completion on an outer WaitGroup")
				}
				return true
			})
			return true
		})
	}
	r.Floor(rule, n, 1, "WaitGroup calls inside goroutine literals")
	_ = core.Mod
}

// C13.tailptr — after head/read were pointed at the tail node, the tail node is not replaced.
func c13TailPtr(e *Env) {
	const rule = "C13.tailptr"
	w, r := e.W, e.R
	r.Explainf("C13.tailptr: in package network/standard, when a statement points a buffer's `head` or `read` at its tail node (`….head, ….read = ….write, ….write`), no later statement of the same block calls a function that may replace and release the tail node (the functions assigning `linkBuffer.write`, e.g. handleTail for oversized nodes): the pointers would be left on a released node, and the next Peek walks off the chain (nil dereference — a peer-triggerable crash with a large body followed by another request).")
	writeF := w.Field("pkg/network/standard", "linkBuffer", "write")
	headF := w.Field("pkg/network/standard", "linkBuffer", "head")
	readF := w.Field("pkg/network/standard", "linkBuffer", "read")
	if writeF == nil || headF == nil || readF == nil {
		r.Anchor(rule, "standard.linkBuffer.{write,head,read}")
		return
	}
	repl := map[*types.Func]bool{}
	for _, fi := range declaredNonTest(w) {
		if fi.Decl.Body == nil || w.RelPkg(fi.Obj.Pkg()) != "pkg/network/standard" {
			continue
		}
		info := fi.Pkg.TypesInfo
		ast.Inspect(fi.Decl.Body, func(nd ast.Node) bool {
			if as, ok := nd.(*ast.AssignStmt); ok {
				for _, l := range as.Lhs {
					if usedVar(info, l) == writeF {
						repl[fi.Obj] = true
					}
				}
			}
			return true
		})
	}
	n := 0
	for _, fi := range declaredNonTest(w) {
		if fi.Decl.Body == nil || w.RelPkg(fi.Obj.Pkg()) != "pkg/network/standard" {
			continue
		}
		info := fi.Pkg.TypesInfo
		fname := w.FuncName(fi.Obj)
		k := 0
		ast.Inspect(fi.Decl.Body, func(nd ast.Node) bool {
			blk, ok := nd.(*ast.BlockStmt)
			if !ok {
				return true
			}
			for i, s := range blk.List {
				as, ok := s.(*ast.AssignStmt)
				if !ok || len(as.Lhs) != len(as.Rhs) {
					continue
				}
				points := false
				for j, l := range as.Lhs {
					if lv := usedVar(info, l); (lv == headF || lv == readF) && usedVar(info, as.Rhs[j]) == writeF {
						points = true
					}
				}
				if !points {
					continue
				}
				k++
				n++
				bad := ""
				for _, later := range blk.List[i+1:] {
					ast.Inspect(later, func(m ast.Node) bool {
						if c, ok := m.(*ast.CallExpr); ok {
							if f := calleeOf(info, c); f != nil && repl[f] && f != fi.Obj {
								bad = f.Name()
							}
						}
						return true
					})
				}
				r.Check(bad == "", rule, fmt.Sprintf("%s:to-tail#%d", fname, k), w.Pos(as.Pos()), "head/read are pointed at the tail node only after the tail can no longer be replaced", bad+"(…) follows `"+nodeString2(as)+"` in the same block and may replace and release the tail node the pointers were just set to")
			}
			return true
		})
	}
	r.Floor(rule, n, 1, "statements pointing head/read at the tail node")
}

// C13.wreset — a node of the output buffer is reset only when everything was flushed.
func c13WriterReset(e *Env) {
	const rule = "C13.wreset"
	w, r := e.W, e.R
	r.Explainf("C13.wreset: on the writer side of standard.Conn a node Reset discards what the node holds. Outside Flush itself (which resets the node it has just written out completely), every `outputBuffer.….Reset()` is preceded, at the top level of the same function, by an unconditional `if err = c.Flush(); err != nil { return }`: otherwise bytes that were reserved or written but not yet flushed are wiped and what is sent next overwrites them — the peer receives less than the concatenation of what was written.")
	outF := w.Field("pkg/network/standard", "Conn", "outputBuffer")
	flush := w.Func("pkg/network/standard", "Conn", "Flush")
	if outF == nil || flush == nil {
		r.Anchor(rule, "standard.Conn.outputBuffer / Flush")
		return
	}
	n := 0
	for _, fi := range declaredNonTest(w) {
		if fi.Decl.Body == nil || w.RelPkg(fi.Obj.Pkg()) != "pkg/network/standard" || fi.Obj == flush.Obj {
			continue
		}
		info := fi.Pkg.TypesInfo
		fname := w.FuncName(fi.Obj)
		k := 0
		ast.Inspect(fi.Decl.Body, func(nd ast.Node) bool {
			c, ok := nd.(*ast.CallExpr)
			if !ok {
				return true
			}
			f := calleeOf(info, c)
			if f == nil || f.Name() != "Reset" {
				return true
			}
			if rn := recvNamed(f); rn == nil || rn.Obj().Name() != "linkBufferNode" {
				return true
			}
			se, ok := unparen(c.Fun).(*ast.SelectorExpr)
			if !ok {
				return true
			}
			// receiver path goes through the output buffer (or a local assigned from it)
			outAlias := map[*types.Var]bool{}
			ast.Inspect(fi.Decl.Body, func(m ast.Node) bool {
				if as, ok := m.(*ast.AssignStmt); ok && len(as.Lhs) == len(as.Rhs) {
					for i, rh := range as.Rhs {
						if usedVar(info, rh) == outF {
							if lv := usedVar(info, as.Lhs[i]); lv != nil && !lv.IsField() {
								outAlias[lv] = true
							}
						}
					}
				}
				return true
			})
			viaOut := false
			ast.Inspect(se.X, func(m ast.Node) bool {
				if x, ok := m.(ast.Expr); ok {
					if v := usedVar(info, x); v != nil && (v == outF || outAlias[v]) {
						viaOut = true
					}
				}
				return true
			})
			if !viaOut {
				return true
			}
			k++
			n++
			flushed := false
			for _, s := range fi.Decl.Body.List {
				if s.Pos() >= c.Pos() {
					break
				}
				is, ok := s.(*ast.IfStmt)
				if !ok || is.Init == nil || !terminates(is.Body) {
					continue
				}
				if as, ok := is.Init.(*ast.AssignStmt); ok && len(as.Rhs) == 1 {
					if fc, ok := unparen(as.Rhs[0]).(*ast.CallExpr); ok && calleeOf(info, fc) == flush.Obj {
						flushed = true
					}
				}
			}
			r.Check(flushed, rule, fmt.Sprintf("%s:Reset#%d:after-flush", fname, k), w.Pos(c.Pos()), "an output node is reset only after an unconditional Flush", "`"+types.ExprString(c)+"` is not preceded by a top-level `if err = c.Flush(); err != nil { return }`: pending output in that node is discarded")
			return true
		})
	}
	r.Floor(rule, n, 1, "Reset calls on output-buffer nodes outside Flush")
}
