package rules

// Rules added after the sixth round of independently seeded changes (seeded/*-r6-*).

import (
	"fmt"
	"go/ast"
	"go/token"
	"go/types"
	"strings"

	"golang.org/x/tools/go/ssa"

	"hzcheck/zone"
)

// C03.cap — re-slicing a buffer of fixed capacity stays within that capacity.
func c03Cap(e *Env) {
	const rule = "C03.cap"
	w, r := e.W, e.R
	r.Explainf("C03.cap: in the peer-input surface packages, a buffer made with a constant capacity (`make([]byte, 0, 128)`, the stack buffer of CleanPath) and later re-sliced with a computed upper bound (`buf[:n+1]`) must have that bound ≤ the capacity at the slice expression (zone analysis over go/ssa): the bound is derived from the length of a peer-controlled string, and one past the capacity panics with `slice bounds out of range` before any recovery middleware runs.")
	z := getZone(w)
	surf := map[string]bool{}
	for _, p := range surfacePkgs {
		surf[p] = true
	}
	n := 0
	count := map[string]int{}
	for _, fn := range z.fns {
		if !surf[fnPkgRel(w, fn)] || fn.Blocks == nil {
			continue
		}
		// pre-filter: a MakeSlice with constant cap whose value (possibly through a phi) is sliced
		fixedCap := map[ssa.Value]int64{}
		for _, b := range fn.Blocks {
			for _, ins := range b.Instrs {
				if mk, ok := ins.(*ssa.MakeSlice); ok {
					if c, ok := mk.Cap.(*ssa.Const); ok && c.Value != nil {
						fixedCap[mk] = c.Int64()
					}
				}
				// make([]T, l, N) with constant N is built as `new [N]T` + slice
				if sl, ok := ins.(*ssa.Slice); ok && sl.Max == nil {
					if al, ok := sl.X.(*ssa.Alloc); ok {
						if pt, ok := al.Type().Underlying().(*types.Pointer); ok {
							if at, ok := pt.Elem().Underlying().(*types.Array); ok {
								fixedCap[sl] = at.Len()
							}
						}
					}
				}
			}
		}
		if len(fixedCap) == 0 {
			continue
		}
		// a local spilled to a memory cell (its address is handed to a helper later): a load of
		// the cell has a fixed capacity when every store to the cell — and every call receiving
		// the cell's address — that can reach the load stores a buffer of that same capacity
		type writer struct {
			ins ssa.Instruction
			cap int64 // -1 unknown
		}
		cellWriters := map[*ssa.Alloc][]writer{}
		for _, b := range fn.Blocks {
			for _, ins := range b.Instrs {
				switch x := ins.(type) {
				case *ssa.Store:
					if al, ok := x.Addr.(*ssa.Alloc); ok {
						c, known := fixedCap[x.Val]
						if !known {
							c = -1
						}
						cellWriters[al] = append(cellWriters[al], writer{x, c})
					}
				case *ssa.Call:
					for _, a := range x.Call.Args {
						if al, ok := a.(*ssa.Alloc); ok {
							cellWriters[al] = append(cellWriters[al], writer{x, -1})
						}
					}
				}
			}
		}
		for _, b := range fn.Blocks {
			for _, ins := range b.Instrs {
				ld, ok := ins.(*ssa.UnOp)
				if !ok || ld.Op != token.MUL {
					continue
				}
				al, ok := ld.X.(*ssa.Alloc)
				if !ok || len(cellWriters[al]) == 0 {
					continue
				}
				capV, okAll, any := int64(-1), true, false
				for _, wr := range cellWriters[al] {
					reach := false
					if wr.ins.Block() == ld.Block() {
						reach = before(wr.ins, ld) || reaches(wr.ins.Block(), ld.Block()) && loopsBack(wr.ins.Block())
					} else {
						reach = reaches(wr.ins.Block(), ld.Block())
					}
					if !reach {
						continue
					}
					any = true
					if wr.cap < 0 || (capV >= 0 && wr.cap != capV) {
						okAll = false
					}
					capV = wr.cap
				}
				if any && okAll && capV >= 0 {
					fixedCap[ld] = capV
				}
			}
		}
		var targets []*ssa.Slice
		for _, b := range fn.Blocks {
			for _, ins := range b.Instrs {
				sl, ok := ins.(*ssa.Slice)
				if !ok || sl.High == nil {
					continue
				}
				if _, isC := sl.High.(*ssa.Const); isC {
					continue
				}
				if _, ok := fixedCap[sl.X]; ok {
					targets = append(targets, sl)
				}
			}
		}
		if len(targets) == 0 {
			continue
		}
		name := z.name[fn]
		isTarget := map[ssa.Instruction]bool{}
		for _, t := range targets {
			isTarget[t] = true
		}
		z.prog.Analyze(fn, zone.Options{Custom: func(a *zone.Analyzer, d *zone.DBM, ins ssa.Instruction) {
			sl, ok := ins.(*ssa.Slice)
			if !ok || !isTarget[ins] || d == nil {
				return
			}
			n++
			count[name]++
			capV := fixedCap[sl.X]
			// n of `n, err := r.Read(buf)` is bounded by len(buf) (io.Reader contract)
			if ex, ok := sl.High.(*ssa.Extract); ok && ex.Index == 0 {
				if call, ok := ex.Tuple.(*ssa.Call); ok && call.Call.IsInvoke() && call.Call.Method.Name() == "Read" && len(call.Call.Args) == 1 && call.Call.Args[0] == sl.X {
					r.OKd(rule, fmt.Sprintf("%s:reslice#%d:high<=cap", name, count[name]), w.Pos(sl.Pos()), fmt.Sprintf("the upper bound of the re-slice is ≤ the buffer's capacity %d", capV), "the bound is the byte count io.Reader.Read returned for this very buffer (contract: 0 ≤ n ≤ len(p))")
					return
				}
			}
			ub := zone.Tub(d, a.IntTerm(sl.High), zone.ConstTerm(capV))
			r.Check(ub <= 0, rule, fmt.Sprintf("%s:reslice#%d:high<=cap", name, count[name]), w.Pos(sl.Pos()), fmt.Sprintf("the upper bound of the re-slice is ≤ the buffer's capacity %d", capV),
				fmt.Sprintf("the bound can exceed the capacity by %s: an input of exactly the boundary length panics with slice bounds out of range", boundStr(ub)))
		}})
	}
	r.Unit("%s: %d re-slices of fixed-capacity buffers with a computed bound", rule, n)
	r.Floor(rule, n, 1, "re-slices of fixed-capacity buffers (CleanPath's stack buffer)")
}

// C07.found — "was it found" tests on an index result include position 0.
func c07Found(e *Env) {
	const rule = "C07.found"
	w, r := e.W, e.R
	r.Explainf("C07.found: in the peer-input surface packages, an if-statement that binds the result of bytes.Index / IndexByte / strings.Index (…) in its init clause and guards on it tests `>= 0` (or `!= -1`, `> -1`): `n > 0` / `n >= 1` silently accepts a match at position 0 — the file handler's `/../` containment guard then lets a rewritten path that STARTS with `/../` through, and root + \"/../x\" is opened.")
	surf := map[string]bool{}
	for _, p := range surfacePkgs {
		surf[p] = true
	}
	n := 0
	for _, fi := range declaredNonTest(w) {
		if fi.Decl.Body == nil || !surf[w.RelPkg(fi.Obj.Pkg())] {
			continue
		}
		info := fi.Pkg.TypesInfo
		fname := w.FuncName(fi.Obj)
		k := 0
		ast.Inspect(fi.Decl.Body, func(nd ast.Node) bool {
			is, ok := nd.(*ast.IfStmt)
			if !ok || is.Init == nil {
				return true
			}
			as, ok := is.Init.(*ast.AssignStmt)
			if !ok || len(as.Lhs) != 1 || len(as.Rhs) != 1 {
				return true
			}
			c, ok := unparen(as.Rhs[0]).(*ast.CallExpr)
			if !ok {
				return true
			}
			f := calleeOf(info, c)
			if f == nil || f.Pkg() == nil || (f.Pkg().Path() != "bytes" && f.Pkg().Path() != "strings") || !strings.HasPrefix(f.Name(), "Index") && !strings.HasPrefix(f.Name(), "LastIndex") {
				return true
			}
			v := usedVar(info, as.Lhs[0])
			be, ok := unparen(is.Cond).(*ast.BinaryExpr)
			if v == nil || !ok || usedVar(info, be.X) != v {
				return true
			}
			cst, isC := constInt(info, be.Y)
			if !isC {
				return true
			}
			k++
			n++
			bad := (be.Op == token.GTR && cst == 0) || (be.Op == token.GEQ && cst == 1)
			r.Check(!bad, rule, fmt.Sprintf("%s:index-test#%d", fname, k), w.Pos(is.Pos()), "a found-test on an index result includes position 0",
				"`"+types.ExprString(is.Cond)+"` is false for a match at position 0: what the guard is meant to catch goes through when it comes first")
			return true
		})
	}
	r.Floor(rule, n, 3, "if-statements testing an Index result bound in their init clause")
}

// C06.own — parameter values are substrings of a string the request owns.
func c06Own(e *Env) {
	const rule = "C06.own"
	w, r := e.W, e.R
	r.Explainf("C06.own: router.find returns parameter values as substrings of the path string it is given, and handlers may keep them (ctx.Copy, plain strings) after the request. In Engine.ServeHTTP every value assigned to the variable passed to find as the path is an owning copy — a `string(…)` conversion — never a zero-copy view (bytesconv.B2s, unsafe) of a buffer the recycled context rewrites for its next request; otherwise a kept `Param(\"id\")` of request 1 later reads as bytes of request 2's path.")
	sh := w.Func("pkg/route", "Engine", "ServeHTTP")
	if sh == nil {
		r.Anchor(rule, "route.Engine.ServeHTTP")
		return
	}
	info := sh.Pkg.TypesInfo
	fname := w.FuncName(sh.Obj)
	// variables passed as the first argument of a method named find on the router tree
	pathVars := map[*types.Var]bool{}
	for _, hf := range withHelpers(w, sh, 1) {
		hinfo := hf.Pkg.TypesInfo
		ast.Inspect(hf.Decl.Body, func(nd ast.Node) bool {
			if c, ok := nd.(*ast.CallExpr); ok && len(c.Args) >= 1 {
				if f := calleeOf(hinfo, c); f != nil && f.Name() == "find" && recvNamed(f) != nil {
					if v := usedVar(hinfo, c.Args[0]); v != nil && hf == sh {
						pathVars[v] = true
					}
				}
			}
			return true
		})
	}
	if len(pathVars) == 0 {
		r.Anchor(rule, "the path variable ServeHTTP hands to router.find")
		return
	}
	n := 0
	ast.Inspect(sh.Decl.Body, func(nd ast.Node) bool {
		as, ok := nd.(*ast.AssignStmt)
		if !ok || len(as.Lhs) != len(as.Rhs) {
			return true
		}
		for i, l := range as.Lhs {
			v := usedVar(info, l)
			if v == nil || !pathVars[v] {
				continue
			}
			n++
			key := fmt.Sprintf("%s:%s#%d", fname, v.Name(), n)
			rhs := unparen(as.Rhs[i])
			ok := false
			why := "`" + types.ExprString(rhs) + "` is not a `string(…)` conversion"
			if c, isCall := rhs.(*ast.CallExpr); isCall {
				if tv, isT := info.Types[c.Fun]; isT && tv.IsType() {
					if b, isB := tv.Type.Underlying().(*types.Basic); isB && b.Info()&types.IsString != 0 {
						ok = true
					}
				} else if f := calleeOf(info, c); f != nil {
					why = "`" + types.ExprString(c.Fun) + "` returns a view of its argument's bytes, not a copy: the argument is a buffer of the recycled request context, rewritten by the next request it serves"
					// a module function that itself returns an owning string is fine
					if f.Pkg() != nil && !strings.HasSuffix(f.Pkg().Path(), "internal/bytesconv") && f.Name() != "B2s" {
						if sig, _ := f.Type().(*types.Signature); sig != nil && sig.Results().Len() == 1 {
							if d := w.DeclOf(f); d != nil && strings.HasPrefix(w.RelPkg(f.Pkg()), "pkg/common/utils") {
								ok = true // utils.CleanPath builds a new string
								// … and it transforms the path variable itself: cleaning some other
								// representation of the path (the decoded one when the raw one was
								// selected) silently replaces the path the options asked to route on
								if len(c.Args) != 1 || usedVar(info, c.Args[0]) != v {
									ok = false
									why = "`" + types.ExprString(rhs) + "` does not clean `" + v.Name() + "` itself: the path selected before (raw or decoded, by UseRawPath) is replaced by another representation, so escaped slashes become separators and values are decoded twice"
								}
							}
						}
					}
				}
			} else if _, isLit := rhs.(*ast.BasicLit); isLit {
				ok = true
			} else if sv := usedVar(info, rhs); sv != nil && pathVars[sv] {
				ok = true
			}
			r.Check(ok, rule, key, w.Pos(as.Pos()), "the path handed to the router is an owning copy", why)
		}
		return true
	})
	r.Floor(rule, n, 2, "assignments to the path variable of ServeHTTP")
}

// C13.readlen — Read goes to the socket only when nothing at all is buffered.
func c13ReadLen(e *Env) {
	const rule = "C13.readlen"
	w, r := e.W, e.R
	r.Explainf("C13.readlen: standard.Conn.Read hands the caller's buffer directly to the socket when no data is buffered. \"No data\" must mean the whole input buffer (Conn.Len(), i.e. inputBuffer.len): the read cursor may sit exactly at the end of a node while later nodes already hold bytes (Skip leaves it there), and a test on the current node's length alone then reads from the wire AHEAD of bytes that are still buffered. Rule: the variable whose `> 0` test guards the buffered branch of Read is assigned from Conn.Len() / the inputBuffer's total length, and the direct socket read comes after that test.")
	rd := w.Func("pkg/network/standard", "Conn", "Read")
	ln := w.Func("pkg/network/standard", "Conn", "Len")
	if rd == nil || ln == nil {
		r.Anchor(rule, "standard.Conn.Read / Len")
		return
	}
	info := rd.Pkg.TypesInfo
	fname := w.FuncName(rd.Obj)
	// the direct socket read: a call of Read on a field of the receiver with the parameter
	var direct *ast.CallExpr
	sig := rd.Obj.Type().(*types.Signature)
	ast.Inspect(rd.Decl.Body, func(nd ast.Node) bool {
		if c, ok := nd.(*ast.CallExpr); ok && len(c.Args) == 1 && usedVar(info, c.Args[0]) == sig.Params().At(0) {
			if se, ok := unparen(c.Fun).(*ast.SelectorExpr); ok && se.Sel.Name == "Read" {
				if f := usedVar(info, se.X); f != nil && f.IsField() {
					direct = c
				}
			}
		}
		return true
	})
	if direct == nil {
		r.OK(rule, fname+":no-direct-read", w.Pos(rd.Decl.Pos()), "Read never hands the caller's buffer to the socket")
		return
	}
	// the guard: first top-level `if v > 0 { … return … }`
	var guardVar *types.Var
	var guardPos token.Pos
	for _, s := range rd.Decl.Body.List {
		is, ok := s.(*ast.IfStmt)
		if !ok || is.Pos() > direct.Pos() {
			continue
		}
		lo, hi, isLess := normLess(is.Cond)
		if !isLess {
			continue
		}
		if c, isC := constInt(info, lo); isC && c == 0 {
			if v := usedVar(info, hi); v != nil && !v.IsField() {
				guardVar, guardPos = v, is.Pos()
				break
			}
		}
	}
	if guardVar == nil {
		r.Fail(rule, fname+":buffered-test", w.Pos(rd.Decl.Pos()), "the buffered branch of Read is guarded by a length test before the direct socket read", "no top-level `if <len> > 0 { … }` precedes the direct read")
		return
	}
	// every assignment to the guard variable before the test comes from Conn.Len()
	n := 0
	ast.Inspect(rd.Decl.Body, func(nd ast.Node) bool {
		as, ok := nd.(*ast.AssignStmt)
		if !ok || as.Pos() > guardPos || len(as.Lhs) != len(as.Rhs) {
			return true
		}
		for i, l := range as.Lhs {
			if usedVar(info, l) != guardVar {
				continue
			}
			n++
			ok := false
			if c, isC := unparen(as.Rhs[i]).(*ast.CallExpr); isC && calleeOf(info, c) == ln.Obj {
				ok = true
			}
			if !ok {
				// the field Conn.Len() returns
				var lenField *types.Var
				ast.Inspect(ln.Decl.Body, func(m ast.Node) bool {
					if rs, isR := m.(*ast.ReturnStmt); isR && len(rs.Results) == 1 {
						lenField = usedVar(info, rs.Results[0])
					}
					return true
				})
				if lenField != nil && usedVar(info, as.Rhs[i]) == lenField {
					ok = true
				}
			}
			r.Check(ok, rule, fmt.Sprintf("%s:buffered-length#%d", fname, n), w.Pos(as.Pos()), "the buffered-data test of Read uses the length of the whole input buffer",
				"`"+types.ExprString(as.Rhs[i])+"` is not Conn.Len(): with the read cursor at the end of a node and data in the next one, Read reads from the socket ahead of buffered bytes (out of order, and EOF is reported while Len() > 0)")
		}
		return true
	})
	r.Floor(rule, n, 1, "assignments to the buffered-length variable of Conn.Read")
}

// C15.looperr — a conversion error of one element is not overwritten by the next element.
func c15LoopErr(e *Env) {
	const rule = "C15.looperr"
	w, r := e.W, e.R
	r.Explainf("C15.looperr: in the binding decoders, an error variable declared outside a loop and assigned from a call inside the loop body (`vv, err = stringToValue(…)`) is tested in the statement that follows, and the non-nil branch leaves the iteration (break, return, continue after recording). If the loop merely skips the element (`if err == nil { … }`) the next iteration overwrites the error: a value that does not convert becomes a silent zero and Bind reports success.")
	n := 0
	for _, fi := range declaredNonTest(w) {
		if fi.Decl.Body == nil || !strings.HasSuffix(w.RelPkg(fi.Obj.Pkg()), "binding/internal/decoder") {
			continue
		}
		info := fi.Pkg.TypesInfo
		fname := w.FuncName(fi.Obj)
		k := 0
		errT := types.Universe.Lookup("error").Type()
		ast.Inspect(fi.Decl.Body, func(nd ast.Node) bool {
			var body *ast.BlockStmt
			switch x := nd.(type) {
			case *ast.ForStmt:
				body = x.Body
			case *ast.RangeStmt:
				body = x.Body
			default:
				return true
			}
			for i, s := range body.List {
				as, ok := s.(*ast.AssignStmt)
				if !ok || as.Tok != token.ASSIGN || len(as.Rhs) != 1 {
					continue
				}
				if _, isCall := unparen(as.Rhs[0]).(*ast.CallExpr); !isCall {
					continue
				}
				var ev *types.Var
				for _, l := range as.Lhs {
					if v := usedVar(info, l); v != nil && !v.IsField() && types.Identical(v.Type(), errT) && (v.Pos() < nd.Pos() || v.Pos() > nd.End()) {
						ev = v
					}
				}
				if ev == nil {
					continue
				}
				k++
				n++
				key := fmt.Sprintf("%s:loop-error#%d", fname, k)
				ok2 := false
				if i+1 < len(body.List) {
					if is, isIf := body.List[i+1].(*ast.IfStmt); isIf {
						if isErr, isNil := errNilCond(info, is.Cond, true); isErr && !isNil && len(is.Body.List) > 0 {
							switch last := is.Body.List[len(is.Body.List)-1].(type) {
							case *ast.BranchStmt:
								ok2 = last.Tok == token.BREAK || last.Tok == token.GOTO || last.Tok == token.CONTINUE && len(is.Body.List) > 1
							case *ast.ReturnStmt:
								ok2 = true
							}
						}
					}
				}
				r.Check(ok2, rule, key, w.Pos(as.Pos()), "an error assigned inside the loop leaves the iteration when it is non-nil",
					"`"+types.ExprString(as.Lhs[len(as.Lhs)-1])+"` is assigned from a call in the loop body and the next statement is not `if "+ev.Name()+" != nil { …; break|return }`: a later element's successful conversion overwrites the error of this one")
			}
			return true
		})
	}
	r.Floor(rule, n, 1, "errors assigned from calls inside decoder loops")
}

// C20.cacheerr — a struct whose compilation failed is remembered as failed.
func c20CacheErr(e *Env) {
	const rule = "C20.cacheerr"
	w, r := e.W, e.R
	r.Explainf("C20.cacheerr: VM.registerStructLocked publishes the half-built entry in the per-type cache (structJar) before it compiles the fields, and a later lookup returns `s, s.err`. Every `return nil, err` after the entry was published is therefore directly preceded by `s.err = err` for the published entry: otherwise the second validation of that type finds a cached entry without error and silently checks only the expressions compiled before the failure.")
	fi := w.Func("internal/tagexpr", "VM", "registerStructLocked")
	if fi == nil {
		r.Anchor(rule, "tagexpr.VM.registerStructLocked")
		return
	}
	info := fi.Pkg.TypesInfo
	fname := w.FuncName(fi.Obj)
	// publication: <map field>[k] = s
	var entry *types.Var
	var pubPos token.Pos
	ast.Inspect(fi.Decl.Body, func(nd ast.Node) bool {
		as, ok := nd.(*ast.AssignStmt)
		if !ok || len(as.Lhs) != 1 || len(as.Rhs) != 1 || entry != nil {
			return true
		}
		if ix, ok := unparen(as.Lhs[0]).(*ast.IndexExpr); ok {
			if f := usedVar(info, ix.X); f != nil && f.IsField() {
				if _, isMap := f.Type().Underlying().(*types.Map); isMap {
					if v := usedVar(info, as.Rhs[0]); v != nil && !v.IsField() {
						entry, pubPos = v, as.Pos()
					}
				}
			}
		}
		return true
	})
	if entry == nil {
		r.Anchor(rule, fname+": publication of the entry in the per-type cache")
		return
	}
	par := parents(fi.Decl)
	n := 0
	ast.Inspect(fi.Decl.Body, func(nd ast.Node) bool {
		rs, ok := nd.(*ast.ReturnStmt)
		if !ok || rs.Pos() < pubPos || len(rs.Results) != 2 {
			return true
		}
		if _, isLit := enclosing(par, rs, func(m ast.Node) bool { _, ok := m.(*ast.FuncLit); return ok }).(*ast.FuncLit); isLit {
			return true
		}
		if tv, ok := info.Types[rs.Results[1]]; ok && tv.IsNil() {
			return true
		}
		ev := usedVar(info, rs.Results[1])
		n++
		key := fmt.Sprintf("%s:error-return#%d", fname, n)
		// preceding statement in the same list: entry.<field> = ev
		ok2 := false
		var list []ast.Stmt
		switch p := par[rs].(type) {
		case *ast.BlockStmt:
			list = p.List
		case *ast.CaseClause:
			list = p.Body
		}
		for i, s := range list {
			if s == ast.Stmt(rs) && i > 0 {
				if as, isAs := list[i-1].(*ast.AssignStmt); isAs && len(as.Lhs) == 1 && len(as.Rhs) == 1 {
					if se, isSel := unparen(as.Lhs[0]).(*ast.SelectorExpr); isSel && usedVar(info, se.X) == entry && ev != nil && usedVar(info, as.Rhs[0]) == ev {
						ok2 = true
					}
				}
			}
		}
		r.Check(ok2, rule, key, w.Pos(rs.Pos()), "an error return after publication records the error in the cached entry",
			"`"+types.ExprString(rs.Results[1])+"` is returned without `"+entry.Name()+".err = …` directly before: the cached entry stays without error and later validations of the type skip the fields that were never compiled")
		return true
	})
	r.Floor(rule, n, 3, "error returns after the entry was published")
}

// loopsBack reports whether block b lies on a cycle (can reach itself through a successor).
func loopsBack(b *ssa.BasicBlock) bool {
	for _, s := range b.Succs {
		if reaches(s, b) {
			return true
		}
	}
	return false
}

// C10.skipbody — a response whose body was left unread at the caller's request is not pooled.
func c10SkipBody(e *Env) {
	const rule = "C10.skipbody"
	w, r := e.W, e.R
	r.Explainf("C10.skipbody: the client keeps the caller's Response.SkipBody across its own reset of the response (a flag that is also left behind by an earlier HEAD exchange on the same Response object) and then does not read the body. A connection with an unread body must not go back to the pool: the next exchange on it parses the leftover bytes as its response. In the function that decides between closeConn and releaseConn for a finished exchange, the variable tested by that decision is (also) assigned from an expression that mentions the local captured from Response.SkipBody.")
	skipF := w.Field("pkg/protocol", "Response", "SkipBody")
	if skipF == nil {
		r.Anchor(rule, "protocol.Response.SkipBody")
		return
	}
	n := 0
	// closeConn / releaseConn by role (renamed private methods resolve through the role finders)
	roleName := func(f *types.Func) string {
		if f == nil {
			return ""
		}
		for _, nm := range []string{"closeConn", "releaseConn"} {
			if d := w.Func("pkg/protocol/http1", "HostClient", nm); d != nil && d.Obj == f {
				return nm
			}
		}
		return f.Name()
	}
	// decision helpers: `func (…) f(…, P bool) { if P { closeConn } else { releaseConn } }`
	deciders := map[*types.Func]int{}
	for _, fi := range declaredNonTest(w) {
		if fi.Decl.Body == nil || w.RelPkg(fi.Obj.Pkg()) != "pkg/protocol/http1" || len(fi.Decl.Body.List) != 1 {
			continue
		}
		is, ok := fi.Decl.Body.List[0].(*ast.IfStmt)
		if !ok || is.Else == nil {
			continue
		}
		info := fi.Pkg.TypesInfo
		names := map[string]bool{}
		ast.Inspect(is, func(m ast.Node) bool {
			if c, ok := m.(*ast.CallExpr); ok {
				if f := calleeOf(info, c); f != nil {
					names[roleName(f)] = true
				}
			}
			return true
		})
		x := unparen(is.Cond)
		if u, ok := x.(*ast.UnaryExpr); ok && u.Op == token.NOT {
			x = unparen(u.X)
		}
		pv := usedVar(info, x)
		sig := fi.Obj.Type().(*types.Signature)
		for i := 0; pv != nil && names["closeConn"] && names["releaseConn"] && i < sig.Params().Len(); i++ {
			if sig.Params().At(i) == pv {
				deciders[fi.Obj] = i
			}
		}
	}
	for _, fi := range declaredNonTest(w) {
		if fi.Decl.Body == nil || w.RelPkg(fi.Obj.Pkg()) != "pkg/protocol/http1" {
			continue
		}
		info := fi.Pkg.TypesInfo
		// local captured from resp.SkipBody
		var cap *types.Var
		ast.Inspect(fi.Decl.Body, func(nd ast.Node) bool {
			if as, ok := nd.(*ast.AssignStmt); ok && len(as.Lhs) == 1 && len(as.Rhs) == 1 {
				if usedVar(info, as.Rhs[0]) == skipF {
					if v := usedVar(info, as.Lhs[0]); v != nil && !v.IsField() {
						cap = v
					}
				}
			}
			return true
		})
		if cap == nil {
			continue
		}
		// the pool decision: if D { closeConn } else { releaseConn }
		var dec *types.Var
		var decPos token.Pos
		ast.Inspect(fi.Decl.Body, func(nd ast.Node) bool {
			if c, ok := nd.(*ast.CallExpr); ok {
				if f := calleeOf(info, c); f != nil {
					if pi, isDec := deciders[f]; isDec && pi < len(c.Args) {
						if v := usedVar(info, c.Args[pi]); v != nil && !v.IsField() {
							if _, inLit := enclosing(parents(fi.Decl), c, func(m ast.Node) bool { _, ok := m.(*ast.FuncLit); return ok }).(*ast.FuncLit); !inLit {
								dec, decPos = v, c.Pos()
							}
						}
					}
				}
			}
			is, ok := nd.(*ast.IfStmt)
			if !ok || is.Else == nil {
				return true
			}
			calls := func(b ast.Node, name string) bool {
				hit := false
				ast.Inspect(b, func(m ast.Node) bool {
					if c, ok := m.(*ast.CallExpr); ok {
						if f := calleeOf(info, c); f != nil && roleName(f) == name {
							hit = true
						}
					}
					return true
				})
				return hit
			}
			if (calls(is.Body, "closeConn") && calls(is.Else, "releaseConn")) || (calls(is.Body, "releaseConn") && calls(is.Else, "closeConn")) {
				x := unparen(is.Cond)
				if u, ok := x.(*ast.UnaryExpr); ok && u.Op == token.NOT {
					x = unparen(u.X)
				}
				if v := usedVar(info, x); v != nil && !v.IsField() {
					// the outermost (function-level) decision, not the one inside a stream callback
					if _, inLit := enclosing(parents(fi.Decl), is, func(m ast.Node) bool { _, ok := m.(*ast.FuncLit); return ok }).(*ast.FuncLit); !inLit {
						dec, decPos = v, is.Pos()
					}
				}
			}
			return true
		})
		if dec == nil {
			continue
		}
		n++
		fname := w.FuncName(fi.Obj)
		mentions := false
		ast.Inspect(fi.Decl.Body, func(nd ast.Node) bool {
			as, ok := nd.(*ast.AssignStmt)
			if !ok || as.Pos() > decPos {
				return true
			}
			for i, l := range as.Lhs {
				if usedVar(info, l) != dec {
					continue
				}
				// directly: D = … cap …; or under a condition that mentions cap: if cap && … { D = true }
				if i < len(as.Rhs) && mentionsVar(info, as.Rhs[i], map[*types.Var]bool{cap: true}) {
					mentions = true
				}
				for _, g := range guardConds(parents(fi.Decl), as) {
					if g.cond != nil && !g.neg && mentionsVar(info, g.cond, map[*types.Var]bool{cap: true}) {
						mentions = true
					}
				}
			}
			return true
		})
		r.Check(mentions, rule, fname+":"+dec.Name()+"-considers-"+cap.Name(), w.Pos(decPos), "the pool-or-close decision takes the caller's SkipBody into account",
			fmt.Sprintf("`%s` never depends on `%s` (captured from Response.SkipBody): when the caller's flag made the client skip the body of a GET response, the connection is released to the pool with the body still unread", dec.Name(), cap.Name()))
	}
	r.Floor(rule, n, 1, "exchange functions that capture Response.SkipBody and decide between closeConn and releaseConn")
}
