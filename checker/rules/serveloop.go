package rules

import (
	"fmt"
	"go/ast"
	"go/token"
	"go/types"
	"golang.org/x/tools/go/packages"
	"strings"

	"golang.org/x/tools/go/cfg"

	"hzcheck/core"
	"hzcheck/esp"
)

const (
	pkgHTTP1   = Mod + "/pkg/protocol/http1"
	pkgReq     = Mod + "/pkg/protocol/http1/req"
	pkgExt     = Mod + "/pkg/protocol/http1/ext"
	pkgSuite   = Mod + "/pkg/protocol/suite"
	pkgNetwork = Mod + "/pkg/network"
	pkgApp     = Mod + "/pkg/app"
	pkgProto   = Mod + "/pkg/protocol"
)

// srv is the composite typestate of the keep-alive request loop.
type srv struct {
	phase                                 string // idle hdr hdrok body parsed failed handled written flushed errwritten
	closeAnn, runChk, notRun              bool
	headChk, headTrue, skipSet            bool
	bsChk, relNeed, relPending, relFailed bool
	ioTried, hjClear                      bool
}

func (s srv) String() string {
	b := func(x bool) byte {
		if x {
			return '1'
		}
		return '0'
	}
	return s.phase + ":" + string([]byte{b(s.closeAnn), b(s.runChk), b(s.notRun), b(s.headChk), b(s.headTrue), b(s.skipSet), b(s.bsChk), b(s.relNeed), b(s.relPending), b(s.relFailed), b(s.ioTried), b(s.hjClear)})
}

func parseSrv(ts string) srv {
	i := strings.IndexByte(ts, ':')
	f := ts[i+1:]
	g := func(k int) bool { return f[k] == '1' }
	return srv{phase: ts[:i], closeAnn: g(0), runChk: g(1), notRun: g(2), headChk: g(3), headTrue: g(4), skipSet: g(5), bsChk: g(6), relNeed: g(7), relPending: g(8), relFailed: g(9), ioTried: g(10), hjClear: g(11)}
}

// which rule categories each property reports
var serveCats = map[string][]string{
	"C01": {"loop"},
	"C03": {"errshape"},
	"C04": {"close", "head"},
	"C09": {"order"},
	"C14": {"release"},
	"C18": {"exit"},
}

var serveCatDesc = map[string]string{
	"loop":     "request loop protocol: header read ok → body read ok → handler once → one writeResponse → one Flush → reset → next iteration; no handler, response or re-read out of order",
	"errshape": "a rejected request gets writeErrorResponse exactly once, no handler, nothing after it, and the function returns a non-nil error (connection closed)",
	"close":    "once `Connection: close` was put on the response the loop is not re-entered",
	"head":     "HEAD is consulted between handler and response write and its true outcome sets Response.SkipBody",
	"order":    "the context is reset (ResetWithoutConn) after the flush and before the next iteration",
	"release":  "after the flush, a request body stream is released before the connection is reused and a release error ends the loop",
	"exit":     "Core.IsRunning is consulted between handler and response write and its false outcome forces Connection: close",
}

// condCalls looks for a call satisfying pred inside cond and reports what each outcome of
// cond implies for the call's boolean result: +1 the call returned true, -1 false, 0 unknown.
func condCalls(info *types.Info, cond ast.Expr, pred func(*types.Func) bool) (found bool, whenTrue, whenFalse int) {
	comb := func(a, b int) int {
		if a != 0 {
			return a
		}
		return b
	}
	var walk func(e ast.Expr) (t, f int)
	walk = func(e ast.Expr) (int, int) {
		switch x := unparen(e).(type) {
		case *ast.UnaryExpr:
			if x.Op == token.NOT {
				t, f := walk(x.X)
				return f, t
			}
		case *ast.BinaryExpr:
			if x.Op == token.LAND {
				ta, _ := walk(x.X)
				tb, _ := walk(x.Y)
				return comb(ta, tb), 0
			}
			if x.Op == token.LOR {
				_, fa := walk(x.X)
				_, fb := walk(x.Y)
				return 0, comb(fa, fb)
			}
		case *ast.CallExpr:
			if f := calleeOf(info, x); f != nil && pred(f) {
				found = true
				return 1, -1
			}
			return 0, 0
		}
		ast.Inspect(e, func(n ast.Node) bool {
			if c, ok := n.(*ast.CallExpr); ok {
				if f := calleeOf(info, c); f != nil && pred(f) {
					found = true
				}
			}
			return true
		})
		return 0, 0
	}
	whenTrue, whenFalse = walk(cond)
	return
}

// stripConjunct removes conjuncts of the form `!call` (call satisfying pred) from a && chain.
// Used for `!ctx.IsGet() && ctx.IsHead()`: IsGet() and IsHead() compare the same method bytes
// with different constants, so IsGet() implies !IsHead() and the conjunct carries no
// information about a HEAD request.
func stripConjunct(info *types.Info, cond ast.Expr, pred func(*types.Func) bool) ast.Expr {
	be, ok := unparen(cond).(*ast.BinaryExpr)
	if !ok || be.Op != token.LAND {
		return cond
	}
	isNeg := func(e ast.Expr) bool {
		u, ok := unparen(e).(*ast.UnaryExpr)
		if !ok || u.Op != token.NOT {
			return false
		}
		c, ok := unparen(u.X).(*ast.CallExpr)
		return ok && pred(calleeOf(info, c))
	}
	if isNeg(be.X) {
		return stripConjunct(info, be.Y, pred)
	}
	if isNeg(be.Y) {
		return stripConjunct(info, be.X, pred)
	}
	return cond
}

// errNilCond recognises `err == nil` / `err != nil` on an error-typed variable; ok reports a
// match and isNil the outcome of "variable is nil" when the condition evaluates to val.
func errNilCond(info *types.Info, cond ast.Expr, val bool) (ok, isNil bool) {
	be, isB := unparen(cond).(*ast.BinaryExpr)
	if !isB || (be.Op != token.EQL && be.Op != token.NEQ) {
		return
	}
	if id, isI := unparen(be.Y).(*ast.Ident); !isI || id.Name != "nil" {
		return
	}
	t := info.TypeOf(be.X)
	if t == nil || t.String() != "error" {
		return
	}
	return true, val == (be.Op == token.EQL)
}

var stmtParents = map[*packages.Package]map[ast.Node]ast.Node{}

// resultDropped: the call is an expression statement, or assigned to blank identifiers only.
func resultDropped(p *packages.Package, call *ast.CallExpr) bool {
	par, ok := stmtParents[p]
	if !ok {
		par = map[ast.Node]ast.Node{}
		for _, f := range p.Syntax {
			for k, v := range parents(f) {
				par[k] = v
			}
		}
		stmtParents[p] = par
	}
	var n ast.Node = call
	for {
		pn, ok := par[n].(*ast.ParenExpr)
		if !ok {
			break
		}
		n = pn
	}
	switch x := par[n].(type) {
	case *ast.ExprStmt:
		return true
	case *ast.AssignStmt:
		for _, l := range x.Lhs {
			if id, ok := l.(*ast.Ident); !ok || id.Name != "_" {
				return false
			}
		}
		return true
	}
	return false
}

func serveLoop(e *Env, prop string) {
	w, r := e.W, e.R
	cats := serveCats[prop]
	want := map[string]bool{}
	for _, c := range cats {
		want[c] = true
		r.Explainf("%s.%s: ESP typestate over every path of the keep-alive loop in each function that calls suite.Core.ServeHTTP after req.ReadHeader (events resolved by callee identity; bool locals and `err == nil` tracked): %s.", prop, c, serveCatDesc[c])
	}
	isServeHTTP := func(f *types.Func) bool { return esp.Is(f, pkgSuite, "Core", "ServeHTTP") }
	isReadHeader := func(f *types.Func) bool { return esp.Is(f, pkgReq, "", "ReadHeader") }
	// functions that are events themselves are never explored inline
	isEventFn := func(f *types.Func) bool {
		return esp.Is(f, pkgHTTP1, "", "writeResponse") || esp.Is(f, pkgHTTP1, "", "writeErrorResponse")
	}
	// every callee the hooks below react to
	isEvent := func(f *types.Func) bool {
		if f == nil {
			return false
		}
		switch {
		case isServeHTTP(f), isReadHeader(f), isEventFn(f),
			esp.Is(f, pkgReq, "", "ReadBodyStream"), esp.Is(f, pkgReq, "", "ReadLimitBody"), esp.Is(f, pkgReq, "", "ReadBody"),
			esp.Is(f, pkgReq, "", "ContinueReadBodyStream"), esp.Is(f, pkgReq, "", "ContinueReadBody"),
			esp.Is(f, pkgApp, "RequestContext", "ResetWithoutConn"), esp.Is(f, pkgApp, "RequestContext", "SetHijackHandler"),
			esp.Is(f, pkgExt, "", "ReleaseBodyStream"), esp.Is(f, pkgProto, "ResponseHeader", "SetCanonical"),
			esp.Is(f, pkgSuite, "Core", "IsRunning"), esp.Is(f, pkgApp, "RequestContext", "IsHead"), esp.Is(f, pkgProto, "Request", "IsBodyStream"):
			return true
		}
		return f.Pkg() != nil && f.Pkg().Path() == pkgNetwork && (f.Name() == "Flush" || f.Name() == "WriteBinary")
	}
	// reaches: pred holds for a call in fi's body or in a helper of the same package it calls
	// (two levels), not looking inside the event functions
	var reaches func(fi *core.FuncInfo, pred func(*types.Func) bool, depth int) bool
	reaches = func(fi *core.FuncInfo, pred func(*types.Func) bool, depth int) bool {
		found := false
		ast.Inspect(fi.Decl.Body, func(n ast.Node) bool {
			if c, ok := n.(*ast.CallExpr); ok && !found {
				f := calleeOf(fi.Pkg.TypesInfo, c)
				if f != nil && pred(f) {
					found = true
				} else if depth < 2 && f != nil && !isEventFn(f) {
					if d := w.DeclOf(f); d != nil && d.Pkg == fi.Pkg && d.Decl.Body != nil && d != fi && reaches(d, pred, depth+1) {
						found = true
					}
				}
			}
			return !found
		})
		return found
	}
	var cands, fns []*core.FuncInfo
	for _, fi := range declaredNonTest(w) {
		if fi.Decl.Body != nil && strings.HasPrefix(fi.Pkg.PkgPath, pkgHTTP1) && reaches(fi, isServeHTTP, 0) && reaches(fi, isReadHeader, 0) {
			cands = append(cands, fi)
		}
	}
	// a candidate called by another candidate is part of that one's loop
	for _, fi := range cands {
		inner := false
		for _, o := range cands {
			if o != fi && len(funcsCallingIn(o, func(f *types.Func) bool { return f == fi.Obj })) > 0 {
				inner = true
			}
		}
		if !inner {
			fns = append(fns, fi)
		}
	}
	base := prop + "." + cats[0]
	r.Floor(base, len(fns), 1, "HTTP/1 serve functions calling suite.Core.ServeHTTP")
	skipBody := w.Field("pkg/protocol", "Response", "SkipBody")
	strConn, strClose := bytestrVar(w, "StrConnection"), bytestrVar(w, "StrClose")
	if skipBody == nil || strConn == nil || strClose == nil {
		r.Anchor(base, "protocol.Response.SkipBody / bytestr.StrConnection / bytestr.StrClose")
		return
	}
	for _, fi := range fns {
		info := fi.Pkg.TypesInfo
		fname := w.FuncName(fi.Obj)
		var serveCall *ast.CallExpr
		counts := map[string]int{}
		var count func(d *core.FuncInfo, depth int)
		count = func(d *core.FuncInfo, depth int) {
			ast.Inspect(d.Decl.Body, func(n ast.Node) bool {
				if c, ok := n.(*ast.CallExpr); ok {
					f := calleeOf(d.Pkg.TypesInfo, c)
					if f == nil {
						return true
					}
					cname := f.Name()
					for _, canon := range []string{"writeResponse", "writeErrorResponse"} {
						if esp.Is(f, pkgHTTP1, "", canon) { // also true for a function that took over the role
							cname = canon
						}
					}
					counts[cname]++
					var hd *core.FuncInfo
					if depth < 2 && !isEventFn(f) {
						if x := w.DeclOf(f); x != nil && x.Pkg == fi.Pkg && x.Decl.Body != nil && x != d && reaches(x, isEvent, 2) {
							hd = x
						}
					}
					if depth == 0 && (isServeHTTP(f) || (hd != nil && reaches(hd, isServeHTTP, 1))) {
						serveCall = c
					}
					if hd != nil {
						count(hd, depth+1)
					}
				}
				return true
			})
		}
		count(fi, 0)
		viol := func(c *esp.Ctx, cat string, pos token.Pos, key, msg string) {
			c.Violate(pos, cat+"|"+fname+":"+key, msg)
		}
		upd := func(c *esp.Ctx, f func(s *srv)) {
			s := parseSrv(c.S.TS)
			f(&s)
			c.S.TS = s.String()
		}
		afterErr := func(c *esp.Ctx, call *ast.CallExpr, what string) bool {
			if parseSrv(c.S.TS).phase == "errwritten" {
				viol(c, "errshape", call.Pos(), c.SiteKey(call)+":after-error-response", what+" after the error response was written (nothing may follow it)")
				return true
			}
			return false
		}
		rl := &esp.Rule{Name: "serveloop", Init: srv{phase: "idle"}.String(),
			Track: func(k string) bool { return k == "err == nil" || k == "zr == nil" },
			// a stretch of the loop moved into a helper of the package is explored in place
			Inline: func(f *types.Func, d *ast.FuncDecl) bool {
				return !isEventFn(f) && inlineWhen(info, isEvent, func(n ast.Node) bool {
					as, ok := n.(*ast.AssignStmt)
					return ok && len(as.Lhs) == 1 && usedVar(info, as.Lhs[0]) == skipBody
				})(f, d)
			},
			Call: func(c *esp.Ctx, call *ast.CallExpr, f *types.Func) {
				s := parseSrv(c.S.TS)
				site := c.SiteKey(call)
				switch {
				case esp.Is(f, pkgReq, "", "ReadHeader"):
					if afterErr(c, call, "header read") {
						return
					}
					if s.phase != "idle" {
						viol(c, "loop", call.Pos(), site+":reread", "request header is read again in phase "+s.phase+" (previous request not completed and reset)")
					}
					upd(c, func(s *srv) { s.phase = "hdr" })
				case esp.Is(f, pkgReq, "", "ReadBodyStream"), esp.Is(f, pkgReq, "", "ReadLimitBody"), esp.Is(f, pkgReq, "", "ReadBody"):
					if s.phase != "hdrok" {
						viol(c, "loop", call.Pos(), site+":body-without-header", "request body is read in phase "+s.phase+" (header read not known to have succeeded)")
					}
					upd(c, func(s *srv) { s.phase = "body" })
				case esp.Is(f, pkgReq, "", "ContinueReadBodyStream"), esp.Is(f, pkgReq, "", "ContinueReadBody"):
					if s.phase != "parsed" {
						viol(c, "loop", call.Pos(), site+":continue-phase", "100-continue body read in phase "+s.phase)
					}
					upd(c, func(s *srv) { s.phase = "body" })
				case isServeHTTP(f):
					if afterErr(c, call, "handler invocation") {
						return
					}
					if s.phase != "parsed" {
						cat := "loop"
						if s.phase == "failed" {
							cat = "errshape"
						}
						viol(c, cat, call.Pos(), site+":handler-phase", "handler is invoked in phase "+s.phase+" (both reads must have succeeded, exactly once per request)")
					}
					upd(c, func(s *srv) {
						*s = srv{phase: "handled"}
					})
				case esp.Is(f, pkgHTTP1, "", "writeResponse"):
					if afterErr(c, call, "response write") {
						return
					}
					if s.phase != "handled" {
						viol(c, "loop", call.Pos(), site+":write-phase", "writeResponse in phase "+s.phase+" (exactly one response per handled request)")
					}
					if !s.runChk {
						viol(c, "exit", call.Pos(), site+":running-unchecked", "response is written without consulting Core.IsRunning after the handler returned")
					} else if s.notRun && !s.closeAnn {
						viol(c, "exit", call.Pos(), site+":shutdown-no-close", "server is shutting down (IsRunning false) but the response does not announce Connection: close")
					}
					if !s.headChk {
						viol(c, "head", call.Pos(), site+":head-unchecked", "response is written without testing for a HEAD request")
					} else if s.headTrue && !s.skipSet {
						viol(c, "head", call.Pos(), site+":head-body", "HEAD request: Response.SkipBody is not set before the response is written")
					}
					upd(c, func(s *srv) { s.phase = "written" })
				case f != nil && f.Name() == "Flush" && f.Pkg() != nil && f.Pkg().Path() == pkgNetwork:
					if afterErr(c, call, "flush") {
						return
					}
					switch s.phase {
					case "written":
						upd(c, func(s *srv) { s.phase = "flushed" })
					case "parsed":
						upd(c, func(s *srv) { s.ioTried = true })
					default:
						viol(c, "loop", call.Pos(), site+":flush-phase", "Flush in phase "+s.phase)
					}
				case f != nil && f.Name() == "WriteBinary" && f.Pkg() != nil && f.Pkg().Path() == pkgNetwork:
					if afterErr(c, call, "write") {
						return
					}
					if s.phase == "parsed" {
						upd(c, func(s *srv) { s.ioTried = true })
					} else {
						viol(c, "loop", call.Pos(), site+":raw-write-phase", "raw write to the connection in phase "+s.phase)
					}
				case esp.Is(f, pkgApp, "RequestContext", "ResetWithoutConn"):
					if s.phase != "flushed" {
						msg := "context is reset in phase " + s.phase + " (must follow the flush of the response)"
						// reported under both categories: the error state is absorbing, so record
						// the second key before the first marks the path dead
						c.Violate(call.Pos(), "loop|"+fname+":"+site+":reset-phase", msg)
						viol(c, "order", call.Pos(), site+":reset-phase", msg)
					}
					if !s.hjClear {
						viol(c, "order", call.Pos(), site+":hijack-not-cleared", "the hijack handler installed by the previous request is not cleared (SetHijackHandler(nil)) before the context is reused")
					}
					if !s.bsChk || s.relNeed {
						viol(c, "release", call.Pos(), site+":stream-not-released", "connection is reused without releasing a request body stream (IsBodyStream not consulted after the flush, or its true outcome does not reach ReleaseBodyStream)")
					}
					if s.relPending {
						viol(c, "release", call.Pos(), site+":release-error-unchecked", "error of ReleaseBodyStream is not examined before the connection is reused")
					}
					if s.relFailed {
						viol(c, "release", call.Pos(), site+":release-error-ignored", "ReleaseBodyStream failed but the connection is reused (unread body bytes would be parsed as the next request)")
					}
					upd(c, func(s *srv) { *s = srv{phase: "idle", closeAnn: s.closeAnn} })
				case esp.Is(f, pkgApp, "RequestContext", "SetHijackHandler") && len(call.Args) == 1:
					if id, ok := unparen(call.Args[0]).(*ast.Ident); ok && id.Name == "nil" {
						upd(c, func(s *srv) { s.hjClear = true })
					} else {
						upd(c, func(s *srv) { s.hjClear = false })
					}
				case esp.Is(f, pkgExt, "", "ReleaseBodyStream"):
					// the result must go somewhere: assigned (and then tested) or returned
					if resultDropped(fi.Pkg, call) {
						viol(c, "release", call.Pos(), site+":release-error-dropped", "the error of ReleaseBodyStream is discarded: a failed drain leaves body bytes in front of the next request")
					}
					upd(c, func(s *srv) { s.relNeed = false; s.relPending = true })
				case esp.Is(f, pkgHTTP1, "", "writeErrorResponse"):
					if s.phase != "failed" {
						viol(c, "errshape", call.Pos(), site+":error-response-phase", "error response is written in phase "+s.phase+" (only a failed read is rejected, exactly once)")
					}
					upd(c, func(s *srv) { s.phase = "errwritten" })
				case esp.Is(f, pkgProto, "ResponseHeader", "SetCanonical") && len(call.Args) == 2:
					if refersTo(info, call.Args[0], strConn) && refersTo(info, call.Args[1], strClose) {
						upd(c, func(s *srv) { s.closeAnn = true })
					}
				}
			},
			Node: func(c *esp.Ctx, n ast.Node) {
				as, ok := n.(*ast.AssignStmt)
				if !ok || len(as.Lhs) != 1 || len(as.Rhs) != 1 {
					return
				}
				if v := usedVar(info, as.Lhs[0]); v == skipBody {
					if id, ok := unparen(as.Rhs[0]).(*ast.Ident); ok && id.Name == "true" {
						upd(c, func(s *srv) { s.skipSet = true })
					} else {
						upd(c, func(s *srv) { s.skipSet = false })
					}
				}
			},
			Branch: func(c *esp.Ctx, cond ast.Expr, val bool) {
				s := parseSrv(c.S.TS)
				if ok, isNil := errNilCond(info, cond, val); ok {
					switch s.phase {
					case "hdr":
						upd(c, func(s *srv) {
							if isNil {
								s.phase = "hdrok"
							} else {
								s.phase = "failed"
							}
						})
					case "hdrok":
						// `if err != nil` reached without a body read (header-only failure path
						// already moved to failed)
						upd(c, func(s *srv) {
							if !isNil {
								s.phase = "failed"
							}
						})
					case "body":
						upd(c, func(s *srv) {
							if isNil {
								s.phase = "parsed"
							} else {
								s.phase = "failed"
							}
						})
					}
					if s.relPending {
						upd(c, func(s *srv) { s.relPending = false; s.relFailed = !isNil })
					}
					return
				}
				pick := func(t, f int) int {
					if val {
						return t
					}
					return f
				}
				if found, t, f := condCalls(info, cond, func(f *types.Func) bool { return esp.Is(f, pkgSuite, "Core", "IsRunning") }); found && s.phase == "handled" {
					// unknown (0) is treated as "may be shutting down" on this edge
					running := pick(t, f) > 0
					upd(c, func(s *srv) { s.runChk = true; s.notRun = s.notRun || !running })
				}
				if found, t, f := condCalls(info, stripConjunct(info, cond, func(f *types.Func) bool { return esp.Is(f, pkgApp, "RequestContext", "IsGet") }), func(f *types.Func) bool { return esp.Is(f, pkgApp, "RequestContext", "IsHead") }); found && s.phase == "handled" {
					upd(c, func(s *srv) {
						s.headChk = true
						if pick(t, f) >= 0 { // true or unknown: the request may be HEAD on this edge
							s.headTrue = true
						}
					})
				}
				if found, t, f := condCalls(info, cond, func(f *types.Func) bool { return esp.Is(f, pkgProto, "Request", "IsBodyStream") }); found && s.phase == "flushed" {
					upd(c, func(s *srv) {
						s.bsChk = true
						if pick(t, f) >= 0 { // the request may have a body stream on this edge
							s.relNeed = true
						}
					})
				}
			},
			BackEdge: func(c *esp.Ctx, from, to *cfg.Block) {
				if serveCall == nil || to.Stmt == nil || !within(serveCall, to.Stmt) {
					return
				}
				s := parseSrv(c.S.TS)
				pos := to.Stmt.Pos()
				if s.phase == "errwritten" {
					viol(c, "errshape", pos, "loop-after-error-response", "the loop is re-entered after an error response (the connection must be closed)")
					return
				}
				if s.phase != "idle" {
					msg := "next iteration starts in phase " + s.phase + " (request not completed and context not reset)"
					c.Violate(pos, "order|"+fname+":backedge-phase", msg)
					viol(c, "loop", pos, "backedge-phase", msg)
					return
				}
				if s.closeAnn {
					viol(c, "close", pos, "loop-after-close", "the loop is re-entered although the response announced Connection: close")
				}
				upd(c, func(s *srv) { s.closeAnn = false })
			},
			Exit: func(c *esp.Ctx) {
				if c.S.Panic {
					return
				}
				s := parseSrv(c.S.TS)
				// the context goes back to the pool on every exit (deferred putRequestContext) and
				// no Reset clears the hijack handler: it must be taken off the context before any
				// exit that follows the handler
				if (s.phase == "handled" || s.phase == "written" || s.phase == "flushed") && !s.hjClear {
					viol(c, "order", c.S.Ret, "exit-"+s.phase+":hijack-not-cleared", "the function can return after the handler ran (phase "+s.phase+") without SetHijackHandler(nil): the pooled context keeps the handler and the next connection that gets it is hijacked")
				}
				switch s.phase {
				case "handled":
					viol(c, "loop", c.S.Ret, "exit-handled", "function returns after the handler ran without writing a response")
				case "written":
					// write error return: fine (I/O failure)
				case "parsed", "hdrok":
					if !s.ioTried {
						viol(c, "loop", c.S.Ret, "exit-parsed", "function returns with a parsed request that was neither handled nor rejected")
					}
				case "errwritten":
					nonNil := c.Fact("err == nil") == esp.F
					if rs := c.S.RetStmt; rs != nil && len(rs.Results) > 0 {
						last := unparen(rs.Results[len(rs.Results)-1])
						if id, ok := last.(*ast.Ident); ok && id.Name == "nil" {
							nonNil = false
						} else if id, ok := last.(*ast.Ident); !ok || id.Name != "err" {
							nonNil = true // an explicit non-nil-looking error expression
							if tv, ok := info.Types[last]; ok && tv.IsNil() {
								nonNil = false
							}
						}
					}
					if !nonNil {
						viol(c, "errshape", c.S.Ret, "error-exit-nil", "after the error response the function may return a nil error (the caller would keep the connection open)")
					}
				}
			},
		}
		ex := esp.New(w, fi, rl)
		vs := ex.Run(fi)
		r.Unit("%s.serveloop: %s — %d states explored, %d exit states; events: ReadHeader×%d ServeHTTP×%d writeResponse×%d writeErrorResponse×%d Flush×%d ResetWithoutConn×%d ReleaseBodyStream×%d", prop, fname, ex.Steps, ex.Exits,
			counts["ReadHeader"], counts["ServeHTTP"], counts["writeResponse"], counts["writeErrorResponse"], counts["Flush"], counts["ResetWithoutConn"], counts["ReleaseBodyStream"])
		need := map[string][]string{"loop": {"ReadHeader", "ServeHTTP", "writeResponse", "Flush"}, "errshape": {"writeErrorResponse"}, "order": {"ResetWithoutConn"}, "release": {"ReleaseBodyStream"}, "exit": {"IsRunning"}, "head": {"IsHead"}, "close": {"SetCanonical"}}
		for _, cat := range cats {
			rule := prop + "." + cat
			for _, ev := range need[cat] {
				r.Check(counts[ev] >= 1, rule, fname+":has-"+ev, w.Pos(fi.Decl.Pos()), "serve function contains the event "+ev, "no call to "+ev+" found: the rule would pass vacuously")
			}
			n := 0
			for _, v := range vs {
				parts := strings.SplitN(v.Key, "|", 2)
				vcat, key := parts[0], parts[len(parts)-1]
				if strings.HasPrefix(v.Key, "undecided:") {
					vcat, key = cat, fname+":"+v.Key
				}
				if vcat != cat {
					continue
				}
				n++
				r.Fail(rule, key, w.Pos(v.Pos), serveCatDesc[cat], v.Msg, v.Path...)
			}
			if n == 0 {
				r.OK(rule, fname+":paths", w.Pos(fi.Decl.Pos()), fmt.Sprintf("%s (all %d exit states)", serveCatDesc[cat], ex.Exits))
			}
		}
		if want["errshape"] {
			errorResponseBody(e, prop+".errshape")
		}
	}
}

// errorResponseBody checks the helper that writes the error response: Connection: close is set
// before the single writeResponse, which is followed by a Flush.
func errorResponseBody(e *Env, rule string) {
	w, r := e.W, e.R
	fi := w.Func("pkg/protocol/http1", "", "writeErrorResponse")
	if fi == nil {
		r.Anchor(rule, "http1.writeErrorResponse")
		return
	}
	fname := w.FuncName(fi.Obj)
	rl := &esp.Rule{Name: rule, Init: "start",
		Call: func(c *esp.Ctx, call *ast.CallExpr, f *types.Func) {
			switch {
			case esp.Is(f, pkgApp, "RequestContext", "SetConnectionClose"):
				if c.S.TS == "start" {
					c.S.TS = "closeset"
				}
			case esp.Is(f, pkgHTTP1, "", "writeResponse"):
				if c.S.TS != "closeset" {
					c.Violate(call.Pos(), fname+":write-before-close", "error response is written in state "+c.S.TS+" (Connection: close must be set first, and only one response written)")
				}
				c.S.TS = "written"
			case f != nil && f.Name() == "Flush" && f.Pkg() != nil && f.Pkg().Path() == pkgNetwork:
				if c.S.TS != "written" {
					c.Violate(call.Pos(), fname+":flush-state", "flush in state "+c.S.TS)
				}
				c.S.TS = "flushed"
			case esp.Is(f, pkgSuite, "Core", "ServeHTTP"):
				c.Violate(call.Pos(), fname+":handler", "a handler chain is run for a rejected request")
			}
		},
		Exit: func(c *esp.Ctx) {
			if c.S.TS != "flushed" && !c.S.Panic {
				c.Violate(c.S.Ret, fname+":exit-"+c.S.TS, "error-response helper returns in state "+c.S.TS+" (response must be written and flushed once, with Connection: close)")
			}
		},
	}
	ex := esp.New(w, fi, rl)
	vs := ex.Run(fi)
	r.Unit("%s: %s — %d states, %d exits", rule, fname, ex.Steps, ex.Exits)
	if len(vs) == 0 {
		r.OK(rule, fname+":shape", w.Pos(fi.Decl.Pos()), "SetConnectionClose → writeResponse → Flush on every path")
	}
	for _, v := range vs {
		r.Fail(rule, v.Key, w.Pos(v.Pos), "error response helper: close set, one response, flushed", v.Msg, v.Path...)
	}
	// the status chosen by the default error handler is a 4xx
	c03Status(e, strings.Replace(rule, "errshape", "status", 1))
}
