package rules

import (
	"fmt"
	"go/ast"
	"go/token"
	"go/types"
	"sort"

	"hzcheck/core"
	"hzcheck/esp"
)

func init() {
	// C08.range is shared: an out-of-box range makes the file handler panic in AppendUint
	register("C03", func(e *Env) { serveLoop(e, "C03") }, c03Limit("C03.limit"), c03Index, c08Range, c03HexWidth,
		// the buffered connection is on every read path: a dangling node pointer is a peer-triggerable panic
		c13TailPtr, c13Release, c13Window, c03Cap, c07Found, c03EOFConv, c13Cursors, c14Clamp, c08Reuse, c20DivZero)
}

const pkgErrs = Mod + "/pkg/common/errors"

// terminates reports whether a block always leaves the enclosing function or loop iteration
// (last statement is return / panic / continue / break / goto).
func terminates(b *ast.BlockStmt) bool {
	if b == nil || len(b.List) == 0 {
		return false
	}
	switch x := b.List[len(b.List)-1].(type) {
	case *ast.ReturnStmt:
		return true
	case *ast.BranchStmt:
		return x.Tok == token.CONTINUE || x.Tok == token.BREAK || x.Tok == token.GOTO
	case *ast.ExprStmt:
		if c, ok := x.X.(*ast.CallExpr); ok {
			if id, ok := c.Fun.(*ast.Ident); ok && id.Name == "panic" {
				return true
			}
		}
	}
	return false
}

// precedingGuards lists the if-statements that structurally dominate n with a terminating
// body: previous siblings of n or of one of its ancestors inside the same function.
func precedingGuards(par map[ast.Node]ast.Node, n ast.Node) []*ast.IfStmt {
	var out []*ast.IfStmt
	for cur := n; cur != nil; cur = par[cur] {
		p := par[cur]
		var list []ast.Stmt
		switch b := p.(type) {
		case *ast.BlockStmt:
			list = b.List
		case *ast.CaseClause:
			list = b.Body
		case *ast.CommClause:
			list = b.Body
		case *ast.FuncDecl, *ast.FuncLit:
			return out
		}
		for _, s := range list {
			if s == cur || s.Pos() >= cur.Pos() {
				break
			}
			if is, ok := s.(*ast.IfStmt); ok && is.Else == nil && terminates(is.Body) {
				out = append(out, is)
			}
		}
	}
	return out
}

// enclosingConds lists the conditions of if-statements whose then-branch contains n.
func enclosingThenConds(par map[ast.Node]ast.Node, n ast.Node) []ast.Expr {
	var out []ast.Expr
	for cur := n; cur != nil; cur = par[cur] {
		if is, ok := par[cur].(*ast.IfStmt); ok && cur == ast.Node(is.Body) {
			out = append(out, is.Cond)
		}
		// the body of `case cond:` in a tagless switch runs only when cond holds
		if cc, ok := par[cur].(*ast.CaseClause); ok && len(cc.List) == 1 {
			if sw, ok := par[par[cc]].(*ast.SwitchStmt); ok && sw.Tag == nil {
				inBody := false
				for _, s := range cc.Body {
					if ast.Node(s) == cur {
						inBody = true
					}
				}
				if inBody {
					out = append(out, cc.List[0])
				}
			}
		}
		if _, ok := par[cur].(*ast.FuncDecl); ok {
			break
		}
	}
	return out
}

func mentionsVar(info *types.Info, e ast.Node, vars map[*types.Var]bool) bool {
	found := false
	ast.Inspect(e, func(n ast.Node) bool {
		if id, ok := n.(*ast.Ident); ok {
			if v, ok := info.Uses[id].(*types.Var); ok && vars[v] {
				found = true
			}
		}
		return !found
	})
	return found
}

// tooLargeVars: package variables initialised with errs.New(errs.ErrBodyTooLarge, …) or the
// sentinel itself.
func tooLargeVars(w *core.World) map[*types.Var]bool {
	out := map[*types.Var]bool{}
	sentinel, _ := w.Object("pkg/common/errors", "ErrBodyTooLarge").(*types.Var)
	if sentinel == nil {
		return out
	}
	out[sentinel] = true
	f := pkgVars(w)
	for v, init := range f.init {
		if refersTo(f.initInfo[v], init, sentinel) {
			out[v] = true
		}
	}
	return out
}

// c03Limit — in the buffered request-body path every consumption sized by the declared
// length or by a chunk size is dominated by a comparison of that size with the configured
// limit whose failing branch returns an error wrapping ErrBodyTooLarge.
func c03Limit(rule string) RuleFn {
	return func(e *Env) {
		w, r := e.W, e.R
		r.Explainf("%s: roles are propagated from Server.Serve's call req.ReadLimitBody(…, s.MaxRequestBodySize, …): L = parameters receiving the limit, D = parameters/locals holding the declared length (Header.ContentLength()) or a parsed chunk size. In every function with an L parameter, each Peek/Skip/appendBodyFixedSize/ParseMultipartForm/make sized by a D value is structurally dominated by `if … D > L … { return errBodyTooLarge }` (an error variable built from errs.ErrBodyTooLarge), unless both D and L are handed to a callee that is checked in turn.", rule)
		limitField := w.Field("pkg/protocol/http1", "Option", "MaxRequestBodySize")
		root := w.Func("pkg/protocol/http1/req", "", "ReadLimitBody")
		if limitField == nil || root == nil {
			r.Anchor(rule, "http1.Option.MaxRequestBodySize / req.ReadLimitBody")
			return
		}
		tooLarge := tooLargeVars(w)
		if len(tooLarge) < 2 {
			r.Anchor(rule, "error variables built from errors.ErrBodyTooLarge")
			return
		}
		// find the L parameter index of the root from Serve-like callers
		type role struct{ L, D map[int]bool }
		roles := map[*types.Func]*role{}
		get := func(f *types.Func) *role {
			if roles[f] == nil {
				roles[f] = &role{map[int]bool{}, map[int]bool{}}
			}
			return roles[f]
		}
		seeded := false
		for _, fi := range declaredNonTest(w) {
			info := fi.Pkg.TypesInfo
			ast.Inspect(fi.Decl.Body, func(n ast.Node) bool {
				if call, ok := n.(*ast.CallExpr); ok && calleeOf(info, call) == root.Obj {
					for i, a := range call.Args {
						if v := usedVar(info, a); v == limitField {
							get(root.Obj).L[i] = true
							seeded = true
						}
					}
				}
				return true
			})
		}
		if !seeded {
			r.Anchor(rule, "a call req.ReadLimitBody(…, <Option.MaxRequestBodySize>, …)")
			return
		}
		isLenSource := func(info *types.Info, e ast.Expr) bool {
			call, ok := unparen(e).(*ast.CallExpr)
			if !ok {
				return false
			}
			f := calleeOf(info, call)
			return esp.Is(f, pkgProto, "RequestHeader", "ContentLength") || esp.Is(f, pkgProto, "ResponseHeader", "ContentLength") ||
				esp.Is(f, Mod+"/pkg/common/utils", "", "ParseChunkSize")
		}
		sized := func(f *types.Func) (int, bool) { // which argument is the size
			switch {
			case f == nil:
				return 0, false
			case f.Name() == "Peek" && f.Pkg() != nil && f.Pkg().Path() == pkgNetwork:
				return 0, true
			case f.Name() == "Skip" && f.Pkg() != nil && f.Pkg().Path() == pkgNetwork:
				return 0, true
			case esp.Is(f, pkgExt, "", "appendBodyFixedSize"):
				return 2, true
			case esp.Is(f, pkgProto, "", "ParseMultipartForm"):
				return 2, true
			}
			return 0, false
		}
		// worklist over functions with roles
		work := []*types.Func{root.Obj}
		done := map[*types.Func]bool{}
		nObl := 0
		var analysed []string
		for len(work) > 0 {
			f := work[0]
			work = work[1:]
			if done[f] {
				continue
			}
			done[f] = true
			fi := w.DeclOf(f)
			if fi == nil || fi.Decl.Body == nil {
				continue
			}
			info := fi.Pkg.TypesInfo
			fname := w.FuncName(f)
			analysed = append(analysed, fname)
			sig := f.Type().(*types.Signature)
			L, D := map[*types.Var]bool{}, map[*types.Var]bool{}
			for i := range get(f).L {
				L[sig.Params().At(i)] = true
			}
			for i := range get(f).D {
				D[sig.Params().At(i)] = true
			}
			// locals assigned from declared-length sources
			ast.Inspect(fi.Decl.Body, func(n ast.Node) bool {
				switch x := n.(type) {
				case *ast.AssignStmt:
					if len(x.Rhs) == 1 && isLenSource(info, x.Rhs[0]) {
						if id, ok := x.Lhs[0].(*ast.Ident); ok {
							if v, ok := info.ObjectOf(id).(*types.Var); ok {
								D[v] = true
							}
						}
					}
				case *ast.ValueSpec:
					if len(x.Values) == 1 && isLenSource(info, x.Values[0]) {
						if v, ok := info.Defs[x.Names[0]].(*types.Var); ok {
							D[v] = true
						}
					}
				}
				return true
			})
			par := parents(fi.Decl)
			site := 0
			ast.Inspect(fi.Decl.Body, func(n ast.Node) bool {
				call, ok := n.(*ast.CallExpr)
				if !ok {
					return true
				}
				cf := calleeOf(info, call)
				// propagation to module callees
				if cf != nil && w.DeclOf(cf) != nil {
					passL, passD := false, false
					for i, a := range call.Args {
						if i >= cf.Type().(*types.Signature).Params().Len() {
							break
						}
						if v := usedVar(info, a); v != nil && L[v] {
							get(cf.Origin()).L[i] = true
							passL = true
						} else if v != nil && D[v] {
							get(cf.Origin()).D[i] = true
							passD = true
						} else if isLenSource(info, a) {
							get(cf.Origin()).D[i] = true
							passD = true
						}
					}
					if passL {
						if done[cf.Origin()] {
							done[cf.Origin()] = false // roles may have grown
						}
						work = append(work, cf.Origin())
						if passD {
							return true // delegated: the callee is checked with both roles
						}
					}
				}
				var sizeArg ast.Expr
				if idx, ok := sized(cf); ok && idx < len(call.Args) {
					sizeArg = call.Args[idx]
				} else if id, ok := call.Fun.(*ast.Ident); ok && id.Name == "make" && len(call.Args) >= 2 {
					if _, isB := info.Uses[id].(*types.Builtin); isB {
						sizeArg = call.Args[1]
					}
				}
				if sizeArg == nil || !mentionsVar(info, sizeArg, D) {
					return true
				}
				if len(L) == 0 {
					return true
				}
				site++
				nObl++
				key := fmt.Sprintf("%s:%s#%d", fname, calleeLabel(cf, call), site)
				ok = false
				for _, g := range precedingGuards(par, call) {
					if !mentionsVar(info, g.Cond, L) || !mentionsVar(info, g.Cond, D) || !hasGreater(g.Cond) {
						continue
					}
					if rs, isRet := g.Body.List[len(g.Body.List)-1].(*ast.ReturnStmt); isRet && len(rs.Results) > 0 && mentionsVar(info, rs.Results[len(rs.Results)-1], tooLarge) {
						ok = true
					}
				}
				r.Check(ok, rule, key, w.Pos(call.Pos()), "consumption sized by a peer-declared length is dominated by a limit check returning ErrBodyTooLarge",
					"`"+types.ExprString(call)+"` consumes a peer-declared number of bytes without a dominating `declared > limit ⇒ return errBodyTooLarge` guard: an oversized body is buffered instead of being rejected with 413")
				return true
			})
		}
		sort.Strings(analysed)
		r.Unit("%s: functions with a limit parameter: %v", rule, analysed)
		r.Floor(rule, nObl, 4, "declared-size consumptions in the buffered body path")
		r.Floor(rule, len(analysed), 4, "functions receiving the body-size limit")
	}
}

func hasGreater(e ast.Expr) bool {
	found := false
	ast.Inspect(e, func(n ast.Node) bool {
		if be, ok := n.(*ast.BinaryExpr); ok && (be.Op == token.GTR || be.Op == token.GEQ || be.Op == token.LSS || be.Op == token.LEQ) {
			found = true
		}
		return !found
	})
	return found
}

func calleeLabel(f *types.Func, call *ast.CallExpr) string {
	if f != nil {
		return f.Name()
	}
	if id, ok := call.Fun.(*ast.Ident); ok {
		return id.Name
	}
	return "call"
}

// c03Status — the statuses chosen by the default error handler are 4xx and ErrBodyTooLarge maps
// to 413.
func c03Status(e *Env, rule string) {
	w, r := e.W, e.R
	r.Explainf("%s: every integer constant passed as a status by the function writeErrorResponse uses as its error handler lies in 400..499, and the branch testing errors.Is(err, ErrBodyTooLarge) passes 413.", rule)
	fi := w.Func("pkg/protocol/http1", "", "defaultErrorHandler")
	if fi == nil {
		r.Anchor(rule, "http1.defaultErrorHandler")
		return
	}
	info := fi.Pkg.TypesInfo
	fname := w.FuncName(fi.Obj)
	sentinel, _ := w.Object("pkg/common/errors", "ErrBodyTooLarge").(*types.Var)
	par := parents(fi.Decl)
	n := 0
	saw413 := false
	ast.Inspect(fi.Decl.Body, func(nd ast.Node) bool {
		call, ok := nd.(*ast.CallExpr)
		if !ok {
			return true
		}
		f := calleeOf(info, call)
		if f == nil || f.Pkg() == nil || f.Pkg().Path() != pkgApp {
			return true
		}
		for _, a := range call.Args {
			t := info.TypeOf(a)
			if b, ok := t.Underlying().(*types.Basic); !ok || b.Info()&types.IsInteger == 0 {
				continue
			}
			v, isC := constInt(info, a)
			n++
			key := fmt.Sprintf("%s:status#%d", fname, n)
			if !isC {
				r.Fail(rule, key, w.Pos(a.Pos()), "error status is a 4xx constant", "status argument "+types.ExprString(a)+" is not a constant; undecided")
				continue
			}
			r.Check(v >= 400 && v <= 499, rule, key, w.Pos(a.Pos()), fmt.Sprintf("error status %d is a 4xx", v), fmt.Sprintf("status %d is not a client-error status", v))
			for _, cond := range enclosingThenConds(par, call) {
				if sentinel != nil && refersTo(info, cond, sentinel) && v == 413 {
					saw413 = true
				}
			}
		}
		return true
	})
	r.Unit("%s: %s — %d status constants", rule, fname, n)
	r.Floor(rule, n, 2, "status constants in the error handler")
	r.Check(saw413, rule, fname+":too-large-413", w.Pos(fi.Decl.Pos()), "ErrBodyTooLarge is mapped to 413", "no branch testing ErrBodyTooLarge that answers 413")
}

// c03Index is defined in zone rules (c03index.go).
