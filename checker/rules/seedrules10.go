package rules

// Rules added after the tenth round of independently seeded changes (seeded/*-r10-*).

import (
	"fmt"
	"go/ast"
	"go/token"
	"go/types"
	"sort"
	"strings"

	"hzcheck/core"
)

// C09.dsttrunc — a decoder that overwrites its destination never returns it untouched.
func c09DstTrunc(e *Env) {
	const rule = "C09.dsttrunc"
	w, r := e.W, e.R
	r.Explainf("C09.dsttrunc: several byte helpers of package protocol take a destination slice and OVERWRITE it — they return `append(dst[:0], …)` (decodeCookieArg and the helpers returning its result). Their callers pass the key or value of a recycled slot (header cookies, Cookie.bufKV), whose old bytes no Reset clears, and rely on the result not containing them. In every function with that contract — one of its returns is `append(P[:0], …)` for its first parameter P, or the result of such a function called with P — no return hands back P itself or a slice of it: an early `return dst` for empty input gives the caller the previous occupant's bytes (an empty cookie value reads as the previous request's value).")
	type fn struct {
		fi *core.FuncInfo
		p  *types.Var
	}
	var cands []fn
	for _, fi := range declaredNonTest(w) {
		if fi.Decl.Body == nil || w.RelPkg(fi.Obj.Pkg()) != "pkg/protocol" {
			continue
		}
		sig := fi.Obj.Type().(*types.Signature)
		if sig.Params().Len() < 2 || sig.Results().Len() != 1 || !isByteSlice(sig.Params().At(0).Type()) || !isByteSlice(sig.Results().At(0).Type()) {
			continue
		}
		cands = append(cands, fn{fi, sig.Params().At(0)})
	}
	ow := map[*types.Func]bool{}
	isOW := func(c fn, x ast.Expr) bool {
		info := c.fi.Pkg.TypesInfo
		call, ok := unparen(x).(*ast.CallExpr)
		if !ok || len(call.Args) == 0 {
			return false
		}
		if isBuiltin(info, call, "append") {
			if se, ok := unparen(call.Args[0]).(*ast.SliceExpr); ok && usedVar(info, se.X) == c.p && se.Low == nil && se.High != nil {
				if z, isC := constInt(info, se.High); isC && z == 0 {
					return true
				}
			}
			return false
		}
		f := calleeOf(info, call)
		return f != nil && ow[f] && usedVar(info, call.Args[0]) == c.p
	}
	for changed := true; changed; {
		changed = false
		for _, c := range cands {
			if ow[c.fi.Obj] {
				continue
			}
			ast.Inspect(c.fi.Decl.Body, func(nd ast.Node) bool {
				if rs, ok := nd.(*ast.ReturnStmt); ok && len(rs.Results) == 1 && isOW(c, rs.Results[0]) {
					ow[c.fi.Obj] = true
					changed = true
				}
				return true
			})
		}
	}
	n := 0
	for _, c := range cands {
		if !ow[c.fi.Obj] {
			continue
		}
		n++
		info := c.fi.Pkg.TypesInfo
		fname := w.FuncName(c.fi.Obj)
		par := parents(c.fi.Decl)
		// P reassigned from a truncating expression makes later bare returns fine
		reassigned := false
		ast.Inspect(c.fi.Decl.Body, func(nd ast.Node) bool {
			if as, ok := nd.(*ast.AssignStmt); ok {
				for _, l := range as.Lhs {
					if usedVar(info, l) == c.p {
						reassigned = true
					}
				}
			}
			return true
		})
		k := 0
		ast.Inspect(c.fi.Decl.Body, func(nd ast.Node) bool {
			rs, ok := nd.(*ast.ReturnStmt)
			if !ok || len(rs.Results) != 1 || inFuncLit(par, rs) {
				return true
			}
			x := unparen(rs.Results[0])
			if se, ok := x.(*ast.SliceExpr); ok {
				x = unparen(se.X)
			}
			if usedVar(info, x) == c.p && !reassigned {
				k++
				r.Fail(rule, fmt.Sprintf("%s:returns-destination#%d", fname, k), w.Pos(rs.Pos()), "a function that overwrites its destination never returns it untouched",
					"`"+nodeString(rs)+"` hands back the destination as it came in, while the other returns of "+fname+" overwrite it (`append("+c.p.Name()+"[:0], …)`): callers pass a recycled slot's buffer, so the result is what the previous request left there")
			}
			return true
		})
		if k == 0 {
			r.OK(rule, fname+":overwrites", w.Pos(c.fi.Decl.Pos()), "a function that overwrites its destination never returns it untouched")
		}
	}
	r.Floor(rule, n, 2, "functions of package protocol that overwrite their destination slice")
}

// C10.lockalias — a view of the idle list is not used outside the lock.
func c10LockAlias(e *Env) {
	const rule = "C10.lockalias"
	w, r := e.W, e.R
	r.Explainf("C10.lockalias: HostClient.conns (the idle connections) is only touched under connsLock (C10.lock). A local that merely aliases it (`x := c.conns`, no copy) shares its backing array: after Unlock, a concurrent releaseConn appends into the same slots. In every HostClient method each use of such an alias lies between a Lock and the matching Unlock of connsLock (source order within the function; a deferred Unlock holds to the end). What has to outlive the critical section is copied (`append(scratch[:0], conns[:i]...)`). An alias read after Unlock closes a connection that was just handed back to the pool and leaks the one it replaced.")
	connsF := w.Field("pkg/protocol/http1", "HostClient", "conns")
	lockF := w.Field("pkg/protocol/http1", "HostClient", "connsLock")
	if connsF == nil || lockF == nil {
		r.Anchor(rule, "http1.HostClient.conns / connsLock")
		return
	}
	n := 0
	for _, fi := range declaredNonTest(w) {
		if fi.Decl.Body == nil || w.RelPkg(fi.Obj.Pkg()) != "pkg/protocol/http1" {
			continue
		}
		info := fi.Pkg.TypesInfo
		par := parents(fi.Decl)
		aliases := map[*types.Var]bool{}
		ast.Inspect(fi.Decl.Body, func(nd ast.Node) bool {
			if as, ok := nd.(*ast.AssignStmt); ok && len(as.Lhs) == len(as.Rhs) {
				for i, l := range as.Lhs {
					if usedVar(info, as.Rhs[i]) != connsF {
						continue
					}
					if _, isSel := unparen(as.Rhs[i]).(*ast.SelectorExpr); !isSel {
						continue
					}
					if id, ok := l.(*ast.Ident); ok {
						if v, _ := info.Defs[id].(*types.Var); v != nil {
							aliases[v] = true
						} else if v := usedVar(info, id); v != nil && !v.IsField() {
							aliases[v] = true
						}
					}
				}
			}
			return true
		})
		if len(aliases) == 0 {
			continue
		}
		// lock events in source order
		type ev struct {
			pos  token.Pos
			lock bool
		}
		var evs []ev
		deferredUnlock := token.NoPos
		ast.Inspect(fi.Decl.Body, func(nd ast.Node) bool {
			c, ok := nd.(*ast.CallExpr)
			if !ok || inFuncLit(par, c) {
				return true
			}
			se, ok := unparen(c.Fun).(*ast.SelectorExpr)
			if !ok || usedVar(info, se.X) != lockF {
				return true
			}
			switch se.Sel.Name {
			case "Lock":
				evs = append(evs, ev{c.Pos(), true})
			case "Unlock":
				if _, isDefer := par[c].(*ast.DeferStmt); isDefer {
					deferredUnlock = c.Pos()
				} else {
					evs = append(evs, ev{c.Pos(), false})
				}
			}
			return true
		})
		sort.Slice(evs, func(i, j int) bool { return evs[i].pos < evs[j].pos })
		// released: the last lock event before p is an explicit Unlock. A function without any
		// event on connsLock is a helper whose callers hold the lock (C10.lock checks that).
		held := func(p token.Pos) bool {
			h := true
			for _, e := range evs {
				if e.pos < p {
					h = e.lock
				}
			}
			return h
		}
		_ = deferredUnlock
		fname := w.FuncName(fi.Obj)
		var names []string
		for v := range aliases {
			names = append(names, v.Name())
		}
		sort.Strings(names)
		k := 0
		ast.Inspect(fi.Decl.Body, func(nd ast.Node) bool {
			id, ok := nd.(*ast.Ident)
			if !ok || info.Defs[id] != nil {
				return true
			}
			v := usedVar(info, id)
			if v == nil || !aliases[v] || held(id.Pos()) {
				return true
			}
			// the defining assignment itself is judged by C10.lock (it reads the field)
			if as, ok := par[id].(*ast.AssignStmt); ok {
				for _, l := range as.Lhs {
					if l == ast.Expr(id) {
						return true
					}
				}
			}
			k++
			if k == 1 {
				r.Fail(rule, fmt.Sprintf("%s:%s-after-unlock", fname, v.Name()), w.Pos(id.Pos()), "an alias of the idle list is only used while connsLock is held",
					"`"+v.Name()+"` aliases c.conns (no copy) and is used here after connsLock was released: a concurrent releaseConn writes into the same backing array — the loop closes a connection that was just pooled and the one it replaced leaks")
			}
			return true
		})
		n++
		if k == 0 {
			r.OK(rule, fname+":aliases("+fmt.Sprint(names)+")", w.Pos(fi.Decl.Pos()), "an alias of the idle list is only used while connsLock is held")
		}
	}
	r.Floor(rule, n, 1, "HostClient methods holding an alias of the idle list")
}

// C12.routefresh — what a route stores is the chain the builder made.
func c12RouteFresh(e *Env) {
	const rule = "C12.routefresh"
	w, r := e.W, e.R
	r.Explainf("C12.routefresh: RouterGroup.handle hands the route's chain to Engine.addRoute, which stores the slice in the tree. The chain builder (C12.assembly) is also what gives every route a slice of its own; callers may pass `chain...` from a slice they keep re-using. The chain argument of every addRoute call in package route is therefore the builder's result on every path: the call itself, or a variable whose last assignment before the call is an unconditional top-level `v = builder(…)`. A fast path that skips the builder when the group has no middleware stores the caller's slice: re-using it for the next registration silently changes the handlers of the routes registered before.")
	hc := w.Named("pkg/app", "HandlersChain")
	if hc == nil {
		r.Anchor(rule, "app.HandlersChain")
		return
	}
	builder := map[*types.Func]bool{}
	for _, fi := range declaredNonTest(w) {
		if fi.Pkg.PkgPath != pkgRoute || fi.Decl.Body == nil {
			continue
		}
		sig := fi.Obj.Type().(*types.Signature)
		if sig.Results().Len() != 1 || !types.Identical(sig.Results().At(0).Type(), hc) {
			continue
		}
		info := fi.Pkg.TypesInfo
		ast.Inspect(fi.Decl.Body, func(n ast.Node) bool {
			if c, ok := n.(*ast.CallExpr); ok && isBuiltin(info, c, "make") {
				builder[fi.Obj] = true
			}
			return true
		})
	}
	n := 0
	for _, fi := range declaredNonTest(w) {
		if fi.Pkg.PkgPath != pkgRoute || fi.Decl.Body == nil {
			continue
		}
		info := fi.Pkg.TypesInfo
		fname := w.FuncName(fi.Obj)
		isBuilt := func(x ast.Expr) bool {
			c, ok := unparen(x).(*ast.CallExpr)
			if !ok {
				return false
			}
			f := calleeOf(info, c)
			return f != nil && builder[f]
		}
		ast.Inspect(fi.Decl.Body, func(nd ast.Node) bool {
			c, ok := nd.(*ast.CallExpr)
			if !ok {
				return true
			}
			f := calleeOf(info, c)
			if f == nil || f.Name() != "addRoute" || recvNamed(f) == nil || recvNamed(f).Obj().Name() != "Engine" {
				return true
			}
			for _, a := range c.Args {
				if !types.Identical(info.TypeOf(a), hc) {
					continue
				}
				n++
				good := isBuilt(a)
				if v := usedVar(info, a); v != nil && !v.IsField() && !good {
					// the last write to v before the call: a top-level statement of the body, from the builder
					var last ast.Stmt
					nested := false
					ast.Inspect(fi.Decl.Body, func(m ast.Node) bool {
						as, ok := m.(*ast.AssignStmt)
						if !ok || as.Pos() > c.Pos() {
							return true
						}
						for _, l := range as.Lhs {
							if usedVar(info, l) == v {
								top := false
								for _, s := range fi.Decl.Body.List {
									if s == ast.Stmt(as) {
										top = true
									}
								}
								if !top {
									nested = true
								} else if last == nil || as.Pos() > last.Pos() {
									last = as
								}
							}
						}
						return true
					})
					if as, ok := last.(*ast.AssignStmt); ok && !nested && len(as.Lhs) == 1 && len(as.Rhs) == 1 && isBuilt(as.Rhs[0]) {
						good = true
					}
				}
				r.Check(good, rule, fmt.Sprintf("%s:addRoute#%d:chain", fname, n), w.Pos(c.Pos()), "the chain stored for a route is the chain builder's result on every path",
					"`"+types.ExprString(a)+"` reaches addRoute without passing through the chain builder on every path (conditional or missing `= combine…(…)`): the tree keeps the caller's own slice, and re-using that slice for a later registration rewrites the handlers of this route")
			}
			return true
		})
	}
	r.Floor(rule, n, 1, "addRoute calls with a handler chain in package route")
}

// C16.firstocc — an existence decision looks at every occurrence, not the first.
func c16FirstOcc(e *Env) {
	const rule = "C16.firstocc"
	r := e.R
	r.Explainf("C16.firstocc: the update path of the generator decides from the text of an existing file whether a name is already registered. Such a decision must cover every occurrence: bytes.Contains / a regular expression over the whole file, or a loop that continues the search. In cmd/hz/generator/router.go the offset returned by bytes.Index / strings.Index (first occurrence only) of a generated, non-constant needle is never used to inspect the surrounding bytes (`file[idx-1]` …) outside a loop: if the first occurrence is the tail of a longer identifier, a later exact occurrence is missed, the collision is not refused, and the generated register.go imports two packages under one alias.")
	hz, err := e.HZ()
	if err != nil || hz == nil {
		r.Anchor(rule, "cmd/hz module")
		return
	}
	n, nIdx := 0, 0
	for _, fi := range declaredNonTest(hz) {
		if fi.Decl.Body == nil || hz.RelPkg(fi.Obj.Pkg()) != "generator" {
			continue
		}
		if fn := hz.Fset.Position(fi.Decl.Pos()).Filename; len(fn) < 10 || fn[len(fn)-10:] != "/router.go" {
			continue
		}
		n++
		info := fi.Pkg.TypesInfo
		par := parents(fi.Decl)
		fname := hz.FuncName(fi.Obj)
		ast.Inspect(fi.Decl.Body, func(nd ast.Node) bool {
			as, ok := nd.(*ast.AssignStmt)
			if !ok || len(as.Lhs) != 1 || len(as.Rhs) != 1 {
				return true
			}
			c, ok := unparen(as.Rhs[0]).(*ast.CallExpr)
			if !ok || len(c.Args) != 2 {
				return true
			}
			f := calleeOf(info, c)
			if f == nil || f.Pkg() == nil || (f.Pkg().Path() != "bytes" && f.Pkg().Path() != "strings") || f.Name() != "Index" {
				return true
			}
			if tv, ok := info.Types[c.Args[1]]; ok && tv.Value != nil {
				return true
			}
			iv := usedVar(info, as.Lhs[0])
			if id, ok := as.Lhs[0].(*ast.Ident); ok && iv == nil {
				iv, _ = info.Defs[id].(*types.Var)
			}
			hay := usedVar(info, c.Args[0])
			if iv == nil || hay == nil {
				return true
			}
			nIdx++
			inLoop := enclosing(par, as, func(m ast.Node) bool {
				switch m.(type) {
				case *ast.ForStmt, *ast.RangeStmt:
					return true
				}
				return false
			}) != nil
			bad := token.NoPos
			ast.Inspect(fi.Decl.Body, func(m ast.Node) bool {
				ix, ok := m.(*ast.IndexExpr)
				if !ok || usedVar(info, ix.X) != hay || !refersTo(info, ix.Index, iv) || bad.IsValid() {
					return true
				}
				bad = ix.Pos()
				return true
			})
			if bad.IsValid() && !inLoop {
				r.Fail(rule, fmt.Sprintf("%s:context-of-first-%s", fname, iv.Name()), hz.Pos(bad), "an existence decision covers every occurrence of the name",
					"the bytes around the FIRST occurrence found by `"+types.ExprString(c)+"` decide whether the name exists; when that occurrence is the tail of a longer identifier a later exact occurrence is never looked at")
			}
			return true
		})
	}
	if n > 0 {
		r.OK(rule, "generator/router.go:first-occurrence-decisions", "-", fmt.Sprintf("no existence decision from the context of a first occurrence (%d functions, %d Index calls with a generated needle examined)", n, nIdx))
	}
	r.Floor(rule, n, 5, "functions of cmd/hz/generator/router.go examined")
}

// C14.limitstrict — every body reader calls a body too large under the same, strict test.
func c14LimitStrict(e *Env) {
	const rule = "C14.limitstrict"
	w, r := e.W, e.R
	r.Explainf("C14.limitstrict: the body readers of the HTTP/1 code (buffered, chunked, identity, streaming prefetch; request and response side) each decide `too large` themselves, and they must agree: a body is too large when its length is STRICTLY greater than the limit — a body of exactly MaxRequestBodySize bytes is accepted everywhere. Sibling agreement, frozen from the five sites of the tree: every `if` in packages protocol/http1/{ext,req,resp} whose branch yields the body-too-large error compares two non-constant operands with `>` / `<` (after normalisation), never `>=` / `<=`. A reader that moves the equality to the too-large side (consistently with its own reader selection, so C14.identity stays quiet) sends a body of exactly the limit through the over-limit prefetch, which reads until it holds more than the limit: it waits for, and swallows, the first byte of the next request.")
	n := 0
	for _, fi := range declaredNonTest(w) {
		rel := w.RelPkg(fi.Obj.Pkg())
		if fi.Decl.Body == nil || (rel != "pkg/protocol/http1/ext" && rel != "pkg/protocol/http1/req" && rel != "pkg/protocol/http1/resp") {
			continue
		}
		info := fi.Pkg.TypesInfo
		fname := w.FuncName(fi.Obj)
		isTooLarge := func(nd ast.Node) bool {
			hit := false
			ast.Inspect(nd, func(m ast.Node) bool {
				if id, ok := m.(*ast.Ident); ok && strings.EqualFold(id.Name, "errBodyTooLarge") {
					if v := usedVar(info, id); v != nil && isPkgLevel(v) {
						hit = true
					}
				}
				return true
			})
			return hit
		}
		k := 0
		ast.Inspect(fi.Decl.Body, func(nd ast.Node) bool {
			is, ok := nd.(*ast.IfStmt)
			if !ok {
				return true
			}
			yields := false
			for _, st := range is.Body.List {
				switch y := st.(type) {
				case *ast.ReturnStmt:
					yields = yields || isTooLarge(y)
				case *ast.AssignStmt:
					for _, rh := range y.Rhs {
						yields = yields || isTooLarge(rh)
					}
				}
			}
			if !yields {
				return true
			}
			for _, p := range splitOp(is.Cond, token.LAND) {
				be, ok := p.(*ast.BinaryExpr)
				if !ok {
					continue
				}
				switch be.Op {
				case token.GTR, token.LSS, token.GEQ, token.LEQ:
				default:
					continue
				}
				_, cx := constInt(info, be.X)
				_, cy := constInt(info, be.Y)
				if cx || cy {
					continue
				}
				k++
				n++
				strict := be.Op == token.GTR || be.Op == token.LSS
				r.Check(strict, rule, fmt.Sprintf("%s:too-large-test#%d", fname, k), w.Pos(be.Pos()), "a body is too large when its length is strictly greater than the limit",
					"`"+types.ExprString(be)+"` also calls a body of exactly the limit too large, unlike the sibling readers: in streaming mode such a body goes through the over-limit prefetch, which reads until it holds MORE than the limit — the server waits for a byte of the next request and drops it")
			}
			return true
		})
	}
	r.Floor(rule, n, 4, "too-large tests in the HTTP/1 body readers")
}

// C20.instancememo — what the validator remembers while ranging is remembered per instance.
func c20InstanceMemo(e *Env) {
	const rule = "C20.instancememo"
	w, r := e.W, e.R
	r.Explainf("C20.instancememo: validator.Validate walks every expression of a value with TagExpr.Range; for nested slices and maps the callback is invoked once per element with the SAME selectors but a different struct instance (eh.TagExpr()). A map that lives outside the callback and is read or written inside it (the `parent field is nil, skip its expressions` memo) must therefore be indexed by a key that identifies the instance: the key expression — followed through the local it is held in — contains eh.TagExpr() or eh.Path(). A memo keyed by the selector alone lets a nil pointer in one slice element suppress the failures of all other elements: an invalid value is accepted.")
	n := 0
	for _, fi := range declaredNonTest(w) {
		if fi.Decl.Body == nil || w.RelPkg(fi.Obj.Pkg()) != "internal/tagexpr/validator" {
			continue
		}
		info := fi.Pkg.TypesInfo
		fname := w.FuncName(fi.Obj)
		ast.Inspect(fi.Decl.Body, func(nd ast.Node) bool {
			lit, ok := nd.(*ast.FuncLit)
			if !ok || lit.Type.Params == nil || len(lit.Type.Params.List) != 1 || len(lit.Type.Params.List[0].Names) != 1 {
				return true
			}
			hv, _ := info.Defs[lit.Type.Params.List[0].Names[0]].(*types.Var)
			if hv == nil {
				return true
			}
			pt, ok := hv.Type().(*types.Pointer)
			if !ok {
				return true
			}
			if nt, ok := pt.Elem().(*types.Named); !ok || nt.Obj().Name() != "ExprHandler" {
				return true
			}
			instance := func(x ast.Node) bool {
				hit := false
				ast.Inspect(x, func(m ast.Node) bool {
					if c, ok := m.(*ast.CallExpr); ok {
						if se, ok := unparen(c.Fun).(*ast.SelectorExpr); ok && usedVar(info, se.X) == hv && (se.Sel.Name == "TagExpr" || se.Sel.Name == "Path") {
							hit = true
						}
					}
					return true
				})
				return hit
			}
			seen := map[*types.Var]bool{}
			ast.Inspect(lit.Body, func(m ast.Node) bool {
				ix, ok := m.(*ast.IndexExpr)
				if !ok {
					return true
				}
				mv := usedVar(info, ix.X)
				if mv == nil || mv.IsField() || isPkgLevel(mv) {
					return true
				}
				if _, isMap := mv.Type().Underlying().(*types.Map); !isMap {
					return true
				}
				// declared outside the callback
				if mv.Pos() >= lit.Pos() && mv.Pos() <= lit.End() {
					return true
				}
				good := instance(ix.Index)
				if kv := usedVar(info, ix.Index); kv != nil && !kv.IsField() && !good {
					ast.Inspect(lit.Body, func(q ast.Node) bool {
						if as, ok := q.(*ast.AssignStmt); ok && len(as.Lhs) == len(as.Rhs) {
							for i, l := range as.Lhs {
								if id, ok := l.(*ast.Ident); ok && (info.Defs[id] == types.Object(kv) || info.Uses[id] == types.Object(kv)) && instance(as.Rhs[i]) {
									good = true
								}
							}
						}
						return true
					})
				}
				if seen[mv] && good {
					return true
				}
				seen[mv] = true
				n++
				r.Check(good, rule, fmt.Sprintf("%s:memo-%s#%d", fname, mv.Name(), n), w.Pos(ix.Pos()), "a memo kept across the Range callback is keyed by the struct instance",
					"`"+types.ExprString(ix)+"` indexes "+mv.Name()+" (declared outside the callback) by a key that does not contain eh.TagExpr() or eh.Path(): the elements of a nested slice share their selectors, so what was remembered for one element (`parent is nil`) is applied to the others and their failing expressions are skipped")
				return true
			})
			return true
		})
	}
	r.Floor(rule, n, 1, "maps shared across the Range callback of the validator")
}

// C07.fresh — a recycled URI starts without the previous request's path: the reset methods of
// URI clear `path` and `pathOriginal` on every path (the parser's control-byte exit returns
// right after Reset, without going through normalizePath).
func c07Fresh(e *Env) {
	resetObligations(e, "C07.fresh", func(tg resetTarget, field string) bool {
		if tg.Typ != "URI" {
			return false
		}
		return field == "" || field == "path" || field == "pathOriginal"
	})
}

// C04.readfromeof — an io.ReaderFrom does not report the source's io.EOF.
func c04ReadFromEOF(e *Env) {
	const rule = "C04.readfromeof"
	w, r := e.W, e.R
	r.Explainf("C04.readfromeof: io.ReaderFrom reads until EOF and returns a nil error for it; the body writers treat any error of the copy as a failed response and close the connection (after the complete, correct message has already been sent, without `Connection: close`). In every `ReadFrom(io.Reader) (int64, error)` method of package network/standard that tests its error result with `== io.EOF`, each way through the body of that test assigns the error result anew (`err = nil`, `err = c.Flush()`) — an arm that only flushes and falls through returns io.EOF to the caller: the response is on the wire, the server drops the connection and the client's next request is never answered.")
	n := 0
	for _, fi := range declaredNonTest(w) {
		if fi.Decl.Body == nil || w.RelPkg(fi.Obj.Pkg()) != "pkg/network/standard" || fi.Obj.Name() != "ReadFrom" {
			continue
		}
		info := fi.Pkg.TypesInfo
		sig := fi.Obj.Type().(*types.Signature)
		if sig.Results().Len() != 2 {
			continue
		}
		errV := sig.Results().At(1)
		if errV.Name() == "" {
			continue
		}
		fname := w.FuncName(fi.Obj)
		// covers: walking the statements in order, the error result is assigned anew (or an explicit
		// other value is returned) before any way out
		var covers func(list []ast.Stmt) bool
		covers = func(list []ast.Stmt) bool {
			for _, s := range list {
				switch x := s.(type) {
				case *ast.AssignStmt:
					for _, l := range x.Lhs {
						if usedVar(info, l) == errV {
							return true
						}
					}
				case *ast.ReturnStmt:
					return len(x.Results) == 2 && usedVar(info, x.Results[1]) != errV
				case *ast.IfStmt:
					a := covers(x.Body.List)
					if x.Else != nil {
						b := false
						switch el := x.Else.(type) {
						case *ast.BlockStmt:
							b = covers(el.List)
						case *ast.IfStmt:
							b = covers([]ast.Stmt{el})
						}
						if a && b {
							return true
						}
						if !a && blockLeaves(x.Body) {
							return false
						}
					} else if !a && blockLeaves(x.Body) {
						return false
					}
				}
			}
			return false
		}
		par := parents(fi.Decl)
		ast.Inspect(fi.Decl.Body, func(nd ast.Node) bool {
			is, ok := nd.(*ast.IfStmt)
			if !ok {
				return true
			}
			be, ok := unparen(is.Cond).(*ast.BinaryExpr)
			if !ok || (be.Op != token.EQL && be.Op != token.NEQ) || usedVar(info, be.X) != errV {
				return true
			}
			if v := usedVar(info, be.Y); v == nil || v.Pkg() == nil || v.Pkg().Path() != "io" || v.Name() != "EOF" {
				return true
			}
			branch := is.Body.List
			if be.Op == token.NEQ {
				// `if err != io.EOF { return }`: the EOF branch is what follows in the block
				blk, isBlk := par[is].(*ast.BlockStmt)
				if !isBlk || !blockLeaves(is.Body) || is.Else != nil {
					return true
				}
				branch = nil
				for i, s := range blk.List {
					if s == ast.Stmt(is) {
						branch = blk.List[i+1:]
					}
				}
			}
			n++
			r.Check(covers(branch), rule, fmt.Sprintf("%s:eof-branch#%d", fname, n), w.Pos(is.Pos()), "the source's io.EOF is replaced on every way through its branch",
				"a way through `if "+errV.Name()+" == io.EOF { … }` leaves "+errV.Name()+" untouched: ReadFrom returns io.EOF although the copy succeeded, the body writer reports a failed response and the connection is closed after a complete message was sent")
			return true
		})
	}
	r.Floor(rule, n, 1, "io.EOF tests in ReadFrom of network/standard")
}

// C04.emptychunk — only the end of the body is a zero-length chunk.
func c04EmptyChunk(e *Env) {
	const rule = "C04.emptychunk"
	w, r := e.W, e.R
	r.Explainf("C04.emptychunk: in chunked framing a chunk of size 0 IS the end-of-body marker. ext.WriteChunk writes whatever it is given, so every call in non-test code either writes the terminating chunk on purpose (argument nil or `buf[:0]`) or passes data that an earlier statement on the way has shown to be non-empty (`if len(p) == 0 { return … }`, or `if n == 0 { … }` for `buf[:n]`, the branch leaving). An unguarded call with a caller-supplied slice lets an empty Write (io.Copy with a zero-length read, Fprint of \"\") put `0\\r\\n` in the middle of the body: the client takes the body as finished and the rest as garbage in place of the trailer.")
	wc := w.Func("pkg/protocol/http1/ext", "", "WriteChunk")
	if wc == nil {
		r.Anchor(rule, "ext.WriteChunk")
		return
	}
	n := 0
	for _, fi := range declaredNonTest(w) {
		if fi.Decl.Body == nil || !w.InModule(fi.Obj.Pkg()) || fi == wc {
			continue
		}
		info := fi.Pkg.TypesInfo
		par := parents(fi.Decl)
		fname := w.FuncName(fi.Obj)
		k := 0
		ast.Inspect(fi.Decl.Body, func(nd ast.Node) bool {
			c, ok := nd.(*ast.CallExpr)
			if !ok || calleeOf(info, c) != wc.Obj || len(c.Args) < 2 {
				return true
			}
			k++
			n++
			key := fmt.Sprintf("%s:WriteChunk#%d", fname, k)
			arg := unparen(c.Args[1])
			if tv, ok := info.Types[arg]; ok && tv.IsNil() {
				r.OKd(rule, key, w.Pos(c.Pos()), "a data chunk is known to be non-empty", "the terminating chunk (nil)")
				return true
			}
			var lenVar *types.Var
			if se, ok := arg.(*ast.SliceExpr); ok && se.High != nil {
				if z, isC := constInt(info, se.High); isC && z == 0 {
					r.OKd(rule, key, w.Pos(c.Pos()), "a data chunk is known to be non-empty", "the terminating chunk (buf[:0])")
					return true
				}
				lenVar = usedVar(info, se.High)
			}
			dataVar := usedVar(info, arg)
			var stmt ast.Node = c
			for par[stmt] != nil {
				if _, isStmt := stmt.(ast.Stmt); isStmt {
					break
				}
				stmt = par[stmt]
			}
			good := false
			for _, s := range precedingStmts(par, stmt) {
				is, ok := s.(*ast.IfStmt)
				if !ok || !blockLeaves(is.Body) {
					continue
				}
				for _, p := range splitOp(is.Cond, token.LOR) {
					be, ok := p.(*ast.BinaryExpr)
					if !ok || (be.Op != token.EQL && be.Op != token.LEQ) {
						continue
					}
					if z, isC := constInt(info, be.Y); !isC || z != 0 {
						continue
					}
					x := unparen(be.X)
					if lc, ok := x.(*ast.CallExpr); ok && isBuiltin(info, lc, "len") && len(lc.Args) == 1 && dataVar != nil && usedVar(info, lc.Args[0]) == dataVar {
						good = true
					}
					if lenVar != nil && usedVar(info, x) == lenVar {
						good = true
					}
				}
			}
			// or an enclosing guard: `if n != 0 { … }` / `if len(p) > 0 { … }` / the else of `n == 0`
			isLenOf := func(x ast.Expr) bool {
				x = unparen(x)
				if lc, ok := x.(*ast.CallExpr); ok && isBuiltin(info, lc, "len") && len(lc.Args) == 1 && dataVar != nil && usedVar(info, lc.Args[0]) == dataVar {
					return true
				}
				return lenVar != nil && usedVar(info, x) == lenVar
			}
			for _, g := range guardConds(par, c) {
				if g.cond == nil {
					continue
				}
				parts := splitOp(g.cond, token.LAND)
				if g.neg {
					parts = splitOp(g.cond, token.LOR)
				}
				for _, p := range parts {
					be, ok := p.(*ast.BinaryExpr)
					if !ok || !isLenOf(be.X) {
						continue
					}
					z, isC := constInt(info, be.Y)
					if !isC {
						continue
					}
					if !g.neg && ((be.Op == token.NEQ || be.Op == token.GTR) && z == 0 || be.Op == token.GEQ && z == 1) {
						good = true
					}
					if g.neg && ((be.Op == token.EQL || be.Op == token.LEQ) && z == 0 || be.Op == token.LSS && z == 1) {
						good = true
					}
				}
			}
			r.Check(good, rule, key, w.Pos(c.Pos()), "a data chunk is known to be non-empty",
				"`"+types.ExprString(c)+"` can be reached with an empty slice: WriteChunk then emits `0\\r\\n`, the end-of-body marker, in the middle of the body")
			return true
		})
	}
	r.Floor(rule, n, 3, "calls of ext.WriteChunk")
}

// C05.retaintrailer — the trailer block is copied before user code can run again.
func c05RetainTrailer(e *Env) {
	const rule = "C05.retaintrailer"
	w, r := e.W, e.R
	r.Explainf("C05.retaintrailer: Trailer.Header() returns the trailer's reusable scratch buffer, which the next Set/Add/Header call refills with RAW values before they are sanitised into it again; network.Writer.WriteBinary keeps a reference to blocks of 4 KiB and more until Flush; and the stream writers close the body stream (user code) between writing the trailer and flushing. In packages protocol/http1/{ext,req,resp} the result of Trailer.Header() — directly or through a local — is therefore never an argument of WriteBinary: the block is copied into memory obtained from the writer (Malloc + copy), as the response header block is (C05.retain). Queued by reference, a trailer set in the stream's Close puts its raw CR/LF on the wire.")
	tr := w.Named("pkg/protocol", "Trailer")
	if tr == nil {
		r.Anchor(rule, "protocol.Trailer")
		return
	}
	n := 0
	for _, fi := range declaredNonTest(w) {
		rel := w.RelPkg(fi.Obj.Pkg())
		if fi.Decl.Body == nil || (rel != "pkg/protocol/http1/ext" && rel != "pkg/protocol/http1/req" && rel != "pkg/protocol/http1/resp") {
			continue
		}
		info := fi.Pkg.TypesInfo
		fname := w.FuncName(fi.Obj)
		isScratch := func(x ast.Expr) bool {
			c, ok := unparen(x).(*ast.CallExpr)
			if !ok {
				return false
			}
			f := calleeOf(info, c)
			return f != nil && f.Name() == "Header" && recvNamed(f) == tr
		}
		scratchVars := map[*types.Var]bool{}
		uses := 0
		ast.Inspect(fi.Decl.Body, func(nd ast.Node) bool {
			switch x := nd.(type) {
			case *ast.AssignStmt:
				for i, rh := range x.Rhs {
					if isScratch(rh) && i < len(x.Lhs) {
						uses++
						if id, ok := x.Lhs[i].(*ast.Ident); ok {
							if v, _ := info.Defs[id].(*types.Var); v != nil {
								scratchVars[v] = true
							} else if v := usedVar(info, id); v != nil {
								scratchVars[v] = true
							}
						}
					}
				}
			case *ast.CallExpr:
				for _, a := range x.Args {
					if isScratch(a) {
						uses++
					}
				}
			}
			return true
		})
		if uses == 0 {
			continue
		}
		n++
		bad := token.NoPos
		ast.Inspect(fi.Decl.Body, func(nd ast.Node) bool {
			c, ok := nd.(*ast.CallExpr)
			if !ok || len(c.Args) != 1 {
				return true
			}
			f := calleeOf(info, c)
			if f == nil || f.Name() != "WriteBinary" {
				return true
			}
			if isScratch(c.Args[0]) {
				bad = c.Pos()
			}
			if v := usedVar(info, c.Args[0]); v != nil && scratchVars[v] {
				bad = c.Pos()
			}
			return true
		})
		if bad.IsValid() {
			r.Fail(rule, fname+":trailer-block", w.Pos(bad), "the serialised trailer block is copied, not queued by reference", "WriteBinary receives Trailer.Header(), the trailer's scratch buffer: for 4 KiB and more the writer keeps the reference until Flush, and a trailer set meanwhile (in the body stream's Close) refills the buffer with its raw value — CR/LF included")
		} else {
			r.OK(rule, fname+":trailer-block", w.Pos(fi.Decl.Pos()), "the serialised trailer block is copied, not queued by reference")
		}
	}
	r.Floor(rule, n, 1, "functions serialising a trailer block for the wire")
}
