package rules

import (
	"fmt"
	"go/ast"
	"go/constant"
	"go/token"
	"go/types"
	"strings"

	"hzcheck/core"
	"hzcheck/esp"
)

func init() {
	register("C12", c12Const, c12Index, c12Loop, c12Assembly, c12AbortFirst,
		// the chain starts at handler 0 only if the context starts at its rest index
		c09Ctor, c12Fresh, c12GroupFresh, c12RouteFresh)
}

const pkgRoute = Mod + "/pkg/route"

func abortIndexConst(w *core.World) (*types.Const, int64) {
	c, _ := w.Object("pkg/route/consts", "AbortIndex").(*types.Const)
	if c == nil {
		return nil, 0
	}
	v, _ := constant.Int64Val(constant.ToInt(c.Val()))
	return c, v
}

func usesConst(info *types.Info, e ast.Node, c *types.Const) bool {
	found := false
	ast.Inspect(e, func(n ast.Node) bool {
		if id, ok := n.(*ast.Ident); ok && info.Uses[id] == c {
			found = true
		}
		return !found
	})
	return found
}

// C12.const — the abort sentinel is consistent and cannot be wrapped around by unwinding.
func c12Const(e *Env) {
	const rule = "C12.const"
	w, r := e.W, e.R
	r.Explainf("C12.const: Abort stores the constant AbortIndex into the int8 chain index; IsAborted compares `>=` with the same constant; the chain builder panics when the merged chain has `>= AbortIndex` handlers (same constant object), so at most AbortIndex−1 nested Next frames exist, each adding one `index++` while unwinding: 2·AbortIndex − 1 must not exceed MaxInt8, otherwise the index wraps negative and handlers are re-entered after Abort.")
	ac, av := abortIndexConst(w)
	idx := w.Field("pkg/app", "RequestContext", "index")
	if ac == nil || idx == nil {
		r.Anchor(rule, "route/consts.AbortIndex / app.RequestContext.index")
		return
	}
	b, _ := idx.Type().Underlying().(*types.Basic)
	r.Check(b != nil && b.Kind() == types.Int8, rule, "index-type", w.Pos(idx.Pos()), "chain index is an int8", "index field type changed; wrap-around bound must be re-derived")
	r.Check(av > 0 && 2*av-1 <= 127, rule, "no-wrap", w.Pos(ac.Pos()), fmt.Sprintf("2·AbortIndex−1 = %d ≤ MaxInt8", 2*av-1), fmt.Sprintf("AbortIndex = %d: after Abort inside the deepest of AbortIndex−1 nested Next calls the unwinding increments reach %d > 127 and wrap the int8 index negative, so `index < len(handlers)` becomes true again and handlers run after Abort", av, 2*av-1))
	// Abort
	if fi := w.Func("pkg/app", "RequestContext", "Abort"); fi != nil {
		info := fi.Pkg.TypesInfo
		ok := false
		ast.Inspect(fi.Decl.Body, func(n ast.Node) bool {
			if as, ok2 := n.(*ast.AssignStmt); ok2 && len(as.Lhs) == 1 && usedVar(info, as.Lhs[0]) == idx && usesConst(info, as.Rhs[0], ac) {
				if _, isBin := unparen(as.Rhs[0]).(*ast.BinaryExpr); !isBin {
					ok = true
				}
			}
			return true
		})
		r.Check(ok, rule, "Abort:stores-sentinel", w.Pos(fi.Decl.Pos()), "Abort stores AbortIndex into the index", "Abort does not assign exactly the AbortIndex constant to ctx.index")
	} else {
		r.Anchor(rule, "RequestContext.Abort")
	}
	if fi := w.Func("pkg/app", "RequestContext", "IsAborted"); fi != nil {
		info := fi.Pkg.TypesInfo
		ok := false
		ast.Inspect(fi.Decl.Body, func(n ast.Node) bool {
			if be, ok2 := n.(*ast.BinaryExpr); ok2 && be.Op == token.GEQ && usedVar(info, be.X) == idx && usesConst(info, be.Y, ac) {
				ok = true
			}
			return true
		})
		r.Check(ok, rule, "IsAborted:compares-sentinel", w.Pos(fi.Decl.Pos()), "IsAborted is `index >= AbortIndex`", "IsAborted does not compare the index with `>= AbortIndex`")
	} else {
		r.Anchor(rule, "RequestContext.IsAborted")
	}
	// chain builders: functions returning a HandlersChain built with make
	hc := w.Named("pkg/app", "HandlersChain")
	nBuilders := 0
	for _, fi := range declaredNonTest(w) {
		if fi.Pkg.PkgPath != pkgRoute {
			continue
		}
		sig := fi.Obj.Type().(*types.Signature)
		if sig.Results().Len() != 1 || hc == nil || !types.Identical(sig.Results().At(0).Type(), hc) {
			continue
		}
		info := fi.Pkg.TypesInfo
		makes := false
		ast.Inspect(fi.Decl.Body, func(n ast.Node) bool {
			if c, ok := n.(*ast.CallExpr); ok && isBuiltin(info, c, "make") {
				makes = true
			}
			return true
		})
		if !makes {
			continue
		}
		nBuilders++
		fname := w.FuncName(fi.Obj)
		// panic guard: first if with cond `size >= int(AbortIndex)` whose body panics, before the make
		guard := false
		var sizeVar *types.Var
		for _, st := range fi.Decl.Body.List {
			if is, ok := st.(*ast.IfStmt); ok {
				cnd := unparen(is.Cond)
				be0, _ := cnd.(*ast.BinaryExpr)
				// `size >= int(AbortIndex)`; with swapped operands `int(AbortIndex) <= size`; negated
				// `!(size < int(AbortIndex))`
				if u, isU := cnd.(*ast.UnaryExpr); isU && u.Op == token.NOT {
					if inner, isB := unparen(u.X).(*ast.BinaryExpr); isB {
						switch inner.Op {
						case token.LSS:
							be0 = &ast.BinaryExpr{X: inner.X, Op: token.GEQ, Y: inner.Y, OpPos: inner.OpPos}
						case token.GTR:
							be0 = &ast.BinaryExpr{X: inner.Y, Op: token.GEQ, Y: inner.X, OpPos: inner.OpPos}
						}
					}
				}
				if be0 != nil && be0.Op == token.LEQ {
					be0 = &ast.BinaryExpr{X: be0.Y, Op: token.GEQ, Y: be0.X, OpPos: be0.OpPos}
				}
				// the bound may be a local defined once as int(AbortIndex)
				if be0 != nil {
					if bv := usedVar(info, be0.Y); bv != nil && !bv.IsField() {
						var defs []ast.Expr
						ast.Inspect(fi.Decl.Body, func(m ast.Node) bool {
							if as, ok := m.(*ast.AssignStmt); ok && len(as.Lhs) == len(as.Rhs) {
								for i, l := range as.Lhs {
									if usedVar(info, l) == bv {
										defs = append(defs, as.Rhs[i])
									}
								}
							}
							return true
						})
						if len(defs) == 1 {
							be0 = &ast.BinaryExpr{X: be0.X, Op: be0.Op, Y: defs[0], OpPos: be0.OpPos}
						}
					}
				}
				if be, ok := be0, be0 != nil; ok && be.Op == token.GEQ && usesConst(info, be.Y, ac) && isConstInt(info, be.Y, int(av)) && terminates(is.Body) {
					if es, ok := is.Body.List[len(is.Body.List)-1].(*ast.ExprStmt); ok {
						if c, ok := es.X.(*ast.CallExpr); ok && isBuiltin(info, c, "panic") {
							guard = true
							sizeVar = usedVar(info, be.X)
						}
					}
				}
			}
		}
		r.Check(guard, rule, fname+":size-bound", w.Pos(fi.Decl.Pos()), "chain builder panics when the merged size reaches AbortIndex", "no `if size >= int(AbortIndex) { panic }` guard in "+fname)
		// the bounded size is the size of the chain that is made
		madeWith := false
		ast.Inspect(fi.Decl.Body, func(n ast.Node) bool {
			if c, ok := n.(*ast.CallExpr); ok && isBuiltin(info, c, "make") && len(c.Args) >= 2 && sizeVar != nil && usedVar(info, c.Args[1]) == sizeVar {
				madeWith = true
			}
			return true
		})
		r.Check(madeWith, rule, fname+":bounded-size-is-made", w.Pos(fi.Decl.Pos()), "the size that was bounded is the size of the chain", "the chain is not made with the variable tested against AbortIndex")
		// every return hands out the freshly made chain (never an alias of a group's own slice:
		// a later Use on either group would append into the shared backing array)
		var made *types.Var
		ast.Inspect(fi.Decl.Body, func(n ast.Node) bool {
			if as, ok := n.(*ast.AssignStmt); ok && len(as.Lhs) == 1 && len(as.Rhs) == 1 {
				if c, ok := unparen(as.Rhs[0]).(*ast.CallExpr); ok && isBuiltin(info, c, "make") {
					made = usedVar(info, as.Lhs[0])
				}
			}
			return true
		})
		nr := 0
		ast.Inspect(fi.Decl.Body, func(n ast.Node) bool {
			if _, isLit := n.(*ast.FuncLit); isLit {
				return false
			}
			if rs, ok := n.(*ast.ReturnStmt); ok && len(rs.Results) == 1 {
				nr++
				r.Check(made != nil && usedVar(info, rs.Results[0]) == made, rule, fmt.Sprintf("%s:return#%d:fresh", fname, nr), w.Pos(rs.Pos()), "the chain builder returns the freshly allocated chain", "`"+nodeString(rs)+"` hands out an existing slice: the new group/route shares its backing array with another chain, and a later Use() on one of them overwrites the other's middleware")
			}
			return true
		})
	}
	r.Floor(rule, nBuilders, 1, "chain builders in package route")
}

// C12.index — who may write the chain index.
func c12Index(e *Env) {
	const rule = "C12.index"
	w, r := e.W, e.R
	r.Explainf("C12.index: every store to RequestContext.index in the module is `++`, `= AbortIndex`, `= -1` (reset / constructor) or the exported SetIndex parameter; any other arithmetic on the index could re-enter or skip handlers.")
	idx := w.Field("pkg/app", "RequestContext", "index")
	ac, _ := abortIndexConst(w)
	if idx == nil || ac == nil {
		r.Anchor(rule, "RequestContext.index / AbortIndex")
		return
	}
	n := 0
	for _, fi := range declaredNonTest(w) {
		info := fi.Pkg.TypesInfo
		fname := w.FuncName(fi.Obj)
		k := 0
		ast.Inspect(fi.Decl.Body, func(nd ast.Node) bool {
			switch x := nd.(type) {
			case *ast.IncDecStmt:
				if usedVar(info, x.X) == idx {
					n++
					k++
					r.Check(x.Tok == token.INC, rule, fmt.Sprintf("%s:write#%d", fname, k), w.Pos(x.Pos()), "index is only incremented", "index is decremented: a handler already entered would be entered again")
				}
			case *ast.AssignStmt:
				for i, l := range x.Lhs {
					if usedVar(info, l) != idx {
						continue
					}
					n++
					k++
					key := fmt.Sprintf("%s:write#%d", fname, k)
					ok := false
					why := "assignment `" + types.ExprString(x.Lhs[i]) + " " + x.Tok.String() + " …` is not one of the allowed forms"
					if x.Tok == token.ASSIGN && len(x.Rhs) == len(x.Lhs) {
						rhs := unparen(x.Rhs[i])
						if id, isId := rhs.(*ast.Ident); isId && info.Uses[id] == ac {
							ok = true
						} else if se, isSel := rhs.(*ast.SelectorExpr); isSel && info.Uses[se.Sel] == ac {
							ok = true
						} else if v, isC := constInt(info, rhs); isC && v == -1 {
							ok = true
						} else if pv := usedVar(info, rhs); pv != nil && fi.Obj.Name() == "SetIndex" {
							ok = true
						}
					}
					r.Check(ok, rule, key, w.Pos(x.Pos()), "index is assigned only AbortIndex, -1 or through SetIndex", why)
				}
			case *ast.KeyValueExpr:
				if id, ok := x.Key.(*ast.Ident); ok && info.Uses[id] == types.Object(idx) {
					n++
					k++
					v, isC := constInt(info, x.Value)
					// the same two values an assignment may store: -1 (fresh) or the AbortIndex
					// constant (the detached copy made by Copy never runs handlers)
					isAbort := false
					switch y := unparen(x.Value).(type) {
					case *ast.Ident:
						isAbort = info.Uses[y] == ac
					case *ast.SelectorExpr:
						isAbort = info.Uses[y.Sel] == ac
					}
					r.Check((isC && v == -1) || isAbort, rule, fmt.Sprintf("%s:literal#%d", fname, k), w.Pos(x.Pos()), "a struct literal starts the index at -1 or AbortIndex", "struct literal sets index to something other than -1 / AbortIndex")
				}
			}
			return true
		})
	}
	r.Floor(rule, n, 5, "stores to RequestContext.index")
}

// C12.loop — the chain interpreter.
func c12Loop(e *Env) {
	const rule = "C12.loop"
	w, r := e.W, e.R
	r.Explainf("C12.loop: every dynamic call through an element of RequestContext.handlers is `handlers[index](…)` inside a for loop whose condition is `index < len(handlers)` on the same fields, preceded by an `index++` before the loop and followed by `index++` as the next statement of the body — so each handler is entered at most once, in order, and Abort (index = AbortIndex ≥ len) stops the loop in every enclosing frame.")
	idx := w.Field("pkg/app", "RequestContext", "index")
	hs := w.Field("pkg/app", "RequestContext", "handlers")
	if idx == nil || hs == nil {
		r.Anchor(rule, "RequestContext.index / handlers")
		return
	}
	n := 0
	for _, fi := range declaredNonTest(w) {
		info := fi.Pkg.TypesInfo
		fname := w.FuncName(fi.Obj)
		par := parents(fi.Decl)
		ast.Inspect(fi.Decl.Body, func(nd ast.Node) bool {
			call, ok := nd.(*ast.CallExpr)
			if !ok {
				return true
			}
			ie, ok := unparen(call.Fun).(*ast.IndexExpr)
			if !ok || usedVar(info, ie.X) != hs {
				return true
			}
			n++
			key := fmt.Sprintf("%s:dyncall#%d", fname, n)
			pos := w.Pos(call.Pos())
			r.Check(usedVar(info, ie.Index) == idx, rule, key+":indexed-by-index", pos, "the handler called is handlers[index]", "handler selected by `"+types.ExprString(ie.Index)+"` instead of the chain index")
			loop, _ := enclosing(par, call, func(n ast.Node) bool { _, ok := n.(*ast.ForStmt); return ok }).(*ast.ForStmt)
			if loop == nil {
				r.Fail(rule, key+":in-loop", pos, "handler call sits in the index loop", "dynamic handler call outside a for loop")
				return true
			}
			condOK := false
			if be, ok := unparen(loop.Cond).(*ast.BinaryExpr); ok && be.Op == token.LSS && usedVar(info, be.X) == idx {
				ast.Inspect(be.Y, func(m ast.Node) bool {
					if c, ok := m.(*ast.CallExpr); ok && isBuiltin(info, c, "len") && usedVar(info, c.Args[0]) == hs {
						condOK = true
					}
					return true
				})
			}
			r.Check(condOK, rule, key+":loop-cond", pos, "loop condition is index < len(handlers)", "loop condition is `"+types.ExprString(loop.Cond)+"`")
			// next statement after the call is index++
			incAfter := false
			if es, ok := par[call].(*ast.ExprStmt); ok {
				if blk, ok := par[es].(*ast.BlockStmt); ok {
					for i, s := range blk.List {
						if s == ast.Stmt(es) && i+1 < len(blk.List) {
							if inc, ok := blk.List[i+1].(*ast.IncDecStmt); ok && inc.Tok == token.INC && usedVar(info, inc.X) == idx {
								incAfter = true
							}
						}
					}
				}
			}
			if loop.Post != nil {
				if inc, ok := loop.Post.(*ast.IncDecStmt); ok && inc.Tok == token.INC && usedVar(info, inc.X) == idx {
					incAfter = true
				}
			}
			r.Check(incAfter, rule, key+":inc-after", pos, "index++ follows every handler call", "no `index++` right after the handler call: the same handler would be entered again")
			// statement before the loop is index++ (or it is the loop's init statement)
			incBefore := false
			if inc, ok := loop.Init.(*ast.IncDecStmt); ok && inc.Tok == token.INC && usedVar(info, inc.X) == idx {
				incBefore = true
			}
			if blk, ok := par[loop].(*ast.BlockStmt); ok {
				for i, s := range blk.List {
					if s == ast.Stmt(loop) && i > 0 {
						if inc, ok := blk.List[i-1].(*ast.IncDecStmt); ok && inc.Tok == token.INC && usedVar(info, inc.X) == idx {
							incBefore = true
						}
					}
				}
			}
			r.Check(incBefore, rule, key+":inc-before", pos, "index++ precedes the loop (Next skips the calling handler)", "no `index++` immediately before the loop: a nested Next would re-enter its caller")
			return true
		})
	}
	r.Floor(rule, n, 1, "dynamic calls through RequestContext.handlers")
}

// C12.assembly — engine/group middleware precedes route handlers; error paths use engine chains.
func c12Assembly(e *Env) {
	const rule = "C12.assembly"
	w, r := e.W, e.R
	r.Explainf("C12.assembly: the chain builder copies the group's handlers first and the route's handlers after them; Group and handle build their chains with it; Engine.Use appends to the root group and rebuilds the not-found and method-not-allowed chains, NoRoute/NoMethod rebuild theirs, and the rebuilds go through the builder; in Engine.ServeHTTP every serveError is directly preceded by SetHandlers of engine.Handlers, allNoRoute or allNoMethod (fields only assigned from the builder).")
	comb := w.Func("pkg/route", "RouterGroup", "combineHandlers")
	if comb == nil {
		r.Anchor(rule, "RouterGroup.combineHandlers")
		return
	}
	info := comb.Pkg.TypesInfo
	gh := w.Field("pkg/route", "RouterGroup", "Handlers")
	param := comb.Obj.Type().(*types.Signature).Params().At(0)
	// order of the two copies
	var copies []*ast.CallExpr
	ast.Inspect(comb.Decl.Body, func(n ast.Node) bool {
		if c, ok := n.(*ast.CallExpr); ok && isBuiltin(info, c, "copy") {
			copies = append(copies, c)
		}
		return true
	})
	okOrder := false
	if len(copies) == 2 && gh != nil {
		first, second := copies[0], copies[1]
		_, firstSliced := unparen(first.Args[0]).(*ast.SliceExpr)
		se, secondSliced := unparen(second.Args[0]).(*ast.SliceExpr)
		if !firstSliced && usedVar(info, first.Args[1]) == gh && secondSliced && usedVar(info, second.Args[1]) == param {
			// merged[len(group.Handlers):] — directly or through a local holding that length
			isGroupLen := func(x ast.Expr) bool {
				c, ok := unparen(x).(*ast.CallExpr)
				return ok && isBuiltin(info, c, "len") && usedVar(info, c.Args[0]) == gh
			}
			if isGroupLen(se.Low) {
				okOrder = true
			} else if lv := usedVar(info, se.Low); lv != nil && !lv.IsField() {
				nAssign, good := 0, 0
				ast.Inspect(comb.Decl.Body, func(n ast.Node) bool {
					switch x := n.(type) {
					case *ast.AssignStmt:
						for i, l := range x.Lhs {
							if usedVar(info, l) == lv {
								nAssign++
								if len(x.Rhs) == len(x.Lhs) && isGroupLen(x.Rhs[i]) {
									good++
								}
							}
						}
					case *ast.IncDecStmt:
						if usedVar(info, x.X) == lv {
							nAssign++
						}
					}
					return true
				})
				okOrder = nAssign == 1 && good == 1
			}
		}
	}
	r.Check(okOrder, rule, w.FuncName(comb.Obj)+":group-first", w.Pos(comb.Decl.Pos()), "merged chain = group handlers followed by the route's handlers", "the builder does not copy group.Handlers to the front and the given handlers after them")
	callsIn := func(rel, recv, name string, want ...*types.Func) {
		fi := w.Func(rel, recv, name)
		if fi == nil {
			r.Anchor(rule, rel+"."+recv+"."+name)
			return
		}
		finfo := fi.Pkg.TypesInfo
		seen := map[*types.Func]token.Pos{}
		ast.Inspect(fi.Decl.Body, func(n ast.Node) bool {
			if c, ok := n.(*ast.CallExpr); ok {
				if f := calleeOf(finfo, c); f != nil {
					if _, dup := seen[f.Origin()]; !dup {
						seen[f.Origin()] = c.Pos()
					}
				}
			}
			return true
		})
		fname := w.FuncName(fi.Obj)
		last := token.NoPos
		for _, f := range want {
			p, ok := seen[f]
			r.Check(ok && p > last, rule, fname+":calls:"+f.Name(), w.Pos(fi.Decl.Pos()), fname+" calls "+f.Name()+" (in order)", "call to "+f.Name()+" missing or out of order in "+fname)
			if ok {
				last = p
			}
		}
	}
	fn := func(rel, recv, name string) *types.Func {
		if fi := w.Func(rel, recv, name); fi != nil {
			return fi.Obj
		}
		r.Anchor(rule, rel+"."+recv+"."+name)
		return nil
	}
	// the error chains are rebuilt wherever they can change: Engine.Use (after appending to the
	// root group), NoRoute and NoMethod must (re)assign allNoRoute / allNoMethod — in their own
	// body or through a helper of the package (two levels); that the value assigned is built by
	// the chain builder is checked for every assignment below
	guse := fn("pkg/route", "RouterGroup", "Use")
	if guse == nil {
		return
	}
	// assignPos: position (in fi's body) of the first statement that assigns fld, directly or
	// through a callee
	var assignPos func(fi *core.FuncInfo, fld *types.Var, depth int) token.Pos
	assignPos = func(fi *core.FuncInfo, fld *types.Var, depth int) token.Pos {
		pos := token.NoPos
		finfo := fi.Pkg.TypesInfo
		ast.Inspect(fi.Decl.Body, func(n ast.Node) bool {
			if pos.IsValid() {
				return false
			}
			switch x := n.(type) {
			case *ast.AssignStmt:
				for _, l := range x.Lhs {
					if usedVar(finfo, l) == fld {
						pos = x.Pos()
					}
				}
			case *ast.CallExpr:
				if depth < 2 {
					if d := w.DeclOf(calleeOf(finfo, x)); d != nil && d.Pkg == fi.Pkg && d != fi && d.Decl.Body != nil && assignPos(d, fld, depth+1).IsValid() {
						pos = x.Pos()
					}
				}
			}
			return true
		})
		return pos
	}
	for _, spec := range []struct {
		meth, fld string
		afterUse  bool
	}{
		{"Use", "allNoRoute", true}, {"Use", "allNoMethod", true}, {"NoRoute", "allNoRoute", false}, {"NoMethod", "allNoMethod", false},
	} {
		fi := w.Func("pkg/route", "Engine", spec.meth)
		fld := w.Field("pkg/route", "Engine", spec.fld)
		if fi == nil || fld == nil {
			r.Anchor(rule, "route.Engine."+spec.meth+" / Engine."+spec.fld)
			continue
		}
		pos := assignPos(fi, fld, 0)
		okR := pos.IsValid()
		if okR && spec.afterUse {
			usePos := token.NoPos
			for _, c := range funcsCallingIn(fi, func(f *types.Func) bool { return f == guse }) {
				usePos = c.Pos()
			}
			okR = usePos.IsValid() && usePos < pos
		}
		r.Check(okR, rule, w.FuncName(fi.Obj)+":rebuilds:"+spec.fld, w.Pos(fi.Decl.Pos()), "Engine."+spec.meth+" rebuilds Engine."+spec.fld, "Engine."+spec.meth+" does not (re)assign Engine."+spec.fld+" (after appending the middleware): the error path keeps a chain without the engine's middleware")
	}
	callsIn("pkg/route", "RouterGroup", "Group", comb.Obj)
	callsIn("pkg/route", "RouterGroup", "handle", comb.Obj)
	// handle: the combined chain is what is registered
	if fi := w.Func("pkg/route", "RouterGroup", "handle"); fi != nil {
		finfo := fi.Pkg.TypesInfo
		var combined *types.Var
		okReg := false
		ast.Inspect(fi.Decl.Body, func(n ast.Node) bool {
			switch x := n.(type) {
			case *ast.AssignStmt:
				if len(x.Rhs) == 1 {
					if c, ok := unparen(x.Rhs[0]).(*ast.CallExpr); ok && calleeOf(finfo, c) == comb.Obj {
						combined = usedVar(finfo, x.Lhs[0])
					}
				}
			case *ast.CallExpr:
				if f := calleeOf(finfo, x); f != nil && f.Name() == "addRoute" && combined != nil {
					for _, a := range x.Args {
						if usedVar(finfo, a) == combined {
							okReg = true
						}
					}
				}
			}
			return true
		})
		r.Check(okReg, rule, w.FuncName(fi.Obj)+":registers-combined", w.Pos(fi.Decl.Pos()), "the route is registered with the combined chain", "addRoute does not receive the chain returned by combineHandlers")
	}
	// who assigns allNoRoute / allNoMethod
	for _, fld := range []string{"allNoRoute", "allNoMethod"} {
		fv := w.Field("pkg/route", "Engine", fld)
		if fv == nil {
			r.Anchor(rule, "Engine."+fld)
			continue
		}
		for _, fi := range declaredNonTest(w) {
			finfo := fi.Pkg.TypesInfo
			ast.Inspect(fi.Decl.Body, func(n ast.Node) bool {
				if as, ok := n.(*ast.AssignStmt); ok {
					for i, l := range as.Lhs {
						if usedVar(finfo, l) == fv {
							ok := false
							if len(as.Rhs) == len(as.Lhs) {
								if c, isCall := unparen(as.Rhs[i]).(*ast.CallExpr); isCall && calleeOf(finfo, c) == comb.Obj {
									ok = true
								}
							}
							r.Check(ok, rule, w.FuncName(fi.Obj)+":assigns:"+fld, w.Pos(as.Pos()), "Engine."+fld+" is only assigned a chain built by combineHandlers", "Engine."+fld+" assigned from something else: engine middleware would not run on this error path")
						}
					}
				}
				return true
			})
		}
	}
	// ServeHTTP: serveError preceded by SetHandlers(engine chain)
	sh := w.Func("pkg/route", "Engine", "ServeHTTP")
	if sh == nil {
		r.Anchor(rule, "Engine.ServeHTTP")
		return
	}
	sinfo := sh.Pkg.TypesInfo
	par := parents(sh.Decl)
	allowed := map[*types.Var]bool{}
	for _, f := range []*types.Var{gh, w.Field("pkg/route", "Engine", "allNoRoute"), w.Field("pkg/route", "Engine", "allNoMethod")} {
		if f != nil {
			allowed[f] = true
		}
	}
	n := 0
	ast.Inspect(sh.Decl.Body, func(nd ast.Node) bool {
		call, ok := nd.(*ast.CallExpr)
		if !ok || !esp.Is(calleeOf(sinfo, call), pkgRoute, "", "serveError") {
			return true
		}
		n++
		key := fmt.Sprintf("%s:serveError#%d", w.FuncName(sh.Obj), n)
		ok = false
		if es, isES := par[call].(*ast.ExprStmt); isES {
			if blk, isBlk := par[es].(*ast.BlockStmt); isBlk {
				for i, s := range blk.List {
					if s == ast.Stmt(es) && i > 0 {
						if pes, isP := blk.List[i-1].(*ast.ExprStmt); isP {
							if pc, isC := pes.X.(*ast.CallExpr); isC && esp.Is(calleeOf(sinfo, pc), pkgApp, "RequestContext", "SetHandlers") && len(pc.Args) == 1 && allowed[usedVar(sinfo, pc.Args[0])] {
								ok = true
							}
						}
					}
				}
			}
		}
		r.Check(ok, rule, key, w.Pos(call.Pos()), "error path installs an engine-level chain right before serveError", "serveError is not directly preceded by ctx.SetHandlers(engine.Handlers | allNoRoute | allNoMethod): engine middleware does not run for this error response")
		return true
	})
	r.Floor(rule, n, 3, "serveError call sites in Engine.ServeHTTP")
	_ = strings.TrimSpace
}
