package rules

import (
	"fmt"
	"go/ast"
	"go/token"
	"go/types"
	"sort"

	"hzcheck/core"
)

func init() {
	// the streamed-body and in-place-normalisation rules are shared with C14 / C02: their
	// violations deliver bytes of one request as part of another, which is C01's last clause
	register("C01", c01Fold, c01Dispatch, c01Framers, func(e *Env) { serveLoop(e, "C01") }, c03Limit("C01.limit"),
		c02Retry, c14Chunk, c14Bound, c14Prefetch, c14Drain, c14EOF, c03HexWidth, c13Release, c13Len, c13Remainder, c13Window, c04Slots, c17Fill, c09Pools, c14SkipBound, c14Identity, c18Drain, c14KeepStream, c14Clamp, c13AbortFirst, c14SkipWait, c14LimitStrict)
}

const pkgBytestr = Mod + "/internal/bytestr"

func bytestrVar(w *core.World, name string) *types.Var {
	v, _ := w.Object("internal/bytestr", name).(*types.Var)
	return v
}

// framingComparators discovers the boolean functions that the module applies to the
// Content-Length / Transfer-Encoding name constants (the comparison that recognises framing
// headers), with their call sites.
type cmpSite struct {
	fi   *core.FuncInfo
	call *ast.CallExpr
}

func framingComparators(w *core.World) (map[*types.Func][]cmpSite, []*types.Var) {
	cl, te := bytestrVar(w, "StrContentLength"), bytestrVar(w, "StrTransferEncoding")
	if cl == nil || te == nil {
		return nil, nil
	}
	out := map[*types.Func][]cmpSite{}
	for _, fi := range declaredNonTest(w) {
		info := fi.Pkg.TypesInfo
		ast.Inspect(fi.Decl.Body, func(n ast.Node) bool {
			call, ok := n.(*ast.CallExpr)
			if !ok {
				return true
			}
			f := calleeOf(info, call)
			if f == nil {
				return true
			}
			sig := f.Type().(*types.Signature)
			if sig.Results().Len() != 1 || !types.Identical(sig.Results().At(0).Type(), types.Typ[types.Bool]) {
				return true
			}
			for _, a := range call.Args {
				if refersTo(info, a, cl) || refersTo(info, a, te) {
					out[f] = append(out[f], cmpSite{fi, call})
					break
				}
			}
			return true
		})
	}
	return out, []*types.Var{cl, te}
}

// C01.fold — every comparator applied to the framing header names must be exact ASCII
// case-insensitive equality.
func c01Fold(e *Env) {
	const rule = "C01.fold"
	w, r := e.W, e.R
	r.Explainf("C01.fold: every boolean function applied to bytestr.StrContentLength/StrTransferEncoding (the comparison that recognises framing headers) has a length-equality guard and compares bytes only through one table T for which T[a]==T[b] ⇔ a,b equal ignoring ASCII case, checked over all 256² pairs of T's constant; `x|0x20 == y|0x20` on two non-constant operands is reported as unsound ('\\r'|0x20 == '-').")
	cmps, anchors := framingComparators(w)
	if anchors == nil {
		r.Anchor(rule, "bytestr.StrContentLength / bytestr.StrTransferEncoding")
		return
	}
	var fs []*types.Func
	nsites := 0
	for f, s := range cmps {
		fs = append(fs, f)
		nsites += len(s)
	}
	sort.Slice(fs, func(i, j int) bool { return fs[i].FullName() < fs[j].FullName() })
	r.Floor(rule, nsites, 6, "comparisons of a header name with the Content-Length/Transfer-Encoding constants")
	for _, f := range fs {
		name := w.FuncName(f)
		r.Unit("%s: comparator %s (%d call sites on framing names)", rule, f.FullName(), len(cmps[f]))
		fi := w.DeclOf(f)
		if fi == nil || fi.Decl.Body == nil {
			r.Fail(rule, name+":body", "-", "framing-name comparator is analysable", "comparator "+f.FullName()+" is not declared in the module; its fold semantics are undecided (bytes.Equal is case-sensitive, EqualFold folds non-ASCII)")
			continue
		}
		checkFoldComparator(w, r, rule, fi)
	}
}

// checkFoldComparator checks the body of a [](byte) × []byte → bool comparator.
func checkFoldComparator(w *core.World, r *core.Report, rule string, fi *core.FuncInfo) {
	info := fi.Pkg.TypesInfo
	name := w.FuncName(fi.Obj)
	isByte := func(e ast.Expr) bool {
		t := info.TypeOf(e)
		if t == nil {
			return false
		}
		b, ok := t.Underlying().(*types.Basic)
		return ok && (b.Kind() == types.Uint8 || b.Kind() == types.Byte)
	}
	isConst := func(e ast.Expr) bool { tv, ok := info.Types[e]; return ok && tv.Value != nil }
	params := map[*types.Var]bool{}
	sig := fi.Obj.Type().(*types.Signature)
	for i := 0; i < sig.Params().Len(); i++ {
		params[sig.Params().At(i)] = true
	}
	lenGuard := false
	nCmp := 0
	ast.Inspect(fi.Decl.Body, func(n ast.Node) bool {
		be, ok := n.(*ast.BinaryExpr)
		if !ok || (be.Op != token.EQL && be.Op != token.NEQ) {
			return true
		}
		// len(a) != len(b)
		if lx, ok := unparen(be.X).(*ast.CallExpr); ok {
			if ly, ok := unparen(be.Y).(*ast.CallExpr); ok {
				if ix, ok := lx.Fun.(*ast.Ident); ok && ix.Name == "len" {
					if iy, ok := ly.Fun.(*ast.Ident); ok && iy.Name == "len" && len(lx.Args) == 1 && len(ly.Args) == 1 {
						if vx, vy := usedVar(info, lx.Args[0]), usedVar(info, ly.Args[0]); params[vx] && params[vy] && vx != vy {
							lenGuard = true
						}
					}
				}
			}
		}
		if !isByte(be.X) || !isByte(be.Y) {
			return true
		}
		nCmp++
		key := fmt.Sprintf("%s:bytecmp#%d", name, nCmp)
		pos := w.Pos(be.Pos())
		x, y := unparen(be.X), unparen(be.Y)
		// unsound fold: e|0x20 on both sides, neither constant
		if isOrFold(info, x) && isOrFold(info, y) && !isConst(x) && !isConst(y) {
			r.Fail(rule, key, pos, "byte comparison is exact ASCII case folding", "unsound fold `"+types.ExprString(be)+"`: OR-ing 0x20 into both operands also equates non-letters that differ in bit 5 (e.g. '\\r' and '-', '@' and '`', '[' and '{'), so \"Content\\rLength\" is accepted as Content-Length")
			return true
		}
		ix, okx := x.(*ast.IndexExpr)
		iy, oky := y.(*ast.IndexExpr)
		if okx && oky {
			tx, nx, ok1 := byteTable(w, info, ix.X)
			ty, ny, ok2 := byteTable(w, info, iy.X)
			if ok1 && ok2 && nx == ny && len(tx) == 256 && len(ty) == 256 {
				bad := ""
				for a := 0; a < 256 && bad == ""; a++ {
					for b := 0; b < 256; b++ {
						if (tx[a] == ty[b]) != (asciiLower(a) == asciiLower(b)) {
							bad = fmt.Sprintf("%s[%#x]=%#x, %s[%#x]=%#x", nx, a, tx[a], ny, b, ty[b])
							break
						}
					}
				}
				r.Finite += 256 * 256
				r.Check(bad == "", rule, key, pos, "byte comparison through table "+nx+" is exact ASCII case folding (256² pairs)", "table does not induce ASCII case-insensitive equality: "+bad)
				return true
			}
			// plain a[i] == b[j] on parameters: exact (case-sensitive) comparison
		}
		r.Fail(rule, key, pos, "byte comparison is exact ASCII case folding", "unrecognised comparison form `"+types.ExprString(be)+"`; accepted form is T[a[i]] op T[b[i]] with T a constant 256-entry fold table; undecided")
		return true
	})
	r.Check(lenGuard, rule, name+":lenguard", w.Pos(fi.Decl.Pos()), "comparator rejects operands of different length", "no `len(a) != len(b)` guard on the two parameters")
	r.Check(nCmp >= 1, rule, name+":has-bytecmp", w.Pos(fi.Decl.Pos()), "comparator contains a per-byte comparison", "no byte-level ==/!= found; fold semantics undecided")
}

func isOrFold(info *types.Info, e ast.Expr) bool {
	be, ok := unparen(e).(*ast.BinaryExpr)
	if !ok {
		return false
	}
	switch be.Op {
	case token.OR:
		n, ok := constInt(info, be.Y)
		if !ok {
			n, ok = constInt(info, be.X)
		}
		return ok && n == 0x20
	case token.AND, token.AND_NOT:
		n, ok := constInt(info, be.Y)
		return ok && (n == 0xDF || n == 0x20 || n == 0x5F)
	}
	return false
}

// C01.dispatch — first-byte dispatch agreement.
func c01Dispatch(e *Env) { dispatchAgreement(e, "C01.dispatch", nil) }

// dispatchAgreement: in every `switch k[0]|0x20 { case 'c': … cmp(k, K) … }` the lowered first
// byte of constant K equals the case label, otherwise the comparison is dead code and the
// header (framing header, cookie attribute, trailer name) is silently not recognised.
func dispatchAgreement(e *Env, rule string, onlyFn func(fi *core.FuncInfo) bool) {
	w, r := e.W, e.R
	r.Explainf("%s: in every switch on `k[0]|0x20`, each comparison of the switched key k with a constant name K located in a case clause satisfies lower(K[0]) ∈ case labels (K read from its constant initialiser, which nothing in the module mutates); a comparison filed under the wrong letter is dead code.", rule)
	total, nsw := 0, 0
	for _, fi := range declaredNonTest(w) {
		if onlyFn != nil && !onlyFn(fi) {
			continue
		}
		info := fi.Pkg.TypesInfo
		fname := w.FuncName(fi.Obj)
		swIdx := 0
		ast.Inspect(fi.Decl.Body, func(n ast.Node) bool {
			sw, ok := n.(*ast.SwitchStmt)
			if !ok || sw.Tag == nil {
				return true
			}
			be, ok := unparen(sw.Tag).(*ast.BinaryExpr)
			if !ok || be.Op != token.OR {
				return true
			}
			if c, ok := constInt(info, be.Y); !ok || c != 0x20 {
				return true
			}
			idx, ok := unparen(be.X).(*ast.IndexExpr)
			if !ok {
				return true
			}
			if z, ok := constInt(info, idx.Index); !ok || z != 0 {
				return true
			}
			keyExpr := types.ExprString(idx.X)
			swIdx++
			nsw++
			inSw := 0
			for _, st := range sw.Body.List {
				cc := st.(*ast.CaseClause)
				labels := map[int]bool{}
				for _, l := range cc.List {
					if v, ok := constInt(info, l); ok {
						labels[v] = true
					}
				}
				if len(cc.List) == 0 {
					continue // default clause
				}
				for _, s := range cc.Body {
					ast.Inspect(s, func(m ast.Node) bool {
						if inner, ok := m.(*ast.SwitchStmt); ok && inner != sw {
							return false
						}
						call, ok := m.(*ast.CallExpr)
						if !ok {
							return true
						}
						f := calleeOf(info, call)
						if f == nil || len(call.Args) != 2 {
							return true
						}
						sig := f.Type().(*types.Signature)
						if sig.Results().Len() != 1 || !types.Identical(sig.Results().At(0).Type(), types.Typ[types.Bool]) {
							return true
						}
						// one argument is the switched key (unsliced), the other a constant name
						var konst string
						haveKey, haveConst := false, false
						for _, a := range call.Args {
							if types.ExprString(unparen(a)) == keyExpr {
								haveKey = true
								continue
							}
							if s, ok := constBytesExpr(w, info, a); ok {
								if se, isSlice := unparen(a).(*ast.SliceExpr); isSlice && se.Low != nil {
									continue // suffix comparison after a prefix comparison
								}
								konst, haveConst = s, true
							}
						}
						if !haveKey || !haveConst || len(konst) == 0 {
							return true
						}
						total++
						inSw++
						key := fmt.Sprintf("%s:switch#%d:%q", fname, swIdx, konst)
						r.Check(labels[asciiLower(int(konst[0]))], rule, key, w.Pos(call.Pos()),
							fmt.Sprintf("comparison with %q sits under case %q", konst, string(rune(asciiLower(int(konst[0]))))),
							fmt.Sprintf("comparison of %s with %q is located under case label(s) %v: it can never succeed, the name is silently not recognised", keyExpr, konst, labelList(labels)))
						return true
					})
				}
			}
			r.Unit("%s: %s switch#%d on %s[0]|0x20 — %d constant-name comparisons", rule, fname, swIdx, keyExpr, inSw)
			return true
		})
	}
	if onlyFn == nil {
		r.Floor(rule, total, 40, "constant-name comparisons under first-byte dispatch switches")
		r.Floor(rule, nsw, 5, "first-byte dispatch switches")
	}
}

func labelList(m map[int]bool) []string {
	var out []string
	for k := range m {
		out = append(out, fmt.Sprintf("%q", rune(k)))
	}
	sort.Strings(out)
	return out
}

// C01.framers — inside the header scan loops, the framing length is written only under a
// successful comparison of the key with the Content-Length / Transfer-Encoding constants, and
// the Content-Length value is only taken while the message is not already chunked.
func c01Framers(e *Env) {
	const rule = "C01.framers"
	w, r := e.W, e.R
	r.Explainf("C01.framers: in every function that compares scanned header keys with the framing constants inside a loop, each call that writes the contentLength field within the loop body is nested in the then-branch of `if cmp(key, StrContentLength|StrTransferEncoding)`; writes of a parsed Content-Length are additionally nested in `if h.ContentLength() != -1` (Transfer-Encoding wins); the chunked write stores the constant -1.")
	cmps, anchors := framingComparators(w)
	if anchors == nil {
		r.Anchor(rule, "bytestr.StrContentLength / bytestr.StrTransferEncoding")
		return
	}
	cl, te := anchors[0], anchors[1]
	// functions writing the contentLength fields
	var clFields []*types.Var
	for _, t := range []string{"RequestHeader", "ResponseHeader"} {
		if f := w.Field("pkg/protocol", t, "contentLength"); f != nil {
			clFields = append(clFields, f)
		} else {
			r.Anchor(rule, "protocol."+t+".contentLength")
		}
	}
	writers := fieldWriters(w, clFields, 2)
	// parse functions: those with a framing comparison inside a for loop
	seen := map[*core.FuncInfo]bool{}
	var parseFns []*core.FuncInfo
	for _, sites := range cmps {
		for _, s := range sites {
			if seen[s.fi] {
				continue
			}
			par := parents(s.fi.Decl)
			if enclosing(par, s.call, func(n ast.Node) bool { _, ok := n.(*ast.ForStmt); return ok }) != nil {
				seen[s.fi] = true
				parseFns = append(parseFns, s.fi)
			}
		}
	}
	sort.Slice(parseFns, func(i, j int) bool { return parseFns[i].Decl.Pos() < parseFns[j].Decl.Pos() })
	r.Floor(rule, len(parseFns), 2, "header-scan loops comparing keys with the framing constants (request and response side)")
	// reachesWriter: a non-writer function whose body (transitively, two levels) calls a writer
	var reachesWriter func(f *types.Func, depth int) bool
	reachesWriter = func(f *types.Func, depth int) bool {
		hd := w.DeclOf(f)
		if hd == nil || hd.Decl.Body == nil || depth > 2 {
			return false
		}
		hit := false
		ast.Inspect(hd.Decl.Body, func(n ast.Node) bool {
			if c, ok := n.(*ast.CallExpr); ok && !hit {
				if g := calleeOf(hd.Pkg.TypesInfo, c); g != nil && (writers[g.Origin()] || (g.Pkg() == f.Pkg() && g != f && reachesWriter(g, depth+1))) {
					hit = true
				}
			}
			return !hit
		})
		return hit
	}
	for _, fi := range parseFns {
		fname := w.FuncName(fi.Obj)
		nW := 0
		cmpKind := func(info *types.Info, cond ast.Expr) string {
			call, ok := unparen(cond).(*ast.CallExpr)
			if !ok {
				return ""
			}
			f := calleeOf(info, call)
			if _, isCmp := cmps[f]; !isCmp {
				return ""
			}
			for _, a := range call.Args {
				if refersTo(info, a, cl) {
					return "CL"
				}
				if refersTo(info, a, te) {
					return "TE"
				}
			}
			return ""
		}
		// visit classifies the writer calls below root (the scan loop, or a helper's body when
		// the write was moved into a same-package helper called from the loop); ctxKind/ctxNC
		// are the guards already established at the helper's call site
		var visit func(cur *core.FuncInfo, inLoop bool, ctxKind string, ctxNC bool, via string, depth int)
		visit = func(cur *core.FuncInfo, inLoop bool, ctxKind string, ctxNC bool, via string, depth int) {
			info := cur.Pkg.TypesInfo
			par := parents(cur.Decl)
			ast.Inspect(cur.Decl.Body, func(n ast.Node) bool {
				call, ok := n.(*ast.CallExpr)
				if !ok {
					return true
				}
				f := calleeOf(info, call)
				if f == nil {
					return true
				}
				isW := writers[f.Origin()]
				isH := !isW && depth < 2 && f.Pkg() == cur.Obj.Pkg() && f != cur.Obj && reachesWriter(f, 0)
				if !isW && !isH {
					return true
				}
				var stop ast.Node
				if inLoop {
					stop = enclosing(par, call, func(n ast.Node) bool { _, ok := n.(*ast.ForStmt); return ok })
					if stop == nil {
						return true // prologue default / epilogue adjustments
					}
				}
				kind, notChunked := ctxKind, ctxNC
				for p := par[call]; p != nil && p != stop; p = par[p] {
					is, ok := p.(*ast.IfStmt)
					if !ok || !within(call, is.Body) {
						continue
					}
					if k := cmpKind(info, is.Cond); k != "" && kind == "" {
						kind = k
					}
					if be, ok := unparen(is.Cond).(*ast.BinaryExpr); ok && be.Op == token.NEQ {
						if c, ok := constInt(info, be.Y); ok && c == -1 {
							if cc, ok := unparen(be.X).(*ast.CallExpr); ok {
								if g := calleeOf(info, cc); g != nil && g.Name() == "ContentLength" {
									notChunked = true
								}
							}
						}
					}
				}
				if isH {
					if hd := w.DeclOf(f); hd != nil {
						visit(hd, false, kind, notChunked, via+"→"+f.Name(), depth+1)
					}
					return true
				}
				nW++
				key := fmt.Sprintf("%s:framing-write#%d", fname, nW)
				pos := w.Pos(call.Pos())
				desc := "framing-length write in the scan loop" + via + " is guarded by a framing-name comparison"
				switch kind {
				case "":
					r.Fail(rule, key, pos, desc, "call "+types.ExprString(call)+" changes contentLength for a header whose name was not compared with Content-Length/Transfer-Encoding: another header influences where the message ends")
				case "CL":
					r.Check(notChunked, rule, key, pos, desc+" and by `ContentLength() != -1`", "Content-Length value is applied even when Transfer-Encoding: chunked was already seen (TE must win)")
				case "TE":
					ok := false
					if len(call.Args) == 1 {
						if c, isC := constInt(info, call.Args[0]); isC && c == -1 {
							ok = true
						}
					}
					r.Check(ok, rule, key, pos, desc+" and stores the chunked sentinel -1", "Transfer-Encoding branch stores "+types.ExprString(call)+" instead of the constant -1")
				}
				return true
			})
		}
		visit(fi, true, "", false, "", 0)
		r.Unit("%s: %s — %d framing-length writes inside the scan loop", rule, fname, nW)
		r.Floor(rule, nW, 3, "framing-length writes in the scan loop of "+fname)
	}
}

// fieldWriters returns the declared functions that assign one of the fields, closed under
// "calls a writer on the same receiver type" up to depth levels.
func fieldWriters(w *core.World, fields []*types.Var, depth int) map[*types.Func]bool {
	isField := map[*types.Var]bool{}
	for _, f := range fields {
		isField[f] = true
	}
	out := map[*types.Func]bool{}
	decls := declaredNonTest(w)
	for _, fi := range decls {
		info := fi.Pkg.TypesInfo
		ast.Inspect(fi.Decl.Body, func(n ast.Node) bool {
			switch x := n.(type) {
			case *ast.AssignStmt:
				for _, l := range x.Lhs {
					if se, ok := unparen(l).(*ast.SelectorExpr); ok {
						if sel := info.Selections[se]; sel != nil {
							if v, ok := sel.Obj().(*types.Var); ok && isField[v] {
								out[fi.Obj] = true
							}
						}
					}
				}
			case *ast.IncDecStmt:
				if se, ok := unparen(x.X).(*ast.SelectorExpr); ok {
					if sel := info.Selections[se]; sel != nil {
						if v, ok := sel.Obj().(*types.Var); ok && isField[v] {
							out[fi.Obj] = true
						}
					}
				}
			}
			return true
		})
	}
	for d := 0; d < depth; d++ {
		add := map[*types.Func]bool{}
		for _, fi := range decls {
			if out[fi.Obj] {
				continue
			}
			info := fi.Pkg.TypesInfo
			ast.Inspect(fi.Decl.Body, func(n ast.Node) bool {
				if call, ok := n.(*ast.CallExpr); ok {
					if f := calleeOf(info, call); f != nil && out[f.Origin()] && sameRecv(f, fi.Obj) {
						add[fi.Obj] = true
					}
				}
				return true
			})
		}
		for f := range add {
			out[f] = true
		}
	}
	return out
}

func recvNamed(f *types.Func) *types.Named {
	sig, _ := f.Type().(*types.Signature)
	if sig == nil || sig.Recv() == nil {
		return nil
	}
	t := sig.Recv().Type()
	if p, ok := t.(*types.Pointer); ok {
		t = p.Elem()
	}
	n, _ := t.(*types.Named)
	return n
}

func sameRecv(a, b *types.Func) bool {
	ra, rb := recvNamed(a), recvNamed(b)
	return ra != nil && rb != nil && ra.Obj() == rb.Obj()
}
