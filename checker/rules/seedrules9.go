package rules

// Rules added after the ninth round of independently seeded changes (seeded/*-r9-*).

import (
	"fmt"
	"go/ast"
	"go/token"
	"go/types"
	"strings"
)

// C04.readcommit — bytes returned together with an error are committed before the loop leaves.
func c04ReadCommit(e *Env) {
	const rule = "C04.readcommit"
	w, r := e.W, e.R
	r.Explainf("C04.readcommit: an io.Reader may return n > 0 together with an error (io.EOF with the last bytes — net/http bodies do, and so does hertz's own body stream when the whole body was prefetched). In every copy loop of package network/standard that reads with `m, err = r.Read(…)` on an io.Reader, the statements that account for m (`node.malloc += m`, `n += int64(m)`) precede, in their block, every `if err != nil { break/return }` on that error: otherwise the last bytes of a body stream of declared length are neither put on the wire nor counted — Content-Length N, fewer than N bytes, connection closed.")
	n := 0
	errT := types.Universe.Lookup("error").Type()
	for _, fi := range declaredNonTest(w) {
		if fi.Decl.Body == nil || w.RelPkg(fi.Obj.Pkg()) != "pkg/network/standard" {
			continue
		}
		info := fi.Pkg.TypesInfo
		fname := w.FuncName(fi.Obj)
		// (count, err) pairs assigned from an io.Reader's Read
		type pair struct{ cnt, err *types.Var }
		var pairs []pair
		ast.Inspect(fi.Decl.Body, func(nd ast.Node) bool {
			as, ok := nd.(*ast.AssignStmt)
			if !ok || len(as.Lhs) != 2 || len(as.Rhs) != 1 {
				return true
			}
			c, ok := unparen(as.Rhs[0]).(*ast.CallExpr)
			if !ok {
				return true
			}
			f := calleeOf(info, c)
			if f == nil || f.Name() != "Read" || f.Pkg() == nil || f.Pkg().Path() != "io" {
				return true
			}
			cv, ev := usedVar(info, as.Lhs[0]), usedVar(info, as.Lhs[1])
			if cv != nil && ev != nil && types.Identical(ev.Type(), errT) {
				pairs = append(pairs, pair{cv, ev})
			}
			return true
		})
		k := 0
		for _, p := range pairs {
			visit := func(list []ast.Stmt) {
				lastAcc := token.NoPos
				var accStmt ast.Stmt
				for _, s := range list {
					if as, ok := s.(*ast.AssignStmt); ok && as.Tok == token.ADD_ASSIGN && len(as.Rhs) == 1 && refersTo(info, as.Rhs[0], p.cnt) {
						lastAcc, accStmt = as.Pos(), as
					}
				}
				if accStmt == nil {
					return
				}
				for _, s := range list {
					is, ok := s.(*ast.IfStmt)
					if !ok || is.Init != nil {
						continue
					}
					isErr, isNil := errNilCond(info, is.Cond, true)
					if !isErr || isNil || usedVar(info, unparen(is.Cond).(*ast.BinaryExpr).X) != p.err || !blockLeaves(is.Body) {
						continue
					}
					k++
					n++
					r.Check(is.Pos() > lastAcc, rule, fmt.Sprintf("%s:exit-on-%s#%d", fname, p.err.Name(), k), w.Pos(is.Pos()), "the bytes of a read are accounted for before its error ends the loop",
						"`if "+p.err.Name()+" != nil { … }` leaves before `"+nodeString(accStmt)+"`: bytes that Read returned together with the error (the tail of a stream ending with (n, io.EOF)) are dropped — the message on the wire is shorter than its Content-Length")
				}
			}
			ast.Inspect(fi.Decl.Body, func(nd ast.Node) bool {
				if b, ok := nd.(*ast.BlockStmt); ok {
					visit(b.List)
				}
				return true
			})
		}
	}
	r.Floor(rule, n, 1, "error exits of io.Reader copy loops in network/standard")
}

// C10.reaper — compaction of the idle list clears only the vacated tail.
func c10Reaper(e *Env) {
	const rule = "C10.reaper"
	w, r := e.W, e.R
	r.Explainf("C10.reaper: the idle-connection reaper compacts the pool's slice in place — `m := copy(conns, conns[i:])` moves the survivors to the front — and then clears the vacated slots so that closed connections are not kept alive. After such a compaction (any `m := copy(s, s[k:])` with the same slice on both sides, in package protocol/http1) every store `s[j] = nil` sits in a loop that starts at the number of survivors (`j = m`) and only counts up, and the slice is cut to `s[:m]`: clearing from the number of EXPIRED entries instead overwrites live pooled connections with nil whenever fewer expire than survive — they leak with their MaxConns slot, and the next acquire pops a nil entry.")
	n := 0
	for _, fi := range declaredNonTest(w) {
		if fi.Decl.Body == nil || w.RelPkg(fi.Obj.Pkg()) != "pkg/protocol/http1" {
			continue
		}
		info := fi.Pkg.TypesInfo
		fname := w.FuncName(fi.Obj)
		par := parents(fi.Decl)
		ast.Inspect(fi.Decl.Body, func(nd ast.Node) bool {
			as, ok := nd.(*ast.AssignStmt)
			if !ok || len(as.Lhs) != 1 || len(as.Rhs) != 1 {
				return true
			}
			c, ok := unparen(as.Rhs[0]).(*ast.CallExpr)
			if !ok || !isBuiltin(info, c, "copy") || len(c.Args) != 2 {
				return true
			}
			sv := usedVar(info, c.Args[0])
			se, isSl := unparen(c.Args[1]).(*ast.SliceExpr)
			if sv == nil || !isSl || usedVar(info, se.X) != sv || se.Low == nil || se.High != nil {
				return true
			}
			mv := usedVar(info, as.Lhs[0])
			if id, ok := as.Lhs[0].(*ast.Ident); ok && mv == nil {
				mv, _ = info.Defs[id].(*types.Var)
			}
			if mv == nil {
				return true
			}
			n++
			key := fmt.Sprintf("%s:compaction-of-%s", fname, sv.Name())
			// the enclosing block: every later `s[j] = nil` and the cut
			blk, _ := par[as].(*ast.BlockStmt)
			if blk == nil {
				r.Fail(rule, key, w.Pos(as.Pos()), "slots cleared after a compaction start at the number of survivors", "the compaction is not a statement of a block")
				return true
			}
			k := 0
			cut := false
			for _, s := range blk.List {
				if s.Pos() <= as.Pos() {
					continue
				}
				ast.Inspect(s, func(m ast.Node) bool {
					st, ok := m.(*ast.AssignStmt)
					if !ok || len(st.Lhs) != 1 || len(st.Rhs) != 1 {
						return true
					}
					// the cut: X = s[:m]
					if sl, ok := unparen(st.Rhs[0]).(*ast.SliceExpr); ok && usedVar(info, sl.X) == sv && sl.Low == nil && sl.High != nil && usedVar(info, sl.High) == mv {
						cut = true
					}
					ix, ok := unparen(st.Lhs[0]).(*ast.IndexExpr)
					if !ok || usedVar(info, ix.X) != sv {
						return true
					}
					if tv, ok := info.Types[st.Rhs[0]]; !ok || !tv.IsNil() {
						return true
					}
					k++
					jv := usedVar(info, ix.Index)
					good := false
					if fs, ok := enclosing(par, st, func(q ast.Node) bool { _, ok := q.(*ast.ForStmt); return ok }).(*ast.ForStmt); ok && jv != nil && fs.Pos() > as.Pos() {
						if ini, ok := fs.Init.(*ast.AssignStmt); ok && len(ini.Lhs) == 1 && len(ini.Rhs) == 1 {
							lv := usedVar(info, ini.Lhs[0])
							if id, ok := ini.Lhs[0].(*ast.Ident); ok && lv == nil {
								lv, _ = info.Defs[id].(*types.Var)
							}
							if lv == jv && usedVar(info, ini.Rhs[0]) == mv {
								good = true
							}
						}
						if inc, ok := fs.Post.(*ast.IncDecStmt); !ok || inc.Tok != token.INC || usedVar(info, inc.X) != jv {
							good = false
						}
						// no other write to j inside the loop
						ast.Inspect(fs.Body, func(q ast.Node) bool {
							if a2, ok := q.(*ast.AssignStmt); ok {
								for _, l := range a2.Lhs {
									if usedVar(info, l) == jv {
										good = false
									}
								}
							}
							return true
						})
					}
					r.Check(good, rule, fmt.Sprintf("%s:clear#%d", key, k), w.Pos(st.Pos()), "slots cleared after a compaction start at the number of survivors",
						"`"+nodeString(st)+"` is not inside `for "+func() string {
							if jv != nil {
								return jv.Name()
							}
							return "j"
						}()+" = "+mv.Name()+"; …; ++`: after `"+nodeString(as)+"` the first "+mv.Name()+" slots hold the surviving connections; clearing below "+mv.Name()+" drops live pooled connections (leaked, still counted) and leaves nil entries for the next acquire")
					return true
				})
			}
			r.Check(cut, rule, key+":cut", w.Pos(as.Pos()), "the compacted slice is cut to the number of survivors", "no `… = "+sv.Name()+"[:"+mv.Name()+"]` after the compaction: the pool keeps the stale tail")
			return true
		})
	}
	r.Floor(rule, n, 1, "in-place compactions in package protocol/http1")
}

// C11.putescape — memory of a pooled buffer does not outlive its return to the pool.
func c11PutEscape(e *Env) {
	const rule = "C11.putescape"
	w, r := e.W, e.R
	r.Explainf("C11.putescape: a byte buffer handed back to a pool (bytebufferpool.Put / ByteBuffer pools, sync.Pool.Put) may be taken and overwritten by any goroutine at once. In every non-test function of the module that puts a local buffer back — by `defer` or by a direct call — no return statement (for a direct Put: none after it) hands out that buffer's memory: the object itself, its `.B` field, `.Bytes()`, or a slice of those. Copies are fine (`string(b.B)`, `b.String()`, `append(dst, b.B...)`). The multipart marshaller returning `buf.B` of a buffer with a deferred Put sends a request body that another goroutine rewrites while the connection (which links bodies of 4 KiB and more without copying) is still flushing it.")
	n := 0
	for _, fi := range declaredNonTest(w) {
		if fi.Decl.Body == nil || !w.InModule(fi.Obj.Pkg()) {
			continue
		}
		info := fi.Pkg.TypesInfo
		par := parents(fi.Decl)
		type put struct {
			v        *types.Var
			pos      token.Pos
			deferred bool
		}
		var puts []put
		ast.Inspect(fi.Decl.Body, func(nd ast.Node) bool {
			c, ok := nd.(*ast.CallExpr)
			if !ok || len(c.Args) != 1 || inFuncLit(par, c) {
				return true
			}
			f := calleeOf(info, c)
			if f == nil || f.Name() != "Put" || f.Pkg() == nil {
				return true
			}
			pp := f.Pkg().Path()
			if pp != "sync" && !strings.HasSuffix(pp, "bytebufferpool") {
				return true
			}
			v := usedVar(info, c.Args[0])
			if v == nil || v.IsField() || isPkgLevel(v) {
				return true
			}
			// only byte buffers: a struct (pointer) with a []byte field B, or a []byte
			t := v.Type()
			if p, ok := t.(*types.Pointer); ok {
				t = p.Elem()
			}
			isBuf := isByteSlice(t)
			if st, ok := t.Underlying().(*types.Struct); ok {
				for i := 0; i < st.NumFields(); i++ {
					if st.Field(i).Name() == "B" && isByteSlice(st.Field(i).Type()) {
						isBuf = true
					}
				}
			}
			if !isBuf {
				return true
			}
			_, deferred := par[c].(*ast.DeferStmt)
			puts = append(puts, put{v, c.Pos(), deferred})
			return true
		})
		if len(puts) == 0 {
			continue
		}
		fname := w.FuncName(fi.Obj)
		for _, p := range puts {
			n++
			k := 0
			bad := ""
			var badPos token.Pos
			ast.Inspect(fi.Decl.Body, func(nd ast.Node) bool {
				rs, ok := nd.(*ast.ReturnStmt)
				if !ok || inFuncLit(par, rs) || (!p.deferred && rs.Pos() < p.pos) {
					return true
				}
				// a direct Put only matters for returns it dominates structurally (same or outer block before)
				if !p.deferred {
					dom := false
					for _, s := range precedingStmts(par, rs) {
						if s.Pos() <= p.pos && p.pos < s.End() {
							dom = true
						}
					}
					if !dom {
						return true
					}
				}
				for _, res := range rs.Results {
					ast.Inspect(res, func(m ast.Node) bool {
						id, ok := m.(*ast.Ident)
						if !ok || usedVar(info, id) != p.v {
							return true
						}
						// climb: what is done with the buffer?
						var cur ast.Node = id
						for {
							up := par[cur]
							switch x := up.(type) {
							case *ast.ParenExpr:
								cur = x
								continue
							case *ast.SelectorExpr:
								if x.X == cur {
									if call, ok := par[x].(*ast.CallExpr); ok && call.Fun == ast.Expr(x) {
										if x.Sel.Name == "Bytes" {
											cur = call
											continue
										}
										return true // String(), Len(), … : a copy or a scalar
									}
									if isByteSlice(info.TypeOf(x)) {
										cur = x
										continue
									}
									return true
								}
							case *ast.SliceExpr:
								if x.X == cur {
									cur = x
									continue
								}
								return true
							case *ast.CallExpr:
								if tv, ok := info.Types[x.Fun]; ok && tv.IsType() {
									if b, ok := tv.Type.Underlying().(*types.Basic); ok && b.Kind() == types.String {
										return true // string(b.B)
									}
									cur = x
									continue
								}
								if isBuiltin(info, x, "append") && x.Ellipsis.IsValid() && len(x.Args) >= 2 && unparen(x.Args[len(x.Args)-1]) == cur {
									return true
								}
								if isBuiltin(info, x, "len") || isBuiltin(info, x, "cap") {
									return true
								}
								if x.Fun != cur {
									return true // passed to a function: not judged here
								}
							}
							break
						}
						if bad == "" {
							k++
							bad, badPos = types.ExprString(res), rs.Pos()
						}
						return true
					})
				}
				return true
			})
			key := fmt.Sprintf("%s:Put(%s)", fname, p.v.Name())
			if bad != "" {
				r.Fail(rule, key, w.Pos(badPos), "memory of a buffer put back into its pool is not returned", "`return … "+bad+" …` hands out memory of "+p.v.Name()+", which "+fname+" puts back into the pool"+map[bool]string{true: " when it returns (deferred Put)", false: " before"}[p.deferred]+": another goroutine can take the buffer and overwrite the bytes while the caller still uses them")
			} else {
				r.OK(rule, key, w.Pos(p.pos), "memory of a buffer put back into its pool is not returned")
			}
		}
	}
	r.Floor(rule, n, 3, "functions that put a local byte buffer back into a pool")
}

// C16.descend — while inserting a route the cursor follows the node that was just created.
func c16Descend(e *Env) {
	const rule = "C16.descend"
	r := e.R
	r.Explainf("C16.descend: RouterNode.Insert creates one node per remaining path segment, appends it to the children of the cursor and — with the sort-router option — re-sorts those children. The cursor must then move to the node it just created, by identity: in the insert loop every assignment to the cursor variable (the one new nodes take as Parent) has the freshly created node variable as its right-hand side. An index into Children (`cur.Children[len-1]`) is only that node while nothing re-orders the slice; under sort-router the rest of the path is attached below a sibling group, i.e. a declared route is lost and another one is registered twice with the wrong prefix and middleware chain.")
	hz, err := e.HZ()
	if err != nil || hz == nil {
		r.Anchor(rule, "cmd/hz module")
		return
	}
	ins := hz.Func("generator", "RouterNode", "Insert")
	if ins == nil || ins.Decl.Body == nil {
		r.Anchor(rule, "generator.RouterNode.Insert")
		return
	}
	info := ins.Pkg.TypesInfo
	fname := hz.FuncName(ins.Obj)
	// created node: local defined from &RouterNode{… Parent: cur …}
	var created, cursor *types.Var
	ast.Inspect(ins.Decl.Body, func(nd ast.Node) bool {
		as, ok := nd.(*ast.AssignStmt)
		if !ok || len(as.Lhs) != 1 || len(as.Rhs) != 1 || created != nil {
			return true
		}
		u, ok := unparen(as.Rhs[0]).(*ast.UnaryExpr)
		if !ok || u.Op != token.AND {
			return true
		}
		cl, ok := u.X.(*ast.CompositeLit)
		if !ok {
			return true
		}
		for _, el := range cl.Elts {
			if kv, ok := el.(*ast.KeyValueExpr); ok {
				if id, ok := kv.Key.(*ast.Ident); ok && id.Name == "Parent" {
					if id2, ok := as.Lhs[0].(*ast.Ident); ok {
						created, _ = info.Defs[id2].(*types.Var)
						cursor = usedVar(info, kv.Value)
					}
				}
			}
		}
		return true
	})
	if created == nil || cursor == nil {
		r.Anchor(rule, fname+": `c := &RouterNode{…, Parent: cur}`")
		return
	}
	n := 0
	ast.Inspect(ins.Decl.Body, func(nd ast.Node) bool {
		as, ok := nd.(*ast.AssignStmt)
		if !ok || as.Tok != token.ASSIGN {
			return true
		}
		for i, l := range as.Lhs {
			if usedVar(info, l) != cursor || i >= len(as.Rhs) {
				continue
			}
			if _, isIdent := l.(*ast.Ident); !isIdent {
				continue
			}
			n++
			r.Check(usedVar(info, as.Rhs[i]) == created, rule, fmt.Sprintf("%s:descend#%d", fname, n), hz.Pos(as.Pos()), "the insert cursor moves to the node just created",
				"`"+nodeString(as)+"` does not continue with `"+created.Name()+"`, the node created for this segment: after the children were re-sorted (sort-router) a positional pick is a different group, and the remaining segments are attached under it")
		}
		return true
	})
	r.Floor(rule, n, 1, "cursor moves in RouterNode.Insert")
}

// C17.parsefresh — a parse into a reused object starts from the empty object on every path.
func c17ParseFresh(e *Env) {
	const rule = "C17.parsefresh"
	w, r := e.W, e.R
	r.Explainf("C17.parsefresh: the Parse…/ParseBytes methods of package protocol fill their receiver, which callers reuse (one Cookie object for several lookups, pooled URIs and Args). A method of that family that resets its receiver (`x.Reset()` …) does so unconditionally and before its first return: no return statement — in particular no early error return for empty or malformed input — precedes the reset, and the reset is not nested in a branch. Otherwise the object keeps every field of the previous parse on that path (ResponseHeader.Cookie drops ParseBytes' error, so an empty `Set-Cookie:` value reads back as the previous cookie with all its attributes).")
	n := 0
	for _, fi := range declaredNonTest(w) {
		if fi.Decl.Body == nil || w.RelPkg(fi.Obj.Pkg()) != "pkg/protocol" || !strings.HasPrefix(fi.Obj.Name(), "Parse") {
			continue
		}
		sig := fi.Obj.Type().(*types.Signature)
		if sig.Recv() == nil {
			continue
		}
		info := fi.Pkg.TypesInfo
		recv := sig.Recv()
		par := parents(fi.Decl)
		isReset := func(nd ast.Node) bool {
			es, ok := nd.(*ast.ExprStmt)
			if !ok {
				return false
			}
			c, ok := es.X.(*ast.CallExpr)
			if !ok {
				return false
			}
			se, ok := unparen(c.Fun).(*ast.SelectorExpr)
			return ok && usedVar(info, se.X) == recv && strings.HasPrefix(strings.ToLower(se.Sel.Name), "reset")
		}
		var top ast.Stmt
		for _, s := range fi.Decl.Body.List {
			if isReset(s) && top == nil {
				top = s
			}
		}
		nested := false
		ast.Inspect(fi.Decl.Body, func(nd ast.Node) bool {
			if isReset(nd) && nd != ast.Node(top) && !inFuncLit(par, nd) {
				nested = true
			}
			return true
		})
		if top == nil && !nested {
			continue
		}
		n++
		fname := w.FuncName(fi.Obj)
		if top == nil {
			r.Fail(rule, fname+":reset-first", w.Pos(fi.Decl.Pos()), "the receiver is reset unconditionally before the first return", "the receiver is only reset inside a branch: on the other paths the object keeps the result of the previous parse")
			continue
		}
		var early *ast.ReturnStmt
		ast.Inspect(fi.Decl.Body, func(nd ast.Node) bool {
			if rs, ok := nd.(*ast.ReturnStmt); ok && !inFuncLit(par, rs) && rs.Pos() < top.Pos() && early == nil {
				early = rs
			}
			return true
		})
		if early != nil {
			r.Fail(rule, fname+":reset-first", w.Pos(early.Pos()), "the receiver is reset unconditionally before the first return", "`"+nodeString(early)+"` leaves before `"+nodeString(top)+"`: on this path a reused object keeps every field of the previous parse")
		} else {
			r.OK(rule, fname+":reset-first", w.Pos(top.Pos()), "the receiver is reset unconditionally before the first return")
		}
	}
	r.Floor(rule, n, 2, "Parse methods of package protocol that reset their receiver")
}

// C02.rearm — the read deadline of every later request is re-armed whatever is buffered.
func c02Rearm(e *Env) {
	const rule = "C02.rearm"
	w, r := e.W, e.R
	r.Explainf("C02.rearm: between two requests of a kept-alive connection the serve loop waits for the first bytes under the idle timeout and then re-arms the read deadline for the coming request (`SetReadTimeout(s.ReadTimeout)`); the previous exchange may have left an expired deadline (the disconnect detector's abort sets one in the past). Whether that happens must not depend on how much of the next request is already buffered: every condition that guards the re-arming call inside the loop (in Serve or the same-package helper that holds it) mentions only integer/bool locals, constants and configuration fields of the server — no call and no reader or connection value. A guard like `zr.Len() < 4` makes the outcome of a pipelined request depend on where the TCP segment boundary fell (200 when it arrived whole, 408 when cut after the 4th byte).")
	serve := w.Func("pkg/protocol/http1", "Server", "Serve")
	if serve == nil {
		r.Anchor(rule, "http1.Server.Serve")
		return
	}
	n := 0
	for _, fi := range withHelpers(w, serve, 1) {
		info := fi.Pkg.TypesInfo
		par := parents(fi.Decl)
		fname := w.FuncName(fi.Obj)
		ast.Inspect(fi.Decl.Body, func(nd ast.Node) bool {
			c, ok := nd.(*ast.CallExpr)
			if !ok || len(c.Args) != 1 || inFuncLit(par, c) {
				return true
			}
			f := calleeOf(info, c)
			if f == nil || f.Name() != "SetReadTimeout" {
				return true
			}
			se, ok := unparen(c.Args[0]).(*ast.SelectorExpr)
			if !ok || se.Sel.Name != "ReadTimeout" {
				return true
			}
			n++
			bad := ""
			for _, g := range guardConds(par, c) {
				if g.cond == nil {
					continue
				}
				ast.Inspect(g.cond, func(m ast.Node) bool {
					switch x := m.(type) {
					case *ast.CallExpr:
						if !isBuiltin(info, x, "len") && bad == "" {
							bad = types.ExprString(x)
						}
					case *ast.Ident:
						if v := usedVar(info, x); v != nil && bad == "" {
							switch v.Type().Underlying().(type) {
							case *types.Basic:
							default:
								if _, isSel := par[x].(*ast.SelectorExpr); !isSel {
									bad = x.Name
								}
							}
						}
					}
					return true
				})
			}
			r.Check(bad == "", rule, fmt.Sprintf("%s:rearm#%d", fname, n), w.Pos(c.Pos()), "the re-arming of the read deadline does not depend on buffered input",
				"`"+types.ExprString(c)+"` is guarded by a condition that mentions `"+bad+"`: when it is false the coming request is read under the deadline the previous exchange left behind (possibly already expired), so the same bytes give 200 or 408 depending on how they were cut into reads")
			return true
		})
	}
	r.Floor(rule, n, 1, "re-arming SetReadTimeout(ReadTimeout) calls in the serve loop")
}

// C14.skipwait — what is skipped has arrived.
func c14SkipWait(e *Env) {
	const rule = "C14.skipwait"
	w, r := e.W, e.R
	r.Explainf("C14.skipwait: network.Reader.Skip(n) does not wait: the standard connection fails it when fewer than n bytes are buffered (`link buffer skip[n] not enough`). In the HTTP/1 body code (packages protocol/http1/ext, protocol/http1/req, common/utils) every Skip therefore skips an amount that is known to be buffered: the length of (or the number of bytes copied from) a slice obtained from Peek on the same reader; the amount just passed to a Peek on the same reader; or the reader's own Len(), possibly clamped. Must…-functions document the precondition and panic. Skipping a length taken from the message (a chunk size, the rest of a chunk) without waiting makes draining an unread chunked body succeed or fail — and the pipelined follow-up request be answered or lost — depending on how the peer's bytes were cut into reads.")
	n := 0
	for _, fi := range declaredNonTest(w) {
		rel := w.RelPkg(fi.Obj.Pkg())
		if fi.Decl.Body == nil || (rel != "pkg/protocol/http1/ext" && rel != "pkg/protocol/http1/req" && rel != "pkg/common/utils") {
			continue
		}
		info := fi.Pkg.TypesInfo
		par := parents(fi.Decl)
		fname := w.FuncName(fi.Obj)
		k := 0
		ast.Inspect(fi.Decl.Body, func(nd ast.Node) bool {
			c, ok := nd.(*ast.CallExpr)
			if !ok || len(c.Args) != 1 {
				return true
			}
			f := calleeOf(info, c)
			if f == nil || f.Name() != "Skip" || f.Pkg() == nil || w.RelPkg(f.Pkg()) != "pkg/network" {
				return true
			}
			se, _ := unparen(c.Fun).(*ast.SelectorExpr)
			if se == nil {
				return true
			}
			rstr := types.ExprString(se.X)
			k++
			n++
			key := fmt.Sprintf("%s:Skip#%d", fname, k)
			if strings.HasPrefix(fi.Obj.Name(), "Must") {
				r.OKd(rule, key, w.Pos(c.Pos()), "the skipped amount is buffered", "documented precondition of a Must… function (panics otherwise)")
				return true
			}
			onReader := func(x ast.Expr, name string) *ast.CallExpr {
				cc, ok := unparen(x).(*ast.CallExpr)
				if !ok {
					return nil
				}
				s2, ok := unparen(cc.Fun).(*ast.SelectorExpr)
				if !ok || s2.Sel.Name != name || types.ExprString(s2.X) != rstr {
					return nil
				}
				return cc
			}
			// all definitions of a local
			defsOf := func(v *types.Var) []ast.Expr {
				var out []ast.Expr
				ast.Inspect(fi.Decl.Body, func(m ast.Node) bool {
					if as, ok := m.(*ast.AssignStmt); ok {
						for i, l := range as.Lhs {
							id, isID := l.(*ast.Ident)
							if !isID || !(info.Defs[id] == types.Object(v) || info.Uses[id] == types.Object(v)) {
								continue
							}
							if len(as.Rhs) == len(as.Lhs) {
								out = append(out, as.Rhs[i])
							} else if len(as.Rhs) == 1 {
								out = append(out, as.Rhs[0])
							}
						}
					}
					return true
				})
				return out
			}
			fromPeek := func(x ast.Expr) bool { // a slice that came from Peek on this reader
				v := usedVar(info, x)
				if v == nil || v.IsField() {
					return false
				}
				ds := defsOf(v)
				for _, d := range ds {
					if onReader(d, "Peek") == nil {
						return false
					}
				}
				return len(ds) > 0
			}
			arg := unparen(c.Args[0])
			why := ""
			var judge func(x ast.Expr, depth int) bool
			judge = func(x ast.Expr, depth int) bool {
				x = unparen(x)
				if cc, ok := x.(*ast.CallExpr); ok {
					if isBuiltin(info, cc, "len") && len(cc.Args) == 1 && fromPeek(cc.Args[0]) {
						why = "length of a slice obtained from Peek"
						return true
					}
					if isBuiltin(info, cc, "copy") && len(cc.Args) == 2 && fromPeek(cc.Args[1]) {
						why = "number of bytes copied out of a Peek result"
						return true
					}
					if onReader(cc, "Len") != nil {
						why = "the reader's buffered length"
						return true
					}
				}
				if v := usedVar(info, x); v != nil && !v.IsField() && depth > 0 {
					ds := defsOf(v)
					if len(ds) == 0 {
						return false
					}
					// a clamp `if v > n { v = n }` keeps v ≤ its other definitions: enough that one
					// definition is buffered and the others only lower it (assignments inside an if on v)
					okAny := false
					for _, d := range ds {
						if judge(d, depth-1) {
							okAny = true
						}
					}
					return okAny
				}
				return false
			}
			good := judge(arg, 2)
			if !good {
				// a Peek of the same amount on the same reader directly before
				for _, s := range precedingStmts(par, c) {
					ast.Inspect(s, func(m ast.Node) bool {
						if cc, ok := m.(*ast.CallExpr); ok {
							if pk := onReader(cc, "Peek"); pk != nil && len(pk.Args) == 1 && types.ExprString(pk.Args[0]) == types.ExprString(arg) {
								good, why = true, "a Peek of the same amount precedes"
							}
						}
						return true
					})
					if good {
						break
					}
				}
			}
			if good {
				r.OKd(rule, key, w.Pos(c.Pos()), "the skipped amount is buffered", why)
			} else {
				r.Fail(rule, key, w.Pos(c.Pos()), "the skipped amount is buffered",
					"`"+types.ExprString(c)+"` skips an amount that is not known to have arrived (not from Peek/Len of this reader): on the standard transport Skip fails when less is buffered, so the drain of an unread body and the fate of the next pipelined request depend on the segmentation of the peer's bytes")
			}
			return true
		})
	}
	r.Floor(rule, n, 6, "Reader.Skip calls in the HTTP/1 body code")
}

// C20.divzero — integer division in the expression evaluator tests the divisor it uses.
func c20DivZero(e *Env) {
	const rule = "C20.divzero"
	w, r := e.W, e.R
	r.Explainf("C20.divzero: the evaluator computes in float64, where division by zero yields ±Inf/NaN, except where it converts to integers: `int64(a) %% int64(b)` panics when int64(b) is 0 — also for a float divisor strictly between -1 and 1 (a field value from the request). In package internal/tagexpr every integer `%%` or `/` with a non-constant divisor D is preceded, on the way to it, by `if D == 0 { return … }` on the SAME integer expression (or the local holding it); a test of the float before truncation does not cover it.")
	n := 0
	for _, fi := range declaredNonTest(w) {
		if fi.Decl.Body == nil || w.RelPkg(fi.Obj.Pkg()) != "internal/tagexpr" {
			continue
		}
		info := fi.Pkg.TypesInfo
		par := parents(fi.Decl)
		fname := w.FuncName(fi.Obj)
		k := 0
		ast.Inspect(fi.Decl.Body, func(nd ast.Node) bool {
			be, ok := nd.(*ast.BinaryExpr)
			if !ok || (be.Op != token.REM && be.Op != token.QUO) {
				return true
			}
			t, _ := info.TypeOf(be.Y).Underlying().(*types.Basic)
			if t == nil || t.Info()&types.IsInteger == 0 {
				return true
			}
			if tv, ok := info.Types[be.Y]; ok && tv.Value != nil {
				return true
			}
			k++
			n++
			dstr := types.ExprString(unparen(be.Y))
			guarded := false
			var stmt ast.Node = be
			for par[stmt] != nil {
				if _, isStmt := stmt.(ast.Stmt); isStmt {
					break
				}
				stmt = par[stmt]
			}
			for _, s := range precedingStmts(par, stmt) {
				is, ok := s.(*ast.IfStmt)
				if !ok || !blockLeaves(is.Body) {
					continue
				}
				for _, p := range splitOp(is.Cond, token.LOR) {
					c, ok := p.(*ast.BinaryExpr)
					if !ok || c.Op != token.EQL {
						continue
					}
					x, y := unparen(c.X), unparen(c.Y)
					if z, isC := constInt(info, y); isC && z == 0 && types.ExprString(x) == dstr {
						guarded = true
					}
					if z, isC := constInt(info, x); isC && z == 0 && types.ExprString(y) == dstr {
						guarded = true
					}
				}
			}
			r.Check(guarded, rule, fmt.Sprintf("%s:int-%s#%d", fname, map[token.Token]string{token.REM: "rem", token.QUO: "div"}[be.Op], k), w.Pos(be.Pos()), "an integer division tests the divisor it uses for zero",
				"`"+types.ExprString(be)+"` divides by `"+dstr+"` and no earlier `if "+dstr+" == 0 { return … }` covers it: a divisor that truncates to 0 (a field value between -1 and 1) panics with integer divide by zero during validation")
			return true
		})
	}
	r.Floor(rule, n, 1, "integer divisions with a non-constant divisor in internal/tagexpr")
}
