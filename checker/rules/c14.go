package rules

import (
	"fmt"
	"go/ast"
	"go/token"
	"go/types"

	"hzcheck/core"
	"hzcheck/esp"
)

func init() {
	register("C14", c14Chunk, func(e *Env) { serveLoop(e, "C14") }, c14SkipErrors, c14Bound, c14Prefetch, c14Drain, c14EOF, c13Window, c13Remainder, c13Accumulate, c14SkipBound, c14Identity, c18Drain, c09Pools, c14KeepStream, c14Clamp, c14SkipWait, c14LimitStrict)
}

const pkgUtils = Mod + "/pkg/common/utils"

// C14.chunk — a chunk-size line is parsed from the stream's reader only at a chunk boundary.
func c14Chunk(e *Env) {
	const rule = "C14.chunk"
	w, r := e.W, e.R
	r.Explainf("C14.chunk: ESP typestate {unknown, boundary, local-chunk, crlf-pending} over every method of the body-stream type that calls utils.ParseChunkSize: the call requires `boundary`, which is established by the true edge of `chunkLeft == 0` (or the false edge of `chunkLeft > 0`), by skipping the remaining chunkLeft bytes plus CRLF, or — inside a drain loop — by skipping exactly the parsed chunk size plus CRLF; method entry is `unknown` because the handler may have stopped in the middle of a chunk.")
	field := w.Field("pkg/protocol/http1/ext", "bodyStream", "chunkLeft")
	if field == nil {
		r.Anchor(rule, "ext.bodyStream.chunkLeft")
		return
	}
	isParse := func(f *types.Func) bool { return esp.Is(f, pkgUtils, "", "ParseChunkSize") }
	// the methods analysed are the entry points: body-stream methods that reach a chunk-size
	// parse directly or through a helper method of the type, and that no other such method
	// calls (a helper is explored inline from its caller, where the boundary test sits)
	var cands, fns []*core.FuncInfo
	var reachesParse func(fi *core.FuncInfo, depth int) bool
	reachesParse = func(fi *core.FuncInfo, depth int) bool {
		if len(funcsCallingIn(fi, isParse)) > 0 {
			return true
		}
		if depth >= 2 {
			return false
		}
		for _, c := range funcsCallingIn(fi, func(f *types.Func) bool { rn := recvNamed(f); return rn != nil && rn.Obj().Name() == "bodyStream" }) {
			if d := w.DeclOf(calleeOf(fi.Pkg.TypesInfo, c)); d != nil && d != fi && d.Decl.Body != nil && reachesParse(d, depth+1) {
				return true
			}
		}
		return false
	}
	for _, fi := range declaredNonTest(w) {
		if rn := recvNamed(fi.Obj); rn != nil && rn.Obj().Name() == "bodyStream" && fi.Decl.Body != nil && fi.Pkg.PkgPath == pkgExt && reachesParse(fi, 0) {
			cands = append(cands, fi)
		}
	}
	for _, fi := range cands {
		inner := false
		for _, o := range cands {
			if o != fi && len(funcsCallingIn(o, func(f *types.Func) bool { return f == fi.Obj })) > 0 {
				inner = true
			}
		}
		if !inner {
			fns = append(fns, fi)
		}
	}
	r.Floor(rule, len(fns), 2, "body-stream entry methods parsing chunk sizes")
	for _, fi := range fns {
		info := fi.Pkg.TypesInfo
		fname := w.FuncName(fi.Obj)
		isField := func(e ast.Expr) bool { return usedVar(info, e) == field }
		var sizeVar *types.Var
		crlfLenVars := map[*types.Var]bool{}
		// locals holding len(bytestr.StrCRLF)
		for _, hf := range withHelpers(w, fi, 2) {
			ast.Inspect(hf.Decl.Body, func(n ast.Node) bool {
				if as, ok := n.(*ast.AssignStmt); ok && len(as.Lhs) == 1 && len(as.Rhs) == 1 {
					if call, ok := unparen(as.Rhs[0]).(*ast.CallExpr); ok && isBuiltin(info, call, "len") {
						if s, ok := constBytesExpr(w, info, call.Args[0]); ok && s == "\r\n" {
							if v := usedVar(info, as.Lhs[0]); v != nil {
								crlfLenVars[v] = true
							}
						}
					}
				}
				return true
			})
		}
		isRawSkip := func(f *types.Func) bool {
			return f != nil && f.Name() == "Skip" && f.Pkg() != nil && f.Pkg().Path() == pkgNetwork
		}
		// a skip helper — func(r network.Reader, n int) error in this package whose body skips on
		// r (a loop that waits for the bytes) — is one skip event of amount n, not inlined
		skipHelper := func(f *types.Func) bool {
			if f == nil || f.Pkg() != fi.Obj.Pkg() {
				return false
			}
			sig, _ := f.Type().(*types.Signature)
			if sig == nil || sig.Recv() != nil || sig.Params().Len() != 2 || sig.Results().Len() != 1 {
				return false
			}
			if b, ok := sig.Params().At(1).Type().Underlying().(*types.Basic); !ok || b.Kind() != types.Int {
				return false
			}
			if _, isIface := sig.Params().At(0).Type().Underlying().(*types.Interface); !isIface {
				return false
			}
			d := w.DeclOf(f)
			if d == nil || d.Decl.Body == nil {
				return false
			}
			hit := false
			ast.Inspect(d.Decl.Body, func(n ast.Node) bool {
				if c, ok := n.(*ast.CallExpr); ok && isRawSkip(calleeOf(d.Pkg.TypesInfo, c)) {
					if se, ok := unparen(c.Fun).(*ast.SelectorExpr); ok && usedVar(d.Pkg.TypesInfo, se.X) == sig.Params().At(0) {
						hit = true
					}
				}
				return true
			})
			return hit
		}
		isSkip := func(f *types.Func) bool { return isRawSkip(f) || skipHelper(f) }
		baseInline := inlineWhen(info, func(f *types.Func) bool {
			return isParse(f) || isSkip(f) || esp.Is(f, pkgUtils, "", "SkipCRLF")
		}, func(n ast.Node) bool {
			switch x := n.(type) {
			case *ast.AssignStmt:
				for _, l := range x.Lhs {
					if isField(l) {
						return true
					}
				}
			case *ast.IncDecStmt:
				return isField(x.X)
			}
			return false
		})
		rl := &esp.Rule{Name: rule, Init: "U",
			Track: func(k string) bool { return k == "err == nil" },
			Inline: func(f *types.Func, d *ast.FuncDecl) bool {
				if skipHelper(f) {
					return false
				}
				return baseInline(f, d)
			},
			Node: func(c *esp.Ctx, n ast.Node) {
				switch x := n.(type) {
				case *ast.AssignStmt:
					for i, l := range x.Lhs {
						if isField(l) {
							if x.Tok == token.ASSIGN && len(x.Rhs) == len(x.Lhs) {
								if z, ok := constInt(info, x.Rhs[i]); ok && z == 0 {
									if c.S.TS == "U" {
										c.S.TS = "B"
									}
									continue
								}
							}
							if c.S.TS != "C" {
								c.S.TS = "U"
							}
						}
					}
					// chunkSize, err := ParseChunkSize(...)
					if len(x.Rhs) == 1 {
						if call, ok := unparen(x.Rhs[0]).(*ast.CallExpr); ok && isParse(calleeOf(info, call)) {
							sizeVar = usedVar(info, x.Lhs[0])
						}
					}
				case *ast.IncDecStmt:
					if isField(x.X) {
						c.S.TS = "U"
					}
				}
			},
			Call: func(c *esp.Ctx, call *ast.CallExpr, f *types.Func) {
				switch {
				case isParse(f):
					if c.S.TS != "B" {
						c.Violate(call.Pos(), fname+":"+c.SiteKey(call)+":not-at-boundary", "a chunk-size line is parsed while the stream is not known to be at a chunk boundary (state "+c.S.TS+"): leftover chunk data is interpreted as chunk framing and the bytes after it as the next request")
					}
					c.S.TS = "L"
				case isSkip(f) && (len(call.Args) == 1 || skipHelper(f)):
					a := call.Args[len(call.Args)-1]
					switch {
					case c.S.TS == "L" && sizeVar != nil && (usedVar(info, a) == sizeVar || rootVar(c, info, a) == sizeVar):
						c.S.TS = "C"
					case c.S.TS == "U" && isField(a):
						c.S.TS = "C"
					case c.S.TS == "C" && (crlfLenVars[usedVar(info, a)] || crlfLenVars[rootVar(c, info, a)] || isConstInt(info, a, 2)):
						c.S.TS = "B"
					}
				case esp.Is(f, pkgUtils, "", "SkipCRLF"):
					if c.S.TS == "C" {
						c.S.TS = "B"
					}
				}
			},
			Branch: func(c *esp.Ctx, cond ast.Expr, val bool) {
				be, ok := unparen(cond).(*ast.BinaryExpr)
				if !ok || !isField(be.X) {
					return
				}
				z, isC := constInt(info, be.Y)
				if !isC || z != 0 || c.S.TS != "U" {
					return
				}
				switch be.Op {
				case token.EQL:
					if val {
						c.S.TS = "B"
					}
				case token.NEQ, token.GTR:
					if !val {
						c.S.TS = "B"
					}
				}
			},
		}
		n := len(funcsCallingIn(fi, isParse))
		ex := esp.New(w, fi, rl)
		vs := ex.Run(fi)
		r.Unit("%s: %s — %d ParseChunkSize sites, %d states, %d exits", rule, fname, n, ex.Steps, ex.Exits)
		if len(vs) == 0 {
			r.OK(rule, fname+":paths", w.Pos(fi.Decl.Pos()), "every ParseChunkSize happens at a chunk boundary")
		}
		for _, v := range vs {
			r.Fail(rule, v.Key, w.Pos(v.Pos), "chunk-size lines are parsed only at chunk boundaries", v.Msg, v.Path...)
		}
	}
}

func isConstInt(info *types.Info, e ast.Expr, want int) bool {
	v, ok := constInt(info, e)
	return ok && v == want
}

// C14.skiperr — the drain propagates every reader error.
func c14SkipErrors(e *Env) {
	const rule = "C14.skiperr"
	w, r := e.W, e.R
	r.Explainf("C14.skiperr: in the drain method of the body stream (the one ReleaseBodyStream calls) every call on the underlying reader that returns an error (Skip, Peek, Release, ParseChunkSize, SkipTrailer, SkipCRLF) has its error assigned and tested (`if err != nil { return err }`) or returned directly — an ignored failure would leave unread body bytes in front of the next request.")
	rel := w.Func("pkg/protocol/http1/ext", "", "ReleaseBodyStream")
	if rel == nil {
		r.Anchor(rule, "ext.ReleaseBodyStream")
		return
	}
	var drains []*core.FuncInfo
	for _, call := range funcsCallingIn(rel, func(f *types.Func) bool { rn := recvNamed(f); return rn != nil && rn.Obj().Name() == "bodyStream" }) {
		f := calleeOf(rel.Pkg.TypesInfo, call)
		if d := w.DeclOf(f); d != nil && f.Type().(*types.Signature).Results().Len() == 1 {
			drains = append(drains, d)
		}
	}
	r.Floor(rule, len(drains), 1, "drain methods called by ReleaseBodyStream")
	// ReleaseBodyStream returns the drain's error
	{
		info := rel.Pkg.TypesInfo
		ok := false
		ast.Inspect(rel.Decl.Body, func(n ast.Node) bool {
			if as, ok2 := n.(*ast.AssignStmt); ok2 && len(as.Rhs) == 1 {
				if call, ok3 := unparen(as.Rhs[0]).(*ast.CallExpr); ok3 {
					if f := calleeOf(info, call); f != nil && len(drains) > 0 && f == drains[0].Obj {
						if v := usedVar(info, as.Lhs[0]); v != nil && v.Name() == "err" {
							ok = true
						}
					}
				}
			}
			return true
		})
		r.Check(ok, rule, w.FuncName(rel.Obj)+":returns-drain-error", w.Pos(rel.Decl.Pos()), "ReleaseBodyStream hands the drain's error to its caller", "the error of the drain is not assigned to the named result")
	}
	for _, fi := range drains {
		info := fi.Pkg.TypesInfo
		fname := w.FuncName(fi.Obj)
		par := parents(fi.Decl)
		n := 0
		ast.Inspect(fi.Decl.Body, func(nd ast.Node) bool {
			call, ok := nd.(*ast.CallExpr)
			if !ok {
				return true
			}
			f := calleeOf(info, call)
			if f == nil {
				return true
			}
			sig := f.Type().(*types.Signature)
			if sig.Results().Len() == 0 || sig.Results().At(sig.Results().Len()-1).Type().String() != "error" {
				return true
			}
			inScope := (f.Pkg() != nil && f.Pkg().Path() == pkgNetwork) || f.Pkg().Path() == pkgUtils || f.Pkg().Path() == pkgExt
			if !inScope {
				return true
			}
			n++
			key := fmt.Sprintf("%s:%s#%d", fname, f.Name(), n)
			good := false
			switch p := par[call].(type) {
			case *ast.ReturnStmt:
				good = true
			case *ast.AssignStmt:
				// err assigned; the next statement (or the if's own condition) must test it and return
				var errVar *types.Var
				if v := usedVar(info, p.Lhs[len(p.Lhs)-1]); v != nil && v.Type().String() == "error" {
					errVar = v
				}
				if errVar != nil {
					switch pp := par[p].(type) {
					case *ast.IfStmt: // if err := f(); err != nil { return err }
						if pp.Init == ast.Stmt(p) && terminates(pp.Body) && refersTo(info, pp.Cond, errVar) {
							good = true
						}
					case *ast.BlockStmt:
						for i, s := range pp.List {
							if s == ast.Stmt(p) && i+1 < len(pp.List) {
								if is, ok := pp.List[i+1].(*ast.IfStmt); ok && refersTo(info, is.Cond, errVar) && terminates(is.Body) {
									good = true
								}
							}
						}
					}
				}
			}
			r.Check(good, rule, key, w.Pos(call.Pos()), "reader error is propagated by the drain", "the error of `"+types.ExprString(call)+"` is discarded or not tested right after the call")
			return true
		})
		r.Unit("%s: %s — %d error-returning reader calls", rule, fname, n)
		r.Floor(rule, n, 5, "error-returning reader calls in "+fname)
	}
}

// C14.prefetch — the prefetched prefix is measured by its constant size.
func c14Prefetch(e *Env) {
	const rule = "C14.prefetch"
	w, r := e.W, e.R
	r.Explainf("C14.prefetch: `offset` counts body bytes consumed from the start of the body and the prefetched prefix occupies [0, Size()). Every method the body stream calls on its prefetchedBytes reader is Size (the immutable length) or Read; Len() — which shrinks as the handler reads — or Seek would make the comparisons with offset/contentLength in Read and in the drain disagree (sibling agreement between the two).")
	field := w.Field("pkg/protocol/http1/ext", "bodyStream", "prefetchedBytes")
	if field == nil {
		r.Anchor(rule, "ext.bodyStream.prefetchedBytes")
		return
	}
	allowed := map[string]bool{"Size": true, "Read": true}
	n := 0
	for _, fi := range declaredNonTest(w) {
		if fi.Pkg.PkgPath != pkgExt {
			continue
		}
		info := fi.Pkg.TypesInfo
		fname := w.FuncName(fi.Obj)
		k := 0
		ast.Inspect(fi.Decl.Body, func(nd ast.Node) bool {
			call, ok := nd.(*ast.CallExpr)
			if !ok {
				return true
			}
			se, ok := call.Fun.(*ast.SelectorExpr)
			if !ok || usedVar(info, se.X) != field {
				return true
			}
			n++
			k++
			r.Check(allowed[se.Sel.Name], rule, fmt.Sprintf("%s:prefetched.%s#%d", fname, se.Sel.Name, k), w.Pos(call.Pos()), "prefetched prefix is measured with Size() (or read with Read)", "`"+types.ExprString(call)+"`: "+se.Sel.Name+"() depends on how much the handler already read; the drain then skips the wrong number of bytes and eats the start of the next request")
			return true
		})
	}
	r.Floor(rule, n, 3, "calls on bodyStream.prefetchedBytes")
}

// rootVar resolves an identifier used inside an inlined helper to the caller's variable that
// was passed for it (parameter binding of the typestate engine).
func rootVar(c *esp.Ctx, info *types.Info, e ast.Expr) *types.Var {
	v := usedVar(info, e)
	if v == nil {
		return nil
	}
	r, _ := c.Root(v).(*types.Var)
	return r
}
