package rules

import (
	"fmt"
	"go/ast"
	"go/token"
	"go/types"
	"sort"

	"hzcheck/core"
	"hzcheck/esp"
)

func init() {
	register("C17", c17Tables, c17Cookie, c17Keep, c17Slot, c17Fill, c17Stale, c17CTL, c04Slots, c07Order, c17DeepCopy, c17ParseFresh, c09DstTrunc, func(e *Env) {
		dispatchAgreement(e, "C17.dispatch", func(fi *core.FuncInfo) bool { return fi.Obj.Name() == "ParseBytes" && fi.Pkg.PkgPath == pkgProto })
	})
}

// tablesIndexedIn returns the 256/16-entry constant tables indexed inside fi, by expression.
type idxUse struct {
	table []int
	name  string
	index ast.Expr
	node  *ast.IndexExpr
}

func tablesIndexedIn(w *core.World, fi *core.FuncInfo) []idxUse {
	var out []idxUse
	info := fi.Pkg.TypesInfo
	ast.Inspect(fi.Decl.Body, func(n ast.Node) bool {
		if ie, ok := n.(*ast.IndexExpr); ok {
			if t, name, ok := byteTable(w, info, ie.X); ok && (len(t) == 256 || len(t) == 16) {
				out = append(out, idxUse{t, name, ie.Index, ie})
			}
		}
		return true
	})
	return out
}

// hasByteCase reports whether fi compares a byte with the constant c (==) anywhere.
func hasByteCase(fi *core.FuncInfo, c int) bool {
	info := fi.Pkg.TypesInfo
	found := false
	ast.Inspect(fi.Decl.Body, func(n ast.Node) bool {
		// `x == c` and `x != c` both special-case the byte (the latter with the branches swapped)
		if be, ok := n.(*ast.BinaryExpr); ok && (be.Op == token.EQL || be.Op == token.NEQ) {
			if v, ok := constInt(info, be.Y); ok && v == c {
				found = true
			}
			if v, ok := constInt(info, be.X); ok && v == c {
				found = true
			}
		}
		if cc, ok := n.(*ast.CaseClause); ok {
			for _, l := range cc.List {
				if v, ok := constInt(info, l); ok && v == c {
					found = true
				}
			}
		}
		return !found
	})
	return found
}

// C17.tables — encoder and decoder tables agree.
func c17Tables(e *Env) {
	const rule = "C17.tables"
	w, r := e.W, e.R
	r.Explainf("C17.tables: the tables are resolved from the functions that index them. Hex: the table the percent-decoders index maps every character of the alphabets the encoders index (upper and lower hex digits) back to its value and every other byte to 16 (all 256 entries); the encoders emit '%%', alphabet[c>>4], alphabet[c&15] in that order. Query: the table AppendQuotedArg indexes escapes '%%', '+', '&', '=' (and '#'), the encoder maps ' ' to '+' and the query decoder maps '+' to ' '. Path: the table AppendQuotedPath indexes escapes '%%', '?', '#', and the decoder the normaliser uses has no '+' case. Every byte an encoder emits raw is one its decoder leaves unchanged.")
	qArg := w.Func("internal/bytesconv", "", "AppendQuotedArg")
	qPath := w.Func("internal/bytesconv", "", "AppendQuotedPath")
	dArg := w.Func("pkg/protocol", "", "decodeArgAppend")
	dPath := w.Func("pkg/protocol", "", "decodeArgAppendNoPlus")
	if qArg == nil || qPath == nil || dArg == nil || dPath == nil {
		r.Anchor(rule, "bytesconv.AppendQuotedArg / AppendQuotedPath / protocol.decodeArgAppend / decodeArgAppendNoPlus")
		return
	}
	// hex decoder table(s)
	var hexDec []int
	hexName := ""
	for _, d := range []*core.FuncInfo{dArg, dPath} {
		uses := tablesIndexedIn(w, d)
		r.Check(len(uses) >= 2, rule, w.FuncName(d.Obj)+":uses-hex-table", w.Pos(d.Decl.Pos()), "decoder looks both hex digits up in a constant table", fmt.Sprintf("%d constant-table lookups found", len(uses)))
		for _, u := range uses {
			if len(u.table) == 256 {
				if hexDec != nil && hexName != u.name {
					r.Fail(rule, "hex:one-table", w.Pos(u.node.Pos()), "both decoders use the same hex table", "tables "+hexName+" and "+u.name)
				}
				hexDec, hexName = u.table, u.name
			}
		}
	}
	// encoder alphabets
	alph := map[string][]int{}
	for _, q := range []*core.FuncInfo{qArg, qPath} {
		info := q.Pkg.TypesInfo
		qname := w.FuncName(q.Obj)
		var esc []int
		escName := ""
		nEmit := 0
		ast.Inspect(q.Decl.Body, func(n ast.Node) bool {
			call, ok := n.(*ast.CallExpr)
			if !ok || !isBuiltin(info, call, "append") || len(call.Args) != 4 {
				return true
			}
			pc, ok := constInt(info, call.Args[1])
			hi, ok1 := unparen(call.Args[2]).(*ast.IndexExpr)
			lo, ok2 := unparen(call.Args[3]).(*ast.IndexExpr)
			if !ok || pc != '%' || !ok1 || !ok2 {
				return true
			}
			nEmit++
			ta, na, okA := byteTable(w, info, hi.X)
			tb, nb, okB := byteTable(w, info, lo.X)
			shapeOK := false
			if bh, ok := unparen(hi.Index).(*ast.BinaryExpr); ok && bh.Op == token.SHR {
				if s, ok := constInt(info, bh.Y); ok && s == 4 {
					if bl, ok := unparen(lo.Index).(*ast.BinaryExpr); ok && bl.Op == token.AND {
						if m, ok := constInt(info, bl.Y); ok && m == 15 && types.ExprString(bh.X) == types.ExprString(bl.X) {
							shapeOK = true
						}
					}
				}
			}
			r.Check(okA && okB && na == nb && len(ta) == 16 && shapeOK, rule, qname+":escape-shape", w.Pos(call.Pos()), "escape sequence is '%', alphabet[c>>4], alphabet[c&15]", "escape emitted as `"+types.ExprString(call)+"`")
			if okA && len(ta) == 16 {
				alph[na] = ta
			}
			_ = tb
			return true
		})
		r.Check(nEmit >= 1, rule, qname+":has-escape", w.Pos(q.Decl.Pos()), "encoder emits percent escapes", "no `append(dst, '%', …)` found")
		for _, u := range tablesIndexedIn(w, q) {
			if len(u.table) == 256 {
				esc, escName = u.table, u.name
			}
		}
		if esc == nil {
			r.Fail(rule, qname+":escape-table", w.Pos(q.Decl.Pos()), "encoder decides by a constant 256-entry table", "no such table indexed")
			continue
		}
		r.Finite += 256
		var must []int
		isArg := q == qArg
		if isArg {
			must = []int{'%', '+', '&', '=', '#'}
		} else {
			must = []int{'%', '?', '#'}
		}
		for _, c := range must {
			r.Check(esc[c] != 0, rule, fmt.Sprintf("%s:escapes:%q", qname, rune(c)), w.Pos(q.Decl.Pos()), fmt.Sprintf("%s marks %q for escaping", escName, rune(c)), fmt.Sprintf("%s[%q] == 0: the byte is emitted raw although the matching parser treats it as a delimiter / escape introducer", escName, rune(c)))
		}
		// bytes emitted raw must be decoder-neutral; control bytes and non-ASCII are escaped
		bad := []string{}
		for c := 0; c < 256; c++ {
			if esc[c] == 0 && (c < 0x21 && !(isArg && c == ' ') || c >= 0x7f) {
				bad = append(bad, fmt.Sprintf("%#02x", c))
			}
		}
		r.Check(len(bad) == 0, rule, qname+":no-raw-ctl", w.Pos(q.Decl.Pos()), "control, space and non-ASCII bytes are never emitted raw", "emitted raw: "+fmt.Sprint(bad))
	}
	if hexDec != nil {
		r.Finite += 256
		var anames []string
		for k := range alph {
			anames = append(anames, k)
		}
		sort.Strings(anames)
		// the lower-case alphabet is used by WriteHexInt; include both spellings of the digits
		expect := map[int]int{}
		for _, a := range alph {
			for i, ch := range a {
				expect[ch] = i
			}
		}
		for i, ch := range "0123456789abcdef" {
			expect[int(ch)] = i
		}
		for i, ch := range "0123456789ABCDEF" {
			expect[int(ch)] = i
		}
		bad := ""
		for c := 0; c < 256 && bad == ""; c++ {
			want, isHex := expect[c]
			if !isHex {
				want = 16
			}
			if hexDec[c] != want {
				bad = fmt.Sprintf("%s[%#02x]=%d, want %d", hexName, c, hexDec[c], want)
			}
		}
		r.Check(bad == "" && len(alph) >= 1, rule, "hex:inverse", "-", fmt.Sprintf("%s inverts the encoder alphabet(s) %v on all 256 bytes (non-hex → 16)", hexName, anames), "hex table and alphabet disagree: "+bad)
	}
	// space <-> plus; path decoder has no plus case
	r.Check(hasByteCase(qArg, ' '), rule, "query:space-to-plus", w.Pos(qArg.Decl.Pos()), "query encoder special-cases ' '", "no ' ' case in AppendQuotedArg")
	r.Check(hasByteCase(dArg, '+') && hasByteCase(dArg, '%'), rule, "query:plus-to-space", w.Pos(dArg.Decl.Pos()), "query decoder handles '+' and '%'", "decodeArgAppend lacks a '+' or '%' case")
	r.Check(!hasByteCase(dPath, '+') && hasByteCase(dPath, '%'), rule, "path:no-plus", w.Pos(dPath.Decl.Pos()), "path decoder handles '%' and leaves '+' alone", "decodeArgAppendNoPlus has a '+' case (or no '%' case)")
}

// C17.cookie — every attribute the cookie writer emits is one the parser recognises.
func c17Cookie(e *Env) {
	const rule = "C17.cookie"
	w, r := e.W, e.R
	r.Explainf("C17.cookie: sibling agreement between Cookie.AppendBytes (and its helpers) and Cookie.ParseBytes: every attribute-name / SameSite-value constant the writer appends is compared against by the parser (case-insensitive comparator), so what is written can be read back.")
	wr := w.Func("pkg/protocol", "Cookie", "AppendBytes")
	pa := w.Func("pkg/protocol", "Cookie", "ParseBytes")
	if wr == nil || pa == nil {
		r.Anchor(rule, "Cookie.AppendBytes / Cookie.ParseBytes")
		return
	}
	collect := func(fi *core.FuncInfo) map[*types.Var]bool {
		out := map[*types.Var]bool{}
		info := fi.Pkg.TypesInfo
		ast.Inspect(fi.Decl.Body, func(n ast.Node) bool {
			if se, ok := n.(*ast.SelectorExpr); ok {
				if v := usedVar(info, se); isPkgLevel(v) && v.Pkg().Path() == pkgBytestr {
					if _, ok := constBytes(w, v); ok {
						out[v] = true
					}
				}
			}
			return true
		})
		return out
	}
	// both sides may have moved part of their work into same-package helpers
	collectAll := func(fi *core.FuncInfo) map[*types.Var]bool {
		out := map[*types.Var]bool{}
		for _, hf := range withHelpers(w, fi, 2) {
			for v := range collect(hf) {
				out[v] = true
			}
		}
		return out
	}
	emitted, parsed := collectAll(wr), collectAll(pa)
	var names []string
	byName := map[string]*types.Var{}
	for v := range emitted {
		names = append(names, v.Name())
		byName[v.Name()] = v
	}
	sort.Strings(names)
	n := 0
	for _, nm := range names {
		v := byName[nm]
		s, _ := constBytes(w, v)
		if len(s) <= 2 { // separators such as "; " or "="
			continue
		}
		n++
		r.Check(parsed[v], rule, "attr:"+nm, w.Pos(wr.Decl.Pos()), fmt.Sprintf("attribute %q written by the cookie serialiser is recognised by the parser", s), fmt.Sprintf("Cookie.ParseBytes never compares against %s (%q): a cookie written with it does not parse back to the same attributes", nm, s))
	}
	r.Floor(rule, n, 9, "attribute constants emitted by Cookie.AppendBytes")
	_ = esp.T
}
