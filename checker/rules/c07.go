package rules

import (
	"fmt"
	"go/ast"
	"go/token"
	"go/types"
	"sort"

	"hzcheck/esp"
)

func init() {
	register("C07", c07Writers, c07Order, c07FS, c07Clean, c07Root, c07Own, c07Found, c03Cap, c07LazyBuf, c06Own, c07Fresh)
}

// C07.writers — URI.path only ever holds normaliser output.
func c07Writers(e *Env) {
	const rule = "C07.writers"
	w, r := e.W, e.R
	r.Explainf("C07.writers: who-may-write: every store to the field URI.path in the module is `normalizePath(…)`, a `[:0]` reset of itself, or an append-copy of another URI's path; no element store `u.path[i] = …` exists. URI.Path() therefore only hands out what the normaliser produced.")
	path := w.Field("pkg/protocol", "URI", "path")
	norm := w.Func("pkg/protocol", "", "normalizePath")
	if path == nil || norm == nil {
		r.Anchor(rule, "protocol.URI.path / protocol.normalizePath")
		return
	}
	n := 0
	for _, fi := range declaredNonTest(w) {
		info := fi.Pkg.TypesInfo
		fname := w.FuncName(fi.Obj)
		k := 0
		ast.Inspect(fi.Decl.Body, func(nd ast.Node) bool {
			as, ok := nd.(*ast.AssignStmt)
			if !ok {
				return true
			}
			for i, l := range as.Lhs {
				l = unparen(l)
				if ie, ok := l.(*ast.IndexExpr); ok && usedVar(info, ie.X) == path {
					n++
					k++
					r.Fail(rule, fmt.Sprintf("%s:store#%d", fname, k), w.Pos(as.Pos()), "URI.path holds only normaliser output", "an element of URI.path is overwritten in place")
					continue
				}
				if usedVar(info, l) != path {
					continue
				}
				n++
				k++
				key := fmt.Sprintf("%s:store#%d", fname, k)
				ok := false
				if len(as.Rhs) == len(as.Lhs) && as.Tok == token.ASSIGN {
					rhs := unparen(as.Rhs[i])
					switch x := rhs.(type) {
					case *ast.CallExpr:
						if calleeOf(info, x) == norm.Obj {
							ok = true
						}
						if isBuiltin(info, x, "append") && len(x.Args) == 2 && x.Ellipsis.IsValid() {
							if se, isS := unparen(x.Args[0]).(*ast.SliceExpr); isS && usedVar(info, se.X) == path && usedVar(info, x.Args[1]) == path {
								ok = true
							}
						}
					case *ast.SliceExpr:
						if usedVar(info, x.X) == path && x.Low == nil {
							if z, isC := constInt(info, x.High); isC && z == 0 {
								ok = true
							}
						}
					}
				}
				r.Check(ok, rule, key, w.Pos(as.Pos()), "URI.path holds only normaliser output", "URI.path is assigned `"+types.ExprString(as.Rhs[0])+"`, which is neither normalizePath(…), a reset, nor a copy of another normalised path: a raw path could be routed on or served from")
			}
			return true
		})
	}
	r.Floor(rule, n, 5, "stores to URI.path")
}

// C07.order — decode once, then resolve.
func c07Order(e *Env) {
	const rule = "C07.order"
	w, r := e.W, e.R
	r.Explainf("C07.order: in the normaliser exactly one percent-decoding call exists, it decodes the source parameter with the variant that leaves '+' alone, and it precedes every segment-cutting search (`//`, `/./`, `/../`, trailing `/..`, all four present, read from their constants); nothing decodes after the first cut — a decode after resolution would let %%2e%%2e through; a leading slash is added before.")
	norm := w.Func("pkg/protocol", "", "normalizePath")
	if norm == nil {
		r.Anchor(rule, "protocol.normalizePath")
		return
	}
	info := norm.Pkg.TypesInfo
	fname := w.FuncName(norm.Obj)
	src := norm.Obj.Type().(*types.Signature).Params().At(1)
	// events are looked for in the normaliser and, one level down, in the helpers of the package
	// it calls (a cut loop moved into its own function happens where that function is called)
	type decodeEv struct {
		call *ast.CallExpr // the decoding call itself
		info *types.Info
		at   token.Pos // position in the normaliser
		top  bool      // directly in the normaliser
	}
	var decodes []decodeEv
	cuts := map[string]token.Pos{}
	var firstCut token.Pos
	var leading token.Pos
	var visit func(body *ast.BlockStmt, binfo *types.Info, at token.Pos, depth int)
	visit = func(body *ast.BlockStmt, binfo *types.Info, at token.Pos, depth int) {
		ast.Inspect(body, func(n ast.Node) bool {
			call, ok := n.(*ast.CallExpr)
			if !ok {
				return true
			}
			f := calleeOf(binfo, call)
			if f == nil {
				return true
			}
			pos := at
			if depth == 0 {
				pos = call.Pos()
			}
			switch {
			case esp.Is(f, pkgProto, "", "decodeArgAppendNoPlus"), esp.Is(f, pkgProto, "", "decodeArgAppend"):
				decodes = append(decodes, decodeEv{call, binfo, pos, depth == 0})
			case esp.Is(f, pkgProto, "", "addLeadingSlash"):
				if !leading.IsValid() || pos < leading {
					leading = pos
				}
			case f.Pkg() != nil && f.Pkg().Path() == "bytes" && (f.Name() == "Index" || f.Name() == "LastIndex") && len(call.Args) == 2:
				if s, ok := constBytesExpr(w, binfo, call.Args[1]); ok {
					if _, dup := cuts[s]; !dup {
						cuts[s] = pos
					}
					if !firstCut.IsValid() || pos < firstCut {
						firstCut = pos
					}
				}
			default:
				if depth == 0 {
					if d := w.DeclOf(f); d != nil && d.Pkg == norm.Pkg && d.Decl.Body != nil && d.Obj != norm.Obj {
						visit(d.Decl.Body, d.Pkg.TypesInfo, call.Pos(), 1)
					}
				}
			}
			return true
		})
	}
	visit(norm.Decl.Body, info, token.NoPos, 0)
	r.Check(len(decodes) == 1, rule, fname+":one-decode", w.Pos(norm.Decl.Pos()), "the path is percent-decoded exactly once", fmt.Sprintf("%d decoding calls in the normaliser", len(decodes)))
	if len(decodes) >= 1 {
		d := decodes[0]
		r.Check(esp.Is(calleeOf(d.info, d.call), pkgProto, "", "decodeArgAppendNoPlus"), rule, fname+":decode-no-plus", w.Pos(d.call.Pos()), "path decoding leaves '+' alone", "the path is decoded with the query variant that maps '+' to space")
		r.Check(d.top && len(d.call.Args) == 2 && usedVar(info, d.call.Args[1]) == src, rule, fname+":decode-source", w.Pos(d.call.Pos()), "the decoder reads the source path parameter", "decode input is not the source parameter of the normaliser")
		last := decodes[len(decodes)-1]
		r.Check(firstCut.IsValid() && last.at < firstCut, rule, fname+":decode-before-cut", w.Pos(d.call.Pos()), "decoding precedes every segment resolution", "a percent-decode happens at or after the first segment cut: an encoded `..` survives resolution")
		r.Check(leading.IsValid() && leading < d.at, rule, fname+":leading-slash", w.Pos(norm.Decl.Pos()), "a leading slash is ensured before decoding", "no addLeadingSlash before the decode")
	}
	// every return lies behind the last resolution step: an early return skips it
	var lastCut token.Pos
	for _, p := range cuts {
		if p > lastCut {
			lastCut = p
		}
	}
	nRet := 0
	ast.Inspect(norm.Decl.Body, func(n ast.Node) bool {
		if _, isLit := n.(*ast.FuncLit); isLit {
			return false
		}
		if rs, ok := n.(*ast.ReturnStmt); ok {
			nRet++
			r.Check(lastCut.IsValid() && (rs.Pos() > lastCut || (rs.Pos() <= lastCut && lastCut < rs.End())), rule, fmt.Sprintf("%s:return#%d:after-resolution", fname, nRet), w.Pos(rs.Pos()), "every return of the normaliser lies behind all segment-resolution steps", "`"+nodeString(rs)+"` returns before the last dot-segment search: on that path `/./`, `/../` or a trailing `/..` (possibly produced by percent-decoding) stay in the path")
		}
		return true
	})
	var have []string
	for s := range cuts {
		have = append(have, s)
	}
	sort.Strings(have)
	for _, want := range []string{"//", "/./", "/../", "/.."} {
		_, ok := cuts[want]
		r.Check(ok, rule, fname+":cut:"+want, w.Pos(norm.Decl.Pos()), "the normaliser resolves `"+want+"`", fmt.Sprintf("no search for %q (found %q)", want, have))
	}
}

// C07.fs — the file handler opens only what passed the path checks.
func c07FS(e *Env) {
	const rule = "C07.fs"
	w, r := e.W, e.R
	r.Explainf("C07.fs: in fsHandler.handleRequest the variable concatenated with the root is assigned only from ctx.Path(), the rewrite hook, or stripTrailingSlashes of itself; every open of a file path built from it is structurally dominated by the NUL-byte rejection and, for rewritten paths, by the `/../` rejection (both terminating with an error response).")
	hr := w.Func("pkg/app", "fsHandler", "handleRequest")
	root := w.Field("pkg/app", "fsHandler", "root")
	rewrite := w.Field("pkg/app", "fsHandler", "pathRewrite")
	if hr == nil || root == nil || rewrite == nil {
		r.Anchor(rule, "fsHandler.handleRequest / root / pathRewrite")
		return
	}
	info := hr.Pkg.TypesInfo
	fname := w.FuncName(hr.Obj)
	par := parents(hr.Decl)
	// the path variable: the one converted to string and added to h.root
	var pathVar *types.Var
	ast.Inspect(hr.Decl.Body, func(n ast.Node) bool {
		if be, ok := n.(*ast.BinaryExpr); ok && be.Op == token.ADD && usedVar(info, be.X) == root {
			if v := usedVar(info, be.Y); v != nil {
				// pathStr := string(path)
				ast.Inspect(hr.Decl.Body, func(m ast.Node) bool {
					if as, ok := m.(*ast.AssignStmt); ok && len(as.Lhs) == 1 && len(as.Rhs) == 1 && usedVar(info, as.Lhs[0]) == v {
						if c, ok := unparen(as.Rhs[0]).(*ast.CallExpr); ok && len(c.Args) == 1 {
							if tv, ok := info.Types[c.Fun]; ok && tv.IsType() {
								pathVar = usedVar(info, c.Args[0])
							}
						}
					}
					return true
				})
			}
		}
		return true
	})
	if pathVar == nil {
		r.Anchor(rule, "`h.root + string(path)` in handleRequest")
		return
	}
	// sources of pathVar
	k := 0
	ast.Inspect(hr.Decl.Body, func(n ast.Node) bool {
		as, ok := n.(*ast.AssignStmt)
		if !ok {
			return true
		}
		for i, l := range as.Lhs {
			if usedVar(info, l) != pathVar || len(as.Rhs) != len(as.Lhs) {
				continue
			}
			k++
			ok := false
			if c, isC := unparen(as.Rhs[i]).(*ast.CallExpr); isC {
				f := calleeOf(info, c)
				switch {
				case esp.Is(f, pkgApp, "RequestContext", "Path"):
					ok = true
				case esp.Is(f, pkgApp, "", "stripTrailingSlashes") && len(c.Args) == 1 && usedVar(info, c.Args[0]) == pathVar:
					ok = true
				case f == nil && usedVar(info, c.Fun) == rewrite:
					ok = true
				}
			}
			r.Check(ok, rule, fmt.Sprintf("%s:path-source#%d", fname, k), w.Pos(as.Pos()), "served path comes from ctx.Path(), the rewrite hook or stripTrailingSlashes", "path is assigned `"+types.ExprString(as.Rhs[i])+"`")
		}
		return true
	})
	r.Floor(rule, k, 2, "assignments of the served path")
	// opens
	nul := func(cond ast.Expr) bool {
		found := false
		ast.Inspect(cond, func(n ast.Node) bool {
			if c, ok := n.(*ast.CallExpr); ok {
				if f := calleeOf(info, c); f != nil && f.Pkg() != nil && f.Pkg().Path() == "bytes" && f.Name() == "IndexByte" && len(c.Args) == 2 && usedVar(info, c.Args[0]) == pathVar {
					if z, ok := constInt(info, c.Args[1]); ok && z == 0 {
						found = true
					}
				}
			}
			return true
		})
		return found
	}
	dotdot := func(cond ast.Expr) bool {
		found := false
		ast.Inspect(cond, func(n ast.Node) bool {
			if c, ok := n.(*ast.CallExpr); ok {
				if f := calleeOf(info, c); f != nil && f.Pkg() != nil && f.Pkg().Path() == "bytes" && f.Name() == "Index" && len(c.Args) == 2 && usedVar(info, c.Args[0]) == pathVar {
					if s, ok := constBytesExpr(w, info, c.Args[1]); ok && s == "/../" {
						found = true
					}
				}
			}
			return true
		})
		return found
	}
	condOf := func(is *ast.IfStmt) ast.Node {
		if is.Init != nil {
			return is // init statement carries the search call
		}
		return is.Cond
	}
	nOpen := 0
	ast.Inspect(hr.Decl.Body, func(n ast.Node) bool {
		call, ok := n.(*ast.CallExpr)
		if !ok {
			return true
		}
		f := calleeOf(info, call)
		if f == nil || (f.Name() != "openFSFile" && f.Name() != "openIndexFile") {
			return true
		}
		nOpen++
		key := fmt.Sprintf("%s:%s#%d", fname, f.Name(), nOpen)
		// what is opened is the root-joined path: the argument is (a local assigned only from)
		// `h.root + <string of the path variable>`
		if len(call.Args) >= 1 {
			var pathArg ast.Expr = call.Args[0]
			if len(call.Args) >= 2 && types.Identical(info.TypeOf(call.Args[0]), info.TypeOf(call.Args[len(call.Args)-1])) == false {
				for _, a := range call.Args {
					if bt, ok := info.TypeOf(a).Underlying().(*types.Basic); ok && bt.Kind() == types.String {
						pathArg = a
						break
					}
				}
			}
			rooted := func(x ast.Expr) bool {
				be, ok := unparen(x).(*ast.BinaryExpr)
				return ok && be.Op == token.ADD && usedVar(info, be.X) == root
			}
			okRoot, why := rooted(pathArg), "`"+types.ExprString(pathArg)+"`"
			if av := usedVar(info, pathArg); av != nil && !av.IsField() && !okRoot {
				nDef, nRooted := 0, 0
				ast.Inspect(hr.Decl.Body, func(m ast.Node) bool {
					if as, ok := m.(*ast.AssignStmt); ok && len(as.Lhs) == len(as.Rhs) {
						for i, l := range as.Lhs {
							id, isID := l.(*ast.Ident)
							if !isID || !(info.Defs[id] == types.Object(av) || info.Uses[id] == types.Object(av)) {
								continue
							}
							nDef++
							if rooted(as.Rhs[i]) {
								nRooted++
							}
						}
					}
					return true
				})
				okRoot = nDef > 0 && nDef == nRooted
			}
			r.Check(okRoot, rule, key+":under-root", w.Pos(call.Pos()), "the path handed to the opener is the root joined with the request path",
				why+" is not (a local assigned only from) `h.root + …`: the handler opens the request path as it stands — relative to the process's working directory or the file system root, outside the configured root")
		}
		okNul, okDD := false, false
		// statements structurally dominating the call
		for cur := ast.Node(call); cur != nil; cur = par[cur] {
			blk, isBlk := par[cur].(*ast.BlockStmt)
			if !isBlk {
				continue
			}
			for _, s := range blk.List {
				if s.Pos() >= cur.Pos() {
					break
				}
				is, ok := s.(*ast.IfStmt)
				if !ok {
					continue
				}
				if terminates(is.Body) && is.Else == nil {
					probe := condOf(is)
					if e, isE := probe.(ast.Expr); isE && nul(e) {
						okNul = true
					} else if st, isS := probe.(*ast.IfStmt); isS {
						found := false
						ast.Inspect(st.Init, func(m ast.Node) bool {
							if ex, ok := m.(ast.Expr); ok && nul(ex) {
								found = true
							}
							return !found
						})
						if found {
							okNul = true
						}
					}
				}
				// if h.pathRewrite != nil { if n := bytes.Index(path, "/../"); n >= 0 { … return } }
				cnd := unparen(is.Cond)
				// a bool local defined once as `h.pathRewrite != nil` stands for that test
				if id, isID := cnd.(*ast.Ident); isID {
					if bv, _ := info.ObjectOf(id).(*types.Var); bv != nil && !bv.IsField() {
						var defs []ast.Expr
						ast.Inspect(hr.Decl.Body, func(m ast.Node) bool {
							if as, ok := m.(*ast.AssignStmt); ok && len(as.Lhs) == len(as.Rhs) {
								for i, l := range as.Lhs {
									if usedVar(info, l) == bv {
										defs = append(defs, as.Rhs[i])
									}
								}
							}
							return true
						})
						if len(defs) == 1 {
							cnd = unparen(defs[0])
						}
					}
				}
				if be, ok := cnd.(*ast.BinaryExpr); ok && be.Op == token.NEQ && usedVar(info, be.X) == rewrite {
					for _, s2 := range is.Body.List {
						if is2, ok := s2.(*ast.IfStmt); ok && terminates(is2.Body) {
							found := false
							ast.Inspect(is2, func(m ast.Node) bool {
								if ex, ok := m.(ast.Expr); ok && m != ast.Node(is2.Body) && dotdot(ex) {
									found = true
								}
								return !found
							})
							if found {
								okDD = true
							}
						}
					}
				}
			}
		}
		r.Check(okNul, rule, key+":nul-rejected", w.Pos(call.Pos()), "a path containing a NUL byte is rejected before the file is opened", "the open is not dominated by the `bytes.IndexByte(path, 0) >= 0 ⇒ reject` check")
		r.Check(okDD, rule, key+":dotdot-rejected", w.Pos(call.Pos()), "a rewritten path containing /../ is rejected before the file is opened", "the open is not dominated by the `/../` rejection for rewritten paths")
		return true
	})
	r.Floor(rule, nOpen, 2, "file opens in handleRequest")
}

// C07.clean — the redirect cleaner's output always starts with '/' (structural part only).
func c07Clean(e *Env) {
	const rule = "C07.clean"
	w, r := e.W, e.R
	r.Explainf("C07.clean: utils.CleanPath returns \"/\" for the empty path and prepends '/' when the path does not start with one (first-byte test before the main loop); the segment resolution itself is value-level and not decided.")
	fi := w.Func("pkg/common/utils", "", "CleanPath")
	if fi == nil {
		r.Anchor(rule, "utils.CleanPath")
		return
	}
	info := fi.Pkg.TypesInfo
	fname := w.FuncName(fi.Obj)
	p := fi.Obj.Type().(*types.Signature).Params().At(0)
	emptyOK, leadOK := false, false
	for _, st := range fi.Decl.Body.List {
		is, ok := st.(*ast.IfStmt)
		if !ok {
			continue
		}
		if be, ok := unparen(is.Cond).(*ast.BinaryExpr); ok && be.Op == token.EQL && usedVar(info, be.X) == p {
			if s, ok := constBytesExpr(w, info, be.Y); ok && s == "" && terminates(is.Body) {
				if rs, ok := is.Body.List[len(is.Body.List)-1].(*ast.ReturnStmt); ok && len(rs.Results) == 1 {
					if v, ok := constBytesExpr(w, info, rs.Results[0]); ok && v == "/" {
						emptyOK = true
					}
				}
			}
		}
		if be, ok := unparen(is.Cond).(*ast.BinaryExpr); ok && be.Op == token.NEQ {
			if ie, ok := unparen(be.X).(*ast.IndexExpr); ok && usedVar(info, ie.X) == p {
				if z, ok := constInt(info, ie.Index); ok && z == 0 {
					if c, ok := constInt(info, be.Y); ok && c == '/' {
						leadOK = true
					}
				}
			}
		}
	}
	r.Check(emptyOK, rule, fname+":empty", w.Pos(fi.Decl.Pos()), "CleanPath(\"\") is \"/\"", "no `if p == \"\" { return \"/\" }` prologue")
	r.Check(leadOK, rule, fname+":leading-slash", w.Pos(fi.Decl.Pos()), "CleanPath tests the first byte for '/' before resolving", "no `if p[0] != '/'` branch that inserts the leading slash")
}
