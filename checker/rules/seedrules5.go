package rules

// Rules added after the fifth round of independently seeded changes (seeded/*-r5-*).

import (
	"fmt"
	"go/ast"
	"go/token"
	"go/types"
	"golang.org/x/tools/go/cfg"
	"strings"

	"golang.org/x/tools/go/ssa"

	"hzcheck/core"
	"hzcheck/esp"
	"hzcheck/zone"
)

// guardConds lists the conditions under which n executes inside fn's body: the condition of
// every enclosing if whose then-branch contains n, and "!(cond)" entries (neg=true) for every
// enclosing else-branch; tagless-switch case conditions count as then-conditions.
type guardCond struct {
	cond ast.Expr
	neg  bool
}

func guardConds(par map[ast.Node]ast.Node, n ast.Node) []guardCond {
	var out []guardCond
	for cur := n; cur != nil; cur = par[cur] {
		if is, ok := par[cur].(*ast.IfStmt); ok {
			if cur == ast.Node(is.Body) {
				out = append(out, guardCond{is.Cond, false})
			} else if cur == ast.Node(is.Else) {
				out = append(out, guardCond{is.Cond, true})
			}
		}
		if cc, ok := par[cur].(*ast.CaseClause); ok {
			if sw, ok := par[par[cc]].(*ast.SwitchStmt); ok && sw.Tag == nil {
				for _, s := range cc.Body {
					if ast.Node(s) == cur {
						if len(cc.List) == 1 {
							out = append(out, guardCond{cc.List[0], false})
						} else {
							out = append(out, guardCond{nil, true}) // default / multi-way: opaque
						}
					}
				}
			}
		}
		if _, ok := par[cur].(*ast.FuncDecl); ok {
			break
		}
	}
	return out
}

// C18.drain — the unread rest of a streamed request body is drained after every response.
func c18Drain(e *Env) {
	const rule = "C18.drain"
	w, r := e.W, e.R
	r.Explainf("C18.drain: after a response has been flushed, the serve loop hands a streamed request body to ext.ReleaseBodyStream, which reads and discards what the handler left unread. This must happen for every streamed request — also when the connection is about to be closed (shutdown in progress, Connection: close): closing a socket with unread data in its receive queue makes the kernel send a reset and discard what is still in the send queue, so the client loses the tail of the response it was promised. Structural form: every call of ReleaseBodyStream in Server.Serve (or a same-package helper it calls) is guarded by nothing but `Request.IsBodyStream()`; any further condition (`&& !connectionClose`) skips the drain on some path. [does not decide what ReleaseBodyStream reads]")
	serve := w.Func("pkg/protocol/http1", "Server", "Serve")
	if serve == nil {
		r.Anchor(rule, "http1.Server.Serve")
		return
	}
	n := 0
	for _, fi := range withHelpers(w, serve, 2) {
		info := fi.Pkg.TypesInfo
		par := parents(fi.Decl)
		fname := w.FuncName(fi.Obj)
		ast.Inspect(fi.Decl.Body, func(nd ast.Node) bool {
			c, ok := nd.(*ast.CallExpr)
			if !ok || !esp.Is(calleeOf(info, c), pkgExt, "", "ReleaseBodyStream") {
				return true
			}
			n++
			key := fmt.Sprintf("%s:ReleaseBodyStream#%d", fname, n)
			bad := ""
			for _, g := range guardConds(par, c) {
				if g.cond == nil || g.neg {
					bad = "an else/default branch"
					if g.cond != nil {
						bad = "the else-branch of `" + types.ExprString(g.cond) + "`"
					}
					break
				}
				gc, isCall := unparen(g.cond).(*ast.CallExpr)
				if isCall {
					if f := calleeOf(info, gc); f != nil && f.Name() == "IsBodyStream" {
						continue
					}
				}
				bad = "`" + types.ExprString(g.cond) + "`"
				break
			}
			if bad == "" && fi != serve {
				// the call sits in a helper: the guards at the helper's call sites in Serve count too
				sinfo := serve.Pkg.TypesInfo
				spar := parents(serve.Decl)
				ast.Inspect(serve.Decl.Body, func(m ast.Node) bool {
					if hc, ok := m.(*ast.CallExpr); ok && calleeOf(sinfo, hc) == fi.Obj && bad == "" {
						for _, g := range guardConds(spar, hc) {
							if g.cond != nil && !g.neg {
								if gc, isCall := unparen(g.cond).(*ast.CallExpr); isCall {
									if f := calleeOf(sinfo, gc); f != nil && f.Name() == "IsBodyStream" {
										continue
									}
								}
								// `if err = helper(); err != nil` style conditions contain the call itself
								if within(hc, g.cond) {
									continue
								}
							}
							bad = "a condition at the call of " + fi.Obj.Name() + " in Serve"
							if g.cond != nil {
								bad += " (`" + types.ExprString(g.cond) + "`)"
							}
							break
						}
					}
					return true
				})
			}
			r.Check(bad == "", rule, key, w.Pos(c.Pos()), "the drain of a streamed request body depends on IsBodyStream() only",
				"the call is additionally guarded by "+bad+": when that guard fails the unread rest of the body stays in the socket, and closing the connection then resets it and truncates the response in flight")
			return true
		})
	}
	r.Floor(rule, n, 1, "ReleaseBodyStream calls in the serve loop")
	// the drain comes before every exit that can leave the connection open: between the flush of
	// the response and the drain, the only returns are error exits (`if err != nil { return }`,
	// also as `if err = f(); err != nil`), after which the connection is closed
	{
		info := serve.Pkg.TypesInfo
		par := parents(serve.Decl)
		fname := w.FuncName(serve.Obj)
		var release, lastFlush token.Pos
		ast.Inspect(serve.Decl.Body, func(nd ast.Node) bool {
			if c, ok := nd.(*ast.CallExpr); ok {
				if f := calleeOf(info, c); f != nil {
					if esp.Is(f, pkgExt, "", "ReleaseBodyStream") && !release.IsValid() {
						release = c.Pos()
					}
				}
			}
			return true
		})
		if release.IsValid() {
			ast.Inspect(serve.Decl.Body, func(nd ast.Node) bool {
				if c, ok := nd.(*ast.CallExpr); ok && c.Pos() < release {
					if f := calleeOf(info, c); f != nil && f.Name() == "Flush" {
						if _, inLit := enclosing(par, c, func(m ast.Node) bool { _, ok := m.(*ast.FuncLit); return ok }).(*ast.FuncLit); !inLit && c.Pos() > lastFlush {
							lastFlush = c.Pos()
						}
					}
				}
				return true
			})
			k := 0
			ast.Inspect(serve.Decl.Body, func(nd ast.Node) bool {
				if _, isLit := nd.(*ast.FuncLit); isLit {
					return false
				}
				rs, ok := nd.(*ast.ReturnStmt)
				if !ok || !lastFlush.IsValid() || rs.Pos() < lastFlush || rs.Pos() > release {
					return true
				}
				k++
				errExit := false
				for _, g := range guardConds(par, rs) {
					if g.cond != nil && !g.neg {
						if isErr, isNil := errNilCond(info, g.cond, true); isErr && !isNil {
							errExit = true
						}
					}
				}
				r.Check(errExit, rule, fmt.Sprintf("%s:return-before-drain#%d", fname, k), w.Pos(rs.Pos()), "between the response flush and the drain only error exits leave the loop",
					"this return leaves Serve after the response was flushed but before the unread rest of a streamed body is drained, and not on an error path: where the transport calls Serve again for the same connection (netpoll with IdleTimeout 0) the leftover body bytes are parsed as the next request")
				return true
			})
		}
	}
}

// C19.idle — every request after the first waits for its first bytes before the tracer starts.
func c19Idle(e *Env) {
	const rule = "C19.idle"
	w, r := e.W, e.R
	r.Explainf("C19.idle: for every request after the first on a connection the serve loop first peeks for the first bytes under the idle timeout and leaves silently (errIdleTimeout, no tracer call, no response) when none arrive — that is how the end of a keep-alive connection produces no extra start/finish pair. The if-statement that contains that peek and the errIdleTimeout exit is guarded by a single comparison of the per-connection request counter (a local incremented once per loop iteration) equivalent to `counter > 1`, and by nothing else: any further conjunct (`&& zr.Len() == 0`) lets a later request skip the wait, so a connection that ends after 1–3 stray bytes starts a tracer pair for a request that never arrives.")
	serve := w.Func("pkg/protocol/http1", "Server", "Serve")
	idleVar, _ := w.Object("pkg/protocol/http1", "errIdleTimeout").(*types.Var)
	if serve == nil || idleVar == nil {
		r.Anchor(rule, "http1.Server.Serve / errIdleTimeout")
		return
	}
	info := serve.Pkg.TypesInfo
	fname := w.FuncName(serve.Obj)
	par := parents(serve.Decl)
	// counters: integer locals with a ++ statement directly in a for body
	counters := map[*types.Var]bool{}
	ast.Inspect(serve.Decl.Body, func(nd ast.Node) bool {
		if fs, ok := nd.(*ast.ForStmt); ok {
			for _, s := range fs.Body.List {
				if inc, ok := s.(*ast.IncDecStmt); ok && inc.Tok == token.INC {
					if v := usedVar(info, inc.X); v != nil && !v.IsField() {
						counters[v] = true
					}
				}
			}
		}
		return true
	})
	// a same-package helper that does the wait: Peek + errIdleTimeout in its body; inside it the
	// Peek must be unconditional
	idleHelper := map[*types.Func]bool{}
	for _, hf := range withHelpers(w, serve, 1)[1:] {
		hinfo := hf.Pkg.TypesInfo
		hpar := parents(hf.Decl)
		var peek *ast.CallExpr
		idle := false
		ast.Inspect(hf.Decl.Body, func(m ast.Node) bool {
			switch x := m.(type) {
			case *ast.CallExpr:
				if f := calleeOf(hinfo, x); f != nil && f.Name() == "Peek" && peek == nil {
					peek = x
				}
			case *ast.Ident:
				if hinfo.ObjectOf(x) == types.Object(idleVar) {
					idle = true
				}
			}
			return true
		})
		if peek != nil && idle {
			idleHelper[hf.Obj] = true
			gs := guardConds(hpar, peek)
			r.Check(len(gs) == 0, rule, w.FuncName(hf.Obj)+":peek-unconditional", w.Pos(peek.Pos()), "the idle-wait helper peeks unconditionally",
				"inside the helper the Peek is itself guarded: some follow-up request does not wait for its first bytes")
		}
	}
	n := 0
	ast.Inspect(serve.Decl.Body, func(nd ast.Node) bool {
		is, ok := nd.(*ast.IfStmt)
		if !ok {
			return true
		}
		// innermost if whose then-block holds a Peek call and mentions errIdleTimeout
		hasPeek, hasIdle := false, false
		ast.Inspect(is.Body, func(m ast.Node) bool {
			switch x := m.(type) {
			case *ast.CallExpr:
				if f := calleeOf(info, x); f != nil && f.Name() == "Peek" {
					hasPeek = true
				} else if f != nil && idleHelper[f] {
					hasPeek, hasIdle = true, true
				}
			case *ast.Ident:
				if info.ObjectOf(x) == types.Object(idleVar) {
					hasIdle = true
				}
			}
			return true
		})
		if !hasPeek || !hasIdle {
			return true
		}
		// must be the outermost such if: the guards above it count too
		for p := par[is]; p != nil; p = par[p] {
			if _, isIf := p.(*ast.IfStmt); isIf {
				return true // nested inside another if that also matches or guards it: handled there
			}
			if _, isFor := p.(*ast.ForStmt); isFor {
				break
			}
		}
		n++
		key := fmt.Sprintf("%s:idle-wait#%d", fname, n)
		ok2, why := false, ""
		if be, isBin := unparen(is.Cond).(*ast.BinaryExpr); isBin {
			x, y, op := be.X, be.Y, be.Op
			if c, isC := constInt(info, x); isC {
				// constant on the left: mirror
				_ = c
				x, y = y, x
				switch op {
				case token.LSS:
					op = token.GTR
				case token.LEQ:
					op = token.GEQ
				case token.GTR:
					op = token.LSS
				case token.GEQ:
					op = token.LEQ
				}
			}
			v := usedVar(info, x)
			c, isC := constInt(info, y)
			switch {
			case v == nil || !counters[v]:
				why = "the condition `" + types.ExprString(is.Cond) + "` does not compare the request counter of the connection"
			case !isC:
				why = "the request counter is not compared with a constant"
			case (op == token.GTR && c == 1) || (op == token.GEQ && c == 2) || (op == token.NEQ && c == 1):
				ok2 = true
			default:
				why = "`" + types.ExprString(is.Cond) + "` is not equivalent to `counter > 1`"
			}
		} else {
			why = "the idle wait is guarded by `" + types.ExprString(is.Cond) + "`, not by the request counter alone: a request for which the extra condition fails starts the tracer without having waited for its first bytes"
		}
		r.Check(ok2, rule, key, w.Pos(is.Pos()), "every request after the first waits for its first bytes under the idle timeout", why)
		return false
	})
	r.Floor(rule, n, 1, "idle-wait blocks (Peek + errIdleTimeout) in the serve loop")
}

// C08.stale — the compressed sidecar is current only if its mtime EQUALS the original's.
func c08Stale(e *Env) {
	const rule = "C08.stale"
	w, r := e.W, e.R
	r.Explainf("C08.stale: the file handler stamps a compressed sidecar (<file>.hertz.gz) with exactly the modification time of the file it was made from (os.Chtimes in the compressor) and later decides whether the sidecar is still current by comparing the two modification times. Because the writer copies the time, the only sound test is (in)equality: `a.ModTime() != b.ModTime()` or `!a.ModTime().Equal(b.ModTime())`. An ordering test (After/Before) keeps serving the old bytes when the original is replaced by a file with an older time stamp (rollback, cp -p, rsync -t). Every if-condition in package app that relates two ModTime() results must be an equality/inequality.")
	p := w.Pkg("pkg/app")
	if p == nil {
		r.Anchor(rule, "package pkg/app")
		return
	}
	info := p.TypesInfo
	isModTime := func(x ast.Expr) bool {
		c, ok := unparen(x).(*ast.CallExpr)
		if !ok {
			return false
		}
		f := calleeOf(info, c)
		return f != nil && f.Name() == "ModTime"
	}
	n, nChtimes := 0, 0
	for _, fi := range declaredNonTest(w) {
		if fi.Pkg != p || fi.Decl.Body == nil {
			continue
		}
		fname := w.FuncName(fi.Obj)
		k := 0
		ast.Inspect(fi.Decl.Body, func(nd ast.Node) bool {
			if c, ok := nd.(*ast.CallExpr); ok {
				if f := calleeOf(info, c); f != nil && f.Name() == "Chtimes" && f.Pkg() != nil && f.Pkg().Path() == "os" {
					nChtimes++
				}
			}
			is, ok := nd.(*ast.IfStmt)
			if !ok {
				return true
			}
			// collect comparisons relating two ModTime() results inside the condition
			ast.Inspect(is.Cond, func(m ast.Node) bool {
				switch x := m.(type) {
				case *ast.BinaryExpr:
					if isModTime(x.X) && isModTime(x.Y) {
						n++
						k++
						r.Check(x.Op == token.NEQ || x.Op == token.EQL, rule, fmt.Sprintf("%s:modtime-compare#%d", fname, k), w.Pos(x.Pos()),
							"sidecar freshness is decided by (in)equality of the two modification times", "`"+types.ExprString(x)+"` is not an equality test")
					}
				case *ast.CallExpr:
					if se, ok := unparen(x.Fun).(*ast.SelectorExpr); ok && isModTime(se.X) && len(x.Args) == 1 && isModTime(x.Args[0]) {
						n++
						k++
						r.Check(se.Sel.Name == "Equal", rule, fmt.Sprintf("%s:modtime-compare#%d", fname, k), w.Pos(x.Pos()),
							"sidecar freshness is decided by (in)equality of the two modification times",
							"`"+types.ExprString(x)+"` orders the two time stamps: the compressor stamps the sidecar with exactly the original's time, so a replaced original with an OLDER time stamp still counts as current and its previous content is served")
					}
				}
				return true
			})
			return true
		})
	}
	r.Floor(rule, n, 1, "comparisons of two ModTime() results in package app")
	r.Floor(rule, nChtimes, 1, "os.Chtimes calls stamping the sidecar")
}

// C06.atomic — a rejected registration leaves the tree untouched.
func c06Atomic(e *Env) {
	const rule = "C06.atomic"
	w, r := e.W, e.R
	r.Explainf("C06.atomic: router.insert rejects a duplicate registration by panicking; applications recover and keep serving, so the routes accepted before must still dispatch with their own pattern and parameter names. In the control-flow graph of router.insert no assignment to a field of a tree node lies on a path that can still reach a panic: the duplicate test comes before the first store. (go/cfg, backward reachability from each panic block; within the panic's own block only the statements before it count.)")
	ins := w.Func("pkg/route", "router", "insert")
	node := w.Named("pkg/route", "node")
	if ins == nil || node == nil {
		r.Anchor(rule, "route.router.insert / node")
		return
	}
	info := ins.Pkg.TypesInfo
	fname := w.FuncName(ins.Obj)
	st, _ := node.Underlying().(*types.Struct)
	nodeField := map[*types.Var]bool{}
	for i := 0; st != nil && i < st.NumFields(); i++ {
		nodeField[st.Field(i)] = true
	}
	isPanic := func(n ast.Node) bool {
		es, ok := n.(*ast.ExprStmt)
		if !ok {
			return false
		}
		c, ok := es.X.(*ast.CallExpr)
		return ok && isBuiltin(info, c, "panic")
	}
	g := cfg.New(ins.Decl.Body, func(c *ast.CallExpr) bool { return !isBuiltin(info, c, "panic") })
	// blocks that can reach a panic block
	var panicBlocks []*cfg.Block
	for _, b := range g.Blocks {
		for _, n := range b.Nodes {
			if isPanic(n) {
				panicBlocks = append(panicBlocks, b)
			}
		}
	}
	r.Floor(rule, len(panicBlocks), 2, "panic sites in router.insert")
	preds := map[*cfg.Block][]*cfg.Block{}
	for _, b := range g.Blocks {
		for _, s := range b.Succs {
			preds[s] = append(preds[s], b)
		}
	}
	reach := map[*cfg.Block]bool{}
	var work []*cfg.Block
	for _, pb := range panicBlocks {
		work = append(work, preds[pb]...)
	}
	for len(work) > 0 {
		b := work[len(work)-1]
		work = work[:len(work)-1]
		if reach[b] {
			continue
		}
		reach[b] = true
		work = append(work, preds[b]...)
	}
	storeIn := func(n ast.Node) (string, token.Pos) {
		var name string
		var pos token.Pos
		ast.Inspect(n, func(m ast.Node) bool {
			if as, ok := m.(*ast.AssignStmt); ok {
				for _, l := range as.Lhs {
					if se, ok := unparen(l).(*ast.SelectorExpr); ok {
						if f := usedVar(info, se); f != nil && nodeField[f] && name == "" {
							name, pos = types.ExprString(l), as.Pos()
						}
					}
				}
			}
			return true
		})
		return name, pos
	}
	nViol := 0
	seen := map[token.Pos]bool{}
	report := func(name string, pos token.Pos) {
		if seen[pos] {
			return
		}
		seen[pos] = true
		nViol++
		r.Fail(rule, fmt.Sprintf("%s:store-before-panic#%d", fname, nViol), w.Pos(pos), "no store to a tree node precedes a registration panic",
			"`"+name+" = …` lies on a path that can still reach a panic: a rejected registration has already overwritten state of the accepted route (its pattern, parameter names or links) when it panics")
	}
	for b := range reach {
		for _, n := range b.Nodes {
			if name, pos := storeIn(n); name != "" {
				report(name, pos)
			}
		}
	}
	for _, pb := range panicBlocks {
		for _, n := range pb.Nodes {
			if isPanic(n) {
				break
			}
			if name, pos := storeIn(n); name != "" {
				report(name, pos)
			}
		}
	}
	if nViol == 0 {
		r.OK(rule, fname+":panic-paths", w.Pos(ins.Decl.Pos()), fmt.Sprintf("no node store on any path to the %d panic sites (%d blocks reach one)", len(panicBlocks), len(reach)))
	}
}

// cmpKey canonicalises a comparison of two side-effect-free operands: the key of `a >= b` is
// the key of `b <= a` and of `!(a < b)`. ok is false for anything else.
func cmpKey(x ast.Expr, neg bool) (string, bool) {
	x = unparen(x)
	if u, ok := x.(*ast.UnaryExpr); ok && u.Op == token.NOT {
		return cmpKey(u.X, !neg)
	}
	be, ok := x.(*ast.BinaryExpr)
	if !ok {
		return "", false
	}
	a, b, op := types.ExprString(be.X), types.ExprString(be.Y), be.Op
	switch op {
	case token.LSS, token.LEQ, token.GTR, token.GEQ:
	default:
		return "", false
	}
	if neg {
		op = map[token.Token]token.Token{token.LSS: token.GEQ, token.GEQ: token.LSS, token.GTR: token.LEQ, token.LEQ: token.GTR}[op]
	}
	// write as a <op> b with op ∈ {<, <=}
	if op == token.GTR || op == token.GEQ {
		a, b = b, a
		op = map[token.Token]token.Token{token.GTR: token.LSS, token.GEQ: token.LEQ}[op]
	}
	return a + " " + op.String() + " " + b, true
}

// C14.identity — the read-until-limit prefetch is used only for bodies that will be refused.
func c14Identity(e *Env) {
	const rule = "C14.identity"
	w, r := e.W, e.R
	r.Explainf("C14.identity: the streaming prefetch has two readers: the fixed-size one takes exactly min(Content-Length, 8 KiB) bytes; the identity one keeps reading until it holds MORE than the limit (or the peer closes) and therefore swallows bytes behind the body. The identity reader is sound only for a body that is then refused with errBodyTooLarge (or has no declared length). In ext.ReadBodyWithStreaming the condition that selects the fixed-size reader must contain, as a conjunct, exactly the negation of the too-large test that follows (`contentLength > maxBodySize`): with `contentLength < maxBodySize` a body of exactly the limit goes to the identity reader, which consumes the first byte of the next pipelined request.")
	fi := w.Func("pkg/protocol/http1/ext", "", "ReadBodyWithStreaming")
	if fi == nil {
		r.Anchor(rule, "ext.ReadBodyWithStreaming")
		return
	}
	info := fi.Pkg.TypesInfo
	fname := w.FuncName(fi.Obj)
	tooLarge := tooLargeVars(w)
	// a bool local defined once from a comparison stands for that comparison
	boolDef := map[*types.Var]ast.Expr{}
	nDef := map[*types.Var]int{}
	ast.Inspect(fi.Decl.Body, func(nd ast.Node) bool {
		if as, ok := nd.(*ast.AssignStmt); ok && len(as.Lhs) == len(as.Rhs) {
			for i, l := range as.Lhs {
				if id, ok := unparen(l).(*ast.Ident); ok {
					if v, _ := info.ObjectOf(id).(*types.Var); v != nil && !v.IsField() {
						nDef[v]++
						boolDef[v] = as.Rhs[i]
					}
				}
			}
		}
		return true
	})
	var subst func(x ast.Expr) ast.Expr
	subst = func(x ast.Expr) ast.Expr {
		x = unparen(x)
		switch y := x.(type) {
		case *ast.Ident:
			if v, _ := info.ObjectOf(y).(*types.Var); v != nil && nDef[v] == 1 {
				if _, isCmp := cmpKey(boolDef[v], false); isCmp {
					return unparen(boolDef[v])
				}
			}
		case *ast.UnaryExpr:
			if y.Op == token.NOT {
				return &ast.UnaryExpr{Op: token.NOT, X: subst(y.X), OpPos: y.OpPos}
			}
		}
		return x
	}
	cmpKeyS := func(x ast.Expr, neg bool) (string, bool) { return cmpKey(subst(x), neg) }
	// conjunction atoms of a condition (or of its negation): `a && b`, `!(a || b)` …; ok is
	// false when the formula is not a pure conjunction
	type atom struct {
		x   ast.Expr
		neg bool
	}
	var atoms func(x ast.Expr, neg bool) ([]atom, bool)
	atoms = func(x ast.Expr, neg bool) ([]atom, bool) {
		x = unparen(x)
		switch y := x.(type) {
		case *ast.UnaryExpr:
			if y.Op == token.NOT {
				return atoms(y.X, !neg)
			}
		case *ast.BinaryExpr:
			if (y.Op == token.LAND && !neg) || (y.Op == token.LOR && neg) {
				a, ok1 := atoms(y.X, neg)
				b, ok2 := atoms(y.Y, neg)
				return append(a, b...), ok1 && ok2
			}
			if y.Op == token.LAND || y.Op == token.LOR {
				return nil, false
			}
		}
		return []atom{{x, neg}}, true
	}
	// the too-large test: an if (without else) whose body returns or assigns a too-large error;
	// its condition is a conjunction containing one comparison
	var tl ast.Expr
	tlNeg := false
	ast.Inspect(fi.Decl.Body, func(nd ast.Node) bool {
		is, ok := nd.(*ast.IfStmt)
		if !ok || is.Else != nil {
			return true
		}
		hit := false
		for _, st := range is.Body.List {
			switch y := st.(type) {
			case *ast.ReturnStmt:
				hit = hit || mentionsVar(info, y, tooLarge)
			case *ast.AssignStmt:
				for _, rh := range y.Rhs {
					hit = hit || mentionsVar(info, rh, tooLarge)
				}
			}
		}
		if !hit {
			return true
		}
		if as, ok := atoms(is.Cond, false); ok {
			for _, a := range as {
				if _, isCmp := cmpKeyS(a.x, a.neg); isCmp {
					tl, tlNeg = a.x, a.neg
				}
			}
		}
		return true
	})
	if tl == nil {
		r.Anchor(rule, fname+": `if <length> > <limit> { … errBodyTooLarge }`")
		return
	}
	want, _ := cmpKeyS(tl, !tlNeg)
	// the reader that reads until the limit is exceeded mentions the too-large error itself
	isIdentity := func(f *types.Func) bool {
		d := w.DeclOf(f)
		return d != nil && d.Decl.Body != nil && mentionsVar(d.Pkg.TypesInfo, d.Decl.Body, tooLarge)
	}
	// the selection: if/else whose arms call two different same-package readers, one of them
	// the identity reader
	n := 0
	ast.Inspect(fi.Decl.Body, func(nd ast.Node) bool {
		is, ok := nd.(*ast.IfStmt)
		if !ok || is.Else == nil {
			return true
		}
		callIn := func(b ast.Node) *types.Func {
			var out *types.Func
			ast.Inspect(b, func(m ast.Node) bool {
				if c, ok := m.(*ast.CallExpr); ok && out == nil {
					if f := calleeOf(info, c); f != nil && f.Pkg() == fi.Obj.Pkg() {
						out = f
					}
				}
				return out == nil
			})
			return out
		}
		a, b := callIn(is.Body), callIn(is.Else)
		if a == nil || b == nil || a == b || isIdentity(a) == isIdentity(b) {
			return true
		}
		n++
		// condition under which the fixed-size reader runs
		fixed, ident, negate := a, b, false
		if isIdentity(a) {
			fixed, ident, negate = b, a, true
		}
		found := false
		as, pure := atoms(is.Cond, negate)
		for _, at := range as {
			if k, ok := cmpKeyS(at.x, at.neg); ok && k == want {
				found = true
			}
		}
		// second clause: a declared length always goes to the fixed-size reader. The identity
		// reader copies whatever is buffered, up to the capacity of the (pooled, possibly grown)
		// destination, before it looks at the limit — for a declared length larger than the limit
		// that can include the bytes behind the body, i.e. the next pipelined request.
		onlyDeclared := pure
		extra := ""
		for _, at := range as {
			x := unparen(at.x)
			be, isBin := x.(*ast.BinaryExpr)
			isLenTest := false
			if isBin {
				if c, isC := constInt(info, be.Y); isC && (c == 0 || c == -1) {
					isLenTest = true
				}
				if c, isC := constInt(info, be.X); isC && (c == 0 || c == -1) {
					isLenTest = true
				}
			}
			if !isLenTest {
				onlyDeclared = false
				extra = types.ExprString(at.x)
			}
		}
		r.Check(onlyDeclared, rule, fmt.Sprintf("%s:reader-selection#%d:declared-length-fixed", fname, n), w.Pos(is.Pos()), "every declared length is prefetched with the fixed-size reader",
			fmt.Sprintf("the fixed-size reader %s also requires `%s`: a body with a declared length that fails it is prefetched by %s, which takes everything buffered up to cap(dst) — with a pooled buffer larger than the body that includes the start of the next pipelined request", fixed.Name(), extra, ident.Name()))
		r.Check(pure && found, rule, fmt.Sprintf("%s:reader-selection#%d", fname, n), w.Pos(is.Pos()), "the fixed-size reader is selected exactly when the body is not too large",
			fmt.Sprintf("the condition under which %s runs (from `%s`) is not a conjunction containing `!(%s)` (canonical: %s): for a length the too-large test accepts, %s — which reads until it holds more than the limit — consumes bytes behind the body", fixed.Name(), types.ExprString(is.Cond), types.ExprString(tl), want, ident.Name()))
		return true
	})
	r.Floor(rule, n, 1, "reader selections in "+fname)
}

// C14.skipbound — the drain never skips more than what is left of the body.
func c14SkipBound(e *Env) {
	const rule = "C14.skipbound"
	w, r := e.W, e.R
	r.Explainf("C14.skipbound: when the handler leaves part of a fixed-length streamed body unread, bodyStream.skipRest discards it from the connection in a loop that keeps a remaining-length counter (`needSkipLen -= skip`). Zone analysis (go/ssa): at every `reader.Skip(x)` whose amount x is subtracted from such a counter, x ≤ counter holds at the call. If the amount is taken from the reader's buffered length after the clamp, one buffered read that holds the end of the body and the start of the next request is skipped whole: the next request disappears and the counter goes negative.")
	fi := w.Func("pkg/protocol/http1/ext", "bodyStream", "skipRest")
	if fi == nil {
		r.Anchor(rule, "ext.bodyStream.skipRest")
		return
	}
	n := 0
	z := getZone(w)
	// the counting loop may live in skipRest itself or in a same-package helper it calls
	for _, hf := range withHelpers(w, fi, 1) {
		c14SkipBoundIn(w, r, z, hf, &n)
	}
	r.Floor(rule, n, 1, "Skip calls whose amount is subtracted from a remaining-length counter in "+w.FuncName(fi.Obj)+" (and its helpers)")
}

func c14SkipBoundIn(w *core.World, r *core.Report, z *zoneCtx, fi *core.FuncInfo, total *int) {
	const rule = "C14.skipbound"
	fn := w.SSAFunc(fi)
	if fn == nil {
		return
	}
	fname := w.FuncName(fi.Obj)
	// counter for an amount: X of a `X - amount` whose result feeds a phi that X comes from
	counterOf := map[ssa.Value]ssa.Value{}
	for _, b := range fn.Blocks {
		for _, ins := range b.Instrs {
			if bo, ok := ins.(*ssa.BinOp); ok && bo.Op == token.SUB {
				if ph, ok := bo.X.(*ssa.Phi); ok {
					for _, ed := range ph.Edges {
						if ed == ssa.Value(bo) {
							counterOf[bo.Y] = bo.X
						}
					}
				}
			}
		}
	}
	if len(counterOf) == 0 {
		return
	}
	n := 0
	opts := zone.Options{
		Custom: func(a *zone.Analyzer, d *zone.DBM, ins ssa.Instruction) {
			call, ok := ins.(*ssa.Call)
			if !ok || !call.Call.IsInvoke() || call.Call.Method.Name() != "Skip" || len(call.Call.Args) != 1 {
				return
			}
			ctr := counterOf[call.Call.Args[0]]
			if ctr == nil || d == nil {
				return
			}
			n++
			ub := zone.Tub(d, a.IntTerm(call.Call.Args[0]), a.IntTerm(ctr))
			r.Check(ub <= 0, rule, fmt.Sprintf("%s:Skip#%d:amount<=remaining", fname, n), w.Pos(call.Pos()), "the amount skipped is bounded by the remaining body length",
				fmt.Sprintf("the analysis cannot bound the Skip amount by the remaining-length counter it is subtracted from (upper bound of the difference: %s): bytes of the next request on the connection are discarded", boundStr(ub)))
		},
	}
	z.prog.Analyze(fn, opts)
	r.Unit("%s: %s — %d counted Skip calls", rule, fname, n)
	*total += n
}

// C20.pure — evaluating a cached expression tree does not write to the tree.
func c20Pure(e *Env) {
	const rule = "C20.pure"
	w, r := e.W, e.R
	r.Explainf("C20.pure: the compiled expression tree of a struct type is cached in the VM and evaluated by every goroutine that validates a value of that type. The Run method of every ExprNode implementation in internal/tagexpr therefore only reads its node: no assignment (or ++/--) whose target is a field of the receiver, an element of a slice/map held in a receiver field, or an element reached through a local that was assigned from a receiver field. A scratch slice kept in the node (`args := f.argv; args[k] = …`) makes two concurrent validations decide on each other's operands.")
	p := w.Pkg("internal/tagexpr")
	if p == nil {
		r.Anchor(rule, "package internal/tagexpr")
		return
	}
	info := p.TypesInfo
	nodeObj, _ := p.Types.Scope().Lookup("ExprNode").(*types.TypeName)
	if nodeObj == nil {
		r.Anchor(rule, "tagexpr.ExprNode")
		return
	}
	iface, _ := nodeObj.Type().Underlying().(*types.Interface)
	n := 0
	for _, fi := range declaredNonTest(w) {
		if fi.Pkg != p || fi.Decl.Body == nil || fi.Obj.Name() != "Run" || fi.Decl.Recv == nil {
			continue
		}
		rn := recvNamed(fi.Obj)
		if rn == nil || iface == nil || !(types.Implements(types.NewPointer(rn), iface) || types.Implements(rn, iface)) {
			continue
		}
		if len(fi.Decl.Recv.List) == 0 || len(fi.Decl.Recv.List[0].Names) == 0 {
			n++
			r.OK(rule, w.FuncName(fi.Obj)+":pure", w.Pos(fi.Decl.Pos()), "Run has no receiver name: it cannot write to its node")
			continue
		}
		recv, _ := info.Defs[fi.Decl.Recv.List[0].Names[0]].(*types.Var)
		n++
		fname := w.FuncName(fi.Obj)
		// locals aliasing receiver state (reference types only)
		alias := map[*types.Var]bool{}
		rooted := func(x ast.Expr) bool {
			for {
				switch y := unparen(x).(type) {
				case *ast.SelectorExpr:
					x = y.X
				case *ast.IndexExpr:
					x = y.X
				case *ast.SliceExpr:
					x = y.X
				case *ast.StarExpr:
					x = y.X
				case *ast.Ident:
					v, _ := info.ObjectOf(y).(*types.Var)
					return v != nil && (v == recv || alias[v])
				default:
					return false
				}
			}
		}
		isRef := func(t types.Type) bool {
			switch t.Underlying().(type) {
			case *types.Slice, *types.Map, *types.Pointer:
				return true
			}
			return false
		}
		for pass := 0; pass < 2; pass++ {
			ast.Inspect(fi.Decl.Body, func(nd ast.Node) bool {
				if as, ok := nd.(*ast.AssignStmt); ok && len(as.Lhs) == len(as.Rhs) {
					for i, l := range as.Lhs {
						if id, ok := unparen(l).(*ast.Ident); ok {
							if v, _ := info.ObjectOf(id).(*types.Var); v != nil && v != recv && isRef(v.Type()) {
								if _, isSel := unparen(as.Rhs[i]).(*ast.Ident); !isSel && rooted(as.Rhs[i]) {
									alias[v] = true
								}
							}
						}
					}
				}
				return true
			})
		}
		bad, badPos := "", token.NoPos
		ast.Inspect(fi.Decl.Body, func(nd ast.Node) bool {
			var targets []ast.Expr
			switch x := nd.(type) {
			case *ast.AssignStmt:
				targets = x.Lhs
			case *ast.IncDecStmt:
				targets = []ast.Expr{x.X}
			}
			for _, t := range targets {
				if _, isID := unparen(t).(*ast.Ident); isID {
					continue // rebinding a local
				}
				if rooted(t) && bad == "" {
					bad, badPos = types.ExprString(t), t.Pos()
				}
			}
			return true
		})
		if bad == "" {
			r.OK(rule, fname+":pure", w.Pos(fi.Decl.Pos()), "Run does not write to the shared node")
		} else {
			r.Fail(rule, fname+":pure", w.Pos(badPos), "Run does not write to the shared node",
				"`"+bad+"` is written during evaluation and is reached from the receiver: the node is cached per struct type and shared by all goroutines validating that type, so concurrent validations overwrite each other's operands")
		}
	}
	r.Floor(rule, n, 8, "Run methods of ExprNode implementations")
}

// C16.err — an error produced while generating is looked at on every path.
func c16Err(e *Env) {
	const rule = "C16.err"
	r := e.R
	r.Explainf("C16.err: in the hz generator package an error returned by a call and bound to a variable must be read (tested, returned, passed on) on every path before the variable is overwritten, goes out of scope with the loop iteration, or the function returns. go/cfg liveness per definition: a definition `err := f()` / `x, err = f()` from which some path reaches the end of the function, a re-definition, or the back edge of the enclosing loop without a read is reported. Such a path reports success although a route could not be inserted into the router tree, so the generated router no longer registers every declared route.")
	w, err := e.HZ()
	if err != nil {
		r.Fail(rule, "engine:load-cmd-hz", "-", "cmd/hz module loads", err.Error())
		return
	}
	errT := types.Universe.Lookup("error").Type()
	nDefs := 0
	keyCount := map[string]int{}
	for _, fi := range declaredNonTest(w) {
		if fi.Decl.Body == nil || !strings.HasSuffix(fi.Pkg.PkgPath, "/cmd/hz/generator") {
			continue
		}
		info := fi.Pkg.TypesInfo
		fname := w.FuncName(fi.Obj)
		check := func(body *ast.BlockStmt, tag string) {
			g := cfg.New(body, func(*ast.CallExpr) bool { return true })
			type def struct {
				v    *types.Var
				blk  *cfg.Block
				idx  int
				node ast.Node
				call string
			}
			var defs []def
			for _, b := range g.Blocks {
				for i, nd := range b.Nodes {
					as, ok := nd.(*ast.AssignStmt)
					if !ok || len(as.Rhs) != 1 {
						continue
					}
					c, ok := unparen(as.Rhs[0]).(*ast.CallExpr)
					if !ok {
						continue
					}
					for _, l := range as.Lhs {
						id, ok := unparen(l).(*ast.Ident)
						if !ok || id.Name == "_" {
							continue
						}
						v, _ := info.ObjectOf(id).(*types.Var)
						if v == nil || v.IsField() || !types.Identical(v.Type(), errT) {
							continue
						}
						defs = append(defs, def{v, b, i, nd, types.ExprString(c.Fun)})
					}
				}
			}
			reads := func(nd ast.Node, v *types.Var) bool {
				found := false
				ast.Inspect(nd, func(m ast.Node) bool {
					if fl, ok := m.(*ast.FuncLit); ok {
						// a closure capturing the variable may read it later
						ast.Inspect(fl, func(k ast.Node) bool {
							if id, ok := k.(*ast.Ident); ok && info.Uses[id] == types.Object(v) {
								found = true
							}
							return true
						})
						return false
					}
					if as, ok := m.(*ast.AssignStmt); ok {
						// identifiers on the left of = are writes, not reads
						for _, rh := range as.Rhs {
							ast.Inspect(rh, func(k ast.Node) bool {
								if id, ok := k.(*ast.Ident); ok && info.Uses[id] == types.Object(v) {
									found = true
								}
								return true
							})
						}
						for _, l := range as.Lhs {
							if _, isID := unparen(l).(*ast.Ident); !isID {
								ast.Inspect(l, func(k ast.Node) bool {
									if id, ok := k.(*ast.Ident); ok && info.Uses[id] == types.Object(v) {
										found = true
									}
									return true
								})
							}
						}
						return false
					}
					if id, ok := m.(*ast.Ident); ok && info.Uses[id] == types.Object(v) {
						found = true
					}
					return !found
				})
				return found
			}
			writes := func(nd ast.Node, v *types.Var) bool {
				as, ok := nd.(*ast.AssignStmt)
				if !ok {
					return false
				}
				for _, l := range as.Lhs {
					if id, ok := unparen(l).(*ast.Ident); ok && info.ObjectOf(id) == types.Object(v) {
						return true
					}
				}
				return false
			}
			// named results are read by every return
			namedResult := map[*types.Var]bool{}
			if sig, ok := fi.Obj.Type().(*types.Signature); ok && tag == "" {
				for i := 0; i < sig.Results().Len(); i++ {
					if sig.Results().At(i).Name() != "" {
						namedResult[sig.Results().At(i)] = true
					}
				}
			}
			for _, d := range defs {
				if namedResult[d.v] {
					continue
				}
				nDefs++
				// forward search for a path without a read
				type item struct {
					b *cfg.Block
					i int
				}
				seen := map[*cfg.Block]bool{}
				work := []item{{d.blk, d.idx + 1}}
				dead := ""
				for len(work) > 0 && dead == "" {
					it := work[len(work)-1]
					work = work[:len(work)-1]
					stopped := false
					for i := it.i; i < len(it.b.Nodes); i++ {
						nd := it.b.Nodes[i]
						if reads(nd, d.v) {
							stopped = true
							break
						}
						if writes(nd, d.v) {
							dead = "it is overwritten at " + w.Pos(nd.Pos())
							stopped = true
							break
						}
					}
					if stopped {
						continue
					}
					if len(it.b.Succs) == 0 {
						dead = "the function (or closure) ends"
						break
					}
					for _, s := range it.b.Succs {
						if s == d.blk && !seen[s] {
							// back at the defining block: the next iteration re-defines it
							seen[s] = true
							unread := true
							for i := 0; i < d.idx; i++ {
								if reads(s.Nodes[i], d.v) {
									unread = false
								}
							}
							if unread {
								dead = "the loop starts its next iteration"
							}
							continue
						}
						if !seen[s] {
							seen[s] = true
							work = append(work, item{s, 0})
						}
					}
				}
				kb := fmt.Sprintf("%s%s:%s←%s", fname, tag, d.v.Name(), d.call)
				keyCount[kb]++
				key := fmt.Sprintf("%s#%d", kb, keyCount[kb])
				if dead == "" {
					r.OK(rule, key, w.Pos(d.node.Pos()), "the error of this call is read on every path")
				} else {
					r.Fail(rule, key, w.Pos(d.node.Pos()), "the error of this call is read on every path",
						fmt.Sprintf("on some path the error returned by %s is never looked at before %s: generation goes on (and reports success) although this step failed", d.call, dead))
				}
			}
		}
		check(fi.Decl.Body, "")
		k := 0
		ast.Inspect(fi.Decl.Body, func(nd ast.Node) bool {
			if fl, ok := nd.(*ast.FuncLit); ok {
				k++
				check(fl.Body, fmt.Sprintf("$%d", k))
			}
			return true
		})
	}
	r.Unit("%s: %d error definitions from calls analysed in cmd/hz/generator", rule, nDefs)
	r.Floor(rule, nDefs, 30, "error definitions from calls in cmd/hz/generator")
}

// C12.fresh — a recycled context starts its chain from the beginning: the reset methods
// rewind the chain state (handlers, index, full path) on every path.
func c12Fresh(e *Env) {
	resetObligations(e, "C12.fresh", func(tg resetTarget, field string) bool {
		if tg.Typ != "RequestContext" {
			return false
		}
		return field == "" || field == "handlers" || field == "index" || field == "fullPath"
	})
}

// C13.copynode — the node ReadFrom copies into is one that Flush empties again.
func c13CopyNode(e *Env) {
	const rule = "C13.copynode"
	w, r := e.W, e.R
	r.Explainf("C13.copynode: standard.Conn.ReadFrom (the body path of every response on a connection that is not an io.ReaderFrom, e.g. TLS) fills one output node in a loop and relies on Flush to empty it when it is full; Flush only resets recyclable nodes (capacity ≤ 8 KiB). When the current node is not recyclable, ReadFrom asks Malloc for a block — but Malloc hands out the REST OF THE CURRENT NODE whenever the free length it tracks exceeds the request (its reuse branch `outputBuffer.len > n`). Rule: in the branch of ReadFrom taken when the node is not recyclable, the Malloc call is preceded by an assignment of 0 to the field Malloc's reuse branch compares, so that a fresh (recyclable) node is linked. Otherwise, after a header block of 8–12 KiB (or > 16 KiB) the copy loop keeps the big node, Flush never resets it, the loop reads into an empty slice and the response ends with io.ErrNoProgress after 16384 body bytes.")
	rf := w.Func("pkg/network/standard", "Conn", "ReadFrom")
	ml := w.Func("pkg/network/standard", "Conn", "Malloc")
	if rf == nil || ml == nil {
		r.Anchor(rule, "standard.Conn.ReadFrom / Malloc")
		return
	}
	info := rf.Pkg.TypesInfo
	// Malloc's reuse branch: if <recv>.<…>.F > n { … return … }
	var freeLen *types.Var
	sig := ml.Obj.Type().(*types.Signature)
	ast.Inspect(ml.Decl.Body, func(n ast.Node) bool {
		is, ok := n.(*ast.IfStmt)
		if !ok || freeLen != nil {
			return true
		}
		lo, hi, isLess := normLess(is.Cond)
		if !isLess || sig.Params().Len() == 0 || usedVar(info, lo) != sig.Params().At(0) {
			return true
		}
		returns := false
		for _, s := range is.Body.List {
			if _, isRet := s.(*ast.ReturnStmt); isRet {
				returns = true
			}
		}
		if f := usedVar(info, hi); returns && f != nil && f.IsField() {
			freeLen = f
		}
		return true
	})
	if freeLen == nil {
		r.Anchor(rule, "the reuse branch `if c.outputBuffer.len > n { … return }` of standard.Conn.Malloc")
		return
	}
	fname := w.FuncName(rf.Obj)
	n := 0
	ast.Inspect(rf.Decl.Body, func(nd ast.Node) bool {
		is, ok := nd.(*ast.IfStmt)
		if !ok {
			return true
		}
		mentionsRecyclable := false
		ast.Inspect(is.Cond, func(m ast.Node) bool {
			if c, ok := m.(*ast.CallExpr); ok {
				if f := calleeOf(info, c); f != nil && f.Name() == "recyclable" {
					mentionsRecyclable = true
				}
			}
			return true
		})
		if !mentionsRecyclable {
			return true
		}
		zeroed := false
		for _, s := range is.Body.List {
			if as, ok := s.(*ast.AssignStmt); ok && len(as.Lhs) == 1 && len(as.Rhs) == 1 && usedVar(info, as.Lhs[0]) == freeLen {
				if c, isC := constInt(info, as.Rhs[0]); isC && c == 0 {
					zeroed = true
				}
			}
			var call *ast.CallExpr
			ast.Inspect(s, func(m ast.Node) bool {
				if c, ok := m.(*ast.CallExpr); ok && calleeOf(info, c) == ml.Obj && call == nil {
					call = c
				}
				return call == nil
			})
			if call != nil {
				n++
				r.Check(zeroed, rule, fmt.Sprintf("%s:Malloc#%d:fresh-node", fname, n), w.Pos(call.Pos()), "a fresh node is linked when the current one is not recyclable",
					fmt.Sprintf("`%s` is not preceded by `%s = 0`: Malloc's reuse branch hands out the rest of the current non-recyclable node, Flush never resets it, and the copy loop ends with io.ErrNoProgress once it is full", types.ExprString(call), freeLen.Name()))
			}
		}
		return true
	})
	if n == 0 {
		r.OK(rule, fname+":no-malloc-under-recyclable-test", w.Pos(rf.Decl.Pos()), "ReadFrom does not obtain its copy node through Malloc")
	}
}

// C10.rewind — a request whose body is a stream is never sent a second time.
func c10Rewind(e *Env) {
	const rule = "C10.rewind"
	w, r := e.W, e.R
	r.Explainf("C10.rewind: sending a request consumes and closes its body stream (req.writeBodyStream ends with CloseBodyStream), so after the first attempt Request.IsBodyStream() is false and a retry predicate that asks it then (client.DefaultRetryIf does) approves a retry that would go out with an EMPTY body. In every function that invokes HostClient.do in a loop, a bool local is assigned from Request.IsBodyStream() BEFORE the loop, and every back edge that re-invokes the exchange is taken only on a branch on which that local is known to be false, or after a user-supplied predicate (a value of type client.RetryIfFunc, which owns the retry decision and may re-arm the body) approved it (ESP typestate: fresh → attempted → not-a-stream | custom-approved → attempted …).")
	do := w.Func("pkg/protocol/http1", "HostClient", "do")
	if do == nil {
		// the thin wrapper was inlined into its caller: the exchange itself plays the role
		do = w.Func("pkg/protocol/http1", "HostClient", "doNonNilReqResp")
	}
	if do == nil {
		r.Anchor(rule, "HostClient.do")
		return
	}
	fns := funcsCalling(w, func(f *types.Func) bool { return f == do.Obj })
	r.Floor(rule, len(fns), 1, "functions invoking HostClient.do")
	for _, fi := range fns {
		info := fi.Pkg.TypesInfo
		fname := w.FuncName(fi.Obj)
		var doCall *ast.CallExpr
		var loop *ast.ForStmt
		par := parents(fi.Decl)
		ast.Inspect(fi.Decl.Body, func(n ast.Node) bool {
			if c, ok := n.(*ast.CallExpr); ok && calleeOf(info, c) == do.Obj {
				doCall = c
				if l, _ := enclosing(par, c, func(m ast.Node) bool { _, ok := m.(*ast.ForStmt); return ok }).(*ast.ForStmt); l != nil {
					loop = l
				}
			}
			return true
		})
		if doCall == nil || loop == nil {
			r.OK(rule, fname+":no-loop", w.Pos(fi.Decl.Pos()), "the exchange is not re-invoked in a loop")
			continue
		}
		// bool local captured from IsBodyStream() before the loop
		var flag *types.Var
		ast.Inspect(fi.Decl.Body, func(n ast.Node) bool {
			as, ok := n.(*ast.AssignStmt)
			if !ok || as.Pos() >= loop.Pos() || len(as.Lhs) != 1 || len(as.Rhs) != 1 {
				return true
			}
			if c, ok := unparen(as.Rhs[0]).(*ast.CallExpr); ok {
				if f := calleeOf(info, c); f != nil && f.Name() == "IsBodyStream" {
					if v := usedVar(info, as.Lhs[0]); v != nil && !v.IsField() {
						flag = v
					}
				}
			}
			return true
		})
		if flag == nil {
			r.Fail(rule, fname+":stream-flag", w.Pos(loop.Pos()), "the body-stream test that vetoes a re-send is captured before the first attempt",
				"no local is assigned from Request.IsBodyStream() before the retry loop: after the first attempt the stream has been consumed and closed, IsBodyStream() is false, and the idempotent-method retry (connection closed by the peer while pooled) re-sends the request with an empty body")
			continue
		}
		// polarity of the flag inside a condition: +1 flag true, -1 flag false, 0 unknown
		var walk func(x ast.Expr, pol int) int
		walk = func(x ast.Expr, pol int) int {
			switch y := unparen(x).(type) {
			case *ast.Ident:
				if info.ObjectOf(y) == types.Object(flag) {
					return pol
				}
			case *ast.UnaryExpr:
				if y.Op == token.NOT {
					return walk(y.X, -pol)
				}
			case *ast.BinaryExpr:
				if (y.Op == token.LAND && pol > 0) || (y.Op == token.LOR && pol < 0) {
					if a := walk(y.X, pol); a != 0 {
						return a
					}
					return walk(y.Y, pol)
				}
			}
			return 0
		}
		retryT := w.Named("pkg/protocol/client", "RetryIfFunc")
		var walkCustom func(x ast.Expr, pol int) int
		walkCustom = func(x ast.Expr, pol int) int {
			switch y := unparen(x).(type) {
			case *ast.CallExpr:
				if calleeOf(info, y) == nil && retryT != nil {
					if n, ok := info.TypeOf(y.Fun).(*types.Named); ok && n.Obj() == retryT.Obj() {
						return pol
					}
				}
			case *ast.UnaryExpr:
				if y.Op == token.NOT {
					return walkCustom(y.X, -pol)
				}
			case *ast.BinaryExpr:
				if (y.Op == token.LAND && pol > 0) || (y.Op == token.LOR && pol < 0) {
					if a := walkCustom(y.X, pol); a != 0 {
						return a
					}
					return walkCustom(y.Y, pol)
				}
			}
			return 0
		}
		rl := &esp.Rule{Name: rule, Init: "fresh",
			Call: func(c *esp.Ctx, call *ast.CallExpr, f *types.Func) {
				if f == do.Obj {
					c.S.TS = "attempted"
				}
			},
			Branch: func(c *esp.Ctx, cond ast.Expr, val bool) {
				if c.S.TS != "attempted" {
					return
				}
				pol := 0
				if val {
					pol = walk(cond, 1)
				} else {
					pol = walk(cond, -1)
				}
				if pol < 0 {
					c.S.TS = "not-a-stream"
					return
				}
				// a user-supplied retry predicate (a value of type client.RetryIfFunc) that said yes:
				// the application has taken over the retry decision, including re-arming the body
				cp := 0
				if val {
					cp = walkCustom(cond, 1)
				} else if walkCustom(cond, 1) < 0 {
					cp = 1
				}
				if cp > 0 {
					c.S.TS = "custom-approved"
				}
			},
			BackEdge: func(c *esp.Ctx, from, to *cfg.Block) {
				if to.Stmt == nil || !within(doCall, to.Stmt) {
					return
				}
				if c.S.TS == "attempted" {
					c.Violate(to.Stmt.Pos(), fname+":resend-of-stream", "the request is sent again on a path that did not establish `"+flag.Name()+" == false` since the last attempt: a request whose body stream was already consumed goes out with an empty body")
				}
			},
		}
		ex := esp.New(w, fi, rl)
		vs := ex.Run(fi)
		r.Unit("%s: %s — flag %s, %d states, %d exits", rule, fname, flag.Name(), ex.Steps, ex.Exits)
		if len(vs) == 0 {
			r.OK(rule, fname+":paths", w.Pos(fi.Decl.Pos()), "every re-send happens only for a request that never had a body stream")
		}
		for _, v := range vs {
			r.Fail(rule, v.Key, w.Pos(v.Pos), "a request with a body stream is sent at most once", v.Msg, v.Path...)
		}
	}
}

// C17.stale — a lazily parsed cache is read only while its validity flag says it is current.
func c17Stale(e *Env) {
	const rule = "C17.stale"
	w, r := e.W, e.R
	r.Explainf("C17.stale: protocol.URI keeps the query twice: the raw string and a parsed argument list filled lazily by a method of the shape `if u.<flag> { return }; u.<cache>.ParseBytes(u.<raw>); u.<flag> = true`. The setters of the raw string clear the flag, not the list. Every other method of the type that reads the cached list therefore does so only after calling the filler, or under a condition that tests the flag; Reset and CopyTo (which write flag and cache together) are exempt. A reader that only looks at the list's length serialises the query the application has just replaced (QueryArgs(); SetQueryString(\"b=2\"); RequestURI() still says a=1), so the string form no longer parses back to what was set.")
	nt := w.Named("pkg/protocol", "URI")
	if nt == nil {
		r.Anchor(rule, "protocol.URI")
		return
	}
	// the filler: a method whose first statement is `if recv.F { return }` for a bool field F and
	// which later assigns F = true; the cache is the field whose method it calls in between
	var filler *core.FuncInfo
	var flag, cache *types.Var
	for _, fi := range declaredNonTest(w) {
		if fi.Decl.Body == nil || recvNamed(fi.Obj) != nt {
			continue
		}
		info := fi.Pkg.TypesInfo
		// the same filler written the other way round: `if !recv.F { recv.C.Parse…(…); recv.F = true }`
		for _, s := range fi.Decl.Body.List {
			is2, ok := s.(*ast.IfStmt)
			if !ok || is2.Else != nil || filler != nil {
				continue
			}
			u, ok := unparen(is2.Cond).(*ast.UnaryExpr)
			if !ok || u.Op != token.NOT {
				continue
			}
			f2 := usedVar(info, u.X)
			if f2 == nil || !f2.IsField() {
				continue
			}
			var c2 *types.Var
			sets := false
			for _, bs := range is2.Body.List {
				switch x := bs.(type) {
				case *ast.ExprStmt:
					if call, ok := x.X.(*ast.CallExpr); ok {
						if se, ok := unparen(call.Fun).(*ast.SelectorExpr); ok {
							if v := usedVar(info, se.X); v != nil && v.IsField() && c2 == nil {
								c2 = v
							}
						}
					}
				case *ast.AssignStmt:
					if len(x.Lhs) == 1 && len(x.Rhs) == 1 && usedVar(info, x.Lhs[0]) == f2 {
						if id, ok := unparen(x.Rhs[0]).(*ast.Ident); ok && id.Name == "true" {
							sets = true
						}
					}
				}
			}
			if c2 != nil && sets {
				filler, flag, cache = fi, f2, c2
			}
		}
		if len(fi.Decl.Body.List) < 3 {
			continue
		}
		is, ok := fi.Decl.Body.List[0].(*ast.IfStmt)
		if !ok || len(is.Body.List) != 1 {
			continue
		}
		if _, isRet := is.Body.List[0].(*ast.ReturnStmt); !isRet {
			continue
		}
		f := usedVar(info, is.Cond)
		if f == nil || !f.IsField() {
			continue
		}
		var c *types.Var
		setsTrue := false
		for _, s := range fi.Decl.Body.List[1:] {
			switch x := s.(type) {
			case *ast.ExprStmt:
				if call, ok := x.X.(*ast.CallExpr); ok {
					if se, ok := unparen(call.Fun).(*ast.SelectorExpr); ok {
						if v := usedVar(info, se.X); v != nil && v.IsField() && c == nil {
							c = v
						}
					}
				}
			case *ast.AssignStmt:
				if len(x.Lhs) == 1 && usedVar(info, x.Lhs[0]) == f {
					if id, ok := unparen(x.Rhs[0]).(*ast.Ident); ok && id.Name == "true" {
						setsTrue = true
					}
				}
			}
		}
		if c != nil && setsTrue {
			filler, flag, cache = fi, f, c
		}
	}
	if filler == nil {
		r.Anchor(rule, "the lazy query parser of protocol.URI (`if u.parsedQueryArgs { return } …`)")
		return
	}
	r.Unit("%s: cache %s valid under %s, filled by %s", rule, cache.Name(), flag.Name(), w.FuncName(filler.Obj))
	n := 0
	for _, fi := range declaredNonTest(w) {
		if fi.Decl.Body == nil || recvNamed(fi.Obj) != nt || fi == filler {
			continue
		}
		info := fi.Pkg.TypesInfo
		// methods that write the flag themselves keep flag and cache in step (Reset, CopyTo)
		writesFlag := false
		ast.Inspect(fi.Decl.Body, func(nd ast.Node) bool {
			if as, ok := nd.(*ast.AssignStmt); ok {
				for _, l := range as.Lhs {
					if usedVar(info, l) == flag {
						writesFlag = true
					}
				}
			}
			return true
		})
		par := parents(fi.Decl)
		fname := w.FuncName(fi.Obj)
		k := 0
		var firstFill token.Pos
		ast.Inspect(fi.Decl.Body, func(nd ast.Node) bool {
			if c, ok := nd.(*ast.CallExpr); ok && calleeOf(info, c) == filler.Obj && !firstFill.IsValid() {
				firstFill = c.Pos()
			}
			return true
		})
		ast.Inspect(fi.Decl.Body, func(nd ast.Node) bool {
			se, ok := nd.(*ast.SelectorExpr)
			if !ok || usedVar(info, se) != cache {
				return true
			}
			k++
			n++
			key := fmt.Sprintf("%s:%s#%d", fname, cache.Name(), k)
			desc := "the parsed query list is read only while it is current"
			okUse := writesFlag || (firstFill.IsValid() && firstFill < se.Pos())
			if !okUse {
				for _, g := range guardConds(par, se) {
					if g.cond != nil && !g.neg {
						ast.Inspect(g.cond, func(m ast.Node) bool {
							if x, ok := m.(ast.Expr); ok && usedVar(info, x) == flag {
								okUse = true
							}
							return true
						})
					}
				}
				// `if u.flag && u.cache.Len() > 0`: the read sits in the condition itself, after the flag
				for p := par[ast.Node(se)]; p != nil && !okUse; p = par[p] {
					if be, ok := p.(*ast.BinaryExpr); ok && be.Op == token.LAND && within(se, be.Y) {
						ast.Inspect(be.X, func(m ast.Node) bool {
							if x, ok := m.(ast.Expr); ok && usedVar(info, x) == flag {
								okUse = true
							}
							return true
						})
					}
					if _, isStmt := p.(ast.Stmt); isStmt {
						break
					}
				}
			}
			r.Check(okUse, rule, key, w.Pos(se.Pos()), desc,
				fmt.Sprintf("%s reads %s without having called %s and without testing %s: after the raw query was replaced through a setter the list still holds the previous query", fname, cache.Name(), filler.Obj.Name(), flag.Name()))
			return true
		})
	}
	r.Floor(rule, n, 3, "reads of the parsed query list in methods of protocol.URI")
	// where the list is serialised (an if whose body appends it), the condition consists of the
	// validity flag and the emptiness test only: a further conjunct drops the arguments the
	// application added through QueryArgs() whenever it is false
	for _, fi := range declaredNonTest(w) {
		if fi.Decl.Body == nil || recvNamed(fi.Obj) != nt {
			continue
		}
		info := fi.Pkg.TypesInfo
		fname := w.FuncName(fi.Obj)
		k := 0
		ast.Inspect(fi.Decl.Body, func(nd ast.Node) bool {
			is, ok := nd.(*ast.IfStmt)
			if !ok {
				return true
			}
			serialises := false
			ast.Inspect(is.Body, func(m ast.Node) bool {
				if c, ok := m.(*ast.CallExpr); ok {
					if se, ok := unparen(c.Fun).(*ast.SelectorExpr); ok && usedVar(info, se.X) == cache && (se.Sel.Name == "AppendBytes" || se.Sel.Name == "QueryString") {
						serialises = true
					}
				}
				return true
			})
			if !serialises {
				return true
			}
			k++
			bad := ""
			var conj func(x ast.Expr)
			conj = func(x ast.Expr) {
				x = unparen(x)
				if be, ok := x.(*ast.BinaryExpr); ok && be.Op == token.LAND {
					conj(be.X)
					conj(be.Y)
					return
				}
				mentionsCache, mentionsFlag := false, false
				ast.Inspect(x, func(m ast.Node) bool {
					if y, ok := m.(ast.Expr); ok {
						if v := usedVar(info, y); v == cache {
							mentionsCache = true
						} else if v == flag {
							mentionsFlag = true
						}
					}
					return true
				})
				if !mentionsCache && !mentionsFlag && bad == "" {
					bad = types.ExprString(x)
				}
			}
			conj(is.Cond)
			r.Check(bad == "", rule, fmt.Sprintf("%s:serialise#%d", fname, k), w.Pos(is.Pos()), "the parsed query list is serialised whenever it is current and non-empty",
				"the list is only written when `"+bad+"` also holds: arguments added through QueryArgs() vanish from RequestURI()/FullURI() and from the request line otherwise")
			return true
		})
	}
}
