package rules

// Rules added after the fifth round of independently seeded changes (seeded/*-r5-*).

import (
	"fmt"
	"go/ast"
	"go/token"
	"go/types"
	"golang.org/x/tools/go/cfg"
	"strings"

	"golang.org/x/tools/go/ssa"

	"hzcheck/esp"
	"hzcheck/zone"
)

// guardConds lists the conditions under which n executes inside fn's body: the condition of
// every enclosing if whose then-branch contains n, and "!(cond)" entries (neg=true) for every
// enclosing else-branch; tagless-switch case conditions count as then-conditions.
type guardCond struct {
	cond ast.Expr
	neg  bool
}

func guardConds(par map[ast.Node]ast.Node, n ast.Node) []guardCond {
	var out []guardCond
	for cur := n; cur != nil; cur = par[cur] {
		if is, ok := par[cur].(*ast.IfStmt); ok {
			if cur == ast.Node(is.Body) {
				out = append(out, guardCond{is.Cond, false})
			} else if cur == ast.Node(is.Else) {
				out = append(out, guardCond{is.Cond, true})
			}
		}
		if cc, ok := par[cur].(*ast.CaseClause); ok {
			if sw, ok := par[par[cc]].(*ast.SwitchStmt); ok && sw.Tag == nil {
				for _, s := range cc.Body {
					if ast.Node(s) == cur {
						if len(cc.List) == 1 {
							out = append(out, guardCond{cc.List[0], false})
						} else {
							out = append(out, guardCond{nil, true}) // default / multi-way: opaque
						}
					}
				}
			}
		}
		if _, ok := par[cur].(*ast.FuncDecl); ok {
			break
		}
	}
	return out
}

// C18.drain — the unread rest of a streamed request body is drained after every response.
func c18Drain(e *Env) {
	const rule = "C18.drain"
	w, r := e.W, e.R
	r.Explainf("C18.drain: after a response has been flushed, the serve loop hands a streamed request body to ext.ReleaseBodyStream, which reads and discards what the handler left unread. This must happen for every streamed request — also when the connection is about to be closed (shutdown in progress, Connection: close): closing a socket with unread data in its receive queue makes the kernel send a reset and discard what is still in the send queue, so the client loses the tail of the response it was promised. Structural form: every call of ReleaseBodyStream in Server.Serve (or a same-package helper it calls) is guarded by nothing but `Request.IsBodyStream()`; any further condition (`&& !connectionClose`) skips the drain on some path. [does not decide what ReleaseBodyStream reads]")
	serve := w.Func("pkg/protocol/http1", "Server", "Serve")
	if serve == nil {
		r.Anchor(rule, "http1.Server.Serve")
		return
	}
	n := 0
	for _, fi := range withHelpers(w, serve, 2) {
		info := fi.Pkg.TypesInfo
		par := parents(fi.Decl)
		fname := w.FuncName(fi.Obj)
		ast.Inspect(fi.Decl.Body, func(nd ast.Node) bool {
			c, ok := nd.(*ast.CallExpr)
			if !ok || !esp.Is(calleeOf(info, c), pkgExt, "", "ReleaseBodyStream") {
				return true
			}
			n++
			key := fmt.Sprintf("%s:ReleaseBodyStream#%d", fname, n)
			bad := ""
			for _, g := range guardConds(par, c) {
				if g.cond == nil || g.neg {
					bad = "an else/default branch"
					if g.cond != nil {
						bad = "the else-branch of `" + types.ExprString(g.cond) + "`"
					}
					break
				}
				gc, isCall := unparen(g.cond).(*ast.CallExpr)
				if isCall {
					if f := calleeOf(info, gc); f != nil && f.Name() == "IsBodyStream" {
						continue
					}
				}
				bad = "`" + types.ExprString(g.cond) + "`"
				break
			}
			if bad == "" && fi != serve {
				// the call sits in a helper: the guards at the helper's call sites in Serve count too
				sinfo := serve.Pkg.TypesInfo
				spar := parents(serve.Decl)
				ast.Inspect(serve.Decl.Body, func(m ast.Node) bool {
					if hc, ok := m.(*ast.CallExpr); ok && calleeOf(sinfo, hc) == fi.Obj && bad == "" {
						for _, g := range guardConds(spar, hc) {
							if g.cond != nil && !g.neg {
								if gc, isCall := unparen(g.cond).(*ast.CallExpr); isCall {
									if f := calleeOf(sinfo, gc); f != nil && f.Name() == "IsBodyStream" {
										continue
									}
								}
								// `if err = helper(); err != nil` style conditions contain the call itself
								if within(hc, g.cond) {
									continue
								}
							}
							bad = "a condition at the call of " + fi.Obj.Name() + " in Serve"
							if g.cond != nil {
								bad += " (`" + types.ExprString(g.cond) + "`)"
							}
							break
						}
					}
					return true
				})
			}
			r.Check(bad == "", rule, key, w.Pos(c.Pos()), "the drain of a streamed request body depends on IsBodyStream() only",
				"the call is additionally guarded by "+bad+": when that guard fails the unread rest of the body stays in the socket, and closing the connection then resets it and truncates the response in flight")
			return true
		})
	}
	r.Floor(rule, n, 1, "ReleaseBodyStream calls in the serve loop")
}

// C19.idle — every request after the first waits for its first bytes before the tracer starts.
func c19Idle(e *Env) {
	const rule = "C19.idle"
	w, r := e.W, e.R
	r.Explainf("C19.idle: for every request after the first on a connection the serve loop first peeks for the first bytes under the idle timeout and leaves silently (errIdleTimeout, no tracer call, no response) when none arrive — that is how the end of a keep-alive connection produces no extra start/finish pair. The if-statement that contains that peek and the errIdleTimeout exit is guarded by a single comparison of the per-connection request counter (a local incremented once per loop iteration) equivalent to `counter > 1`, and by nothing else: any further conjunct (`&& zr.Len() == 0`) lets a later request skip the wait, so a connection that ends after 1–3 stray bytes starts a tracer pair for a request that never arrives.")
	serve := w.Func("pkg/protocol/http1", "Server", "Serve")
	idleVar, _ := w.Object("pkg/protocol/http1", "errIdleTimeout").(*types.Var)
	if serve == nil || idleVar == nil {
		r.Anchor(rule, "http1.Server.Serve / errIdleTimeout")
		return
	}
	info := serve.Pkg.TypesInfo
	fname := w.FuncName(serve.Obj)
	par := parents(serve.Decl)
	// counters: integer locals with a ++ statement directly in a for body
	counters := map[*types.Var]bool{}
	ast.Inspect(serve.Decl.Body, func(nd ast.Node) bool {
		if fs, ok := nd.(*ast.ForStmt); ok {
			for _, s := range fs.Body.List {
				if inc, ok := s.(*ast.IncDecStmt); ok && inc.Tok == token.INC {
					if v := usedVar(info, inc.X); v != nil && !v.IsField() {
						counters[v] = true
					}
				}
			}
		}
		return true
	})
	// a same-package helper that does the wait: Peek + errIdleTimeout in its body; inside it the
	// Peek must be unconditional
	idleHelper := map[*types.Func]bool{}
	for _, hf := range withHelpers(w, serve, 1)[1:] {
		hinfo := hf.Pkg.TypesInfo
		hpar := parents(hf.Decl)
		var peek *ast.CallExpr
		idle := false
		ast.Inspect(hf.Decl.Body, func(m ast.Node) bool {
			switch x := m.(type) {
			case *ast.CallExpr:
				if f := calleeOf(hinfo, x); f != nil && f.Name() == "Peek" && peek == nil {
					peek = x
				}
			case *ast.Ident:
				if hinfo.ObjectOf(x) == types.Object(idleVar) {
					idle = true
				}
			}
			return true
		})
		if peek != nil && idle {
			idleHelper[hf.Obj] = true
			gs := guardConds(hpar, peek)
			r.Check(len(gs) == 0, rule, w.FuncName(hf.Obj)+":peek-unconditional", w.Pos(peek.Pos()), "the idle-wait helper peeks unconditionally",
				"inside the helper the Peek is itself guarded: some follow-up request does not wait for its first bytes")
		}
	}
	n := 0
	ast.Inspect(serve.Decl.Body, func(nd ast.Node) bool {
		is, ok := nd.(*ast.IfStmt)
		if !ok {
			return true
		}
		// innermost if whose then-block holds a Peek call and mentions errIdleTimeout
		hasPeek, hasIdle := false, false
		ast.Inspect(is.Body, func(m ast.Node) bool {
			switch x := m.(type) {
			case *ast.CallExpr:
				if f := calleeOf(info, x); f != nil && f.Name() == "Peek" {
					hasPeek = true
				} else if f != nil && idleHelper[f] {
					hasPeek, hasIdle = true, true
				}
			case *ast.Ident:
				if info.ObjectOf(x) == types.Object(idleVar) {
					hasIdle = true
				}
			}
			return true
		})
		if !hasPeek || !hasIdle {
			return true
		}
		// must be the outermost such if: the guards above it count too
		for p := par[is]; p != nil; p = par[p] {
			if _, isIf := p.(*ast.IfStmt); isIf {
				return true // nested inside another if that also matches or guards it: handled there
			}
			if _, isFor := p.(*ast.ForStmt); isFor {
				break
			}
		}
		n++
		key := fmt.Sprintf("%s:idle-wait#%d", fname, n)
		ok2, why := false, ""
		if be, isBin := unparen(is.Cond).(*ast.BinaryExpr); isBin {
			x, y, op := be.X, be.Y, be.Op
			if c, isC := constInt(info, x); isC {
				// constant on the left: mirror
				_ = c
				x, y = y, x
				switch op {
				case token.LSS:
					op = token.GTR
				case token.LEQ:
					op = token.GEQ
				case token.GTR:
					op = token.LSS
				case token.GEQ:
					op = token.LEQ
				}
			}
			v := usedVar(info, x)
			c, isC := constInt(info, y)
			switch {
			case v == nil || !counters[v]:
				why = "the condition `" + types.ExprString(is.Cond) + "` does not compare the request counter of the connection"
			case !isC:
				why = "the request counter is not compared with a constant"
			case (op == token.GTR && c == 1) || (op == token.GEQ && c == 2) || (op == token.NEQ && c == 1):
				ok2 = true
			default:
				why = "`" + types.ExprString(is.Cond) + "` is not equivalent to `counter > 1`"
			}
		} else {
			why = "the idle wait is guarded by `" + types.ExprString(is.Cond) + "`, not by the request counter alone: a request for which the extra condition fails starts the tracer without having waited for its first bytes"
		}
		r.Check(ok2, rule, key, w.Pos(is.Pos()), "every request after the first waits for its first bytes under the idle timeout", why)
		return false
	})
	r.Floor(rule, n, 1, "idle-wait blocks (Peek + errIdleTimeout) in the serve loop")
}

// C08.stale — the compressed sidecar is current only if its mtime EQUALS the original's.
func c08Stale(e *Env) {
	const rule = "C08.stale"
	w, r := e.W, e.R
	r.Explainf("C08.stale: the file handler stamps a compressed sidecar (<file>.hertz.gz) with exactly the modification time of the file it was made from (os.Chtimes in the compressor) and later decides whether the sidecar is still current by comparing the two modification times. Because the writer copies the time, the only sound test is (in)equality: `a.ModTime() != b.ModTime()` or `!a.ModTime().Equal(b.ModTime())`. An ordering test (After/Before) keeps serving the old bytes when the original is replaced by a file with an older time stamp (rollback, cp -p, rsync -t). Every if-condition in package app that relates two ModTime() results must be an equality/inequality.")
	p := w.Pkg("pkg/app")
	if p == nil {
		r.Anchor(rule, "package pkg/app")
		return
	}
	info := p.TypesInfo
	isModTime := func(x ast.Expr) bool {
		c, ok := unparen(x).(*ast.CallExpr)
		if !ok {
			return false
		}
		f := calleeOf(info, c)
		return f != nil && f.Name() == "ModTime"
	}
	n, nChtimes := 0, 0
	for _, fi := range declaredNonTest(w) {
		if fi.Pkg != p || fi.Decl.Body == nil {
			continue
		}
		fname := w.FuncName(fi.Obj)
		k := 0
		ast.Inspect(fi.Decl.Body, func(nd ast.Node) bool {
			if c, ok := nd.(*ast.CallExpr); ok {
				if f := calleeOf(info, c); f != nil && f.Name() == "Chtimes" && f.Pkg() != nil && f.Pkg().Path() == "os" {
					nChtimes++
				}
			}
			is, ok := nd.(*ast.IfStmt)
			if !ok {
				return true
			}
			// collect comparisons relating two ModTime() results inside the condition
			ast.Inspect(is.Cond, func(m ast.Node) bool {
				switch x := m.(type) {
				case *ast.BinaryExpr:
					if isModTime(x.X) && isModTime(x.Y) {
						n++
						k++
						r.Check(x.Op == token.NEQ || x.Op == token.EQL, rule, fmt.Sprintf("%s:modtime-compare#%d", fname, k), w.Pos(x.Pos()),
							"sidecar freshness is decided by (in)equality of the two modification times", "`"+types.ExprString(x)+"` is not an equality test")
					}
				case *ast.CallExpr:
					if se, ok := unparen(x.Fun).(*ast.SelectorExpr); ok && isModTime(se.X) && len(x.Args) == 1 && isModTime(x.Args[0]) {
						n++
						k++
						r.Check(se.Sel.Name == "Equal", rule, fmt.Sprintf("%s:modtime-compare#%d", fname, k), w.Pos(x.Pos()),
							"sidecar freshness is decided by (in)equality of the two modification times",
							"`"+types.ExprString(x)+"` orders the two time stamps: the compressor stamps the sidecar with exactly the original's time, so a replaced original with an OLDER time stamp still counts as current and its previous content is served")
					}
				}
				return true
			})
			return true
		})
	}
	r.Floor(rule, n, 1, "comparisons of two ModTime() results in package app")
	r.Floor(rule, nChtimes, 1, "os.Chtimes calls stamping the sidecar")
}

// C06.atomic — a rejected registration leaves the tree untouched.
func c06Atomic(e *Env) {
	const rule = "C06.atomic"
	w, r := e.W, e.R
	r.Explainf("C06.atomic: router.insert rejects a duplicate registration by panicking; applications recover and keep serving, so the routes accepted before must still dispatch with their own pattern and parameter names. In the control-flow graph of router.insert no assignment to a field of a tree node lies on a path that can still reach a panic: the duplicate test comes before the first store. (go/cfg, backward reachability from each panic block; within the panic's own block only the statements before it count.)")
	ins := w.Func("pkg/route", "router", "insert")
	node := w.Named("pkg/route", "node")
	if ins == nil || node == nil {
		r.Anchor(rule, "route.router.insert / node")
		return
	}
	info := ins.Pkg.TypesInfo
	fname := w.FuncName(ins.Obj)
	st, _ := node.Underlying().(*types.Struct)
	nodeField := map[*types.Var]bool{}
	for i := 0; st != nil && i < st.NumFields(); i++ {
		nodeField[st.Field(i)] = true
	}
	isPanic := func(n ast.Node) bool {
		es, ok := n.(*ast.ExprStmt)
		if !ok {
			return false
		}
		c, ok := es.X.(*ast.CallExpr)
		return ok && isBuiltin(info, c, "panic")
	}
	g := cfg.New(ins.Decl.Body, func(c *ast.CallExpr) bool { return !isBuiltin(info, c, "panic") })
	// blocks that can reach a panic block
	var panicBlocks []*cfg.Block
	for _, b := range g.Blocks {
		for _, n := range b.Nodes {
			if isPanic(n) {
				panicBlocks = append(panicBlocks, b)
			}
		}
	}
	r.Floor(rule, len(panicBlocks), 2, "panic sites in router.insert")
	preds := map[*cfg.Block][]*cfg.Block{}
	for _, b := range g.Blocks {
		for _, s := range b.Succs {
			preds[s] = append(preds[s], b)
		}
	}
	reach := map[*cfg.Block]bool{}
	var work []*cfg.Block
	for _, pb := range panicBlocks {
		work = append(work, preds[pb]...)
	}
	for len(work) > 0 {
		b := work[len(work)-1]
		work = work[:len(work)-1]
		if reach[b] {
			continue
		}
		reach[b] = true
		work = append(work, preds[b]...)
	}
	storeIn := func(n ast.Node) (string, token.Pos) {
		var name string
		var pos token.Pos
		ast.Inspect(n, func(m ast.Node) bool {
			if as, ok := m.(*ast.AssignStmt); ok {
				for _, l := range as.Lhs {
					if se, ok := unparen(l).(*ast.SelectorExpr); ok {
						if f := usedVar(info, se); f != nil && nodeField[f] && name == "" {
							name, pos = types.ExprString(l), as.Pos()
						}
					}
				}
			}
			return true
		})
		return name, pos
	}
	nViol := 0
	seen := map[token.Pos]bool{}
	report := func(name string, pos token.Pos) {
		if seen[pos] {
			return
		}
		seen[pos] = true
		nViol++
		r.Fail(rule, fmt.Sprintf("%s:store-before-panic#%d", fname, nViol), w.Pos(pos), "no store to a tree node precedes a registration panic",
			"`"+name+" = …` lies on a path that can still reach a panic: a rejected registration has already overwritten state of the accepted route (its pattern, parameter names or links) when it panics")
	}
	for b := range reach {
		for _, n := range b.Nodes {
			if name, pos := storeIn(n); name != "" {
				report(name, pos)
			}
		}
	}
	for _, pb := range panicBlocks {
		for _, n := range pb.Nodes {
			if isPanic(n) {
				break
			}
			if name, pos := storeIn(n); name != "" {
				report(name, pos)
			}
		}
	}
	if nViol == 0 {
		r.OK(rule, fname+":panic-paths", w.Pos(ins.Decl.Pos()), fmt.Sprintf("no node store on any path to the %d panic sites (%d blocks reach one)", len(panicBlocks), len(reach)))
	}
}

// cmpKey canonicalises a comparison of two side-effect-free operands: the key of `a >= b` is
// the key of `b <= a` and of `!(a < b)`. ok is false for anything else.
func cmpKey(x ast.Expr, neg bool) (string, bool) {
	x = unparen(x)
	if u, ok := x.(*ast.UnaryExpr); ok && u.Op == token.NOT {
		return cmpKey(u.X, !neg)
	}
	be, ok := x.(*ast.BinaryExpr)
	if !ok {
		return "", false
	}
	a, b, op := types.ExprString(be.X), types.ExprString(be.Y), be.Op
	switch op {
	case token.LSS, token.LEQ, token.GTR, token.GEQ:
	default:
		return "", false
	}
	if neg {
		op = map[token.Token]token.Token{token.LSS: token.GEQ, token.GEQ: token.LSS, token.GTR: token.LEQ, token.LEQ: token.GTR}[op]
	}
	// write as a <op> b with op ∈ {<, <=}
	if op == token.GTR || op == token.GEQ {
		a, b = b, a
		op = map[token.Token]token.Token{token.GTR: token.LSS, token.GEQ: token.LEQ}[op]
	}
	return a + " " + op.String() + " " + b, true
}

// C14.identity — the read-until-limit prefetch is used only for bodies that will be refused.
func c14Identity(e *Env) {
	const rule = "C14.identity"
	w, r := e.W, e.R
	r.Explainf("C14.identity: the streaming prefetch has two readers: the fixed-size one takes exactly min(Content-Length, 8 KiB) bytes; the identity one keeps reading until it holds MORE than the limit (or the peer closes) and therefore swallows bytes behind the body. The identity reader is sound only for a body that is then refused with errBodyTooLarge (or has no declared length). In ext.ReadBodyWithStreaming the condition that selects the fixed-size reader must contain, as a conjunct, exactly the negation of the too-large test that follows (`contentLength > maxBodySize`): with `contentLength < maxBodySize` a body of exactly the limit goes to the identity reader, which consumes the first byte of the next pipelined request.")
	fi := w.Func("pkg/protocol/http1/ext", "", "ReadBodyWithStreaming")
	if fi == nil {
		r.Anchor(rule, "ext.ReadBodyWithStreaming")
		return
	}
	info := fi.Pkg.TypesInfo
	fname := w.FuncName(fi.Obj)
	tooLarge := tooLargeVars(w)
	// a bool local defined once from a comparison stands for that comparison
	boolDef := map[*types.Var]ast.Expr{}
	nDef := map[*types.Var]int{}
	ast.Inspect(fi.Decl.Body, func(nd ast.Node) bool {
		if as, ok := nd.(*ast.AssignStmt); ok && len(as.Lhs) == len(as.Rhs) {
			for i, l := range as.Lhs {
				if id, ok := unparen(l).(*ast.Ident); ok {
					if v, _ := info.ObjectOf(id).(*types.Var); v != nil && !v.IsField() {
						nDef[v]++
						boolDef[v] = as.Rhs[i]
					}
				}
			}
		}
		return true
	})
	var subst func(x ast.Expr) ast.Expr
	subst = func(x ast.Expr) ast.Expr {
		x = unparen(x)
		switch y := x.(type) {
		case *ast.Ident:
			if v, _ := info.ObjectOf(y).(*types.Var); v != nil && nDef[v] == 1 {
				if _, isCmp := cmpKey(boolDef[v], false); isCmp {
					return unparen(boolDef[v])
				}
			}
		case *ast.UnaryExpr:
			if y.Op == token.NOT {
				return &ast.UnaryExpr{Op: token.NOT, X: subst(y.X), OpPos: y.OpPos}
			}
		}
		return x
	}
	cmpKeyS := func(x ast.Expr, neg bool) (string, bool) { return cmpKey(subst(x), neg) }
	// the too-large test: condition of an if whose body returns a too-large error
	var tl ast.Expr
	ast.Inspect(fi.Decl.Body, func(nd ast.Node) bool {
		is, ok := nd.(*ast.IfStmt)
		if !ok || is.Else != nil {
			return true
		}
		for _, s := range is.Body.List {
			if rs, ok := s.(*ast.ReturnStmt); ok && mentionsVar(info, rs, tooLarge) {
				if _, isCmp := cmpKeyS(is.Cond, false); isCmp {
					tl = is.Cond
				}
			}
		}
		return true
	})
	if tl == nil {
		r.Anchor(rule, fname+": `if <length> > <limit> { return …, errBodyTooLarge }`")
		return
	}
	want, _ := cmpKeyS(tl, true)
	// the selection: if/else whose arms call two different same-package readers
	n := 0
	ast.Inspect(fi.Decl.Body, func(nd ast.Node) bool {
		is, ok := nd.(*ast.IfStmt)
		if !ok || is.Else == nil {
			return true
		}
		callIn := func(b ast.Node) *types.Func {
			var out *types.Func
			ast.Inspect(b, func(m ast.Node) bool {
				if c, ok := m.(*ast.CallExpr); ok && out == nil {
					if f := calleeOf(info, c); f != nil && f.Pkg() == fi.Obj.Pkg() {
						out = f
					}
				}
				return out == nil
			})
			return out
		}
		a, b := callIn(is.Body), callIn(is.Else)
		if a == nil || b == nil || a == b {
			return true
		}
		n++
		found := false
		var conj func(x ast.Expr)
		conj = func(x ast.Expr) {
			x = unparen(x)
			if be, ok := x.(*ast.BinaryExpr); ok && be.Op == token.LAND {
				conj(be.X)
				conj(be.Y)
				return
			}
			if k, ok := cmpKeyS(x, false); ok && k == want {
				found = true
			}
		}
		conj(is.Cond)
		r.Check(found, rule, fmt.Sprintf("%s:reader-selection#%d", fname, n), w.Pos(is.Pos()), "the fixed-size reader is selected exactly when the body is not too large",
			fmt.Sprintf("the condition `%s` that selects %s has no conjunct equivalent to `!(%s)` (canonical: %s): for a length the too-large test accepts, %s — which reads until it holds more than the limit — consumes bytes behind the body", types.ExprString(is.Cond), a.Name(), types.ExprString(tl), want, b.Name()))
		return true
	})
	r.Floor(rule, n, 1, "reader selections in "+fname)
}

// C14.skipbound — the drain never skips more than what is left of the body.
func c14SkipBound(e *Env) {
	const rule = "C14.skipbound"
	w, r := e.W, e.R
	r.Explainf("C14.skipbound: when the handler leaves part of a fixed-length streamed body unread, bodyStream.skipRest discards it from the connection in a loop that keeps a remaining-length counter (`needSkipLen -= skip`). Zone analysis (go/ssa): at every `reader.Skip(x)` whose amount x is subtracted from such a counter, x ≤ counter holds at the call. If the amount is taken from the reader's buffered length after the clamp, one buffered read that holds the end of the body and the start of the next request is skipped whole: the next request disappears and the counter goes negative.")
	fi := w.Func("pkg/protocol/http1/ext", "bodyStream", "skipRest")
	if fi == nil {
		r.Anchor(rule, "ext.bodyStream.skipRest")
		return
	}
	fn := w.SSAFunc(fi)
	fname := w.FuncName(fi.Obj)
	// counter for an amount: X of a `X - amount` whose result feeds a phi that X comes from
	counterOf := map[ssa.Value]ssa.Value{}
	for _, b := range fn.Blocks {
		for _, ins := range b.Instrs {
			if bo, ok := ins.(*ssa.BinOp); ok && bo.Op == token.SUB {
				if ph, ok := bo.X.(*ssa.Phi); ok {
					for _, ed := range ph.Edges {
						if ed == ssa.Value(bo) {
							counterOf[bo.Y] = bo.X
						}
					}
				}
			}
		}
	}
	z := getZone(w)
	n := 0
	opts := zone.Options{
		Custom: func(a *zone.Analyzer, d *zone.DBM, ins ssa.Instruction) {
			call, ok := ins.(*ssa.Call)
			if !ok || !call.Call.IsInvoke() || call.Call.Method.Name() != "Skip" || len(call.Call.Args) != 1 {
				return
			}
			ctr := counterOf[call.Call.Args[0]]
			if ctr == nil || d == nil {
				return
			}
			n++
			ub := zone.Tub(d, a.IntTerm(call.Call.Args[0]), a.IntTerm(ctr))
			r.Check(ub <= 0, rule, fmt.Sprintf("%s:Skip#%d:amount<=remaining", fname, n), w.Pos(call.Pos()), "the amount skipped is bounded by the remaining body length",
				fmt.Sprintf("the analysis cannot bound the Skip amount by the remaining-length counter it is subtracted from (upper bound of the difference: %s): bytes of the next request on the connection are discarded", boundStr(ub)))
		},
	}
	z.prog.Analyze(fn, opts)
	r.Unit("%s: %s — %d counted Skip calls", rule, fname, n)
	r.Floor(rule, n, 1, "Skip calls whose amount is subtracted from a remaining-length counter in "+fname)
}

// C20.pure — evaluating a cached expression tree does not write to the tree.
func c20Pure(e *Env) {
	const rule = "C20.pure"
	w, r := e.W, e.R
	r.Explainf("C20.pure: the compiled expression tree of a struct type is cached in the VM and evaluated by every goroutine that validates a value of that type. The Run method of every ExprNode implementation in internal/tagexpr therefore only reads its node: no assignment (or ++/--) whose target is a field of the receiver, an element of a slice/map held in a receiver field, or an element reached through a local that was assigned from a receiver field. A scratch slice kept in the node (`args := f.argv; args[k] = …`) makes two concurrent validations decide on each other's operands.")
	p := w.Pkg("internal/tagexpr")
	if p == nil {
		r.Anchor(rule, "package internal/tagexpr")
		return
	}
	info := p.TypesInfo
	nodeObj, _ := p.Types.Scope().Lookup("ExprNode").(*types.TypeName)
	if nodeObj == nil {
		r.Anchor(rule, "tagexpr.ExprNode")
		return
	}
	iface, _ := nodeObj.Type().Underlying().(*types.Interface)
	n := 0
	for _, fi := range declaredNonTest(w) {
		if fi.Pkg != p || fi.Decl.Body == nil || fi.Obj.Name() != "Run" || fi.Decl.Recv == nil {
			continue
		}
		rn := recvNamed(fi.Obj)
		if rn == nil || iface == nil || !(types.Implements(types.NewPointer(rn), iface) || types.Implements(rn, iface)) {
			continue
		}
		if len(fi.Decl.Recv.List) == 0 || len(fi.Decl.Recv.List[0].Names) == 0 {
			n++
			r.OK(rule, w.FuncName(fi.Obj)+":pure", w.Pos(fi.Decl.Pos()), "Run has no receiver name: it cannot write to its node")
			continue
		}
		recv, _ := info.Defs[fi.Decl.Recv.List[0].Names[0]].(*types.Var)
		n++
		fname := w.FuncName(fi.Obj)
		// locals aliasing receiver state (reference types only)
		alias := map[*types.Var]bool{}
		rooted := func(x ast.Expr) bool {
			for {
				switch y := unparen(x).(type) {
				case *ast.SelectorExpr:
					x = y.X
				case *ast.IndexExpr:
					x = y.X
				case *ast.SliceExpr:
					x = y.X
				case *ast.StarExpr:
					x = y.X
				case *ast.Ident:
					v, _ := info.ObjectOf(y).(*types.Var)
					return v != nil && (v == recv || alias[v])
				default:
					return false
				}
			}
		}
		isRef := func(t types.Type) bool {
			switch t.Underlying().(type) {
			case *types.Slice, *types.Map, *types.Pointer:
				return true
			}
			return false
		}
		for pass := 0; pass < 2; pass++ {
			ast.Inspect(fi.Decl.Body, func(nd ast.Node) bool {
				if as, ok := nd.(*ast.AssignStmt); ok && len(as.Lhs) == len(as.Rhs) {
					for i, l := range as.Lhs {
						if id, ok := unparen(l).(*ast.Ident); ok {
							if v, _ := info.ObjectOf(id).(*types.Var); v != nil && v != recv && isRef(v.Type()) {
								if _, isSel := unparen(as.Rhs[i]).(*ast.Ident); !isSel && rooted(as.Rhs[i]) {
									alias[v] = true
								}
							}
						}
					}
				}
				return true
			})
		}
		bad, badPos := "", token.NoPos
		ast.Inspect(fi.Decl.Body, func(nd ast.Node) bool {
			var targets []ast.Expr
			switch x := nd.(type) {
			case *ast.AssignStmt:
				targets = x.Lhs
			case *ast.IncDecStmt:
				targets = []ast.Expr{x.X}
			}
			for _, t := range targets {
				if _, isID := unparen(t).(*ast.Ident); isID {
					continue // rebinding a local
				}
				if rooted(t) && bad == "" {
					bad, badPos = types.ExprString(t), t.Pos()
				}
			}
			return true
		})
		if bad == "" {
			r.OK(rule, fname+":pure", w.Pos(fi.Decl.Pos()), "Run does not write to the shared node")
		} else {
			r.Fail(rule, fname+":pure", w.Pos(badPos), "Run does not write to the shared node",
				"`"+bad+"` is written during evaluation and is reached from the receiver: the node is cached per struct type and shared by all goroutines validating that type, so concurrent validations overwrite each other's operands")
		}
	}
	r.Floor(rule, n, 8, "Run methods of ExprNode implementations")
}

// C16.err — an error produced while generating is looked at on every path.
func c16Err(e *Env) {
	const rule = "C16.err"
	r := e.R
	r.Explainf("C16.err: in the hz generator package an error returned by a call and bound to a variable must be read (tested, returned, passed on) on every path before the variable is overwritten, goes out of scope with the loop iteration, or the function returns. go/cfg liveness per definition: a definition `err := f()` / `x, err = f()` from which some path reaches the end of the function, a re-definition, or the back edge of the enclosing loop without a read is reported. Such a path reports success although a route could not be inserted into the router tree, so the generated router no longer registers every declared route.")
	w, err := e.HZ()
	if err != nil {
		r.Fail(rule, "engine:load-cmd-hz", "-", "cmd/hz module loads", err.Error())
		return
	}
	errT := types.Universe.Lookup("error").Type()
	nDefs := 0
	keyCount := map[string]int{}
	for _, fi := range declaredNonTest(w) {
		if fi.Decl.Body == nil || !strings.HasSuffix(fi.Pkg.PkgPath, "/cmd/hz/generator") {
			continue
		}
		info := fi.Pkg.TypesInfo
		fname := w.FuncName(fi.Obj)
		check := func(body *ast.BlockStmt, tag string) {
			g := cfg.New(body, func(*ast.CallExpr) bool { return true })
			type def struct {
				v    *types.Var
				blk  *cfg.Block
				idx  int
				node ast.Node
				call string
			}
			var defs []def
			for _, b := range g.Blocks {
				for i, nd := range b.Nodes {
					as, ok := nd.(*ast.AssignStmt)
					if !ok || len(as.Rhs) != 1 {
						continue
					}
					c, ok := unparen(as.Rhs[0]).(*ast.CallExpr)
					if !ok {
						continue
					}
					for _, l := range as.Lhs {
						id, ok := unparen(l).(*ast.Ident)
						if !ok || id.Name == "_" {
							continue
						}
						v, _ := info.ObjectOf(id).(*types.Var)
						if v == nil || v.IsField() || !types.Identical(v.Type(), errT) {
							continue
						}
						defs = append(defs, def{v, b, i, nd, types.ExprString(c.Fun)})
					}
				}
			}
			reads := func(nd ast.Node, v *types.Var) bool {
				found := false
				ast.Inspect(nd, func(m ast.Node) bool {
					if fl, ok := m.(*ast.FuncLit); ok {
						// a closure capturing the variable may read it later
						ast.Inspect(fl, func(k ast.Node) bool {
							if id, ok := k.(*ast.Ident); ok && info.Uses[id] == types.Object(v) {
								found = true
							}
							return true
						})
						return false
					}
					if as, ok := m.(*ast.AssignStmt); ok {
						// identifiers on the left of = are writes, not reads
						for _, rh := range as.Rhs {
							ast.Inspect(rh, func(k ast.Node) bool {
								if id, ok := k.(*ast.Ident); ok && info.Uses[id] == types.Object(v) {
									found = true
								}
								return true
							})
						}
						for _, l := range as.Lhs {
							if _, isID := unparen(l).(*ast.Ident); !isID {
								ast.Inspect(l, func(k ast.Node) bool {
									if id, ok := k.(*ast.Ident); ok && info.Uses[id] == types.Object(v) {
										found = true
									}
									return true
								})
							}
						}
						return false
					}
					if id, ok := m.(*ast.Ident); ok && info.Uses[id] == types.Object(v) {
						found = true
					}
					return !found
				})
				return found
			}
			writes := func(nd ast.Node, v *types.Var) bool {
				as, ok := nd.(*ast.AssignStmt)
				if !ok {
					return false
				}
				for _, l := range as.Lhs {
					if id, ok := unparen(l).(*ast.Ident); ok && info.ObjectOf(id) == types.Object(v) {
						return true
					}
				}
				return false
			}
			// named results are read by every return
			namedResult := map[*types.Var]bool{}
			if sig, ok := fi.Obj.Type().(*types.Signature); ok && tag == "" {
				for i := 0; i < sig.Results().Len(); i++ {
					if sig.Results().At(i).Name() != "" {
						namedResult[sig.Results().At(i)] = true
					}
				}
			}
			for _, d := range defs {
				if namedResult[d.v] {
					continue
				}
				nDefs++
				// forward search for a path without a read
				type item struct {
					b *cfg.Block
					i int
				}
				seen := map[*cfg.Block]bool{}
				work := []item{{d.blk, d.idx + 1}}
				dead := ""
				for len(work) > 0 && dead == "" {
					it := work[len(work)-1]
					work = work[:len(work)-1]
					stopped := false
					for i := it.i; i < len(it.b.Nodes); i++ {
						nd := it.b.Nodes[i]
						if reads(nd, d.v) {
							stopped = true
							break
						}
						if writes(nd, d.v) {
							dead = "it is overwritten at " + w.Pos(nd.Pos())
							stopped = true
							break
						}
					}
					if stopped {
						continue
					}
					if len(it.b.Succs) == 0 {
						dead = "the function (or closure) ends"
						break
					}
					for _, s := range it.b.Succs {
						if s == d.blk && !seen[s] {
							// back at the defining block: the next iteration re-defines it
							seen[s] = true
							unread := true
							for i := 0; i < d.idx; i++ {
								if reads(s.Nodes[i], d.v) {
									unread = false
								}
							}
							if unread {
								dead = "the loop starts its next iteration"
							}
							continue
						}
						if !seen[s] {
							seen[s] = true
							work = append(work, item{s, 0})
						}
					}
				}
				kb := fmt.Sprintf("%s%s:%s←%s", fname, tag, d.v.Name(), d.call)
				keyCount[kb]++
				key := fmt.Sprintf("%s#%d", kb, keyCount[kb])
				if dead == "" {
					r.OK(rule, key, w.Pos(d.node.Pos()), "the error of this call is read on every path")
				} else {
					r.Fail(rule, key, w.Pos(d.node.Pos()), "the error of this call is read on every path",
						fmt.Sprintf("on some path the error returned by %s is never looked at before %s: generation goes on (and reports success) although this step failed", d.call, dead))
				}
			}
		}
		check(fi.Decl.Body, "")
		k := 0
		ast.Inspect(fi.Decl.Body, func(nd ast.Node) bool {
			if fl, ok := nd.(*ast.FuncLit); ok {
				k++
				check(fl.Body, fmt.Sprintf("$%d", k))
			}
			return true
		})
	}
	r.Unit("%s: %d error definitions from calls analysed in cmd/hz/generator", rule, nDefs)
	r.Floor(rule, nDefs, 30, "error definitions from calls in cmd/hz/generator")
}

// C12.fresh — a recycled context starts its chain from the beginning: the reset methods
// rewind the chain state (handlers, index, full path) on every path.
func c12Fresh(e *Env) {
	resetObligations(e, "C12.fresh", func(tg resetTarget, field string) bool {
		if tg.Typ != "RequestContext" {
			return false
		}
		return field == "" || field == "handlers" || field == "index" || field == "fullPath"
	})
}
