package rules

import (
	"fmt"
	"go/ast"
	"go/printer"
	"go/token"
	"go/types"
	"sort"
	"strings"

	"golang.org/x/tools/go/cfg"

	"hzcheck/core"
	"hzcheck/esp"
)

func init() {
	register("C10", c10Reaper, c10LockAlias, c10Pending, c10Dispose, c10Slot, c10Clean, c10Deadline, c10Retry, c10Lock,
		// a streamed response hands its connection back to the pool when the body stream says it is
		// fully consumed: the drain accounting is part of "reused only after a clean exchange"
		c14Drain, c14EOF, c10Budget, c10ChPool, c10Rewind, c10SkipBody)
}

const pkgClient = Mod + "/pkg/protocol/client"

func isAtomicAdd(f *types.Func) bool {
	return f != nil && f.Pkg() != nil && f.Pkg().Path() == "sync/atomic" && strings.HasPrefix(f.Name(), "Add")
}

// addrOfField reports whether e is &x.F for field F.
func addrOfField(info *types.Info, e ast.Expr, field *types.Var) bool {
	u, ok := unparen(e).(*ast.UnaryExpr)
	if !ok || u.Op != token.AND {
		return false
	}
	return usedVar(info, u.X) == field
}

// C10.pending — the in-flight gauge is incremented and decremented in pairs on every path.
func c10Pending(e *Env) {
	const rule = "C10.pending"
	w, r := e.W, e.R
	r.Explainf("C10.pending: ESP typestate {0,1} over all paths of every function that atomically adds to HostClient.pendingRequests: +1 only at 0, −1 only at 1, every non-panicking exit at 0 (the gauge is zero once all calls returned).")
	field := w.Field("pkg/protocol/http1", "HostClient", "pendingRequests")
	if field == nil {
		r.Anchor(rule, "http1.HostClient.pendingRequests")
		return
	}
	var fns []*core.FuncInfo
	for _, fi := range declaredNonTest(w) {
		info := fi.Pkg.TypesInfo
		hit := false
		ast.Inspect(fi.Decl.Body, func(n ast.Node) bool {
			if c, ok := n.(*ast.CallExpr); ok && isAtomicAdd(calleeOf(info, c)) && len(c.Args) == 2 && addrOfField(info, c.Args[0], field) {
				hit = true
			}
			return !hit
		})
		if hit {
			fns = append(fns, fi)
		}
	}
	r.Floor(rule, len(fns), 1, "functions adding to pendingRequests")
	// every other write of the field is a violation of who-may-write
	for _, fi := range fns {
		info := fi.Pkg.TypesInfo
		fname := w.FuncName(fi.Obj)
		inc, dec := 0, 0
		rl := &esp.Rule{Name: rule, Init: "0",
			Call: func(c *esp.Ctx, call *ast.CallExpr, f *types.Func) {
				if !isAtomicAdd(f) || len(call.Args) != 2 || !addrOfField(info, call.Args[0], field) {
					return
				}
				d, ok := constInt(info, call.Args[1])
				switch {
				case !ok || (d != 1 && d != -1):
					c.Violate(call.Pos(), fname+":"+c.SiteKey(call)+":delta", "gauge changed by a non-unit or non-constant delta; undecided")
				case d == 1:
					if c.S.TS != "0" {
						c.Violate(call.Pos(), fname+":"+c.SiteKey(call)+":double-inc", "pendingRequests incremented twice on one path")
					}
					c.S.TS = "1"
				default:
					if c.S.TS != "1" {
						c.Violate(call.Pos(), fname+":"+c.SiteKey(call)+":dec-without-inc", "pendingRequests decremented without a matching increment")
					}
					c.S.TS = "0"
				}
			},
			Exit: func(c *esp.Ctx) {
				if c.S.TS != "0" && !c.S.Panic {
					what := "return"
					if rs := c.S.RetStmt; rs != nil {
						what = "`" + nodeString(rs) + "`"
					}
					c.Violate(c.S.Ret, fname+":exit-incremented:"+what, "function returns through "+what+" with pendingRequests still incremented (gauge leaks one per call)")
				}
			},
		}
		ast.Inspect(fi.Decl.Body, func(n ast.Node) bool {
			if c, ok := n.(*ast.CallExpr); ok && isAtomicAdd(calleeOf(info, c)) && len(c.Args) == 2 && addrOfField(info, c.Args[0], field) {
				if d, _ := constInt(info, c.Args[1]); d > 0 {
					inc++
				} else {
					dec++
				}
			}
			return true
		})
		ex := esp.New(w, fi, rl)
		vs := ex.Run(fi)
		r.Unit("%s: %s — %d inc / %d dec sites, %d states, %d exits", rule, fname, inc, dec, ex.Steps, ex.Exits)
		r.Check(dec >= 1, rule, fname+":has-dec", w.Pos(fi.Decl.Pos()), "function that increments the gauge also decrements it", "no decrement site")
		if len(vs) == 0 {
			r.OK(rule, fname+":paths", w.Pos(fi.Decl.Pos()), fmt.Sprintf("gauge balanced on all %d exit states", ex.Exits))
		}
		for _, v := range vs {
			r.Fail(rule, v.Key, w.Pos(v.Pos), "pendingRequests +1/−1 pair up on every path", v.Msg, v.Path...)
		}
	}
}

func nodeString(n ast.Node) string {
	switch x := n.(type) {
	case *ast.ReturnStmt:
		var parts []string
		for _, r := range x.Results {
			parts = append(parts, types.ExprString(r))
		}
		return "return " + strings.Join(parts, ", ")
	case ast.Expr:
		return types.ExprString(x)
	}
	var sb strings.Builder
	if err := printer.Fprint(&sb, token.NewFileSet(), n); err != nil {
		return fmt.Sprintf("%T", n)
	}
	out := strings.Join(strings.Fields(sb.String()), " ")
	if len(out) > 160 {
		out = out[:160] + " …"
	}
	return out
}

func isPtrTo(t types.Type, named *types.Named) bool {
	p, ok := t.(*types.Pointer)
	if !ok {
		return false
	}
	n, ok := p.Elem().(*types.Named)
	return ok && n.Obj() == named.Obj()
}

// connOwners discovers functions in which a local *clientConn variable is assigned from a
// call; returns function → (variable, true when the call also returns an error).
type connOwner struct {
	fi      *core.FuncInfo
	v       *types.Var
	withErr bool
	src     string
}

func connOwners(w *core.World, cc *types.Named) []connOwner {
	var out []connOwner
	for _, fi := range declaredNonTest(w) {
		if fi.Pkg.PkgPath != pkgHTTP1 {
			continue
		}
		info := fi.Pkg.TypesInfo
		seen := map[*types.Var]bool{}
		ast.Inspect(fi.Decl.Body, func(n ast.Node) bool {
			as, ok := n.(*ast.AssignStmt)
			if !ok || len(as.Rhs) != 1 {
				return true
			}
			call, ok := unparen(as.Rhs[0]).(*ast.CallExpr)
			if !ok {
				return true
			}
			if tv, ok := info.Types[call.Fun]; ok && tv.IsType() {
				return true
			}
			for i, l := range as.Lhs {
				id, ok := l.(*ast.Ident)
				if !ok {
					continue
				}
				v, _ := info.ObjectOf(id).(*types.Var)
				if v == nil || !isPtrTo(v.Type(), cc) || seen[v] {
					continue
				}
				_ = i
				seen[v] = true
				withErr := false
				if len(as.Lhs) > 1 {
					if t := info.TypeOf(as.Lhs[len(as.Lhs)-1]); t != nil && t.String() == "error" {
						withErr = true
					}
				}
				out = append(out, connOwner{fi, v, withErr, calleeLabel(calleeOf(info, call), call)})
			}
			return true
		})
	}
	return out
}

// C10.dispose — every obtained client connection is disposed exactly once on every path.
func c10Dispose(e *Env) {
	const rule = "C10.dispose"
	w, r := e.W, e.R
	r.Explainf("C10.dispose: for every function of package http1 that assigns a local *clientConn from a call, ESP typestate none/pending/owned/offered/delegated/disposed over all paths (bool locals such as stream/inPool/resetConnection/delivered tracked): the connection is disposed exactly once — closeConn, releaseConn, deferred closeConn, hand-off to newUpgradeConn, successful tryDeliver, being returned to the caller, or delegation to a closure that captures it; no dispose twice, no exit while still owned.")
	cc := w.Named("pkg/protocol/http1", "clientConn")
	if cc == nil {
		r.Anchor(rule, "http1.clientConn")
		return
	}
	owners := connOwners(w, cc)
	r.Floor(rule, len(owners), 3, "functions obtaining a *clientConn from a call")
	nDispose := 0
	for _, ow := range owners {
		fi, v := ow.fi, ow.v
		info := fi.Pkg.TypesInfo
		fname := w.FuncName(fi.Obj)
		var cur *esp.Ctx // the context of the hook being run (parameters of inlined helpers resolve through it)
		isVar := func(e ast.Expr) bool {
			u := usedVar(info, e)
			if u == nil {
				return false
			}
			if cur != nil {
				return cur.Root(u) == types.Object(v)
			}
			return u == v
		}
		isDisposeCall := func(f *types.Func) bool {
			return esp.Is(f, pkgHTTP1, "HostClient", "closeConn") || esp.Is(f, pkgHTTP1, "HostClient", "releaseConn") || esp.Is(f, pkgHTTP1, "", "newUpgradeConn") || esp.Is(f, pkgHTTP1, "wantConn", "tryDeliver")
		}
		sites := map[*ast.CallExpr]bool{}
		offeredVar := ""
		rl := &esp.Rule{Name: rule, Init: "none",
			// a helper that closes or pools the connection it is handed is explored inline
			Inline: func(f *types.Func, d *ast.FuncDecl) bool {
				// closeConn/releaseConn/… are the events themselves, not helpers around them
				return !isDisposeCall(f) && inlineWhen(info, isDisposeCall, nil)(f, d)
			},
			Node: func(c *esp.Ctx, n ast.Node) {
				cur = c
				as, ok := n.(*ast.AssignStmt)
				if !ok || len(as.Rhs) != 1 {
					return
				}
				call, ok := unparen(as.Rhs[0]).(*ast.CallExpr)
				if !ok {
					// plain assignment to the variable from a non-call: ownership unknown
					for _, l := range as.Lhs {
						if isVar(l) && c.S.TS == "owned" {
							c.Violate(as.Pos(), fname+":overwrite-owned", "connection variable overwritten while it still owns a connection")
						}
					}
					return
				}
				f := calleeOf(info, call)
				for _, l := range as.Lhs {
					if isVar(l) {
						if c.S.TS == "owned" {
							c.Violate(as.Pos(), fname+":overwrite-owned", "connection variable overwritten while it still owns a connection")
						}
						if ow.withErr && len(as.Lhs) > 1 {
							c.S.TS = "pending"
						} else {
							c.S.TS = "owned"
						}
						return
					}
				}
				// delivered := w.tryDeliver(cc, nil)
				if esp.Is(f, pkgHTTP1, "wantConn", "tryDeliver") && len(call.Args) == 2 && isVar(call.Args[0]) {
					if id, ok := as.Lhs[0].(*ast.Ident); ok {
						offeredVar = id.Name
					}
				}
			},
			Call: func(c *esp.Ctx, call *ast.CallExpr, f *types.Func) {
				cur = c
				if isDisposeCall(f) {
					for _, a := range call.Args {
						if isVar(a) {
							sites[call] = true
						}
					}
				}
				site := fname + ":" + c.SiteKey(call)
				dispose := func(kind string) {
					switch c.S.TS {
					case "owned", "delegated", "offered":
						c.S.TS = "disposed"
					case "disposed":
						c.Violate(call.Pos(), site+":double-dispose", "connection is disposed twice ("+kind+" after an earlier dispose): connsCount would be decremented twice or a closed connection pooled")
					default:
						c.Violate(call.Pos(), site+":dispose-unowned", kind+" of a connection that was not obtained on this path (state "+c.S.TS+")")
					}
				}
				switch {
				case (esp.Is(f, pkgHTTP1, "HostClient", "closeConn") || esp.Is(f, pkgHTTP1, "HostClient", "releaseConn")) && len(call.Args) == 1 && isVar(call.Args[0]):
					dispose(f.Name())
				case esp.Is(f, pkgHTTP1, "", "newUpgradeConn") && len(call.Args) == 2 && isVar(call.Args[1]):
					dispose("hand-off to newUpgradeConn")
				case esp.Is(f, pkgHTTP1, "wantConn", "tryDeliver") && len(call.Args) == 2 && isVar(call.Args[0]):
					if c.S.TS != "owned" {
						c.Violate(call.Pos(), site+":deliver-unowned", "tryDeliver of a connection in state "+c.S.TS)
					}
					c.S.TS = "offered"
				}
			},
			FuncLit: func(c *esp.Ctx, fl *ast.FuncLit) {
				if c.S.TS == "owned" && refersTo(info, fl.Body, v) {
					c.S.TS = "delegated"
				}
			},
			Branch: func(c *esp.Ctx, cond ast.Expr, val bool) {
				if c.S.TS == "pending" {
					if ok, isNil := errNilCond(info, cond, val); ok {
						if isNil {
							c.S.TS = "owned"
						} else {
							c.S.TS = "none"
						}
					}
					return
				}
				if c.S.TS == "offered" && offeredVar != "" {
					// `if !delivered` / `if delivered`
					pol, e := 1, unparen(cond)
					if u, ok := e.(*ast.UnaryExpr); ok && u.Op == token.NOT {
						pol, e = -1, unparen(u.X)
					}
					if id, ok := e.(*ast.Ident); ok && id.Name == offeredVar {
						if val == (pol > 0) {
							c.S.TS = "disposed"
						} else {
							c.S.TS = "owned"
						}
					}
				}
			},
			Exit: func(c *esp.Ctx) {
				cur = c
				if c.S.Panic {
					return
				}
				switch c.S.TS {
				case "owned", "pending", "offered":
					// returning the connection to the caller transfers ownership
					if rs := c.S.RetStmt; rs != nil {
						for _, res := range rs.Results {
							if isVar(res) {
								return
							}
						}
					}
					what := "function end"
					if rs := c.S.RetStmt; rs != nil {
						what = "`" + nodeString(rs) + "`"
					}
					c.Violate(c.S.Ret, fname+":leak:"+what, "function returns through "+what+" while still owning the connection (neither closed, pooled, delivered nor handed off): connsCount never drops")
				}
			},
		}
		ex := esp.New(w, fi, rl)
		vs := ex.Run(fi)
		n := len(sites)
		nDispose += n
		r.Unit("%s: %s — variable %s from %s, %d dispose sites, %d states, %d exits", rule, fname, v.Name(), ow.src, n, ex.Steps, ex.Exits)
		if len(vs) == 0 {
			r.OK(rule, fname+":"+v.Name()+":paths", w.Pos(fi.Decl.Pos()), fmt.Sprintf("connection %s disposed exactly once on all %d exit states", v.Name(), ex.Exits))
		}
		for _, vi := range vs {
			r.Fail(rule, vi.Key, w.Pos(vi.Pos), "an obtained client connection is disposed exactly once on every path", vi.Msg, vi.Path...)
		}
	}
	r.Floor(rule, nDispose, 12, "dispose sites (closeConn/releaseConn/newUpgradeConn/tryDeliver on an owned connection)")
}

// C10.slot — every connsCount++ slot ends in a connection or in decConnsCount; decConnsCount
// either decrements or transfers the slot, never both, never neither.
func c10Slot(e *Env) {
	const rule = "C10.slot"
	w, r := e.W, e.R
	r.Explainf("C10.slot: ESP typestate on the functions that change HostClient.connsCount or own a transferred slot: after `connsCount++` every exit either returns a connection built by acquireClientConn or has called decConnsCount; decConnsCount performs exactly one of `connsCount--` and `go dialConnFor(w)` on every path; dialConnFor (entered owning a slot) ends with a built connection or decConnsCount; closeConn always reaches decConnsCount.")
	field := w.Field("pkg/protocol/http1", "HostClient", "connsCount")
	if field == nil {
		r.Anchor(rule, "http1.HostClient.connsCount")
		return
	}
	// the slot-releasing function and the dialing goroutine are found by role (private names may
	// change): the one function that decrements connsCount, and what it starts with `go`
	var decFn *core.FuncInfo
	dialFns := map[*types.Func]*core.FuncInfo{}
	isDec := func(f *types.Func) bool { return decFn != nil && f == decFn.Obj }
	isMake := func(f *types.Func) bool { return esp.Is(f, pkgHTTP1, "", "acquireClientConn") }
	isDialFor := func(f *types.Func) bool { return f != nil && dialFns[f] != nil }
	incdecs := map[*core.FuncInfo][2]int{}
	for _, fi := range declaredNonTest(w) {
		info := fi.Pkg.TypesInfo
		ast.Inspect(fi.Decl.Body, func(n ast.Node) bool {
			switch x := n.(type) {
			case *ast.IncDecStmt:
				if usedVar(info, x.X) == field {
					c := incdecs[fi]
					if x.Tok == token.INC {
						c[0]++
					} else {
						c[1]++
					}
					incdecs[fi] = c
				}
			case *ast.AssignStmt:
				for _, l := range x.Lhs {
					if usedVar(info, l) == field {
						r.Fail(rule, w.FuncName(fi.Obj)+":assign", w.Pos(x.Pos()), "connsCount changes only by ++/--", "connsCount is assigned directly; slot accounting undecided")
					}
				}
			}
			return true
		})
	}
	nInc, nDec := 0, 0
	var fis []*core.FuncInfo
	for fi, c := range incdecs {
		nInc += c[0]
		nDec += c[1]
		fis = append(fis, fi)
	}
	sort.Slice(fis, func(i, j int) bool { return fis[i].Decl.Pos() < fis[j].Decl.Pos() })
	{
		var decs []*core.FuncInfo
		for _, fi := range fis {
			if incdecs[fi][1] > 0 {
				decs = append(decs, fi)
			}
		}
		for _, fi := range decs {
			if len(decs) == 1 || fi.Obj.Name() == "decConnsCount" {
				decFn = fi
			}
		}
		if decFn == nil {
			r.Anchor(rule, fmt.Sprintf("the one function that decrements HostClient.connsCount (found %d)", len(decs)))
			return
		}
		ast.Inspect(decFn.Decl.Body, func(n ast.Node) bool {
			if gs, ok := n.(*ast.GoStmt); ok {
				if f := calleeOf(decFn.Pkg.TypesInfo, gs.Call); f != nil {
					if d := w.DeclOf(f); d != nil {
						dialFns[f] = d
					}
				}
			}
			return true
		})
	}
	r.Floor(rule, nInc, 1, "connsCount++ sites")
	r.Floor(rule, nDec, 1, "connsCount-- sites")
	run := func(fi *core.FuncInfo, init string, mode string) {
		info := fi.Pkg.TypesInfo
		fname := w.FuncName(fi.Obj)
		rl := &esp.Rule{Name: rule, Init: init,
			Node: func(c *esp.Ctx, n ast.Node) {
				x, ok := n.(*ast.IncDecStmt)
				if !ok || usedVar(info, x.X) != field {
					return
				}
				switch mode {
				case "acquire":
					if x.Tok == token.INC {
						if c.S.TS != "free" {
							c.Violate(x.Pos(), fname+":double-inc", "connsCount incremented twice on one path")
						}
						c.S.TS = "slot"
					} else {
						c.Violate(x.Pos(), fname+":raw-dec", "connsCount decremented outside the slot-releasing function")
					}
				case "dec":
					if x.Tok == token.DEC {
						if c.S.TS != "todo" {
							c.Violate(x.Pos(), fname+":dec-and-transfer", "slot is both transferred to a dialing goroutine and decremented (or decremented twice)")
						}
						c.S.TS = "done"
					}
				}
			},
			Call: func(c *esp.Ctx, call *ast.CallExpr, f *types.Func) {
				switch mode {
				case "acquire", "dialfor":
					if isDec(f) || esp.Is(f, pkgHTTP1, "HostClient", "closeConn") {
						if c.S.TS == "free" {
							c.Violate(call.Pos(), fname+":"+c.SiteKey(call)+":release-unowned", "slot released on a path that never took one")
						}
						c.S.TS = "free"
					}
					if isMake(f) && c.S.TS == "slot" {
						c.S.TS = "conn"
					}
				case "dec":
					if isDialFor(f) {
						if c.S.TS != "todo" {
							c.Violate(call.Pos(), fname+":"+c.SiteKey(call)+":transfer-twice", "slot transferred after it was already transferred or decremented")
						}
						c.S.TS = "done"
					}
				case "close":
					if isDec(f) {
						c.S.TS = "done"
					}
				}
			},
			Exit: func(c *esp.Ctx) {
				if c.S.Panic {
					return
				}
				what := "function end"
				if rs := c.S.RetStmt; rs != nil {
					what = "`" + nodeString(rs) + "`"
				}
				switch mode {
				case "acquire", "dialfor":
					if c.S.TS == "slot" {
						c.Violate(c.S.Ret, fname+":slot-leak:"+what, "function returns through "+what+" holding a connsCount slot without a connection and without decConnsCount: the per-host count stays too high forever")
					}
				case "dec", "close":
					if c.S.TS != "done" {
						c.Violate(c.S.Ret, fname+":neither:"+what, "path through "+what+" neither decrements connsCount nor transfers the slot")
					}
				}
			},
		}
		ex := esp.New(w, fi, rl)
		vs := ex.Run(fi)
		r.Unit("%s: %s (%s) — %d states, %d exits", rule, fname, mode, ex.Steps, ex.Exits)
		if len(vs) == 0 {
			r.OK(rule, fname+":paths", w.Pos(fi.Decl.Pos()), fmt.Sprintf("slot accounting (%s) holds on all %d exit states", mode, ex.Exits))
		}
		for _, v := range vs {
			r.Fail(rule, v.Key, w.Pos(v.Pos), "connsCount slots are neither leaked nor released twice", v.Msg, v.Path...)
		}
	}
	for _, fi := range fis {
		c := incdecs[fi]
		if c[0] > 0 {
			run(fi, "free", "acquire")
		}
		if c[1] > 0 {
			if !isDec(fi.Obj) {
				r.Fail(rule, w.FuncName(fi.Obj)+":raw-dec", w.Pos(fi.Decl.Pos()), "connsCount-- only inside the slot-releasing function", "decrement outside "+w.FuncName(decFn.Obj))
			}
			run(fi, "todo", "dec")
		}
	}
	var dials []*core.FuncInfo
	for _, d := range dialFns {
		dials = append(dials, d)
	}
	sort.Slice(dials, func(i, j int) bool { return dials[i].Decl.Pos() < dials[j].Decl.Pos() })
	for _, fi := range dials {
		run(fi, "slot", "dialfor")
	}
	r.Floor(rule, len(dials), 1, "functions the slot-releasing function starts with `go` (slot transfer)")
	if fi := w.Func("pkg/protocol/http1", "HostClient", "closeConn"); fi != nil {
		run(fi, "todo", "close")
	} else {
		r.Anchor(rule, "HostClient.closeConn")
	}
}

// C10.clean — a connection is pooled only after a clean exchange.
func c10Clean(e *Env) {
	const rule = "C10.clean"
	w, r := e.W, e.R
	r.Explainf("C10.clean: in every function that both obtains a connection with acquireConn and can pool it with releaseConn: (typestate) once an `err != nil` outcome was observed after the connection was obtained, releaseConn is not reachable; (choice) each releaseConn sits on the false side of a bool that is assigned from an expression mentioning req.ConnectionClose(), resp.ConnectionClose() and every bool local that is set when the function forces Connection: close on the request.")
	cc := w.Named("pkg/protocol/http1", "clientConn")
	if cc == nil {
		r.Anchor(rule, "http1.clientConn")
		return
	}
	n := 0
	for _, ow := range connOwners(w, cc) {
		fi, v := ow.fi, ow.v
		if !ow.withErr {
			continue
		}
		info := fi.Pkg.TypesInfo
		fname := w.FuncName(fi.Obj)
		isRelease := func(f *types.Func) bool { return esp.Is(f, pkgHTTP1, "HostClient", "releaseConn") }
		// a release site is a releaseConn(v) call, or a call handing v to a helper of the package
		// that pools its parameter on the false side of a bool parameter
		// (closeOrRelease(cc, shouldClose)): the decision is then the argument expression
		type relSite struct {
			call     *ast.CallExpr
			decision ast.Expr // nil for a direct call (decision = enclosing if)
		}
		var releases []relSite
		helperDecision := func(call *ast.CallExpr) (ast.Expr, bool) {
			f := calleeOf(info, call)
			d := w.DeclOf(f)
			if d == nil || d.Pkg != fi.Pkg || d.Decl.Body == nil || isRelease(f) {
				return nil, false
			}
			sig := f.Type().(*types.Signature)
			hinfo := d.Pkg.TypesInfo
			hpar := parents(d.Decl)
			var dec ast.Expr
			found := false
			ast.Inspect(d.Decl.Body, func(nd ast.Node) bool {
				rc, ok := nd.(*ast.CallExpr)
				if !ok || !isRelease(calleeOf(hinfo, rc)) || len(rc.Args) != 1 {
					return true
				}
				pv := usedVar(hinfo, rc.Args[0])
				pi := -1
				for k := 0; k < sig.Params().Len(); k++ {
					if sig.Params().At(k) == pv {
						pi = k
					}
				}
				if pi < 0 || pi >= len(call.Args) || usedVar(info, call.Args[pi]) != v {
					return true
				}
				// governing bool parameter
				for cur := ast.Node(rc); cur != nil; cur = hpar[cur] {
					is, isIf := hpar[cur].(*ast.IfStmt)
					if !isIf {
						continue
					}
					cond := unparen(is.Cond)
					neg := false
					if u, ok := cond.(*ast.UnaryExpr); ok && u.Op == token.NOT {
						neg, cond = true, unparen(u.X)
					}
					bv := usedVar(hinfo, cond)
					for k := 0; k < sig.Params().Len(); k++ {
						if bv != nil && sig.Params().At(k) == bv && k < len(call.Args) {
							if (cur == is.Else && !neg) || (cur == ast.Node(is.Body) && neg) {
								dec, found = call.Args[k], true
							}
						}
					}
				}
				return true
			})
			return dec, found
		}
		ast.Inspect(fi.Decl.Body, func(nd ast.Node) bool {
			call, ok := nd.(*ast.CallExpr)
			if !ok {
				return true
			}
			if isRelease(calleeOf(info, call)) && refersTo(info, call, v) {
				releases = append(releases, relSite{call, nil})
			} else if dec, ok := helperDecision(call); ok {
				releases = append(releases, relSite{call, dec})
			}
			return true
		})
		if len(releases) == 0 {
			continue
		}
		n++
		// typestate: dirty after an error outcome
		rl := &esp.Rule{Name: rule, Init: "pre",
			Track: func(k string) bool { return k == "err == nil" },
			Inline: func(f *types.Func, d *ast.FuncDecl) bool {
				return !isRelease(f) && inlineWhen(info, isRelease, nil)(f, d)
			},
			Node: func(c *esp.Ctx, nd ast.Node) {
				if as, ok := nd.(*ast.AssignStmt); ok {
					for _, l := range as.Lhs {
						if usedVar(info, l) == v {
							c.S.TS = "clean"
						}
					}
				}
			},
			Branch: func(c *esp.Ctx, cond ast.Expr, val bool) {
				if c.S.TS == "pre" {
					return
				}
				found := false
				ast.Inspect(cond, func(nd ast.Node) bool {
					if be, ok := nd.(*ast.BinaryExpr); ok {
						if ok2, isNil := errNilCond(info, be, true); ok2 {
							// polarity of this atom inside cond is not modelled beyond the simple forms
							_ = isNil
							found = true
						}
					}
					return true
				})
				if !found {
					return
				}
				if ok, isNil := errNilCond(info, cond, val); ok {
					if !isNil {
						c.S.TS = "dirty"
					}
					return
				}
				// compound condition mentioning an error test: be conservative on both edges only
				// when the edge is compatible with "error present"
				if be, ok := unparen(cond).(*ast.BinaryExpr); ok && be.Op == token.LAND && !val {
					return // `a && err == nil` false: unknown
				}
			},
			Call: func(c *esp.Ctx, call *ast.CallExpr, f *types.Func) {
				if isRelease(f) && len(call.Args) == 1 && usedVar(info, call.Args[0]) != nil && c.Root(usedVar(info, call.Args[0])) == types.Object(v) && c.S.TS == "dirty" {
					c.Violate(call.Pos(), fname+":"+c.SiteKey(call)+":release-after-error", "connection is put back into the pool on a path where an I/O or protocol error was observed after it was obtained")
				}
			},
		}
		ex := esp.New(w, fi, rl)
		vs := ex.Run(fi)
		r.Unit("%s: %s — %d release sites, %d states, %d exits", rule, fname, len(releases), ex.Steps, ex.Exits)
		if len(vs) == 0 {
			r.OK(rule, fname+":no-release-after-error", w.Pos(fi.Decl.Pos()), "releaseConn unreachable after an observed error")
		}
		for _, vi := range vs {
			r.Fail(rule, vi.Key, w.Pos(vi.Pos), "a connection is pooled only after an error-free exchange", vi.Msg, vi.Path...)
		}
		// choice rule
		par := parents(fi.Decl)
		// bool locals set true next to req.SetConnectionClose()
		forced := map[*types.Var]bool{}
		ast.Inspect(fi.Decl.Body, func(nd ast.Node) bool {
			blk, ok := nd.(*ast.BlockStmt)
			if !ok {
				return true
			}
			has := false
			for _, s := range blk.List {
				if es, ok := s.(*ast.ExprStmt); ok {
					if call, ok := es.X.(*ast.CallExpr); ok && esp.Is(calleeOf(info, call), pkgProto, "Request", "SetConnectionClose") {
						has = true
					}
				}
			}
			if has {
				for _, s := range blk.List {
					if as, ok := s.(*ast.AssignStmt); ok && len(as.Lhs) == 1 && len(as.Rhs) == 1 {
						if id, ok := as.Rhs[0].(*ast.Ident); ok && id.Name == "true" {
							if lv := usedVar(info, as.Lhs[0]); lv != nil {
								forced[lv] = true
							}
						}
					}
				}
			}
			return true
		})
		for i, site := range releases {
			rel := site.call
			key := fmt.Sprintf("%s:releaseConn#%d:choice", fname, i+1)
			ok := false
			why := "releaseConn is not on the false side of a close decision"
			// the decision expressions whose false outcome leads to pooling
			var decisions []ast.Expr
			if site.decision != nil {
				decisions = append(decisions, site.decision)
			} else {
				for cur := ast.Node(rel); cur != nil; cur = par[cur] {
					is, isIf := par[cur].(*ast.IfStmt)
					if isIf && cur == is.Else {
						decisions = append(decisions, is.Cond) // `if close { closeConn } else { releaseConn }`
					}
				}
			}
			for _, dexpr := range decisions {
				if ok {
					break
				}
				// collect bool idents of the condition
				var vars []*types.Var
				ast.Inspect(dexpr, func(nd ast.Node) bool {
					if id, ok := nd.(*ast.Ident); ok {
						if lv, ok := info.Uses[id].(*types.Var); ok && !lv.IsField() {
							vars = append(vars, lv)
						}
					}
					return true
				})
				for _, dv := range vars {
					// all assignments of dv
					good, total := 0, 0
					ast.Inspect(fi.Decl.Body, func(nd ast.Node) bool {
						as, ok := nd.(*ast.AssignStmt)
						if !ok || len(as.Lhs) != 1 || len(as.Rhs) != 1 || usedVar(info, as.Lhs[0]) != dv {
							return true
						}
						if id, ok := as.Rhs[0].(*ast.Ident); ok && id.Name == "false" && as.Tok == token.DEFINE {
							return true // initialisation before the decision
						}
						// `dv = true` for a variable that occurs un-negated in a condition whose true
						// side closes the connection only ever forces a close: it cannot pool a
						// connection that the main assignment would have closed
						if id, ok := as.Rhs[0].(*ast.Ident); ok && id.Name == "true" && as.Tok == token.ASSIGN && !underNot(dexpr, dv, info) {
							return true
						}
						total++
						reqC, respC := false, false
						ast.Inspect(as.Rhs[0], func(m ast.Node) bool {
							if call, ok := m.(*ast.CallExpr); ok {
								f := calleeOf(info, call)
								if esp.Is(f, pkgProto, "Request", "ConnectionClose") {
									reqC = true
								}
								if esp.Is(f, pkgProto, "Response", "ConnectionClose") {
									respC = true
								}
							}
							return true
						})
						allForced := true
						for fv := range forced {
							if !refersTo(info, as.Rhs[0], fv) {
								allForced = false
							}
						}
						if reqC && respC && allForced {
							good++
						} else {
							why = fmt.Sprintf("decision variable %s is assigned from `%s`, which does not mention req.ConnectionClose(), resp.ConnectionClose() and %d forced-close flag(s)", dv.Name(), types.ExprString(as.Rhs[0]), len(forced))
						}
						return true
					})
					if total > 0 && good == total {
						ok = true
					}
				}
			}
			r.Check(ok, rule, key, w.Pos(rel.Pos()), "the keep-or-close decision depends on both Connection: close indications and the forced-close flag", why)
		}
	}
	r.Floor(rule, n, 1, "functions that obtain and may pool a connection")
}

// C10.deadline — every write/read of the exchange is preceded by the matching deadline fed by
// the remaining request timeout.
func c10Deadline(e *Env) {
	const rule = "C10.deadline"
	w, r := e.W, e.R
	r.Explainf("C10.deadline: ESP typestate on the exchange function (the one calling acquireConn and req.Write): every request write/flush happens after SetWriteTimeout and every response read after SetReadTimeout on that path; the timeout argument is the second result of the latest updateReqTimeout(reqTimeout, …) (or a constant protection timeout on the error path); a true first result (deadline already passed) leads to closeConn and the timeout error before any further I/O.")
	var fns []*core.FuncInfo
	for _, fi := range funcsCalling(w, func(f *types.Func) bool { return esp.Is(f, pkgHTTP1, "HostClient", "acquireConn") }) {
		if len(funcsCallingIn(fi, func(f *types.Func) bool { return esp.Is(f, pkgReq, "", "Write") })) > 0 {
			fns = append(fns, fi)
		}
	}
	r.Floor(rule, len(fns), 1, "exchange functions (acquireConn + req.Write)")
	errTimeout, _ := w.Object("pkg/protocol/http1", "errTimeout").(*types.Var)
	for _, fi := range fns {
		info := fi.Pkg.TypesInfo
		fname := w.FuncName(fi.Obj)
		// TS: w<0|1> r<0|1> sc<0|1>(shouldClose pending) plus name of timeout var
		type st struct {
			w, rd, sc bool
			tv        string
		}
		parse := func(s string) st {
			p := strings.Split(s, ",")
			return st{p[0] == "1", p[1] == "1", p[2] == "1", p[3]}
		}
		str := func(s st) string {
			b := func(x bool) string {
				if x {
					return "1"
				}
				return "0"
			}
			return b(s.w) + "," + b(s.rd) + "," + b(s.sc) + "," + s.tv
		}
		scVar := ""
		nW, nR := 0, 0
		isNetFn := func(f *types.Func, name string) bool {
			return f != nil && f.Name() == name && f.Pkg() != nil && f.Pkg().Path() == pkgNetwork
		}
		rl := &esp.Rule{Name: rule, Init: str(st{}),
			Node: func(c *esp.Ctx, n ast.Node) {
				as, ok := n.(*ast.AssignStmt)
				if !ok || len(as.Rhs) != 1 || len(as.Lhs) != 2 {
					return
				}
				call, ok := unparen(as.Rhs[0]).(*ast.CallExpr)
				if !ok || !esp.Is(calleeOf(info, call), pkgHTTP1, "", "updateReqTimeout") {
					return
				}
				s := parse(c.S.TS)
				if id, ok := as.Lhs[1].(*ast.Ident); ok {
					s.tv = id.Name
				}
				if id, ok := as.Lhs[0].(*ast.Ident); ok {
					scVar = id.Name
				}
				s.sc = true
				c.S.TS = str(s)
			},
			Branch: func(c *esp.Ctx, cond ast.Expr, val bool) {
				s := parse(c.S.TS)
				if id, ok := unparen(cond).(*ast.Ident); ok && id.Name == scVar && s.sc {
					if val {
						c.S.TS = "expired"
					} else {
						s.sc = false
						c.S.TS = str(s)
					}
				}
			},
			Call: func(c *esp.Ctx, call *ast.CallExpr, f *types.Func) {
				site := fname + ":" + c.SiteKey(call)
				if c.S.TS == "expired" || c.S.TS == "expired-closed" {
					if esp.Is(f, pkgHTTP1, "HostClient", "closeConn") {
						c.S.TS = "expired-closed"
						return
					}
					if isNetFn(f, "Flush") || isNetFn(f, "Peek") || esp.Is(f, pkgReq, "", "Write") || esp.Is(f, pkgReq, "", "ProxyWrite") || strings.HasPrefix(f.FullName(), Mod+"/pkg/protocol/http1/resp.Read") {
						c.Violate(call.Pos(), site+":io-after-expiry", "I/O on the connection although the request timeout has already expired")
					}
					return
				}
				s := parse(c.S.TS)
				fedBy := func(arg ast.Expr) bool {
					if _, ok := info.Types[arg]; ok && info.Types[arg].Value != nil {
						return true
					}
					if sel, ok := unparen(arg).(*ast.SelectorExpr); ok {
						if pn, ok := sel.X.(*ast.Ident); ok {
							if _, isPkg := info.Uses[pn].(*types.PkgName); isPkg {
								return true // time.Second style constant
							}
						}
					}
					id, ok := unparen(arg).(*ast.Ident)
					return ok && id.Name == s.tv && s.tv != ""
				}
				switch {
				case isNetFn(f, "SetWriteTimeout"):
					if s.sc {
						c.Violate(call.Pos(), site+":expiry-unchecked", "deadline is set without testing whether the request timeout already expired")
					}
					if len(call.Args) != 1 || !fedBy(call.Args[0]) {
						c.Violate(call.Pos(), site+":timeout-source", "write deadline is not the remaining request timeout computed by updateReqTimeout")
					}
					s.w = true
				case isNetFn(f, "SetReadTimeout"):
					if s.sc {
						c.Violate(call.Pos(), site+":expiry-unchecked", "deadline is set without testing whether the request timeout already expired")
					}
					if len(call.Args) != 1 || !fedBy(call.Args[0]) {
						c.Violate(call.Pos(), site+":timeout-source", "read deadline is not the remaining request timeout computed by updateReqTimeout")
					}
					s.rd = true
				case esp.Is(f, pkgReq, "", "Write"), esp.Is(f, pkgReq, "", "ProxyWrite"), isNetFn(f, "Flush"):
					if !s.w {
						c.Violate(call.Pos(), site+":write-without-deadline", "request bytes are written without a write deadline on this path: a stalled peer blocks the call beyond its timeout")
					}
				case isNetFn(f, "Peek"), f != nil && f.Pkg() != nil && f.Pkg().Path() == Mod+"/pkg/protocol/http1/resp" && strings.HasPrefix(f.Name(), "Read"):
					if !s.rd {
						c.Violate(call.Pos(), site+":read-without-deadline", "response bytes are read without a read deadline on this path: a stalled peer blocks the call beyond its timeout")
					}
				}
				if c.S.TS != "expired" {
					c.S.TS = str(s)
				}
			},
			Exit: func(c *esp.Ctx) {
				if c.S.Panic {
					return
				}
				if c.S.TS == "expired" {
					c.Violate(c.S.Ret, fname+":expiry-no-close", "expired request timeout does not close the connection")
				}
				if c.S.TS == "expired-closed" && errTimeout != nil {
					if rs := c.S.RetStmt; rs == nil || len(rs.Results) == 0 || usedVar(info, rs.Results[len(rs.Results)-1]) != errTimeout {
						c.Violate(c.S.Ret, fname+":expiry-error", "expired request timeout does not return the timeout error")
					}
				}
			},
		}
		ast.Inspect(fi.Decl.Body, func(n ast.Node) bool {
			if call, ok := n.(*ast.CallExpr); ok {
				f := calleeOf(info, call)
				if isNetFn(f, "SetWriteTimeout") {
					nW++
				}
				if isNetFn(f, "SetReadTimeout") {
					nR++
				}
			}
			return true
		})
		ex := esp.New(w, fi, rl)
		vs := ex.Run(fi)
		r.Unit("%s: %s — %d SetWriteTimeout / %d SetReadTimeout sites, %d states, %d exits", rule, fname, nW, nR, ex.Steps, ex.Exits)
		r.Check(nW >= 1 && nR >= 1, rule, fname+":has-deadlines", w.Pos(fi.Decl.Pos()), "exchange function sets both deadlines", "missing SetWriteTimeout or SetReadTimeout")
		if len(vs) == 0 {
			r.OK(rule, fname+":paths", w.Pos(fi.Decl.Pos()), fmt.Sprintf("every write/read is covered by its deadline on all %d exit states", ex.Exits))
		}
		for _, v := range vs {
			r.Fail(rule, v.Key, w.Pos(v.Pos), "every I/O of the exchange is bounded by the remaining request timeout", v.Msg, v.Path...)
		}
	}
}

func funcsCallingIn(fi *core.FuncInfo, pred func(*types.Func) bool) []*ast.CallExpr {
	var out []*ast.CallExpr
	ast.Inspect(fi.Decl.Body, func(n ast.Node) bool {
		if c, ok := n.(*ast.CallExpr); ok {
			if f := calleeOf(fi.Pkg.TypesInfo, c); f != nil && pred(f) {
				out = append(out, c)
			}
		}
		return true
	})
	return out
}

// C10.retry — a request is re-sent only after a retry predicate said yes; the default
// predicate only accepts idempotent, rewindable requests.
func c10Retry(e *Env) {
	const rule = "C10.retry"
	w, r := e.W, e.R
	r.Explainf("C10.retry: ESP typestate on HostClient.Do: every back edge of the loop that re-invokes the exchange is taken only after a retry predicate (client.DefaultRetryIf or a value of type client.RetryIfFunc) evaluated to true since the last attempt; the default predicate returns false for a body stream before anything else and only consults the method tests IsGet/IsHead/IsPut/IsDelete/IsOptions/IsTrace.")
	do := w.Func("pkg/protocol/http1", "HostClient", "do")
	if do == nil {
		// the thin wrapper was inlined into its caller: the exchange itself plays the role
		do = w.Func("pkg/protocol/http1", "HostClient", "doNonNilReqResp")
	}
	retryT := w.Named("pkg/protocol/client", "RetryIfFunc")
	if do == nil || retryT == nil {
		r.Anchor(rule, "HostClient.do / client.RetryIfFunc")
		return
	}
	fns := funcsCalling(w, func(f *types.Func) bool { return f == do.Obj })
	r.Floor(rule, len(fns), 1, "functions invoking HostClient.do")
	for _, fi := range fns {
		info := fi.Pkg.TypesInfo
		fname := w.FuncName(fi.Obj)
		var doCall *ast.CallExpr
		isPred := func(call *ast.CallExpr) bool {
			if f := calleeOf(info, call); f != nil {
				return esp.Is(f, pkgClient, "", "DefaultRetryIf")
			}
			if t := info.TypeOf(call.Fun); t != nil {
				if n, ok := t.(*types.Named); ok && n.Obj() == retryT.Obj() {
					return true
				}
			}
			return false
		}
		ast.Inspect(fi.Decl.Body, func(n ast.Node) bool {
			if c, ok := n.(*ast.CallExpr); ok && calleeOf(info, c) == do.Obj {
				doCall = c
			}
			return true
		})
		rl := &esp.Rule{Name: rule, Init: "fresh",
			Call: func(c *esp.Ctx, call *ast.CallExpr, f *types.Func) {
				if f == do.Obj {
					c.S.TS = "attempted"
				}
			},
			Branch: func(c *esp.Ctx, cond ast.Expr, val bool) {
				if c.S.TS != "attempted" {
					return
				}
				// polarity of predicate calls inside cond
				var walk func(e ast.Expr, pol int) int
				walk = func(e ast.Expr, pol int) int {
					switch x := unparen(e).(type) {
					case *ast.UnaryExpr:
						if x.Op == token.NOT {
							return walk(x.X, -pol)
						}
					case *ast.BinaryExpr:
						if x.Op == token.LAND && pol > 0 {
							if a := walk(x.X, pol); a != 0 {
								return a
							}
							return walk(x.Y, pol)
						}
						if x.Op == token.LOR && pol < 0 {
							if a := walk(x.X, pol); a != 0 {
								return a
							}
							return walk(x.Y, pol)
						}
					case *ast.CallExpr:
						if isPred(x) {
							return pol
						}
					}
					return 0
				}
				pol := 0
				if val {
					pol = walk(cond, 1)
				} else {
					pol = -walk(cond, -1)
					// cond false with predicate under negation: `!pred(...)` false ⇒ pred true
					if p := walk(cond, 1); p < 0 {
						pol = 1
					} else {
						pol = 0
					}
				}
				if pol > 0 {
					c.S.TS = "approved"
				}
			},
			BackEdge: func(c *esp.Ctx, from, to *cfg.Block) {
				if doCall == nil || to.Stmt == nil || !within(doCall, to.Stmt) {
					return
				}
				if c.S.TS == "attempted" {
					c.Violate(to.Stmt.Pos(), fname+":retry-unapproved", "the request is sent again although no retry predicate approved it since the last attempt (a non-idempotent request could be sent twice)")
				}
			},
		}
		ex := esp.New(w, fi, rl)
		vs := ex.Run(fi)
		r.Unit("%s: %s — %d states, %d exits", rule, fname, ex.Steps, ex.Exits)
		if len(vs) == 0 {
			r.OK(rule, fname+":paths", w.Pos(fi.Decl.Pos()), "every re-send is approved by a retry predicate")
		}
		for _, v := range vs {
			r.Fail(rule, v.Key, w.Pos(v.Pos), "a request is repeated only when a retry predicate allows it", v.Msg, v.Path...)
		}
	}
	// default predicate
	def := w.Func("pkg/protocol/client", "", "DefaultRetryIf")
	if def == nil {
		r.Anchor(rule, "client.DefaultRetryIf")
		return
	}
	info := def.Pkg.TypesInfo
	allowed := map[string]bool{"IsGet": true, "IsHead": true, "IsPut": true, "IsDelete": true, "IsOptions": true, "IsTrace": true}
	seen := map[string]bool{}
	var visit func(fi *core.FuncInfo, depth int)
	visit = func(fi *core.FuncInfo, depth int) {
		ast.Inspect(fi.Decl.Body, func(n ast.Node) bool {
			call, ok := n.(*ast.CallExpr)
			if !ok {
				return true
			}
			f := calleeOf(fi.Pkg.TypesInfo, call)
			if f == nil {
				return true
			}
			if rn := recvNamed(f); rn != nil && rn.Obj().Name() == "RequestHeader" && strings.HasPrefix(f.Name(), "Is") {
				seen[f.Name()] = true
			} else if d := w.DeclOf(f); d != nil && d.Pkg == fi.Pkg && depth < 2 {
				visit(d, depth+1)
			}
			return true
		})
	}
	visit(def, 0)
	var names []string
	for k := range seen {
		names = append(names, k)
	}
	sort.Strings(names)
	for _, k := range names {
		r.Check(allowed[k], rule, "DefaultRetryIf:method:"+k, w.Pos(def.Decl.Pos()), "default retry predicate consults only idempotent-method tests ("+k+")", "method test "+k+" is not in the idempotent set GET HEAD PUT DELETE OPTIONS TRACE: such requests could be sent twice")
	}
	r.Floor(rule, len(names), 4, "method tests consulted by the default retry predicate")
	// body-stream guard first
	okGuard := false
	if len(def.Decl.Body.List) > 0 {
		if is, ok := def.Decl.Body.List[0].(*ast.IfStmt); ok {
			if found, pol, _ := condCalls(info, is.Cond, func(f *types.Func) bool { return esp.Is(f, pkgProto, "Request", "IsBodyStream") }); found && pol > 0 && terminates(is.Body) {
				if rs, ok := is.Body.List[len(is.Body.List)-1].(*ast.ReturnStmt); ok && len(rs.Results) == 1 {
					if id, ok := rs.Results[0].(*ast.Ident); ok && id.Name == "false" {
						okGuard = true
					}
				}
			}
		}
	}
	r.Check(okGuard, rule, "DefaultRetryIf:bodystream-guard", w.Pos(def.Decl.Pos()), "default retry predicate refuses non-rewindable (streamed) bodies first", "first statement is not `if req.IsBodyStream() { return false }`")
}

// underNot reports whether variable v occurs below a `!` inside cond.
func underNot(cond ast.Expr, v *types.Var, info *types.Info) bool {
	found := false
	var walk func(x ast.Node, neg bool)
	walk = func(x ast.Node, neg bool) {
		ast.Inspect(x, func(n ast.Node) bool {
			switch y := n.(type) {
			case *ast.UnaryExpr:
				if y.Op == token.NOT {
					walk(y.X, !neg)
					return false
				}
			case *ast.Ident:
				if info.Uses[y] == types.Object(v) && neg {
					found = true
				}
			}
			return true
		})
	}
	walk(cond, false)
	return found
}
