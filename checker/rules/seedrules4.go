package rules

// Rules added after reproducing defect F14 (router.find restores the search cursor by the
// length of an already unescaped parameter value).

import (
	"fmt"
	"go/ast"
	"go/constant"
	"go/token"
	"go/types"

	"hzcheck/core"
)

// C06.restore — backtracking restores the search cursor by exactly what the abandoned node
// consumed.
func c06Restore(e *Env) {
	const rule = "C06.restore"
	w, r := e.W, e.R
	r.Explainf("C06.restore: router.find advances a cursor into the request path when it enters a node and, when that branch fails, backtracks by subtracting what the node consumed. For parameter and catch-all nodes the consumed amount is read back as len(<stored parameter value>). Therefore every value stored into that field while the search loop is still running must be the raw matched text — a sub-slice or copy of the path, never the result of a transforming call (url.QueryUnescape shortens %%41 to A): otherwise the cursor is restored to the wrong offset and the next alternative (the catch-all route) is matched against the wrong remainder, so a request is dispatched with another path's parameter values or to another route. Values may be transformed once the loop has ended. [decides: raw-ness of the stored value on every assignment path; does not decide that the advance and the stored slice use the same bound]")
	find := w.Func("pkg/route", "router", "find")
	if find == nil {
		r.Anchor(rule, "route.router.find")
		return
	}
	info := find.Pkg.TypesInfo
	fname := w.FuncName(find.Obj)
	body := find.Decl.Body

	// restore statements: C -= len(E) / C = C - len(E), C an integer local of find
	type restore struct {
		stmt  *ast.AssignStmt
		field *types.Var // non-nil when E reads a struct field of an indexed element
	}
	var restores []restore
	lenArg := func(x ast.Expr) ast.Expr {
		c, ok := unparen(x).(*ast.CallExpr)
		if !ok || !isBuiltin(info, c, "len") || len(c.Args) != 1 {
			return nil
		}
		return c.Args[0]
	}
	ast.Inspect(body, func(n ast.Node) bool {
		as, ok := n.(*ast.AssignStmt)
		if !ok || len(as.Lhs) != 1 || len(as.Rhs) != 1 {
			return true
		}
		cv := usedVar(info, as.Lhs[0])
		if cv == nil || cv.IsField() {
			return true
		}
		if b, ok := cv.Type().Underlying().(*types.Basic); !ok || b.Info()&types.IsInteger == 0 {
			return true
		}
		var arg ast.Expr
		switch as.Tok {
		case token.SUB_ASSIGN:
			arg = lenArg(as.Rhs[0])
		case token.ASSIGN:
			if be, ok := unparen(as.Rhs[0]).(*ast.BinaryExpr); ok && be.Op == token.SUB && usedVar(info, be.X) == cv {
				arg = lenArg(be.Y)
			}
		}
		if arg == nil {
			return true
		}
		rs := restore{stmt: as}
		if se, ok := unparen(arg).(*ast.SelectorExpr); ok {
			if _, isIdx := unparen(se.X).(*ast.IndexExpr); isIdx {
				if f := usedVar(info, se); f != nil && f.IsField() {
					rs.field = f
				}
			}
		}
		restores = append(restores, rs)
		return true
	})
	r.Unit("%s: %s — %d cursor restore statements", rule, fname, len(restores))
	r.Floor(rule, len(restores), 2, "cursor restore statements `cursor -= len(…)` in router.find (static prefix and parameter value)")
	fields := map[*types.Var]bool{}
	for _, rs := range restores {
		if rs.field != nil {
			fields[rs.field] = true
		}
	}
	if len(fields) == 0 {
		r.OK(rule, fname+"/restore-independent", w.Pos(body.Pos()), "no restore statement reads a stored parameter value")
		return
	}

	// closures (local func variables) whose body contains a restore statement
	restoreFns := map[*types.Var]bool{}
	containsRestore := func(n ast.Node) bool {
		found := false
		ast.Inspect(n, func(m ast.Node) bool {
			for _, rs := range restores {
				if m == ast.Node(rs.stmt) {
					found = true
				}
			}
			return !found
		})
		return found
	}
	ast.Inspect(body, func(n ast.Node) bool {
		switch x := n.(type) {
		case *ast.AssignStmt:
			for i, rh := range x.Rhs {
				if fl, ok := unparen(rh).(*ast.FuncLit); ok && i < len(x.Lhs) && containsRestore(fl) {
					if v := usedVar(info, x.Lhs[i]); v != nil {
						restoreFns[v] = true
					}
				}
			}
		case *ast.ValueSpec:
			for i, rh := range x.Values {
				if fl, ok := unparen(rh).(*ast.FuncLit); ok && i < len(x.Names) && containsRestore(fl) {
					if v, _ := info.Defs[x.Names[i]].(*types.Var); v != nil {
						restoreFns[v] = true
					}
				}
			}
		}
		return true
	})
	// search loops: loops that contain a restore statement or a call of such a closure
	var loops []ast.Node
	ast.Inspect(body, func(n ast.Node) bool {
		var lb *ast.BlockStmt
		switch x := n.(type) {
		case *ast.ForStmt:
			lb = x.Body
		case *ast.RangeStmt:
			lb = x.Body
		default:
			return true
		}
		hit := false
		ast.Inspect(lb, func(m ast.Node) bool {
			if _, isLit := m.(*ast.FuncLit); isLit {
				return false
			}
			switch y := m.(type) {
			case *ast.CallExpr:
				if v := usedVar(info, y.Fun); v != nil && restoreFns[v] {
					hit = true
				}
			case *ast.AssignStmt:
				for _, rs := range restores {
					if y == rs.stmt {
						hit = true
					}
				}
			}
			return !hit
		})
		if hit {
			loops = append(loops, n)
		}
		return true
	})
	r.Floor(rule, len(loops), 1, "search loops of router.find that backtrack")
	inLoop := func(p token.Pos) bool {
		for _, l := range loops {
			if l.Pos() <= p && p < l.End() {
				return true
			}
		}
		return false
	}

	// all assignments to a local variable inside find
	assigns := map[*types.Var][]ast.Expr{}
	opaque := map[*types.Var]string{} // assigned from a multi-value call / range / etc.
	ast.Inspect(body, func(n ast.Node) bool {
		switch x := n.(type) {
		case *ast.AssignStmt:
			if len(x.Lhs) == len(x.Rhs) {
				for i, l := range x.Lhs {
					if id, ok := unparen(l).(*ast.Ident); ok {
						if v := usedVar(info, id); v != nil {
							if x.Tok == token.ASSIGN || x.Tok == token.DEFINE {
								assigns[v] = append(assigns[v], x.Rhs[i])
							} else {
								opaque[v] = "compound assignment " + x.Tok.String()
							}
						}
					}
				}
			} else if len(x.Rhs) == 1 {
				for _, l := range x.Lhs {
					if id, ok := unparen(l).(*ast.Ident); ok {
						if v := usedVar(info, id); v != nil {
							opaque[v] = "result of " + types.ExprString(x.Rhs[0])
						}
					}
				}
			}
		case *ast.ValueSpec:
			for i, nm := range x.Names {
				if v, _ := info.Defs[nm].(*types.Var); v != nil && i < len(x.Values) {
					assigns[v] = append(assigns[v], x.Values[i])
				}
			}
		case *ast.RangeStmt:
			for _, l := range []ast.Expr{x.Key, x.Value} {
				if l != nil {
					if v := usedVar(info, l); v != nil {
						opaque[v] = "range variable"
					}
				}
			}
		}
		return true
	})
	sig := find.Obj.Type().(*types.Signature)
	params := map[*types.Var]bool{}
	for i := 0; i < sig.Params().Len(); i++ {
		params[sig.Params().At(i)] = true
	}
	// raw(x): x is the path text, a sub-slice of it, or a length-preserving copy
	var raw func(x ast.Expr, seen map[*types.Var]bool) (bool, string)
	raw = func(x ast.Expr, seen map[*types.Var]bool) (bool, string) {
		switch y := unparen(x).(type) {
		case *ast.BasicLit:
			return true, ""
		case *ast.SliceExpr:
			return raw(y.X, seen)
		case *ast.Ident:
			v := usedVar(info, y)
			if v == nil {
				if _, isConst := info.ObjectOf(y).(*types.Const); isConst || y.Name == "nil" {
					return true, ""
				}
				return false, "`" + y.Name + "` is not a variable"
			}
			if seen[v] {
				return true, ""
			}
			seen[v] = true
			if why, bad := opaque[v]; bad {
				return false, "`" + v.Name() + "` is the " + why
			}
			if params[v] {
				if len(assigns[v]) == 0 {
					return true, ""
				}
			}
			for _, a := range assigns[v] {
				if ok, why := raw(a, seen); !ok {
					return false, "`" + v.Name() + "` ← " + why
				}
			}
			return true, ""
		case *ast.CallExpr:
			if tv, ok := info.Types[y.Fun]; ok && tv.IsType() && len(y.Args) == 1 {
				if b, isB := tv.Type.Underlying().(*types.Basic); isB && b.Info()&types.IsString != 0 {
					return raw(y.Args[0], seen)
				}
				if _, isS := tv.Type.Underlying().(*types.Slice); isS {
					return raw(y.Args[0], seen)
				}
			}
			if isBuiltin(info, y, "append") {
				for _, a := range y.Args {
					if ok, why := raw(a, seen); !ok {
						return false, why
					}
				}
				return true, ""
			}
			if f := calleeOf(info, y); f != nil && f.Pkg() != nil && f.Pkg().Name() == "bytesconv" && (f.Name() == "B2s" || f.Name() == "S2b") && len(y.Args) == 1 {
				return raw(y.Args[0], seen)
			}
			return false, "result of the call `" + types.ExprString(y.Fun) + "(…)`"
		}
		return false, "`" + types.ExprString(x) + "`"
	}
	nStores := 0
	ast.Inspect(body, func(n ast.Node) bool {
		as, ok := n.(*ast.AssignStmt)
		if !ok {
			return true
		}
		for i, l := range as.Lhs {
			se, ok := unparen(l).(*ast.SelectorExpr)
			if !ok {
				continue
			}
			f := usedVar(info, se)
			if f == nil || !fields[f] {
				continue
			}
			if !inLoop(as.Pos()) {
				r.OK(rule, fmt.Sprintf("%s/after-search/%s", fname, f.Name()), w.Pos(as.Pos()), "value stored after the search loop: free to transform")
				continue
			}
			nStores++
			key := fmt.Sprintf("%s/store-%d/%s", fname, nStores, f.Name())
			if len(as.Lhs) != len(as.Rhs) || (as.Tok != token.ASSIGN && as.Tok != token.DEFINE) {
				r.Fail(rule, key, w.Pos(as.Pos()), "value stored during the search is the raw matched text", "stored from `"+types.ExprString(as.Rhs[0])+"` by "+as.Tok.String())
				continue
			}
			if ok, why := raw(as.Rhs[i], map[*types.Var]bool{}); ok {
				r.OK(rule, key, w.Pos(as.Pos()), "value stored during the search is the raw matched text")
			} else {
				r.Fail(rule, key, w.Pos(as.Pos()), "value stored during the search is the raw matched text",
					"backtracking subtracts len(…."+f.Name()+") from the cursor, but the stored value may be "+why+", whose length differs from the text consumed")
			}
		}
		return true
	})
	r.Floor(rule, nStores, 2, "parameter values stored during the search (param and catch-all branches)")
}

// C09.ctor — a freshly constructed object starts in the state its reset method leaves it in.
func c09Ctor(e *Env) {
	const rule = "C09.ctor"
	w, r := e.W, e.R
	r.Explainf("C09.ctor: for every reset target (type T, method M) of C09.reset, the fields that M assigns a non-zero constant (`ctx.index = -1`) are T's non-zero rest state: the zero value of T is NOT the state a recycled object is in. Every place in non-test module code that constructs a T — composite literal, &T{…}, new(T) — must therefore either set those fields to the same constants in the literal, or, in the same function, assign them / call a reset method of T on the variable the new object is bound to before it leaves the function. Otherwise a fresh object behaves differently from a recycled one (a RequestContext whose handler index starts at 0 skips the first middleware of the chain).")
	type rest struct {
		field *types.Var
		val   string
	}
	restOf := map[*types.Named][]rest{}
	resetMeths := map[*types.Named]map[string]bool{}
	nT := 0
	for _, tg := range c09Targets {
		fi := w.Func(tg.Rel, tg.Typ, tg.Meth)
		nt := w.Named(tg.Rel, tg.Typ)
		if fi == nil || nt == nil || fi.Decl.Recv == nil || len(fi.Decl.Recv.List) == 0 || len(fi.Decl.Recv.List[0].Names) == 0 {
			continue // unresolved targets are reported by C09.reset
		}
		if resetMeths[nt] == nil {
			resetMeths[nt] = map[string]bool{}
			nT++
		}
		resetMeths[nt][tg.Meth] = true
		info := fi.Pkg.TypesInfo
		recv, _ := info.Defs[fi.Decl.Recv.List[0].Names[0]].(*types.Var)
		// top-level statements of M (and of same-receiver callees one level down)
		var scan func(d *core.FuncInfo, rv *types.Var, depth int)
		scan = func(d *core.FuncInfo, rv *types.Var, depth int) {
			dinfo := d.Pkg.TypesInfo
			for _, s := range d.Decl.Body.List {
				switch x := s.(type) {
				case *ast.AssignStmt:
					if len(x.Lhs) != len(x.Rhs) || x.Tok != token.ASSIGN {
						continue
					}
					for i, l := range x.Lhs {
						se, ok := unparen(l).(*ast.SelectorExpr)
						if !ok || usedVar(dinfo, se.X) != rv {
							continue
						}
						f := usedVar(dinfo, se)
						tv, okc := dinfo.Types[x.Rhs[i]]
						if f == nil || !okc || tv.Value == nil {
							continue
						}
						if zeroConst(tv.Value) {
							continue
						}
						dup := false
						for _, o := range restOf[nt] {
							dup = dup || o.field == f
						}
						if !dup {
							restOf[nt] = append(restOf[nt], rest{f, tv.Value.ExactString()})
						}
					}
				case *ast.ExprStmt:
					if depth > 0 {
						continue
					}
					if c, ok := x.X.(*ast.CallExpr); ok {
						if se, ok := unparen(c.Fun).(*ast.SelectorExpr); ok && usedVar(dinfo, se.X) == rv {
							if cd := w.DeclOf(calleeOf(dinfo, c)); cd != nil && cd.Decl.Body != nil && cd.Decl.Recv != nil && len(cd.Decl.Recv.List[0].Names) > 0 {
								crv, _ := cd.Pkg.TypesInfo.Defs[cd.Decl.Recv.List[0].Names[0]].(*types.Var)
								scan(cd, crv, depth+1)
							}
						}
					}
				}
			}
		}
		scan(fi, recv, 0)
	}
	nRest := 0
	for nt, rs := range restOf {
		for _, x := range rs {
			nRest++
			r.Unit("%s: rest state %s.%s = %s", rule, nt.Obj().Name(), x.field.Name(), x.val)
		}
	}
	r.Floor(rule, nRest, 1, "fields a reset method sets to a non-zero constant (RequestContext.index = -1)")
	// construction sites
	nSites := 0
	for _, fi := range declaredNonTest(w) {
		if fi.Decl.Body == nil {
			continue
		}
		info := fi.Pkg.TypesInfo
		fname := w.FuncName(fi.Obj)
		par := parents(fi.Decl)
		k := 0
		ast.Inspect(fi.Decl.Body, func(n ast.Node) bool {
			var nt *types.Named
			var lit *ast.CompositeLit
			switch x := n.(type) {
			case *ast.CompositeLit:
				if t, ok := info.TypeOf(x).(*types.Named); ok {
					nt, lit = t, x
				}
			case *ast.CallExpr:
				if isBuiltin(info, x, "new") && len(x.Args) == 1 {
					if t, ok := info.TypeOf(x.Args[0]).(*types.Named); ok {
						nt = t
					}
				}
			}
			if nt == nil || len(restOf[nt]) == 0 {
				return true
			}
			k++
			nSites++
			for _, rs := range restOf[nt] {
				key := fmt.Sprintf("%s:new(%s)#%d:%s", fname, nt.Obj().Name(), k, rs.field.Name())
				desc := fmt.Sprintf("a fresh %s starts with %s = %s like a recycled one", nt.Obj().Name(), rs.field.Name(), rs.val)
				ok := false
				if lit != nil {
					for _, el := range lit.Elts {
						if kv, isKV := el.(*ast.KeyValueExpr); isKV {
							if id, isID := kv.Key.(*ast.Ident); isID && info.ObjectOf(id) == types.Object(rs.field) {
								ok = true // the value is the constructor's business (Copy uses AbortIndex on purpose)
							}
						}
					}
				}
				if !ok {
					// bound variable: v := &T{…} / v = new(T); later v.f = … or v.Reset…()
					var bound *types.Var
					for p := par[n]; p != nil; p = par[p] {
						if as, isAs := p.(*ast.AssignStmt); isAs && len(as.Lhs) == 1 {
							bound = usedVar(info, as.Lhs[0])
							break
						}
						if vs, isVS := p.(*ast.ValueSpec); isVS && len(vs.Names) == 1 {
							bound, _ = info.Defs[vs.Names[0]].(*types.Var)
							break
						}
						if _, isStmt := p.(ast.Stmt); isStmt {
							break
						}
					}
					if bound != nil {
						ast.Inspect(fi.Decl.Body, func(m ast.Node) bool {
							switch y := m.(type) {
							case *ast.AssignStmt:
								for _, l := range y.Lhs {
									if se, isSel := unparen(l).(*ast.SelectorExpr); isSel && y.Pos() > n.Pos() && usedVar(info, se.X) == bound && usedVar(info, se) == rs.field {
										ok = true
									}
								}
							case *ast.CallExpr:
								if se, isSel := unparen(y.Fun).(*ast.SelectorExpr); isSel && y.Pos() > n.Pos() && usedVar(info, se.X) == bound && resetMeths[nt][se.Sel.Name] {
									ok = true
								}
							}
							return !ok
						})
					}
				}
				r.Check(ok, rule, key, w.Pos(n.Pos()), desc,
					fmt.Sprintf("this %s is built with the zero value of %s although %s's reset methods leave it at %s: the first use of the fresh object differs from every later use", nt.Obj().Name(), rs.field.Name(), nt.Obj().Name(), rs.val))
			}
			return true
		})
	}
	r.Floor(rule, nSites, 2, "construction sites of types with a non-zero rest state (NewContext, Copy)")
}

func zeroConst(v constant.Value) bool {
	switch v.Kind() {
	case constant.Bool:
		return !constant.BoolVal(v)
	case constant.String:
		return constant.StringVal(v) == ""
	case constant.Int, constant.Float, constant.Complex:
		return constant.Sign(v) == 0
	}
	return false
}

// C07.own — a reusable byte buffer field never aliases a package-level slice.
func c07Own(e *Env) {
	const rule = "C07.own"
	w, r := e.W, e.R
	r.Explainf("C07.own: a struct field of type []byte that is re-sliced to [:0] and appended to (`x.f = append(x.f[:0], …)`, `x.f = x.f[:0]`, or handed as the destination to a function that does so) is a reusable buffer owned by the object. Every value assigned to such a field must be owned too: it is never a package-level []byte variable (bytestr.StrSlash …), neither directly nor as the result of a module function one of whose return statements returns such a variable. Otherwise the next append through the field writes into the shared constant: after a path that normalises to `/..` the URI's path buffer IS bytestr.StrSlash, and the next writer that stores a path not starting with '/' (Cookie.ParseBytes keeps the attribute raw) rewrites the constant for the whole process — every later normalised root path no longer begins with '/'.")
	decls := declaredNonTest(w)
	// 1. buffer fields
	buf := map[*types.Var]bool{}
	isByteSlice := func(t types.Type) bool {
		s, ok := t.Underlying().(*types.Slice)
		if !ok {
			return false
		}
		b, ok := s.Elem().Underlying().(*types.Basic)
		return ok && b.Kind() == types.Uint8
	}
	// functions that truncate parameter i (dst = dst[:0] / append(dst[:0], …))
	truncParam := map[*types.Func]map[int]bool{}
	for _, fi := range decls {
		if fi.Decl.Body == nil {
			continue
		}
		info := fi.Pkg.TypesInfo
		sig := fi.Obj.Type().(*types.Signature)
		pidx := map[*types.Var]int{}
		for i := 0; i < sig.Params().Len(); i++ {
			pidx[sig.Params().At(i)] = i
		}
		ast.Inspect(fi.Decl.Body, func(n ast.Node) bool {
			se, ok := n.(*ast.SliceExpr)
			if !ok || se.Low != nil || se.High == nil {
				return true
			}
			if c, isC := constInt(info, se.High); !isC || c != 0 {
				return true
			}
			if v := usedVar(info, se.X); v != nil {
				if v.IsField() && isByteSlice(v.Type()) {
					buf[v] = true
				} else if i, isP := pidx[v]; isP && isByteSlice(v.Type()) {
					if truncParam[fi.Obj] == nil {
						truncParam[fi.Obj] = map[int]bool{}
					}
					truncParam[fi.Obj][i] = true
				}
			}
			return true
		})
	}
	for _, fi := range decls {
		if fi.Decl.Body == nil {
			continue
		}
		info := fi.Pkg.TypesInfo
		ast.Inspect(fi.Decl.Body, func(n ast.Node) bool {
			if c, ok := n.(*ast.CallExpr); ok {
				if f := calleeOf(info, c); f != nil && truncParam[f.Origin()] != nil {
					for i, a := range c.Args {
						if truncParam[f.Origin()][i] {
							if v := usedVar(info, a); v != nil && v.IsField() && isByteSlice(v.Type()) {
								buf[v] = true
							}
						}
					}
				}
			}
			return true
		})
	}
	r.Unit("%s: %d reusable []byte buffer fields", rule, len(buf))
	r.Floor(rule, len(buf), 10, "reusable []byte buffer fields (URI.path, Cookie.path, header/args buffers …)")
	// 2. global returns of module functions, per result index
	pkgLevel := func(info *types.Info, x ast.Expr) *types.Var {
		var id *ast.Ident
		switch y := unparen(x).(type) {
		case *ast.Ident:
			id = y
		case *ast.SelectorExpr:
			id = y.Sel
		default:
			return nil
		}
		v, _ := info.ObjectOf(id).(*types.Var)
		if v == nil || v.IsField() || v.Pkg() == nil || v.Parent() != v.Pkg().Scope() || !isByteSlice(v.Type()) {
			return nil
		}
		return v
	}
	type gret struct {
		v   *types.Var
		pos token.Pos
	}
	globalRet := map[*types.Func]map[int][]gret{}
	for _, fi := range decls {
		if fi.Decl.Body == nil {
			continue
		}
		info := fi.Pkg.TypesInfo
		ast.Inspect(fi.Decl.Body, func(n ast.Node) bool {
			if _, isLit := n.(*ast.FuncLit); isLit {
				return false
			}
			rs, ok := n.(*ast.ReturnStmt)
			if !ok {
				return true
			}
			for i, x := range rs.Results {
				if v := pkgLevel(info, x); v != nil {
					if globalRet[fi.Obj] == nil {
						globalRet[fi.Obj] = map[int][]gret{}
					}
					globalRet[fi.Obj][i] = append(globalRet[fi.Obj][i], gret{v, x.Pos()})
				}
			}
			return true
		})
	}
	// 3. assignments to buffer fields
	nAssign := 0
	seen := map[string]bool{}
	for _, fi := range decls {
		if fi.Decl.Body == nil {
			continue
		}
		info := fi.Pkg.TypesInfo
		fname := w.FuncName(fi.Obj)
		ast.Inspect(fi.Decl.Body, func(n ast.Node) bool {
			as, ok := n.(*ast.AssignStmt)
			if !ok {
				return true
			}
			for i, l := range as.Lhs {
				f := usedVar(info, l)
				if f == nil || !buf[f] {
					continue
				}
				nAssign++
				var rhs ast.Expr
				ridx := 0
				if len(as.Rhs) == len(as.Lhs) {
					rhs = as.Rhs[i]
				} else if len(as.Rhs) == 1 {
					rhs, ridx = as.Rhs[0], i
				}
				if rhs == nil {
					continue
				}
				owner := "?"
				if rn := f.Pkg(); rn != nil {
					owner = rn.Name()
				}
				// x.f = append(y.g…, …): the destination buffer of an append stored into a buffer
				// field is that same field (or a truncation of it), never another buffer field
				if c, isCall := unparen(rhs).(*ast.CallExpr); isCall && isBuiltin(info, c, "append") && len(c.Args) >= 1 {
					base := c.Args[0]
					if sl, isSl := unparen(base).(*ast.SliceExpr); isSl {
						base = sl.X
					}
					if g := usedVar(info, base); g != nil && g.IsField() && buf[g] && g != f {
						r.Fail(rule, fmt.Sprintf("%s:%s=append(%s)", fname, f.Name(), g.Name()), w.Pos(as.Pos()), "a buffer field is appended to in its own storage",
							fmt.Sprintf("`%s` appends into the storage of buffer field %s and stores the result in buffer field %s: from now on the two fields of the object share one backing array, and filling one overwrites the bytes the other still exposes", types.ExprString(l)+" = "+types.ExprString(rhs), g.Name(), f.Name()))
						continue
					}
				}
				if v := pkgLevel(info, rhs); v != nil {
					r.Fail(rule, fmt.Sprintf("%s:%s=%s", fname, f.Name(), v.Name()), w.Pos(as.Pos()), "a reusable buffer field is never bound to a package-level slice",
						fmt.Sprintf("buffer field %s.%s is assigned the package-level slice %s.%s: the next append through the field overwrites the shared constant", owner, f.Name(), v.Pkg().Name(), v.Name()))
					continue
				}
				if c, isCall := unparen(rhs).(*ast.CallExpr); isCall {
					if g := calleeOf(info, c); g != nil {
						for _, gr := range globalRet[g.Origin()][ridx] {
							key := fmt.Sprintf("%s:return-%s→%s", w.FuncName(g), gr.v.Name(), f.Name())
							if seen[key] {
								continue
							}
							seen[key] = true
							r.Fail(rule, key, w.Pos(gr.pos), "a reusable buffer field is never bound to a package-level slice",
								fmt.Sprintf("%s returns the package-level slice %s.%s and its result is stored into the buffer field %s.%s (%s): the next append through the field overwrites the shared constant", w.FuncName(g), gr.v.Pkg().Name(), gr.v.Name(), owner, f.Name(), w.Pos(as.Pos())))
						}
					}
				}
			}
			return true
		})
	}
	r.OK(rule, "assignments-scanned", "-", fmt.Sprintf("%d assignments to buffer fields scanned", nAssign))
	r.Floor(rule, nAssign, 40, "assignments to reusable buffer fields")
}

// reusableByteFields returns the []byte struct fields that some function re-slices to [:0]
// (directly, or by handing them to a function that truncates that parameter): buffers owned
// and rewritten by their object.
func reusableByteFields(w *core.World) map[*types.Var]bool {
	buf := map[*types.Var]bool{}
	isByteSlice := func(t types.Type) bool {
		s, ok := t.Underlying().(*types.Slice)
		if !ok {
			return false
		}
		b, ok := s.Elem().Underlying().(*types.Basic)
		return ok && b.Kind() == types.Uint8
	}
	for _, fi := range declaredNonTest(w) {
		if fi.Decl.Body == nil {
			continue
		}
		info := fi.Pkg.TypesInfo
		ast.Inspect(fi.Decl.Body, func(n ast.Node) bool {
			se, ok := n.(*ast.SliceExpr)
			if !ok || se.Low != nil || se.High == nil {
				return true
			}
			if c, isC := constInt(info, se.High); !isC || c != 0 {
				return true
			}
			if v := usedVar(info, se.X); v != nil && v.IsField() && isByteSlice(v.Type()) {
				buf[v] = true
			}
			return true
		})
	}
	return buf
}

// C05.retain — bytes queued by reference for a later Flush are not a scratch buffer that a
// header call can rewrite while user code is still running.
func c05Retain(e *Env) {
	const rule = "C05.retain"
	w, r := e.W, e.R
	r.Explainf("C05.retain: network.Writer.WriteBinary may keep a reference to its argument until Flush (zero copy for 4 KiB and more). The Write method of a body writer installed with Response.HijackWriter runs in the middle of the handler and does not flush, so anything it queues with WriteBinary must stay unchanged while the handler goes on calling header APIs. Header()/serialising methods return the object's reusable scratch buffer (a field that other methods re-slice to [:0] and refill — Set/Add/Peek do). Rule: in every function reachable (static calls, three levels) from the Write method of a module type implementing network.ExtWriter, the argument of WriteBinary is not the result of a method that returns such a scratch field (directly or through a local). Otherwise a later `Header.Set(k, v)` rewrites the queued header block in place and the raw bytes of v — CR/LF included — go out at the start of the message.")
	np := w.Pkg("pkg/network")
	if np == nil {
		r.Anchor(rule, "package pkg/network")
		return
	}
	extObj, _ := np.Types.Scope().Lookup("ExtWriter").(*types.TypeName)
	if extObj == nil {
		r.Anchor(rule, "network.ExtWriter")
		return
	}
	ext, _ := extObj.Type().Underlying().(*types.Interface)
	buf := reusableByteFields(w)
	decls := declaredNonTest(w)
	// methods returning a scratch field of their receiver
	scratch := map[*types.Func]*types.Var{}
	for _, fi := range decls {
		if fi.Decl.Body == nil || fi.Decl.Recv == nil {
			continue
		}
		info := fi.Pkg.TypesInfo
		ast.Inspect(fi.Decl.Body, func(n ast.Node) bool {
			if _, isLit := n.(*ast.FuncLit); isLit {
				return false
			}
			if rs, ok := n.(*ast.ReturnStmt); ok && len(rs.Results) == 1 {
				if v := usedVar(info, rs.Results[0]); v != nil && v.IsField() && buf[v] {
					scratch[fi.Obj] = v
				}
			}
			return true
		})
	}
	r.Unit("%s: %d methods return a reusable scratch buffer of their receiver", rule, len(scratch))
	r.Floor(rule, len(scratch), 3, "methods returning a reusable scratch buffer (RequestHeader.Header, ResponseHeader.Header, Trailer.Header …)")
	// entry points
	var entries []*core.FuncInfo
	for _, fi := range decls {
		if fi.Decl.Body == nil || fi.Obj.Name() != "Write" {
			continue
		}
		rn := recvNamed(fi.Obj)
		if rn == nil {
			continue
		}
		if types.Implements(types.NewPointer(rn), ext) || types.Implements(rn, ext) {
			entries = append(entries, fi)
		}
	}
	r.Floor(rule, len(entries), 1, "Write methods of module types implementing network.ExtWriter")
	nCalls := 0
	for _, ent := range entries {
		ename := w.FuncName(ent.Obj)
		seen := map[*types.Func]bool{}
		var visit func(fi *core.FuncInfo, depth int, path string)
		visit = func(fi *core.FuncInfo, depth int, path string) {
			if seen[fi.Obj] || depth > 3 {
				return
			}
			seen[fi.Obj] = true
			info := fi.Pkg.TypesInfo
			// locals assigned from a scratch-returning call
			fromScratch := map[*types.Var]*types.Func{}
			ast.Inspect(fi.Decl.Body, func(n ast.Node) bool {
				if as, ok := n.(*ast.AssignStmt); ok && len(as.Lhs) == len(as.Rhs) {
					for i, rh := range as.Rhs {
						if c, isC := unparen(rh).(*ast.CallExpr); isC {
							if g := calleeOf(info, c); g != nil && scratch[g.Origin()] != nil {
								if v := usedVar(info, as.Lhs[i]); v != nil {
									fromScratch[v] = g
								}
							}
						}
					}
				}
				return true
			})
			k := 0
			ast.Inspect(fi.Decl.Body, func(n ast.Node) bool {
				c, ok := n.(*ast.CallExpr)
				if !ok {
					return true
				}
				g := calleeOf(info, c)
				if g == nil {
					return true
				}
				if g.Name() == "WriteBinary" && len(c.Args) == 1 {
					k++
					nCalls++
					key := fmt.Sprintf("%s→%s:WriteBinary#%d", ename, w.FuncName(fi.Obj), k)
					var src *types.Func
					if ac, isC := unparen(c.Args[0]).(*ast.CallExpr); isC {
						if h := calleeOf(info, ac); h != nil && scratch[h.Origin()] != nil {
							src = h
						}
					} else if v := usedVar(info, c.Args[0]); v != nil && fromScratch[v] != nil {
						src = fromScratch[v]
					}
					if src != nil {
						r.Fail(rule, key, w.Pos(c.Pos()), "bytes queued by reference from a hijacked body writer are not a rewritable scratch buffer",
							fmt.Sprintf("`%s` queues the result of %s — the receiver's scratch field %s, which header calls re-slice and refill — and %s does not flush: a header call made by the handler before its Flush rewrites the queued bytes (path %s)", types.ExprString(c), w.FuncName(src), scratch[src.Origin()].Name(), ename, path+"→"+fi.Obj.Name()))
					} else {
						r.OK(rule, key, w.Pos(c.Pos()), "bytes queued by reference from a hijacked body writer are not a rewritable scratch buffer")
					}
					return true
				}
				if d := w.DeclOf(g); d != nil && d.Decl.Body != nil && w.InModule(g.Pkg()) {
					visit(d, depth+1, path+"→"+fi.Obj.Name())
				}
				return true
			})
		}
		visit(ent, 0, "")
	}
	r.Floor(rule, nCalls, 1, "WriteBinary calls reachable from a hijacked body writer's Write")
}
