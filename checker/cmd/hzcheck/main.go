// hzcheck decides structural clauses of the hertz properties C01–C20 from /repo's current
// source. It never executes hertz.
package main

import (
	"encoding/json"
	"flag"
	"fmt"
	"os"
	"path/filepath"
	"runtime/debug"
	"strings"

	"hzcheck/core"
	"hzcheck/rules"
)

func main() {
	prop := flag.String("property", "", "property id (C01…C20)")
	tier := flag.String("tier", "quick", "quick|thorough")
	replay := flag.String("replay", "", "replay file written by an earlier violation")
	noEv := flag.Bool("no-evidence", false, "do not write evidence files")
	list := flag.Bool("list", false, "list properties with rules")
	flag.Parse()
	if *list {
		fmt.Println(strings.Join(rules.IDs(), " "))
		return
	}
	if t := os.Getenv("VERIF_TIER"); t != "" && !flagSet("tier") {
		*tier = t
	}
	only := ""
	if *replay != "" {
		b, err := os.ReadFile(*replay)
		if err != nil {
			fmt.Println("CHECKER-ERROR", err)
			os.Exit(2)
		}
		var m struct{ Property, Rule, Key, Tier string }
		if err := json.Unmarshal(b, &m); err != nil {
			fmt.Println("CHECKER-ERROR", err)
			os.Exit(2)
		}
		*prop, only = m.Property, m.Rule+"|"+m.Key
		if m.Tier != "" {
			*tier = m.Tier
		}
	}
	if *prop == "all" {
		// regression tooling only (tools/benignrun.py, tools/seedrun.py): every property's quick
		// rules in one process over one loaded world; never writes evidence. The registered
		// commands run one property per process.
		os.Exit(runAll())
	}
	pr := rules.Get(*prop)
	if pr == nil {
		fmt.Printf("CHECKER-ERROR unknown property %q (have %v)\n", *prop, rules.IDs())
		os.Exit(2)
	}
	os.Exit(run(pr, *tier, only, !*noEv && only == "" && os.Getenv("HZ_NOEVIDENCE") == ""))
}

func flagSet(name string) bool {
	set := false
	flag.Visit(func(f *flag.Flag) {
		if f.Name == name {
			set = true
		}
	})
	return set
}

func run(pr *rules.PropertyRules, tier, only string, writeEv bool) (code int) {
	rep := core.NewReport(pr.ID, tier)
	fail := func(format string, a ...interface{}) int {
		// fail closed: a loader/type-check failure or analyser panic means nothing was decided
		msg := fmt.Sprintf(format, a...)
		rep.Fail(pr.ID+".engine", "engine", "-", "the analysis must complete on the current tree", msg)
		return rep.Finish(only, writeEv)
	}
	defer func() {
		if r := recover(); r != nil {
			fmt.Printf("CHECKER-PANIC %v\n%s\n", r, debug.Stack())
			code = fail("analyser panic: %v", r)
		}
	}()
	repo := core.RepoDir()
	var hz *core.World
	hzLoader := func() (*core.World, error) {
		if hz != nil {
			return hz, nil
		}
		w, err := core.Load(filepath.Join(repo, "cmd", "hz"), core.Mod+"/cmd/hz")
		if err != nil {
			return nil, err
		}
		hz = w
		return w, nil
	}
	configs := [][]string{{"GOOS=linux", "GOARCH=amd64"}}
	if tier == "thorough" {
		// the remaining build-tagged sources, in the two other configurations in which the
		// module builds offline (linux/386 and linux/arm do not: netpoll v0.6.4 and sonic do
		// not compile there): uri_windows.go, route/default_windows.go,
		// dialer/default_windows.go (GOOS=windows; netpoll excluded); bytesconv_32.go,
		// decoder/gjson_required.go, common/json/std.go (windows/386 with -tags=stdjson).
		if !pr.SkipRoot {
			configs = append(configs, []string{"GOOS=windows", "GOARCH=amd64"}, []string{"GOOS=windows", "GOARCH=386", "-tags=stdjson"})
		}
		configs = append(configs, pr.ExtraConfigs...)
	}
	for _, cf := range configs {
		name := strings.NewReplacer("GOOS=", "", "GOARCH=", "", "-tags=", "").Replace(strings.Join(cf, "/"))
		rep.Configs = append(rep.Configs, name)
		var w *core.World
		if !pr.SkipRoot {
			var err error
			w, err = core.Load(repo, core.Mod, cf...)
			if err != nil {
				return fail("%v", err)
			}
			rep.Unit("config %s: %d module packages, %d packages in closure", name, len(w.Pkgs), len(w.All))
		}
		rules.InstallRoles(w, rep)
		env := &rules.Env{W: w, R: rep, Tier: tier, Config: name, HZ: hzLoader}
		for _, fn := range pr.Rules {
			fn(env)
		}
	}
	return rep.Finish(only, writeEv)
}

func runAll() int {
	repo := core.RepoDir()
	var hz *core.World
	hzLoader := func() (*core.World, error) {
		if hz != nil {
			return hz, nil
		}
		w, err := core.Load(filepath.Join(repo, "cmd", "hz"), core.Mod+"/cmd/hz")
		if err != nil {
			return nil, err
		}
		hz = w
		return w, nil
	}
	w, err := core.Load(repo, core.Mod, "GOOS=linux", "GOARCH=amd64")
	code := 0
	for _, id := range rules.IDs() {
		pr := rules.Get(id)
		rep := core.NewReport(pr.ID, "quick")
		rep.Configs = append(rep.Configs, "linux/amd64")
		func() {
			defer func() {
				if r := recover(); r != nil {
					fmt.Printf("CHECKER-PANIC %v\n%s\n", r, debug.Stack())
					rep.Fail(pr.ID+".engine", "engine", "-", "the analysis must complete on the current tree", fmt.Sprintf("analyser panic: %v", r))
				}
			}()
			var ww *core.World
			if !pr.SkipRoot {
				if err != nil {
					rep.Fail(pr.ID+".engine", "engine", "-", "the analysis must complete on the current tree", err.Error())
					return
				}
				ww = w
			}
			rules.InstallRoles(ww, rep)
			env := &rules.Env{W: ww, R: rep, Tier: "quick", Config: "linux/amd64", HZ: hzLoader}
			for _, fn := range pr.Rules {
				fn(env)
			}
		}()
		if rep.Finish("", false) != 0 {
			code = 1
		}
	}
	return code
}
