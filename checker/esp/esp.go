// Package esp is a path-sensitive typestate engine in the style of ESP (Das, Lerner, Seigle
// 2002) over go/cfg graphs: a worklist over (block, typestate, env) where env holds
// three-valued facts about tracked boolean locals and stable selector/expression keys.
// Deferred closures are explored LIFO at every function exit. go/cfg (x/tools v0.29.0)
// does not split && / || / ! into blocks, so the engine evaluates and refines them itself.
package esp

import (
	"fmt"
	"go/ast"
	"go/constant"
	"go/token"
	"go/types"
	"sort"
	"strings"

	"golang.org/x/tools/go/cfg"
	"golang.org/x/tools/go/types/typeutil"

	"hzcheck/core"
)

type Tri int8

const (
	Unk Tri = iota
	T
	F
)

type trace struct {
	parent *trace
	s      string
}

func (t *trace) list() []string {
	var out []string
	for x := t; x != nil; x = x.parent {
		out = append(out, x.s)
	}
	for i, j := 0, len(out)-1; i < j; i, j = i+1, j-1 {
		out[i], out[j] = out[j], out[i]
	}
	if len(out) > 60 {
		out = append(append([]string{}, out[:20]...), append([]string{"…"}, out[len(out)-39:]...)...)
	}
	return out
}

// State is one abstract state.
type State struct {
	TS      string
	Env     map[string]Tri
	defers  []ast.Node
	Ret     token.Pos // first return statement reached on this path (0 = fell off the end)
	RetStmt *ast.ReturnStmt
	Panic   bool
	dead    bool // a violation was reported on this path: the error state is absorbing
	tr      *trace
	stack   []*types.Func // functions being explored inline (innermost last)
	// nil-ness of the last result of the inlined call that just returned (consumed by the
	// assignment that stores it)
	retNil      Tri
	retCall     *ast.CallExpr
	retFacts    map[string]Tri
	retVarFacts map[string]Tri
	// parameters of inlined callees bound to the caller's variable they were passed
	bind map[types.Object]types.Object
}

func (s *State) key() string {
	ks := make([]string, 0, len(s.Env))
	for k, v := range s.Env {
		ks = append(ks, fmt.Sprintf("%s=%d", k, v))
	}
	sort.Strings(ks)
	return s.TS + "|" + strings.Join(ks, ",") + "|" + fmt.Sprint(len(s.defers)) + "|" + fmt.Sprint(len(s.stack)) + "|" + fmt.Sprint(s.retNil) + retKey(s.retVarFacts)
}

func retKey(m map[string]Tri) string {
	if len(m) == 0 {
		return ""
	}
	ks := make([]string, 0, len(m))
	for k, v := range m {
		ks = append(ks, fmt.Sprintf("%s=%d", k, v))
	}
	sort.Strings(ks)
	return "|" + strings.Join(ks, ",")
}

func (s *State) clone() *State {
	n := &State{TS: s.TS, Env: make(map[string]Tri, len(s.Env)), defers: append([]ast.Node(nil), s.defers...), Ret: s.Ret, RetStmt: s.RetStmt, Panic: s.Panic, tr: s.tr, stack: s.stack, retNil: s.retNil, retCall: s.retCall, retVarFacts: s.retVarFacts, bind: s.bind}
	for k, v := range s.Env {
		n.Env[k] = v
	}
	return n
}

func (s *State) Trace() []string { return s.tr.list() }

// Ctx is handed to rule callbacks.
type Ctx struct {
	W           *core.World
	Info        *types.Info
	S           *State
	Conditional bool // the node being visited sits in the right operand of && or ||
	InDefer     bool // currently exploring a deferred call/closure
	Prune       bool // set by Branch to declare the outcome infeasible
	ex          *Explorer
}

// Violation is an offending event or exit together with the path that reached it.
type Violation struct {
	Key  string
	Pos  token.Pos
	Msg  string
	Path []string
}

// Rule describes one typestate property on one function.
type Rule struct {
	Name   string
	Init   string
	Assume map[string]bool // facts assumed at entry (keys as rendered by types.ExprString)
	// Track says whether facts about this expression key may be kept (besides bool locals and
	// the assumed keys).
	Track func(key string) bool
	// Call is invoked for every call expression in evaluation order (arguments first).
	Call func(c *Ctx, call *ast.CallExpr, callee *types.Func)
	// FuncLit is invoked when a function literal is evaluated (closure creation) outside a
	// defer statement.
	FuncLit func(c *Ctx, fl *ast.FuncLit)
	// Node is invoked for every CFG node before its calls are scanned.
	Node func(c *Ctx, n ast.Node)
	// Branch is invoked when a two-way branch on cond is taken with outcome val.
	Branch func(c *Ctx, cond ast.Expr, val bool)
	// Exit is invoked for every exit state after deferred code ran.
	Exit func(c *Ctx)
	// Inline says whether a statically resolved call to a function of the same package should be
	// explored inline (its body contains events of this rule). Depth ≤ 2, no recursion. The
	// call event itself is delivered first, then the callee's events in its own control flow.
	Inline func(callee *types.Func, decl *ast.FuncDecl) bool
	// BackEdge is invoked when a loop back edge is taken (edge into a block that dominates
	// in source order: target index <= source index and target is a loop head).
	BackEdge func(c *Ctx, from, to *cfg.Block)
}

type Explorer struct {
	W       *core.World
	Info    *types.Info
	R       *Rule
	Steps   int
	Exits   int
	viol    map[string]*Violation
	track   map[string]bool
	sites   map[*ast.CallExpr]string
	unsafe  map[string]bool
	evCache map[ast.Node][]event
	indexed map[*ast.FuncDecl]bool
	root    *ast.FuncDecl
	// Undecided constructs (fail closed)
	MaxSteps int
}

func (c *Ctx) Violate(pos token.Pos, key, msg string) {
	ex := c.ex
	c.S.dead = true
	if _, ok := ex.viol[key]; ok {
		return
	}
	path := append(c.S.Trace(), fmt.Sprintf("%s: %s [typestate %s]", ex.W.Pos(pos), msg, c.S.TS))
	ex.viol[key] = &Violation{Key: key, Pos: pos, Msg: msg, Path: path}
}

// SetFact records a three-valued fact about an expression key (killed on assignment to any
// identifier or selector path the key mentions).
func (c *Ctx) SetFact(key string, val bool) {
	c.ex.track[key] = true
	if val {
		c.S.Env[key] = T
	} else {
		c.S.Env[key] = F
	}
}

// Root resolves a parameter of an inlined callee to the caller's variable that was passed for
// it (an identifier argument or the receiver expression); other objects are returned unchanged.
func (c *Ctx) Root(o types.Object) types.Object {
	for i := 0; i < 4 && o != nil; i++ {
		r, ok := c.S.bind[o]
		if !ok {
			break
		}
		o = r
	}
	return o
}

// Fact returns the current three-valued fact for an expression key.
func (c *Ctx) Fact(key string) Tri { return c.S.Env[key] }

// SiteKey names a call site without positions: callee name + ordinal among the calls to that
// callee in the analysed function (source order).
func (c *Ctx) SiteKey(call *ast.CallExpr) string { return c.ex.sites[call] }

func (c *Ctx) Callee(call *ast.CallExpr) *types.Func {
	f, _ := typeutil.Callee(c.Info, call).(*types.Func)
	return f
}

func exprKey(e ast.Expr) string { return types.ExprString(e) }

func (ex *Explorer) isBool(e ast.Expr) bool {
	t := ex.Info.TypeOf(e)
	if t == nil {
		return false
	}
	b, ok := t.Underlying().(*types.Basic)
	return ok && b.Info()&types.IsBoolean != 0
}

// cmpCanon rewrites an integer comparison against a constant into the canonical fact key
// "X >= c": X < c ≡ !(X >= c), X > c ≡ X >= c+1, X <= c ≡ !(X >= c+1) (and the mirrored forms
// with the constant on the left). neg says the expression is the negation of the key.
func (ex *Explorer) cmpCanon(e ast.Expr) (key string, neg, ok bool) {
	be, isB := e.(*ast.BinaryExpr)
	if !isB {
		return
	}
	op := be.Op
	x, y := be.X, be.Y
	cval := func(e ast.Expr) (int64, bool) {
		if tv, ok := ex.Info.Types[e]; ok && tv.Value != nil && tv.Value.Kind() == constant.Int {
			return constant.Int64Val(tv.Value)
		}
		return 0, false
	}
	c, isC := cval(y)
	if !isC {
		// constant on the left: c OP x  ≡  x OP' c
		var okL bool
		c, okL = cval(x)
		if !okL {
			return
		}
		x = y
		switch op {
		case token.LSS:
			op = token.GTR
		case token.GTR:
			op = token.LSS
		case token.LEQ:
			op = token.GEQ
		case token.GEQ:
			op = token.LEQ
		default:
			return
		}
	}
	if _, isConstX := cval(x); isConstX {
		return
	}
	if t := ex.Info.TypeOf(x); t == nil {
		return
	} else if b, isBasic := t.Underlying().(*types.Basic); !isBasic || b.Info()&types.IsInteger == 0 {
		return
	}
	switch op {
	case token.GEQ:
		return fmt.Sprintf("%s >= %d", exprKey(x), c), false, true
	case token.LSS:
		return fmt.Sprintf("%s >= %d", exprKey(x), c), true, true
	case token.GTR:
		return fmt.Sprintf("%s >= %d", exprKey(x), c+1), false, true
	case token.LEQ:
		return fmt.Sprintf("%s >= %d", exprKey(x), c+1), true, true
	}
	return
}

func (ex *Explorer) evalCond(e ast.Expr, env map[string]Tri) Tri {
	if tv, ok := ex.Info.Types[e]; ok && tv.Value != nil && ex.isBool(e) {
		if tv.Value.String() == "true" {
			return T
		}
		return F
	}
	switch x := e.(type) {
	case *ast.ParenExpr:
		return ex.evalCond(x.X, env)
	case *ast.UnaryExpr:
		if x.Op == token.NOT {
			switch ex.evalCond(x.X, env) {
			case T:
				return F
			case F:
				return T
			}
			return Unk
		}
	case *ast.BinaryExpr:
		if x.Op == token.LAND || x.Op == token.LOR {
			a := ex.evalCond(x.X, env)
			b := ex.evalCond(x.Y, env)
			if x.Op == token.LAND {
				if a == F || b == F {
					return F
				}
				if a == T && b == T {
					return T
				}
			} else {
				if a == T || b == T {
					return T
				}
				if a == F && b == F {
					return F
				}
			}
			return Unk
		}
		if x.Op == token.EQL || x.Op == token.NEQ {
			// b == true / b != false forms
			if id, ok := x.Y.(*ast.Ident); ok && (id.Name == "true" || id.Name == "false") && ex.isBool(x.X) {
				v := ex.evalCond(x.X, env)
				if v == Unk {
					return Unk
				}
				want := id.Name == "true"
				if x.Op == token.NEQ {
					want = !want
				}
				if (v == T) == want {
					return T
				}
				return F
			}
		}
	}
	if v, ok := env[exprKey(e)]; ok {
		return v
	}
	if k, neg, ok := ex.cmpCanon(e); ok {
		if v, ok := env[k]; ok && v != Unk {
			if (v == T) != neg {
				return T
			}
			return F
		}
	}
	// x != nil is the negation of x == nil
	if be, ok := e.(*ast.BinaryExpr); ok && (be.Op == token.NEQ || be.Op == token.EQL) {
		op := "=="
		if be.Op == token.EQL {
			op = "!="
		}
		alt := exprKey(be.X) + " " + op + " " + exprKey(be.Y)
		if v, ok := env[alt]; ok {
			if v == T {
				return F
			}
			return T
		}
	}
	return Unk
}

func (ex *Explorer) refine(e ast.Expr, val bool, env map[string]Tri) {
	switch x := e.(type) {
	case *ast.ParenExpr:
		ex.refine(x.X, val, env)
		return
	case *ast.UnaryExpr:
		if x.Op == token.NOT {
			ex.refine(x.X, !val, env)
			return
		}
	case *ast.BinaryExpr:
		if x.Op == token.LAND {
			if val {
				ex.refine(x.X, true, env)
				ex.refine(x.Y, true, env)
			} else {
				a := ex.evalCond(x.X, env)
				b := ex.evalCond(x.Y, env)
				if a == T {
					ex.refine(x.Y, false, env)
				} else if b == T {
					ex.refine(x.X, false, env)
				}
			}
			return
		}
		if x.Op == token.LOR {
			if !val {
				ex.refine(x.X, false, env)
				ex.refine(x.Y, false, env)
			} else {
				a := ex.evalCond(x.X, env)
				b := ex.evalCond(x.Y, env)
				if a == F {
					ex.refine(x.Y, true, env)
				} else if b == F {
					ex.refine(x.X, true, env)
				}
			}
			return
		}
		if (x.Op == token.EQL || x.Op == token.NEQ) && ex.isBool(x.X) {
			if id, ok := x.Y.(*ast.Ident); ok && (id.Name == "true" || id.Name == "false") {
				want := id.Name == "true"
				if x.Op == token.NEQ {
					want = !want
				}
				ex.refine(x.X, val == want, env)
				return
			}
		}
		if x.Op == token.NEQ { // normalise x != y to !(x == y)
			k := exprKey(x.X) + " == " + exprKey(x.Y)
			if ex.track[k] || (ex.R.Track != nil && ex.R.Track(k)) {
				ex.setFact(env, k, !val)
				return
			}
		}
	}
	if k, neg, ok := ex.cmpCanon(e); ok {
		ex.setFact(env, k, val != neg)
		return
	}
	ex.setFact(env, exprKey(e), val)
}

func (ex *Explorer) setFact(env map[string]Tri, k string, val bool) {
	if !ex.track[k] {
		if ex.R.Track == nil || !ex.R.Track(k) {
			return
		}
	}
	if val {
		env[k] = T
	} else {
		env[k] = F
	}
}

func isIdentChar(c byte) bool {
	return c == '_' || c >= '0' && c <= '9' || c >= 'a' && c <= 'z' || c >= 'A' && c <= 'Z'
}

// mentions reports whether expression key k mentions name as a root identifier or, when name
// contains a dot, as that selector path.
func mentions(k, name string) bool {
	i := 0
	for {
		j := strings.Index(k[i:], name)
		if j < 0 {
			return false
		}
		j += i
		before := j == 0 || (!isIdentChar(k[j-1]) && k[j-1] != '.')
		after := j+len(name) >= len(k) || !isIdentChar(k[j+len(name)])
		if before && after {
			return true
		}
		i = j + 1
	}
}

func kill(env map[string]Tri, name string) {
	for k := range env {
		if mentions(k, name) {
			delete(env, k)
		}
	}
}

// New prepares an explorer for rule r on function fi.
func New(w *core.World, fi *core.FuncInfo, r *Rule) *Explorer {
	ex := &Explorer{W: w, Info: fi.Pkg.TypesInfo, R: r, viol: map[string]*Violation{}, track: map[string]bool{}, sites: map[*ast.CallExpr]string{}, MaxSteps: 400000}
	for k := range r.Assume {
		ex.track[k] = true
	}
	// trackable: bool locals that are not assigned inside non-deferred closures and whose
	// address is not taken.
	unsafe := map[string]bool{}
	var walk func(n ast.Node, inLit bool)
	walk = func(n ast.Node, inLit bool) {
		ast.Inspect(n, func(m ast.Node) bool {
			switch x := m.(type) {
			case *ast.DeferStmt:
				if fl, ok := x.Call.Fun.(*ast.FuncLit); ok {
					for _, a := range x.Call.Args {
						walk(a, inLit)
					}
					walk(fl.Body, inLit) // deferred closure bodies are explored in sequence
					return false
				}
			case *ast.FuncLit:
				walk(x.Body, true)
				return false
			case *ast.AssignStmt:
				if inLit {
					for _, l := range x.Lhs {
						if id, ok := l.(*ast.Ident); ok {
							unsafe[id.Name] = true
						}
					}
				}
			case *ast.IncDecStmt:
				if id, ok := x.X.(*ast.Ident); ok && inLit {
					unsafe[id.Name] = true
				}
			case *ast.UnaryExpr:
				if x.Op == token.AND {
					if id, ok := x.X.(*ast.Ident); ok {
						unsafe[id.Name] = true
					}
				}
			}
			return true
		})
	}
	walk(fi.Decl.Body, false)
	ex.unsafe = unsafe
	ex.root = fi.Decl
	count := map[string]int{}
	ast.Inspect(fi.Decl, func(n ast.Node) bool {
		switch x := n.(type) {
		case *ast.Ident:
			if obj := ex.Info.Defs[x]; obj != nil {
				if bt, ok := obj.Type().Underlying().(*types.Basic); ok && bt.Kind() == types.Bool && !unsafe[x.Name] {
					ex.track[x.Name] = true
				}
			}
		case *ast.CallExpr:
			name := "call"
			if f, _ := typeutil.Callee(ex.Info, x).(*types.Func); f != nil {
				name = f.Name()
			} else if id, ok := x.Fun.(*ast.Ident); ok {
				name = id.Name
			}
			count[name]++
			ex.sites[x] = fmt.Sprintf("%s#%d", name, count[name])
		}
		return true
	})
	return ex
}

// Run explores the function and returns the violations found (sorted by key).
func (ex *Explorer) Run(fi *core.FuncInfo) []*Violation {
	s := &State{TS: ex.R.Init, Env: map[string]Tri{}}
	for k, v := range ex.R.Assume {
		if v {
			s.Env[k] = T
		} else {
			s.Env[k] = F
		}
	}
	// named results start as zero values: pointer-like results are nil
	if fi.Decl.Type.Results != nil {
		for _, f := range fi.Decl.Type.Results.List {
			for _, nm := range f.Names {
				if ex.unsafe[nm.Name] {
					continue
				}
				switch ex.Info.TypeOf(nm).Underlying().(type) {
				case *types.Pointer, *types.Interface, *types.Slice, *types.Map, *types.Chan, *types.Signature:
					k := nm.Name + " == nil"
					ex.track[k] = true
					s.Env[k] = T
				}
			}
		}
	}
	exits := ex.run(fi.Decl.Body, s, false)
	ex.Exits = len(exits)
	if ex.R.Exit != nil {
		for _, e := range exits {
			ex.R.Exit(&Ctx{W: ex.W, Info: ex.Info, S: e, ex: ex})
		}
	}
	var out []*Violation
	for _, v := range ex.viol {
		out = append(out, v)
	}
	sort.Slice(out, func(i, j int) bool { return out[i].Key < out[j].Key })
	return out
}

func mayReturn(info *types.Info) func(*ast.CallExpr) bool {
	return func(c *ast.CallExpr) bool {
		if id, ok := c.Fun.(*ast.Ident); ok && id.Name == "panic" {
			if _, isB := info.Uses[id].(*types.Builtin); isB {
				return false
			}
		}
		return true
	}
}

func (ex *Explorer) run(body *ast.BlockStmt, s0 *State, inDefer bool) []*State {
	g := cfg.New(body, mayReturn(ex.Info))
	type item struct {
		b    *cfg.Block
		i, j int // resume at node i, event j (after an inlined call)
		s    *State
	}
	seen := map[string]bool{}
	var exits []*State
	baseDefers := len(s0.defers)
	work := []item{{g.Blocks[0], 0, 0, s0}}
	for len(work) > 0 {
		it := work[len(work)-1]
		work = work[:len(work)-1]
		k := fmt.Sprintf("%d.%d.%d|%s", it.b.Index, it.i, it.j, it.s.key())
		if seen[k] {
			continue
		}
		seen[k] = true
		ex.Steps++
		if ex.Steps > ex.MaxSteps {
			c := &Ctx{W: ex.W, Info: ex.Info, S: it.s, ex: ex}
			c.Violate(body.Pos(), "undecided:state-explosion", fmt.Sprintf("exploration exceeded %d steps; undecided", ex.MaxSteps))
			return exits
		}
		st := it.s.clone()
		c := &Ctx{W: ex.W, Info: ex.Info, S: st, ex: ex, InDefer: inDefer}
		if len(it.b.Nodes) > 0 && it.i == 0 && it.j == 0 {
			st.tr = &trace{st.tr, fmt.Sprintf("%s [%s]", ex.W.Pos(it.b.Nodes[0].Pos()), st.TS)}
		}
		var lastExpr ast.Expr
		returned := false
		panicked := false
		suspended := false
		for idx := it.i; idx < len(it.b.Nodes); idx++ {
			n := it.b.Nodes[idx]
			if st.dead {
				break
			}
			lastExpr = nil
			startEv := 0
			if idx == it.i {
				startEv = it.j
			}
			if startEv == 0 && ex.R.Node != nil {
				ex.R.Node(c, n)
			}
			// events of the node in evaluation order; a call that is explored inline suspends
			// the node: one continuation per exit state of the callee resumes after that event
			var evs []event
			if ds, ok := n.(*ast.DeferStmt); ok {
				for _, a := range ds.Call.Args {
					evs = append(evs, ex.events(a)...)
				}
			} else {
				evs = ex.events(n)
			}
			for k := startEv; k < len(evs) && !st.dead; k++ {
				ev := evs[k]
				if ev.lit != nil {
					if ex.R.FuncLit != nil {
						c.Conditional = ev.cond
						ex.R.FuncLit(c, ev.lit)
						c.Conditional = false
					}
					continue
				}
				ex.callEvent(c, ev.call, ev.cond)
				if st.dead {
					break
				}
				if fi := ex.inlinable(ev.call, st, ev.cond); fi != nil {
					for _, o := range ex.inline(fi, ev.call, st, inDefer) {
						work = append(work, item{it.b, idx, k + 1, o})
					}
					suspended = true
					break
				}
			}
			if suspended || st.dead {
				break
			}
			switch x := n.(type) {
			case *ast.DeferStmt:
				if fl, ok := x.Call.Fun.(*ast.FuncLit); ok {
					st.defers = append(st.defers, fl)
				} else {
					st.defers = append(st.defers, x.Call)
				}
				continue
			case *ast.ReturnStmt:
				returned = true
				if st.Ret == 0 {
					st.Ret = x.Pos()
					st.RetStmt = x
				}
			case *ast.AssignStmt:
				ex.assign(x, st)
				// err = helper() / v, err := helper(): the inlined callee's path knows whether it
				// returned a nil error
				if st.retCall != nil && len(st.retVarFacts) > 0 && len(x.Rhs) == 1 && len(x.Lhs) >= 1 {
					rhs := x.Rhs[0]
					for {
						if p, ok := rhs.(*ast.ParenExpr); ok {
							rhs = p.X
							continue
						}
						break
					}
					if rhs == ast.Expr(st.retCall) {
						if id, ok := x.Lhs[len(x.Lhs)-1].(*ast.Ident); ok && id.Name != "_" {
							for suf, v := range st.retVarFacts {
								ex.setFact(st.Env, id.Name+" "+suf, v == T)
							}
						}
					}
				}
				if st.retCall != nil && st.retNil != Unk && len(x.Rhs) == 1 && len(x.Lhs) >= 1 {
					rhs := x.Rhs[0]
					for {
						if p, ok := rhs.(*ast.ParenExpr); ok {
							rhs = p.X
							continue
						}
						break
					}
					if rhs == ast.Expr(st.retCall) {
						if id, ok := x.Lhs[len(x.Lhs)-1].(*ast.Ident); ok && id.Name != "_" {
							ex.setFact(st.Env, id.Name+" == nil", st.retNil == T)
						}
					}
				}
			case *ast.IncDecStmt:
				if id, ok := x.X.(*ast.Ident); ok {
					kill(st.Env, id.Name)
				} else {
					kill(st.Env, exprKey(x.X))
				}
			case *ast.DeclStmt:
				if gd, ok := x.Decl.(*ast.GenDecl); ok {
					for _, sp := range gd.Specs {
						if vs, ok := sp.(*ast.ValueSpec); ok {
							ex.valueSpec(vs, st)
						}
					}
				}
			case *ast.ValueSpec:
				ex.valueSpec(x, st)
			case *ast.ExprStmt:
				if call, ok := x.X.(*ast.CallExpr); ok && !mayReturn(ex.Info)(call) {
					panicked = true
				}
			case ast.Expr:
				lastExpr = x
			}
			st.retNil, st.retCall, st.retFacts, st.retVarFacts = Unk, nil, nil, nil
		}
		if suspended {
			continue
		}
		if st.dead {
			continue
		}
		if returned || panicked || len(it.b.Succs) == 0 {
			st.Panic = panicked
			outs := []*State{st}
			for i := len(st.defers) - 1; i >= baseDefers; i-- {
				d := st.defers[i]
				var next []*State
				for _, o := range outs {
					o2 := o.clone()
					o2.defers = o2.defers[:baseDefers]
					switch dd := d.(type) {
					case *ast.FuncLit:
						sub := ex.run(dd.Body, o2, true)
						for _, x := range sub {
							x.Ret = o.Ret
							x.RetStmt = o.RetStmt
							x.Panic = o.Panic
						}
						next = append(next, sub...)
					case *ast.CallExpr:
						c2 := &Ctx{W: ex.W, Info: ex.Info, S: o2, ex: ex, InDefer: true}
						ex.scanCallOnly(c2, dd)
						if !o2.dead {
							next = append(next, o2)
						}
					}
				}
				outs = next
			}
			for _, o := range outs {
				if o.dead {
					continue
				}
				if len(o.defers) > baseDefers {
					o.defers = o.defers[:baseDefers]
				}
				exits = append(exits, o)
			}
			continue
		}
		if len(it.b.Succs) == 2 && lastExpr != nil && ex.isBool(lastExpr) {
			v := ex.evalCond(lastExpr, st.Env)
			for bi, val := range []bool{true, false} {
				if (val && v == F) || (!val && v == T) {
					continue
				}
				s1 := st.clone()
				ex.refine(lastExpr, val, s1.Env)
				if ex.R.Branch != nil {
					bc := &Ctx{W: ex.W, Info: ex.Info, S: s1, ex: ex, InDefer: inDefer}
					ex.R.Branch(bc, lastExpr, val)
					if bc.Prune || s1.dead {
						continue
					}
				}
				ex.edge(it.b, it.b.Succs[bi], s1, inDefer)
				work = append(work, item{it.b.Succs[bi], 0, 0, s1})
			}
			continue
		}
		for _, su := range it.b.Succs {
			s1 := st.clone()
			ex.edge(it.b, su, s1, inDefer)
			work = append(work, item{su, 0, 0, s1})
		}
	}
	return exits
}

func (ex *Explorer) edge(from, to *cfg.Block, s *State, inDefer bool) {
	if ex.R.BackEdge != nil && to.Index <= from.Index && (to.Kind == cfg.KindForLoop || to.Kind == cfg.KindForBody || to.Kind == cfg.KindForPost || to.Kind == cfg.KindRangeLoop) {
		ex.R.BackEdge(&Ctx{W: ex.W, Info: ex.Info, S: s, ex: ex, InDefer: inDefer}, from, to)
	}
}

func (ex *Explorer) valueSpec(vs *ast.ValueSpec, st *State) {
	for i, nm := range vs.Names {
		kill(st.Env, nm.Name)
		if i < len(vs.Values) && len(vs.Values) == len(vs.Names) {
			ex.assignOne(nm, vs.Values[i], st)
		} else if len(vs.Values) == 0 && ex.track[nm.Name] {
			st.Env[nm.Name] = F // zero value of a bool declaration
		}
	}
}

func (ex *Explorer) assign(a *ast.AssignStmt, st *State) {
	// evaluate right-hand sides against the pre-state
	type pend struct {
		id  *ast.Ident
		val Tri
	}
	var ps []pend
	for i, l := range a.Lhs {
		switch lv := l.(type) {
		case *ast.Ident:
			v := Unk
			if len(a.Rhs) == len(a.Lhs) && (a.Tok == token.ASSIGN || a.Tok == token.DEFINE) && ex.isBool(lv) {
				v = ex.evalCond(a.Rhs[i], st.Env)
			}
			ps = append(ps, pend{lv, v})
		default:
			kill(st.Env, exprKey(l))
		}
	}
	for _, p := range ps {
		kill(st.Env, p.id.Name)
	}
	for _, p := range ps {
		if p.val != Unk && ex.track[p.id.Name] {
			st.Env[p.id.Name] = p.val
		}
	}
}

func (ex *Explorer) assignOne(id *ast.Ident, rhs ast.Expr, st *State) {
	if !ex.isBool(id) || !ex.track[id.Name] {
		return
	}
	if v := ex.evalCond(rhs, st.Env); v != Unk {
		st.Env[id.Name] = v
	}
}

// scan visits call expressions of n in evaluation order (arguments before the call),
// reporting closures through FuncLit. cond marks right operands of short-circuit operators.
func (ex *Explorer) scan(c *Ctx, n ast.Node, cond bool) {
	ast.Inspect(n, func(m ast.Node) bool {
		switch x := m.(type) {
		case *ast.FuncLit:
			if ex.R.FuncLit != nil {
				c.Conditional = cond
				ex.R.FuncLit(c, x)
			}
			return false
		case *ast.BinaryExpr:
			if x.Op == token.LAND || x.Op == token.LOR {
				ex.scan(c, x.X, cond)
				ex.scan(c, x.Y, true)
				return false
			}
		case *ast.CallExpr:
			for _, a := range x.Args {
				ex.scan(c, a, cond)
			}
			if _, isLit := x.Fun.(*ast.FuncLit); isLit {
				// immediately invoked literal: treat body calls as straight-line events is unsound;
				// hand it to FuncLit and do not descend.
				ex.scan(c, x.Fun, cond)
			} else {
				ex.scan(c, x.Fun, cond)
			}
			ex.callEvent(c, x, cond)
			return false
		}
		return true
	})
}

type event struct {
	call *ast.CallExpr
	lit  *ast.FuncLit
	cond bool
}

// events lists the calls and function literals of n in evaluation order (arguments before the
// call); cond marks those in the right operand of a short-circuit operator.
func (ex *Explorer) events(n ast.Node) []event {
	if evs, ok := ex.evCache[n]; ok {
		return evs
	}
	var out []event
	var walk func(n ast.Node, cond bool)
	walk = func(n ast.Node, cond bool) {
		ast.Inspect(n, func(m ast.Node) bool {
			switch x := m.(type) {
			case *ast.FuncLit:
				out = append(out, event{lit: x, cond: cond})
				return false
			case *ast.BinaryExpr:
				if x.Op == token.LAND || x.Op == token.LOR {
					walk(x.X, cond)
					walk(x.Y, true)
					return false
				}
			case *ast.CallExpr:
				for _, a := range x.Args {
					walk(a, cond)
				}
				walk(x.Fun, cond)
				out = append(out, event{call: x, cond: cond})
				return false
			}
			return true
		})
	}
	walk(n, false)
	if ex.evCache == nil {
		ex.evCache = map[ast.Node][]event{}
	}
	ex.evCache[n] = out
	return out
}

// inlinable returns the declaration of the callee when the rule wants the call explored inline.
func (ex *Explorer) inlinable(call *ast.CallExpr, st *State, cond bool) *core.FuncInfo {
	if ex.R.Inline == nil || len(st.stack) >= 2 {
		return nil
	}
	f, _ := typeutil.Callee(ex.Info, call).(*types.Func)
	if f == nil {
		return nil
	}
	for _, g := range st.stack {
		if g == f {
			return nil
		}
	}
	fi := ex.W.DeclOf(f)
	if fi == nil || fi.Decl.Body == nil || fi.Pkg.TypesInfo != ex.Info || fi.Decl == ex.root {
		return nil
	}
	if !ex.R.Inline(f, fi.Decl) {
		return nil
	}
	if cond {
		// a callee with events inside a short-circuit operand is not modelled
		c := &Ctx{W: ex.W, Info: ex.Info, S: st, ex: ex}
		c.Violate(call.Pos(), "undecided:shortcircuit-inline:"+ex.sites[call], "a helper containing typestate events is called in the right operand of &&/||; undecided")
		return nil
	}
	return fi
}

// inline explores the callee's body from st and returns the states in which the caller
// continues. Facts about the caller's locals that share a name with something declared in the
// callee are set aside and restored; facts keyed on an argument path are carried over to the
// parameter name and back.
func (ex *Explorer) inline(fi *core.FuncInfo, call *ast.CallExpr, st *State, inDefer bool) []*State {
	if !ex.indexed[fi.Decl] {
		if ex.indexed == nil {
			ex.indexed = map[*ast.FuncDecl]bool{}
		}
		ex.indexed[fi.Decl] = true
		count := map[string]int{}
		ast.Inspect(fi.Decl.Body, func(n ast.Node) bool {
			if x, ok := n.(*ast.CallExpr); ok {
				name := "call"
				if f, _ := typeutil.Callee(ex.Info, x).(*types.Func); f != nil {
					name = f.Name()
				} else if id, ok := x.Fun.(*ast.Ident); ok {
					name = id.Name
				}
				count[name]++
				ex.sites[x] = fmt.Sprintf("%s/%s#%d", fi.Obj.Name(), name, count[name])
			}
			return true
		})
	}
	declared := map[string]bool{}
	// bool parameters and locals of the callee are tracked like those of the root function,
	// unless their address is taken or a closure assigns them
	calleeUnsafe := map[string]bool{}
	var uwalk func(n ast.Node, inLit bool)
	uwalk = func(n ast.Node, inLit bool) {
		ast.Inspect(n, func(m ast.Node) bool {
			switch x := m.(type) {
			case *ast.FuncLit:
				uwalk(x.Body, true)
				return false
			case *ast.AssignStmt:
				if inLit {
					for _, l := range x.Lhs {
						if id, ok := l.(*ast.Ident); ok {
							calleeUnsafe[id.Name] = true
						}
					}
				}
			case *ast.IncDecStmt:
				if id, ok := x.X.(*ast.Ident); ok && inLit {
					calleeUnsafe[id.Name] = true
				}
			case *ast.UnaryExpr:
				if x.Op == token.AND {
					if id, ok := x.X.(*ast.Ident); ok {
						calleeUnsafe[id.Name] = true
					}
				}
			}
			return true
		})
	}
	uwalk(fi.Decl.Body, false)
	assignedInCallee := map[string]bool{}
	ast.Inspect(fi.Decl.Body, func(n ast.Node) bool {
		switch x := n.(type) {
		case *ast.AssignStmt:
			for _, l := range x.Lhs {
				if id, ok := l.(*ast.Ident); ok {
					assignedInCallee[id.Name] = true
				}
			}
		case *ast.IncDecStmt:
			if id, ok := x.X.(*ast.Ident); ok {
				assignedInCallee[id.Name] = true
			}
		}
		return true
	})
	ast.Inspect(fi.Decl, func(n ast.Node) bool {
		if id, ok := n.(*ast.Ident); ok && ex.Info.Defs[id] != nil {
			declared[id.Name] = true
			if bt, ok := ex.Info.Defs[id].Type().Underlying().(*types.Basic); ok && bt.Kind() == types.Bool && !calleeUnsafe[id.Name] && !ex.unsafe[id.Name] {
				ex.track[id.Name] = true
			}
		}
		return true
	})
	mentionsDeclared := func(k string) bool {
		for nm := range declared {
			if mentions(k, nm) {
				return true
			}
		}
		return false
	}
	// argument path -> parameter name
	type ren struct{ from, to string }
	var rens []ren
	simple := func(e ast.Expr) (string, bool) {
		for x := e; ; {
			switch y := x.(type) {
			case *ast.Ident:
				return exprKey(e), true
			case *ast.SelectorExpr:
				x = y.X
			case *ast.ParenExpr:
				x = y.X
			default:
				return "", false
			}
		}
	}
	if fi.Decl.Recv != nil && len(fi.Decl.Recv.List) == 1 && len(fi.Decl.Recv.List[0].Names) == 1 {
		if se, ok := call.Fun.(*ast.SelectorExpr); ok {
			if from, ok := simple(se.X); ok && from != fi.Decl.Recv.List[0].Names[0].Name {
				rens = append(rens, ren{from, fi.Decl.Recv.List[0].Names[0].Name})
			}
		}
	}
	pi := 0
	for _, f := range fi.Decl.Type.Params.List {
		for _, nm := range f.Names {
			if pi < len(call.Args) {
				a := call.Args[pi]
				if u, ok := a.(*ast.UnaryExpr); ok && u.Op == token.AND {
					a = u.X
				}
				if from, ok := simple(a); ok && from != nm.Name {
					rens = append(rens, ren{from, nm.Name})
				}
			}
			pi++
		}
	}
	// a parameter that receives the caller's variable of the same name denotes the same value:
	// the caller's facts about it stay visible inside the callee
	sameName := map[string]bool{}
	{
		chk := func(pname string, arg ast.Expr) {
			if u, ok := arg.(*ast.UnaryExpr); ok && u.Op == token.AND {
				arg = u.X
			}
			if from, ok := simple(arg); ok && from == pname {
				sameName[pname] = true
			}
		}
		if fi.Decl.Recv != nil && len(fi.Decl.Recv.List) == 1 && len(fi.Decl.Recv.List[0].Names) == 1 {
			if se, ok := call.Fun.(*ast.SelectorExpr); ok {
				chk(fi.Decl.Recv.List[0].Names[0].Name, se.X)
			}
		}
		k := 0
		for _, f := range fi.Decl.Type.Params.List {
			for _, nm := range f.Names {
				if k < len(call.Args) {
					chk(nm.Name, call.Args[k])
				}
				k++
			}
		}
		for nm := range sameName {
			delete(declared, nm)
		}
	}
	s2 := st.clone()
	s2.stack = append(append([]*types.Func(nil), st.stack...), fi.Obj)
	nb := map[types.Object]types.Object{}
	for k, v := range st.bind {
		nb[k] = v
	}
	bindTo := func(param *ast.Ident, arg ast.Expr) {
		po := ex.Info.Defs[param]
		for {
			if p, ok := arg.(*ast.ParenExpr); ok {
				arg = p.X
				continue
			}
			break
		}
		if id, ok := arg.(*ast.Ident); ok && po != nil {
			if ao := ex.Info.ObjectOf(id); ao != nil {
				if r, ok := nb[ao]; ok {
					ao = r
				}
				nb[po] = ao
			}
		}
	}
	if fi.Decl.Recv != nil && len(fi.Decl.Recv.List) == 1 && len(fi.Decl.Recv.List[0].Names) == 1 {
		if se, ok := call.Fun.(*ast.SelectorExpr); ok {
			bindTo(fi.Decl.Recv.List[0].Names[0], se.X)
		}
	}
	bi := 0
	for _, f := range fi.Decl.Type.Params.List {
		for _, nm := range f.Names {
			if bi < len(call.Args) {
				bindTo(nm, call.Args[bi])
			}
			bi++
		}
	}
	s2.bind = nb
	s2.Ret, s2.RetStmt = 0, nil
	saved := map[string]Tri{}
	for k, v := range s2.Env {
		if mentionsDeclared(k) {
			saved[k] = v
			delete(s2.Env, k)
		}
	}
	renameKeys := func(env map[string]Tri, from, to string) {
		for k, v := range env {
			if mentions(k, from) {
				nk := replaceIdent(k, from, to)
				delete(env, k)
				env[nk] = v
				ex.track[nk] = true
			}
		}
	}
	for _, rn := range rens {
		renameKeys(s2.Env, rn.from, rn.to)
	}
	s2.tr = &trace{s2.tr, fmt.Sprintf("%s: enter %s [%s]", ex.W.Pos(call.Pos()), fi.Obj.Name(), s2.TS)}
	var out []*State
	for _, o := range ex.run(fi.Decl.Body, s2, inDefer) {
		if o.Panic || o.dead {
			continue
		}
		retFacts := map[string]Tri{}
		for k, v := range o.Env {
			if strings.HasSuffix(k, " == nil") {
				retFacts[strings.TrimSuffix(k, " == nil")] = v
			}
		}
		o.retFacts = retFacts
		// facts "<x> <op> <const>" about a returned identifier travel to the variable the
		// caller stores the result in
		o.retVarFacts = nil
		if rs := o.RetStmt; rs != nil && len(rs.Results) > 0 {
			if id, ok := rs.Results[len(rs.Results)-1].(*ast.Ident); ok {
				for k, v := range o.Env {
					if strings.HasPrefix(k, id.Name+" ") && v != Unk {
						if o.retVarFacts == nil {
							o.retVarFacts = map[string]Tri{}
						}
						o.retVarFacts[strings.TrimPrefix(k, id.Name+" ")] = v
					}
				}
			}
		}
		for i := len(rens) - 1; i >= 0; i-- {
			// facts about the parameter path hold for the argument path — unless the callee
			// assigned the parameter itself (its copy then differs from the caller's variable)
			for k, v := range o.Env {
				if mentions(k, rens[i].to) {
					nk := replaceIdent(k, rens[i].to, rens[i].from)
					delete(o.Env, k)
					if !mentionsDeclared(nk) && !assignedInCallee[rens[i].to] {
						o.Env[nk] = v
						ex.track[nk] = true
					}
				}
			}
		}
		for k := range o.Env {
			if mentionsDeclared(k) {
				delete(o.Env, k)
			}
		}
		for nm := range sameName {
			if assignedInCallee[nm] {
				// the callee changed its own copy: the caller's variable is what it was
				for k := range o.Env {
					if mentions(k, nm) {
						delete(o.Env, k)
					}
				}
				for k, v := range st.Env {
					if mentions(k, nm) {
						o.Env[k] = v
					}
				}
			}
		}
		for k, v := range saved {
			o.Env[k] = v
		}
		// nil-ness of the callee's last result on this path
		o.retNil, o.retCall = Unk, call
		if rs := o.RetStmt; rs != nil && len(rs.Results) > 0 {
			last := rs.Results[len(rs.Results)-1]
			for {
				if p, ok := last.(*ast.ParenExpr); ok {
					last = p.X
					continue
				}
				break
			}
			if tv, ok := ex.Info.Types[last]; ok && tv.IsNil() {
				o.retNil = T
			} else if id, ok := last.(*ast.Ident); ok {
				if v, ok := retEnv(o, id.Name); ok {
					o.retNil = v
				} else if isSentinelError(ex.Info, id) {
					o.retNil = F
				}
			} else if se, ok := last.(*ast.SelectorExpr); ok && isSentinelError(ex.Info, se.Sel) {
				o.retNil = F
			}
		}
		o.Ret, o.RetStmt, o.Panic = st.Ret, st.RetStmt, false
		o.stack = st.stack
		o.bind = st.bind
		o.tr = &trace{o.tr, fmt.Sprintf("leave %s [%s]", fi.Obj.Name(), o.TS)}
		out = append(out, o)
	}
	return out
}

func retEnv(o *State, name string) (Tri, bool) {
	v, ok := o.retFacts[name]
	return v, ok && v != Unk
}

// replaceIdent replaces whole-identifier occurrences of from (possibly a dotted path) in k.
func replaceIdent(k, from, to string) string {
	var b strings.Builder
	for i := 0; i < len(k); {
		if strings.HasPrefix(k[i:], from) && (i == 0 || !isIdentChar(k[i-1]) && k[i-1] != '.') && (i+len(from) == len(k) || !isIdentChar(k[i+len(from)])) {
			b.WriteString(to)
			i += len(from)
			continue
		}
		b.WriteByte(k[i])
		i++
	}
	return b.String()
}

func (ex *Explorer) scanCallOnly(c *Ctx, call *ast.CallExpr) {
	ex.scan(c, call.Fun, false)
	ex.callEvent(c, call, false)
}

func (ex *Explorer) callEvent(c *Ctx, call *ast.CallExpr, cond bool) {
	if ex.R.Call == nil {
		return
	}
	before := c.S.TS
	c.Conditional = cond
	f, _ := typeutil.Callee(ex.Info, call).(*types.Func)
	ex.R.Call(c, call, f)
	if cond && c.S.TS != before {
		c.Violate(call.Pos(), "undecided:shortcircuit:"+ex.sites[call], "typestate event inside the right operand of &&/|| is not modelled; undecided")
	}
	c.Conditional = false
}

// Is reports whether f is the function/method named name declared in package path pkg
// (full import path) with receiver type name recv ("" for package-level functions; for
// interface methods recv is the interface's name).
// Aliases maps "pkgpath|recv|name" of a private function that was renamed to the function
// that now plays its role (installed per loaded world by the rules' role finders).
var Aliases = map[string]*types.Func{}

func Is(f *types.Func, pkg, recv, name string) bool {
	if f != nil && f.Name() != name && len(Aliases) > 0 {
		if a, ok := Aliases[pkg+"|"+recv+"|"+name]; ok {
			return a == f
		}
	}
	if f == nil || f.Name() != name || f.Pkg() == nil || f.Pkg().Path() != pkg {
		return false
	}
	sig := f.Type().(*types.Signature)
	if sig.Recv() == nil {
		return recv == ""
	}
	t := sig.Recv().Type()
	if p, ok := t.(*types.Pointer); ok {
		t = p.Elem()
	}
	if n, ok := t.(*types.Named); ok {
		return n.Obj().Name() == recv
	}
	return false
}

// isSentinelError: a package-level variable of an error type (errBrokenChunk, io.EOF …). Such
// variables are initialised once with a non-nil error and compared by identity; returning one
// returns a non-nil error.
func isSentinelError(info *types.Info, id *ast.Ident) bool {
	v, ok := info.ObjectOf(id).(*types.Var)
	if !ok || v.IsField() || v.Pkg() == nil || v.Parent() != v.Pkg().Scope() {
		return false
	}
	errT, _ := types.Universe.Lookup("error").Type().Underlying().(*types.Interface)
	return errT != nil && types.Implements(v.Type(), errT)
}
