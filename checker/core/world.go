// Package core: loader, anchor resolution, obligations, evidence and known-findings handling
// shared by every rule of hzcheck. Nothing in this module imports or executes hertz; the
// repository under analysis is loaded from its current working tree with go/packages.
package core

import (
	"fmt"
	"go/ast"
	"go/token"
	"go/types"
	"os"
	"path/filepath"
	"sort"
	"strings"
	"sync"

	"golang.org/x/tools/go/packages"
	"golang.org/x/tools/go/ssa"
	"golang.org/x/tools/go/ssa/ssautil"
)

const Mod = "github.com/cloudwego/hertz"

// World is one loaded build configuration of a module.
type World struct {
	Dir    string // module root that was loaded
	ModPfx string // import path prefix of the module
	Fset   *token.FileSet
	Pkgs   []*packages.Package          // packages of the module itself (non-test)
	All    map[string]*packages.Package // every package incl. dependencies, by import path
	Env    []string

	ssaOnce sync.Once
	Prog    *ssa.Program
	SSAPkgs map[*types.Package]*ssa.Package

	declOnce sync.Once
	decls    map[*types.Func]*FuncInfo

	// Alias maps "rel|recv|name" of a private function that no longer exists under that name
	// to the declaration that plays its role (filled by the rules' role finders)
	Alias map[string]*FuncInfo
	// FieldAlias does the same for private struct fields ("rel|type|field")
	FieldAlias map[string]*types.Var
	// TypeAlias does the same for private named types ("rel|name")
	TypeAlias map[string]*types.Named
}

// FuncInfo ties a declared function to its syntax and package.
type FuncInfo struct {
	Obj  *types.Func
	Decl *ast.FuncDecl
	Pkg  *packages.Package
}

func RepoDir() string {
	if d := os.Getenv("HZ_REPO"); d != "" {
		return d
	}
	return "/repo"
}

func baseEnv(extra ...string) []string {
	var env []string
	for _, e := range os.Environ() {
		if strings.HasPrefix(e, "GOWORK=") || strings.HasPrefix(e, "GOFLAGS=") || strings.HasPrefix(e, "GOPROXY=") ||
			strings.HasPrefix(e, "GOSUMDB=") || strings.HasPrefix(e, "GOTOOLCHAIN=") || strings.HasPrefix(e, "GOOS=") ||
			strings.HasPrefix(e, "GOARCH=") || strings.HasPrefix(e, "CGO_ENABLED=") {
			continue
		}
		env = append(env, e)
	}
	env = append(env, "GOWORK=off", "GOFLAGS=-mod=mod", "GOPROXY=off", "GOSUMDB=off", "GOTOOLCHAIN=local", "CGO_ENABLED=0")
	return append(env, extra...)
}

// Load loads every non-test package of the module rooted at dir (full syntax and types for
// the whole import closure). Type errors, list errors or an empty package set are fatal for
// the caller (fail closed).
func Load(dir, modPfx string, extraEnv ...string) (*World, error) {
	// entries of the form "-tags=…" are build flags, everything else is environment
	var flags, envx []string
	for _, e := range extraEnv {
		if strings.HasPrefix(e, "-") {
			flags = append(flags, e)
		} else {
			envx = append(envx, e)
		}
	}
	w := &World{Dir: dir, ModPfx: modPfx, Fset: token.NewFileSet(), Env: baseEnv(envx...)}
	cfg := &packages.Config{Mode: packages.LoadAllSyntax, Dir: dir, Fset: w.Fset, Env: w.Env, Tests: false, BuildFlags: flags}
	pkgs, err := packages.Load(cfg, "./...")
	if err != nil {
		return nil, fmt.Errorf("load %s: %v", dir, err)
	}
	if len(pkgs) == 0 {
		return nil, fmt.Errorf("load %s: zero packages", dir)
	}
	w.All = map[string]*packages.Package{}
	var errs []string
	packages.Visit(pkgs, nil, func(p *packages.Package) {
		w.All[p.PkgPath] = p
		if strings.HasPrefix(p.PkgPath, modPfx) {
			for _, e := range p.Errors {
				errs = append(errs, e.Error())
			}
			if p.IllTyped && len(p.Errors) == 0 {
				errs = append(errs, p.PkgPath+": ill-typed (a dependency does not type-check in this build configuration)")
			}
		}
	})
	if len(errs) > 0 {
		if len(errs) > 10 {
			errs = errs[:10]
		}
		return nil, fmt.Errorf("load %s: package errors: %s", dir, strings.Join(errs, "; "))
	}
	for _, p := range pkgs {
		if strings.HasPrefix(p.PkgPath, modPfx) && p.Types != nil && len(p.Syntax) > 0 {
			w.Pkgs = append(w.Pkgs, p)
		}
	}
	sort.Slice(w.Pkgs, func(i, j int) bool { return w.Pkgs[i].PkgPath < w.Pkgs[j].PkgPath })
	if len(w.Pkgs) == 0 {
		return nil, fmt.Errorf("load %s: zero module packages with syntax", dir)
	}
	return w, nil
}

// Pkg returns the module package with the given path relative to the module root.
func (w *World) Pkg(rel string) *packages.Package {
	p := w.ModPfx
	if rel != "" && rel != "." {
		p += "/" + rel
	}
	return w.All[p]
}

// Pos renders a position relative to the module root.
func (w *World) Pos(p token.Pos) string {
	if !p.IsValid() {
		return "-"
	}
	ps := w.Fset.Position(p)
	f := ps.Filename
	if r, err := filepath.Rel(w.Dir, f); err == nil && !strings.HasPrefix(r, "..") {
		f = r
	}
	return fmt.Sprintf("%s:%d", f, ps.Line)
}

func (w *World) Line(p token.Pos) int { return w.Fset.Position(p).Line }

// IsTestFile reports whether the position lies in a _test.go file.
func (w *World) IsTestFile(p token.Pos) bool {
	return strings.HasSuffix(w.Fset.Position(p).Filename, "_test.go")
}

func (w *World) buildDecls() {
	w.declOnce.Do(func() {
		w.decls = map[*types.Func]*FuncInfo{}
		for _, p := range w.All {
			if !strings.HasPrefix(p.PkgPath, w.ModPfx) {
				continue
			}
			for _, f := range p.Syntax {
				for _, d := range f.Decls {
					if fd, ok := d.(*ast.FuncDecl); ok {
						if obj, ok := p.TypesInfo.Defs[fd.Name].(*types.Func); ok {
							w.decls[obj] = &FuncInfo{Obj: obj, Decl: fd, Pkg: p}
						}
					}
				}
			}
		}
	})
}

// DeclOf returns the syntax of a function object declared in the module (nil otherwise).
func (w *World) DeclOf(f *types.Func) *FuncInfo {
	w.buildDecls()
	if f == nil {
		return nil
	}
	return w.decls[f.Origin()]
}

// AllDecls returns every declared function of the module, sorted by position.
func (w *World) AllDecls() []*FuncInfo {
	w.buildDecls()
	var out []*FuncInfo
	for _, fi := range w.decls {
		out = append(out, fi)
	}
	sort.Slice(out, func(i, j int) bool { return out[i].Decl.Pos() < out[j].Decl.Pos() })
	return out
}

// Func resolves a function or method by package (relative), receiver type name ("" for a
// package-level function) and name.
func (w *World) Func(rel, recv, name string) *FuncInfo {
	p := w.Pkg(rel)
	if p == nil {
		return nil
	}
	var obj types.Object
	if recv == "" {
		obj = p.Types.Scope().Lookup(name)
	} else {
		tn, _ := p.Types.Scope().Lookup(recv).(*types.TypeName)
		if tn == nil {
			return nil
		}
		o, _, _ := types.LookupFieldOrMethod(types.NewPointer(tn.Type()), true, p.Types, name)
		obj = o
	}
	f, _ := obj.(*types.Func)
	if f == nil {
		if a := w.Alias[rel+"|"+recv+"|"+name]; a != nil {
			return a
		}
		return nil
	}
	return w.DeclOf(f)
}

// Named resolves a named type by relative package path and name.
func (w *World) Named(rel, name string) *types.Named {
	p := w.Pkg(rel)
	if p == nil {
		return nil
	}
	tn, _ := p.Types.Scope().Lookup(name).(*types.TypeName)
	if tn == nil {
		if a := w.TypeAlias[rel+"|"+name]; a != nil {
			return a
		}
		return nil
	}
	n, _ := tn.Type().(*types.Named)
	return n
}

// Field resolves a struct field object.
func (w *World) Field(rel, typ, field string) *types.Var {
	n := w.Named(rel, typ)
	if n == nil {
		return nil
	}
	st, _ := n.Underlying().(*types.Struct)
	if st == nil {
		return nil
	}
	for i := 0; i < st.NumFields(); i++ {
		if st.Field(i).Name() == field {
			return st.Field(i)
		}
	}
	if a := w.FieldAlias[rel+"|"+typ+"|"+field]; a != nil {
		return a
	}
	return nil
}

// Var resolves a package-level variable or constant object.
func (w *World) Object(rel, name string) types.Object {
	p := w.Pkg(rel)
	if p == nil {
		return nil
	}
	return p.Types.Scope().Lookup(name)
}

// BuildSSA builds SSA for the whole import closure once.
func (w *World) BuildSSA() {
	w.ssaOnce.Do(func() {
		var roots []*packages.Package
		for _, p := range w.All {
			roots = append(roots, p)
		}
		sort.Slice(roots, func(i, j int) bool { return roots[i].PkgPath < roots[j].PkgPath })
		prog, pkgs := ssautil.AllPackages(roots, ssa.InstantiateGenerics)
		prog.Build()
		w.Prog = prog
		w.SSAPkgs = map[*types.Package]*ssa.Package{}
		for i, sp := range pkgs {
			if sp != nil {
				w.SSAPkgs[roots[i].Types] = sp
			}
		}
	})
}

// SSAFunc returns the SSA function for a declared function.
func (w *World) SSAFunc(fi *FuncInfo) *ssa.Function {
	if fi == nil {
		return nil
	}
	w.BuildSSA()
	return w.Prog.FuncValue(fi.Obj)
}

// InModule reports whether the package path belongs to the loaded module.
func (w *World) InModule(p *types.Package) bool {
	return p != nil && strings.HasPrefix(p.Path(), w.ModPfx)
}

// RelPkg returns the module-relative path of a package.
func (w *World) RelPkg(p *types.Package) string {
	if p == nil {
		return ""
	}
	return strings.TrimPrefix(strings.TrimPrefix(p.Path(), w.ModPfx), "/")
}

// FuncName renders a stable, position-free name for a function object: pkg.(Recv).Name
func (w *World) FuncName(f *types.Func) string {
	if f == nil {
		return "?"
	}
	sig, _ := f.Type().(*types.Signature)
	pk := w.RelPkg(f.Pkg())
	if sig != nil && sig.Recv() != nil {
		t := sig.Recv().Type()
		if pt, ok := t.(*types.Pointer); ok {
			t = pt.Elem()
		}
		if n, ok := t.(*types.Named); ok {
			return pk + "." + n.Obj().Name() + "." + f.Name()
		}
		return pk + ".(" + t.String() + ")." + f.Name()
	}
	return pk + "." + f.Name()
}
